/-
The GENERATED disassembler model (`Py65/Gen/DisasmGen.lean`, translated by `harness/py2lean_dis.py`
from `py65/disassembler.py`, `py65/utils/conversions.py: itoa`, `AddressParser.label_for` on every
run) equals the hand-written models the property theorems C08 / C09 / C19 are proved about.  These
equalities are the proof obligations a change of the Python source breaks.

* `label_for_eq`, `label_for_str_eq`        : `Gen.label_for` = `Model.AddrParser.labelFor` (first label
                                               bound to the address, else the default), every table;
* `itoa_eq_bin / _dec / _hex / _default / _unsupported` : `Gen.itoa` = the `PyStr` digit formatters;
* `init_eq`                                 : the fields set by `Disassembler.__init__`;
* `instruction_at_eq`                       : `Gen.Disassembler.instruction_at` = `Model.Disasm.instructionAt`
                                               for every device record, parser, memory and address;
* `mpuOf_dev6502 / _dev65c02 / _dev65org16` : the `mpu` object the equalities are stated for reads memory
                                               through the GENERATED device methods `ByteAt` / `WordAt` of
                                               `Py65/Gen/Mpu6502.lean` and carries the live configuration.
-/
import Py65.Gen.DisasmGen
import Py65.Gen.Devices
import Py65.Model.Disasm
import Py65.Proofs.AsmLemmas
import Py65.Proofs.FmtLemmas
import Mathlib.Tactic.SplitIfs

set_option linter.unusedSimpArgs false

namespace Py65.Proofs.DisasmGenEq
open Py65.Model Py65.Model.PyStr Py65.Model.AddrParser Py65.Model.Asm Py65.Model.Disasm Py65.Model.GenRt
open Py65.Gen.DisasmGen

/-! ### `AddressParser.label_for` -/

theorem loop_opt_eq (address : Int) (l : List (Str × Int)) :
    label_for.loop_1 address l = (l.find? (fun kv => kv.2 == address)).map (fun kv => some kv.1) := by
  induction l with
  | nil => rfl
  | cons kv rest ih =>
    obtain ⟨k, v⟩ := kv
    simp only [label_for.loop_1, List.find?_cons]
    by_cases h : v = address
    · simp [h]
    · have hb : (v == address) = false := by simp [h]
      simp [h, hb, ih]

theorem loop_str_eq (address : Int) (l : List (Str × Int)) :
    label_for_str.loop_1 address l = (l.find? (fun kv => kv.2 == address)).map (fun kv => kv.1) := by
  induction l with
  | nil => rfl
  | cons kv rest ih =>
    obtain ⟨k, v⟩ := kv
    simp only [label_for_str.loop_1, List.find?_cons]
    by_cases h : v = address
    · simp [h]
    · have hb : (v == address) = false := by simp [h]
      simp [h, hb, ih]

/-- `label_for(address, default)`: the first label bound to `address` (insertion order), else the
default. -/
theorem label_for_eq (P : Parser) (address : Int) (dflt : Option Str) :
    label_for P address dflt = (match labelFor P address with | some l => some l | none => dflt) := by
  unfold label_for labelFor
  rw [loop_opt_eq]
  cases P.labels.find? (fun kv => kv.2 == address) <;> rfl

/-- `label_for(address)` (default `None`) is the hand model's `labelFor`. -/
theorem label_for_none_eq (P : Parser) (address : Int) : label_for P address = labelFor P address := by
  rw [label_for_eq]; cases labelFor P address <;> rfl

theorem label_for_str_eq (P : Parser) (address : Int) (dflt : Str) :
    label_for_str P address dflt = (labelFor P address).getD dflt := by
  unfold label_for_str labelFor
  rw [loop_str_eq]
  cases P.labels.find? (fun kv => kv.2 == address) <;> rfl

/-! ### `itoa` -/

theorem itoa_eq_bin (n : Nat) : itoa (n : Int) 2 = .ok (fmtBinL n) := by
  have hn : ¬ (n : Int) < 0 := by omega
  simp [itoa, _itoa_fmts, dictGet, strFormat1, intDigits, fmtBinL, hn]

theorem itoa_eq_dec (n : Nat) : itoa (n : Int) 10 = .ok (fmtDecL n) := by
  have hn : ¬ (n : Int) < 0 := by omega
  simp [itoa, _itoa_fmts, dictGet, strFormat1, intDigits, fmtDecL, hn]

theorem itoa_eq_default (n : Nat) : itoa (n : Int) = .ok (fmtDecL n) := itoa_eq_dec n

theorem itoa_eq_hex (n : Nat) : itoa (n : Int) 16 = .ok (fmtHexL 0 n) := by
  have hn : ¬ (n : Int) < 0 := by omega
  simp [itoa, _itoa_fmts, dictGet, strFormat1, intDigits, fmtHexL, rjustL, hn]

/-- every other base is refused with `ValueError("Unsupported base: <base>")` -/
theorem itoa_unsupported (num base : Int) (h2 : base ≠ 2) (h10 : base ≠ 10) (h16 : base ≠ 16) :
    itoa num base = .error (.ValueError ("Unsupported base: ".toList ++ pyReprInt base)) := by
  have e2 : ¬ (2 : Int) = base := fun h => h2 h.symm
  have e10 : ¬ (10 : Int) = base := fun h => h10 h.symm
  have e16 : ¬ (16 : Int) = base := fun h => h16 h.symm
  simp [itoa, _itoa_fmts, dictGet, e2, e10, e16]

/-! ### `Disassembler` -/

/-- The `mpu` object of a hand-model device record over a memory spanning the address space. -/
def mpuOf (d : Dev) (mem : Int → Int) : Mpu :=
  { ADDR_WIDTH := d.addrWidth, BYTE_WIDTH := d.byteWidth, ADDR_FORMAT := d.addrFmt, BYTE_FORMAT := d.byteFmt,
    addrMask := d.addrMask, byteMask := d.byteMask, ByteAt := byteAt d mem, WordAt := wordAt d mem,
    disassemble := d.table, memory := fun a => mem (Py.land a d.addrMask) }

/-- `Disassembler(mpu, address_parser)` -/
def disOf (d : Dev) (P : Parser) (mem : Int → Int) : Disassembler :=
  Disassembler.__init__ (mpuOf d mem) (some P)

/-- `__init__` copies the widths, formats and masks of the mpu and keeps the mpu and the parser. -/
theorem init_eq (d : Dev) (P : Parser) (mem : Int → Int) :
    disOf d P mem =
      { _mpu := mpuOf d mem, _address_parser := P, addrWidth := d.addrWidth, byteWidth := d.byteWidth,
        addrFmt := d.addrFmt, byteFmt := d.byteFmt, addrMask := d.addrMask, byteMask := d.byteMask } := rfl

/-- without a parser argument: `AddressParser()` = 16 bits, radix 16, no labels -/
theorem init_default_parser (d : Dev) (mem : Int → Int) :
    Disassembler.__init__ (mpuOf d mem) = disOf d ⟨16, 16, []⟩ mem := rfl

/-- Result of the generated `instruction_at` as the hand model's result type (exception messages
are forgotten; a negative length cannot be a `DRes.ok`). -/
def ofExcept : PyM (Int × Str) → DRes
  | .ok (n, t) => if 0 ≤ n then .ok n.toNat t else .other "length"
  | .error .IndexError => .index
  | .error (.NotImplementedError _) => .notImplemented
  | .error (.ValueError _) => .other "ValueError"
  | .error (.Unmodelled w) => .other w

theorem ofExcept_ok {r : PyM (Int × Str)} {n : Nat} {t : Str} (h : ofExcept r = .ok n t) :
    r = .ok ((n : Int), t) := by
  match r, h with
  | .ok (m, t'), h =>
    simp only [ofExcept] at h
    split_ifs at h with hm
    · simp only [DRes.ok.injEq] at h
      obtain ⟨h1, h2⟩ := h
      subst h2
      have : m = (n : Int) := by omega
      rw [this]
  | .error .IndexError, h => simp [ofExcept] at h
  | .error (.NotImplementedError _), h => simp [ofExcept] at h
  | .error (.ValueError _), h => simp [ofExcept] at h
  | .error (.Unmodelled _), h => simp [ofExcept] at h

/-- The device formats are of the modelled shape `"%0<w>x"` (true of the three devices: `DevOK`). -/
structure FmtOK (d : Dev) : Prop where
  addr : ∀ k, (pctFmt d.addrFmt k).isSome
  byte : ∀ k, (pctFmt d.byteFmt k).isSome

theorem listGet_nonneg {α : Type} (l : List α) (i : Int) (h : 0 ≤ i) :
    listGet l i = (match l[i.toNat]? with | some v => .ok v | none => .error .IndexError) := by
  have : ¬ i < 0 := by omega
  cases h' : l[i.toNat]? <;> simp [listGet, this, h']

theorem bind_ok {ε α β : Type} (a : α) (f : α → Except ε β) : Except.bind (.ok a) f = f a := rfl
theorem bind_error {ε α β : Type} (e : ε) (f : α → Except ε β) : Except.bind (.error e : Except ε α) f = .error e := rfl

theorem shift_count (w : Nat) : ((w : Int) - 1).toNat = w - 1 := by omega

/-- `instruction_at`: the generated function is the hand model, for every device record whose
formats are of the modelled shape, every parser, memory and address (opcode cell not negative). -/
theorem instruction_at_eq (d : Dev) (hf : FmtOK d) (P : Parser) (mem : Int → Int) (pc : Int)
    (h0 : 0 ≤ byteAt d mem pc) :
    ofExcept ((disOf d P mem).instruction_at pc) = instructionAt d P mem pc := by
  have ha : ∀ k, ∃ t, pctFmt d.addrFmt k = some t := fun k => Option.isSome_iff_exists.mp (hf.addr k)
  have hb : ∀ k, ∃ t, pctFmt d.byteFmt k = some t := fun k => Option.isSome_iff_exists.mp (hf.byte k)
  obtain ⟨fa, hfa⟩ := Classical.axiomOfChoice ha
  obtain ⟨fb, hfb⟩ := Classical.axiomOfChoice hb
  rw [init_eq]
  unfold Disassembler.instruction_at instructionAt
  simp only [mpuOf]
  rw [listGet_nonneg _ _ h0]
  have hn : ¬ byteAt d mem pc < 0 := by omega
  by_cases hlen : byteAt d mem pc ≥ (d.table.length : Int)
  · have hnone : d.table[(byteAt d mem pc).toNat]? = none := by
      apply List.getElem?_eq_none; omega
    simp only [hnone, hlen, or_true, if_true, bind_error, ofExcept]
  · simp only [hn, hlen, or_self, if_false]
    cases hrow : d.table[(byteAt d mem pc).toNat]? with
    | none => simp only [bind_error, ofExcept]
    | some row =>
      obtain ⟨disasm, addressing⟩ := row
      show ofExcept (Except.bind (Except.ok (disasm, addressing)) _) = _
      rw [bind_ok]
      dsimp only
      by_cases h_acc : addressing = "acc".toList
      · -- the other fourteen conditions are false (whatever their order in the source)
        have n_abs : ¬ addressing = "abs".toList := by rw [h_acc]; decide
        have n_abx : ¬ addressing = "abx".toList := by rw [h_acc]; decide
        have n_aby : ¬ addressing = "aby".toList := by rw [h_acc]; decide
        have n_imm : ¬ addressing = "imm".toList := by rw [h_acc]; decide
        have n_imp : ¬ addressing = "imp".toList := by rw [h_acc]; decide
        have n_ind : ¬ addressing = "ind".toList := by rw [h_acc]; decide
        have n_iny : ¬ addressing = "iny".toList := by rw [h_acc]; decide
        have n_inx : ¬ addressing = "inx".toList := by rw [h_acc]; decide
        have n_iax : ¬ addressing = "iax".toList := by rw [h_acc]; decide
        have n_rel : ¬ addressing = "rel".toList := by rw [h_acc]; decide
        have n_zpi : ¬ addressing = "zpi".toList := by rw [h_acc]; decide
        have n_zpg : ¬ addressing = "zpg".toList := by rw [h_acc]; decide
        have n_zpx : ¬ addressing = "zpx".toList := by rw [h_acc]; decide
        have n_zpy : ¬ addressing = "zpy".toList := by rw [h_acc]; decide
        simp only [eq_true h_acc, eq_false n_abs, eq_false n_abx, eq_false n_aby, eq_false n_imm, eq_false n_imp, eq_false n_ind, eq_false n_iny, eq_false n_inx, eq_false n_iax, eq_false n_rel, eq_false n_zpi, eq_false n_zpg, eq_false n_zpx, eq_false n_zpy,
          if_true, if_false]
        simp [pctInt, bind_ok, ofExcept, sp, hfb]
      by_cases h_abs : addressing = "abs".toList
      · -- the other fourteen conditions are false (whatever their order in the source)
        have n_acc : ¬ addressing = "acc".toList := by rw [h_abs]; decide
        have n_abx : ¬ addressing = "abx".toList := by rw [h_abs]; decide
        have n_aby : ¬ addressing = "aby".toList := by rw [h_abs]; decide
        have n_imm : ¬ addressing = "imm".toList := by rw [h_abs]; decide
        have n_imp : ¬ addressing = "imp".toList := by rw [h_abs]; decide
        have n_ind : ¬ addressing = "ind".toList := by rw [h_abs]; decide
        have n_iny : ¬ addressing = "iny".toList := by rw [h_abs]; decide
        have n_inx : ¬ addressing = "inx".toList := by rw [h_abs]; decide
        have n_iax : ¬ addressing = "iax".toList := by rw [h_abs]; decide
        have n_rel : ¬ addressing = "rel".toList := by rw [h_abs]; decide
        have n_zpi : ¬ addressing = "zpi".toList := by rw [h_abs]; decide
        have n_zpg : ¬ addressing = "zpg".toList := by rw [h_abs]; decide
        have n_zpx : ¬ addressing = "zpx".toList := by rw [h_abs]; decide
        have n_zpy : ¬ addressing = "zpy".toList := by rw [h_abs]; decide
        simp only [eq_false n_acc, eq_true h_abs, eq_false n_abx, eq_false n_aby, eq_false n_imm, eq_false n_imp, eq_false n_ind, eq_false n_iny, eq_false n_inx, eq_false n_iax, eq_false n_rel, eq_false n_zpi, eq_false n_zpg, eq_false n_zpx, eq_false n_zpy,
          if_true, if_false]
        simp only [pctInt, bind_ok, ofExcept, labelOr, label_for_str_eq, sp, shift_count, relTarget, hfa, hfb]
        cases labelFor P _ <;> simp
      by_cases h_abx : addressing = "abx".toList
      · -- the other fourteen conditions are false (whatever their order in the source)
        have n_acc : ¬ addressing = "acc".toList := by rw [h_abx]; decide
        have n_abs : ¬ addressing = "abs".toList := by rw [h_abx]; decide
        have n_aby : ¬ addressing = "aby".toList := by rw [h_abx]; decide
        have n_imm : ¬ addressing = "imm".toList := by rw [h_abx]; decide
        have n_imp : ¬ addressing = "imp".toList := by rw [h_abx]; decide
        have n_ind : ¬ addressing = "ind".toList := by rw [h_abx]; decide
        have n_iny : ¬ addressing = "iny".toList := by rw [h_abx]; decide
        have n_inx : ¬ addressing = "inx".toList := by rw [h_abx]; decide
        have n_iax : ¬ addressing = "iax".toList := by rw [h_abx]; decide
        have n_rel : ¬ addressing = "rel".toList := by rw [h_abx]; decide
        have n_zpi : ¬ addressing = "zpi".toList := by rw [h_abx]; decide
        have n_zpg : ¬ addressing = "zpg".toList := by rw [h_abx]; decide
        have n_zpx : ¬ addressing = "zpx".toList := by rw [h_abx]; decide
        have n_zpy : ¬ addressing = "zpy".toList := by rw [h_abx]; decide
        simp only [eq_false n_acc, eq_false n_abs, eq_true h_abx, eq_false n_aby, eq_false n_imm, eq_false n_imp, eq_false n_ind, eq_false n_iny, eq_false n_inx, eq_false n_iax, eq_false n_rel, eq_false n_zpi, eq_false n_zpg, eq_false n_zpx, eq_false n_zpy,
          if_true, if_false]
        simp only [pctInt, bind_ok, ofExcept, labelOr, label_for_str_eq, sp, shift_count, relTarget, hfa, hfb]
        cases labelFor P _ <;> simp
      by_cases h_aby : addressing = "aby".toList
      · -- the other fourteen conditions are false (whatever their order in the source)
        have n_acc : ¬ addressing = "acc".toList := by rw [h_aby]; decide
        have n_abs : ¬ addressing = "abs".toList := by rw [h_aby]; decide
        have n_abx : ¬ addressing = "abx".toList := by rw [h_aby]; decide
        have n_imm : ¬ addressing = "imm".toList := by rw [h_aby]; decide
        have n_imp : ¬ addressing = "imp".toList := by rw [h_aby]; decide
        have n_ind : ¬ addressing = "ind".toList := by rw [h_aby]; decide
        have n_iny : ¬ addressing = "iny".toList := by rw [h_aby]; decide
        have n_inx : ¬ addressing = "inx".toList := by rw [h_aby]; decide
        have n_iax : ¬ addressing = "iax".toList := by rw [h_aby]; decide
        have n_rel : ¬ addressing = "rel".toList := by rw [h_aby]; decide
        have n_zpi : ¬ addressing = "zpi".toList := by rw [h_aby]; decide
        have n_zpg : ¬ addressing = "zpg".toList := by rw [h_aby]; decide
        have n_zpx : ¬ addressing = "zpx".toList := by rw [h_aby]; decide
        have n_zpy : ¬ addressing = "zpy".toList := by rw [h_aby]; decide
        simp only [eq_false n_acc, eq_false n_abs, eq_false n_abx, eq_true h_aby, eq_false n_imm, eq_false n_imp, eq_false n_ind, eq_false n_iny, eq_false n_inx, eq_false n_iax, eq_false n_rel, eq_false n_zpi, eq_false n_zpg, eq_false n_zpx, eq_false n_zpy,
          if_true, if_false]
        simp only [pctInt, bind_ok, ofExcept, labelOr, label_for_str_eq, sp, shift_count, relTarget, hfa, hfb]
        cases labelFor P _ <;> simp
      by_cases h_imm : addressing = "imm".toList
      · -- the other fourteen conditions are false (whatever their order in the source)
        have n_acc : ¬ addressing = "acc".toList := by rw [h_imm]; decide
        have n_abs : ¬ addressing = "abs".toList := by rw [h_imm]; decide
        have n_abx : ¬ addressing = "abx".toList := by rw [h_imm]; decide
        have n_aby : ¬ addressing = "aby".toList := by rw [h_imm]; decide
        have n_imp : ¬ addressing = "imp".toList := by rw [h_imm]; decide
        have n_ind : ¬ addressing = "ind".toList := by rw [h_imm]; decide
        have n_iny : ¬ addressing = "iny".toList := by rw [h_imm]; decide
        have n_inx : ¬ addressing = "inx".toList := by rw [h_imm]; decide
        have n_iax : ¬ addressing = "iax".toList := by rw [h_imm]; decide
        have n_rel : ¬ addressing = "rel".toList := by rw [h_imm]; decide
        have n_zpi : ¬ addressing = "zpi".toList := by rw [h_imm]; decide
        have n_zpg : ¬ addressing = "zpg".toList := by rw [h_imm]; decide
        have n_zpx : ¬ addressing = "zpx".toList := by rw [h_imm]; decide
        have n_zpy : ¬ addressing = "zpy".toList := by rw [h_imm]; decide
        simp only [eq_false n_acc, eq_false n_abs, eq_false n_abx, eq_false n_aby, eq_true h_imm, eq_false n_imp, eq_false n_ind, eq_false n_iny, eq_false n_inx, eq_false n_iax, eq_false n_rel, eq_false n_zpi, eq_false n_zpg, eq_false n_zpx, eq_false n_zpy,
          if_true, if_false]
        simp [pctInt, bind_ok, ofExcept, sp, hfb]
      by_cases h_imp : addressing = "imp".toList
      · -- the other fourteen conditions are false (whatever their order in the source)
        have n_acc : ¬ addressing = "acc".toList := by rw [h_imp]; decide
        have n_abs : ¬ addressing = "abs".toList := by rw [h_imp]; decide
        have n_abx : ¬ addressing = "abx".toList := by rw [h_imp]; decide
        have n_aby : ¬ addressing = "aby".toList := by rw [h_imp]; decide
        have n_imm : ¬ addressing = "imm".toList := by rw [h_imp]; decide
        have n_ind : ¬ addressing = "ind".toList := by rw [h_imp]; decide
        have n_iny : ¬ addressing = "iny".toList := by rw [h_imp]; decide
        have n_inx : ¬ addressing = "inx".toList := by rw [h_imp]; decide
        have n_iax : ¬ addressing = "iax".toList := by rw [h_imp]; decide
        have n_rel : ¬ addressing = "rel".toList := by rw [h_imp]; decide
        have n_zpi : ¬ addressing = "zpi".toList := by rw [h_imp]; decide
        have n_zpg : ¬ addressing = "zpg".toList := by rw [h_imp]; decide
        have n_zpx : ¬ addressing = "zpx".toList := by rw [h_imp]; decide
        have n_zpy : ¬ addressing = "zpy".toList := by rw [h_imp]; decide
        simp only [eq_false n_acc, eq_false n_abs, eq_false n_abx, eq_false n_aby, eq_false n_imm, eq_true h_imp, eq_false n_ind, eq_false n_iny, eq_false n_inx, eq_false n_iax, eq_false n_rel, eq_false n_zpi, eq_false n_zpg, eq_false n_zpx, eq_false n_zpy,
          if_true, if_false]
        simp [pctInt, bind_ok, ofExcept, sp, hfb]
      by_cases h_ind : addressing = "ind".toList
      · -- the other fourteen conditions are false (whatever their order in the source)
        have n_acc : ¬ addressing = "acc".toList := by rw [h_ind]; decide
        have n_abs : ¬ addressing = "abs".toList := by rw [h_ind]; decide
        have n_abx : ¬ addressing = "abx".toList := by rw [h_ind]; decide
        have n_aby : ¬ addressing = "aby".toList := by rw [h_ind]; decide
        have n_imm : ¬ addressing = "imm".toList := by rw [h_ind]; decide
        have n_imp : ¬ addressing = "imp".toList := by rw [h_ind]; decide
        have n_iny : ¬ addressing = "iny".toList := by rw [h_ind]; decide
        have n_inx : ¬ addressing = "inx".toList := by rw [h_ind]; decide
        have n_iax : ¬ addressing = "iax".toList := by rw [h_ind]; decide
        have n_rel : ¬ addressing = "rel".toList := by rw [h_ind]; decide
        have n_zpi : ¬ addressing = "zpi".toList := by rw [h_ind]; decide
        have n_zpg : ¬ addressing = "zpg".toList := by rw [h_ind]; decide
        have n_zpx : ¬ addressing = "zpx".toList := by rw [h_ind]; decide
        have n_zpy : ¬ addressing = "zpy".toList := by rw [h_ind]; decide
        simp only [eq_false n_acc, eq_false n_abs, eq_false n_abx, eq_false n_aby, eq_false n_imm, eq_false n_imp, eq_true h_ind, eq_false n_iny, eq_false n_inx, eq_false n_iax, eq_false n_rel, eq_false n_zpi, eq_false n_zpg, eq_false n_zpx, eq_false n_zpy,
          if_true, if_false]
        simp only [pctInt, bind_ok, ofExcept, labelOr, label_for_str_eq, sp, shift_count, relTarget, hfa, hfb]
        cases labelFor P _ <;> simp
      by_cases h_iny : addressing = "iny".toList
      · -- the other fourteen conditions are false (whatever their order in the source)
        have n_acc : ¬ addressing = "acc".toList := by rw [h_iny]; decide
        have n_abs : ¬ addressing = "abs".toList := by rw [h_iny]; decide
        have n_abx : ¬ addressing = "abx".toList := by rw [h_iny]; decide
        have n_aby : ¬ addressing = "aby".toList := by rw [h_iny]; decide
        have n_imm : ¬ addressing = "imm".toList := by rw [h_iny]; decide
        have n_imp : ¬ addressing = "imp".toList := by rw [h_iny]; decide
        have n_ind : ¬ addressing = "ind".toList := by rw [h_iny]; decide
        have n_inx : ¬ addressing = "inx".toList := by rw [h_iny]; decide
        have n_iax : ¬ addressing = "iax".toList := by rw [h_iny]; decide
        have n_rel : ¬ addressing = "rel".toList := by rw [h_iny]; decide
        have n_zpi : ¬ addressing = "zpi".toList := by rw [h_iny]; decide
        have n_zpg : ¬ addressing = "zpg".toList := by rw [h_iny]; decide
        have n_zpx : ¬ addressing = "zpx".toList := by rw [h_iny]; decide
        have n_zpy : ¬ addressing = "zpy".toList := by rw [h_iny]; decide
        simp only [eq_false n_acc, eq_false n_abs, eq_false n_abx, eq_false n_aby, eq_false n_imm, eq_false n_imp, eq_false n_ind, eq_true h_iny, eq_false n_inx, eq_false n_iax, eq_false n_rel, eq_false n_zpi, eq_false n_zpg, eq_false n_zpx, eq_false n_zpy,
          if_true, if_false]
        simp only [pctInt, bind_ok, ofExcept, labelOr, label_for_str_eq, sp, shift_count, relTarget, hfa, hfb]
        cases labelFor P _ <;> simp
      by_cases h_inx : addressing = "inx".toList
      · -- the other fourteen conditions are false (whatever their order in the source)
        have n_acc : ¬ addressing = "acc".toList := by rw [h_inx]; decide
        have n_abs : ¬ addressing = "abs".toList := by rw [h_inx]; decide
        have n_abx : ¬ addressing = "abx".toList := by rw [h_inx]; decide
        have n_aby : ¬ addressing = "aby".toList := by rw [h_inx]; decide
        have n_imm : ¬ addressing = "imm".toList := by rw [h_inx]; decide
        have n_imp : ¬ addressing = "imp".toList := by rw [h_inx]; decide
        have n_ind : ¬ addressing = "ind".toList := by rw [h_inx]; decide
        have n_iny : ¬ addressing = "iny".toList := by rw [h_inx]; decide
        have n_iax : ¬ addressing = "iax".toList := by rw [h_inx]; decide
        have n_rel : ¬ addressing = "rel".toList := by rw [h_inx]; decide
        have n_zpi : ¬ addressing = "zpi".toList := by rw [h_inx]; decide
        have n_zpg : ¬ addressing = "zpg".toList := by rw [h_inx]; decide
        have n_zpx : ¬ addressing = "zpx".toList := by rw [h_inx]; decide
        have n_zpy : ¬ addressing = "zpy".toList := by rw [h_inx]; decide
        simp only [eq_false n_acc, eq_false n_abs, eq_false n_abx, eq_false n_aby, eq_false n_imm, eq_false n_imp, eq_false n_ind, eq_false n_iny, eq_true h_inx, eq_false n_iax, eq_false n_rel, eq_false n_zpi, eq_false n_zpg, eq_false n_zpx, eq_false n_zpy,
          if_true, if_false]
        simp only [pctInt, bind_ok, ofExcept, labelOr, label_for_str_eq, sp, shift_count, relTarget, hfa, hfb]
        cases labelFor P _ <;> simp
      by_cases h_iax : addressing = "iax".toList
      · -- the other fourteen conditions are false (whatever their order in the source)
        have n_acc : ¬ addressing = "acc".toList := by rw [h_iax]; decide
        have n_abs : ¬ addressing = "abs".toList := by rw [h_iax]; decide
        have n_abx : ¬ addressing = "abx".toList := by rw [h_iax]; decide
        have n_aby : ¬ addressing = "aby".toList := by rw [h_iax]; decide
        have n_imm : ¬ addressing = "imm".toList := by rw [h_iax]; decide
        have n_imp : ¬ addressing = "imp".toList := by rw [h_iax]; decide
        have n_ind : ¬ addressing = "ind".toList := by rw [h_iax]; decide
        have n_iny : ¬ addressing = "iny".toList := by rw [h_iax]; decide
        have n_inx : ¬ addressing = "inx".toList := by rw [h_iax]; decide
        have n_rel : ¬ addressing = "rel".toList := by rw [h_iax]; decide
        have n_zpi : ¬ addressing = "zpi".toList := by rw [h_iax]; decide
        have n_zpg : ¬ addressing = "zpg".toList := by rw [h_iax]; decide
        have n_zpx : ¬ addressing = "zpx".toList := by rw [h_iax]; decide
        have n_zpy : ¬ addressing = "zpy".toList := by rw [h_iax]; decide
        simp only [eq_false n_acc, eq_false n_abs, eq_false n_abx, eq_false n_aby, eq_false n_imm, eq_false n_imp, eq_false n_ind, eq_false n_iny, eq_false n_inx, eq_true h_iax, eq_false n_rel, eq_false n_zpi, eq_false n_zpg, eq_false n_zpx, eq_false n_zpy,
          if_true, if_false]
        simp only [pctInt, bind_ok, ofExcept, labelOr, label_for_str_eq, sp, shift_count, relTarget, hfa, hfb]
        cases labelFor P _ <;> simp
      by_cases h_rel : addressing = "rel".toList
      · -- the other fourteen conditions are false (whatever their order in the source)
        have n_acc : ¬ addressing = "acc".toList := by rw [h_rel]; decide
        have n_abs : ¬ addressing = "abs".toList := by rw [h_rel]; decide
        have n_abx : ¬ addressing = "abx".toList := by rw [h_rel]; decide
        have n_aby : ¬ addressing = "aby".toList := by rw [h_rel]; decide
        have n_imm : ¬ addressing = "imm".toList := by rw [h_rel]; decide
        have n_imp : ¬ addressing = "imp".toList := by rw [h_rel]; decide
        have n_ind : ¬ addressing = "ind".toList := by rw [h_rel]; decide
        have n_iny : ¬ addressing = "iny".toList := by rw [h_rel]; decide
        have n_inx : ¬ addressing = "inx".toList := by rw [h_rel]; decide
        have n_iax : ¬ addressing = "iax".toList := by rw [h_rel]; decide
        have n_zpi : ¬ addressing = "zpi".toList := by rw [h_rel]; decide
        have n_zpg : ¬ addressing = "zpg".toList := by rw [h_rel]; decide
        have n_zpx : ¬ addressing = "zpx".toList := by rw [h_rel]; decide
        have n_zpy : ¬ addressing = "zpy".toList := by rw [h_rel]; decide
        simp only [eq_false n_acc, eq_false n_abs, eq_false n_abx, eq_false n_aby, eq_false n_imm, eq_false n_imp, eq_false n_ind, eq_false n_iny, eq_false n_inx, eq_false n_iax, eq_true h_rel, eq_false n_zpi, eq_false n_zpg, eq_false n_zpx, eq_false n_zpy,
          if_true, if_false]
        simp only [pctInt, bind_ok, ofExcept, labelOr, label_for_str_eq, sp, shift_count, relTarget, hfa, hfb]
        cases labelFor P _ <;> simp
      by_cases h_zpi : addressing = "zpi".toList
      · -- the other fourteen conditions are false (whatever their order in the source)
        have n_acc : ¬ addressing = "acc".toList := by rw [h_zpi]; decide
        have n_abs : ¬ addressing = "abs".toList := by rw [h_zpi]; decide
        have n_abx : ¬ addressing = "abx".toList := by rw [h_zpi]; decide
        have n_aby : ¬ addressing = "aby".toList := by rw [h_zpi]; decide
        have n_imm : ¬ addressing = "imm".toList := by rw [h_zpi]; decide
        have n_imp : ¬ addressing = "imp".toList := by rw [h_zpi]; decide
        have n_ind : ¬ addressing = "ind".toList := by rw [h_zpi]; decide
        have n_iny : ¬ addressing = "iny".toList := by rw [h_zpi]; decide
        have n_inx : ¬ addressing = "inx".toList := by rw [h_zpi]; decide
        have n_iax : ¬ addressing = "iax".toList := by rw [h_zpi]; decide
        have n_rel : ¬ addressing = "rel".toList := by rw [h_zpi]; decide
        have n_zpg : ¬ addressing = "zpg".toList := by rw [h_zpi]; decide
        have n_zpx : ¬ addressing = "zpx".toList := by rw [h_zpi]; decide
        have n_zpy : ¬ addressing = "zpy".toList := by rw [h_zpi]; decide
        simp only [eq_false n_acc, eq_false n_abs, eq_false n_abx, eq_false n_aby, eq_false n_imm, eq_false n_imp, eq_false n_ind, eq_false n_iny, eq_false n_inx, eq_false n_iax, eq_false n_rel, eq_true h_zpi, eq_false n_zpg, eq_false n_zpx, eq_false n_zpy,
          if_true, if_false]
        simp only [pctInt, bind_ok, ofExcept, labelOr, label_for_str_eq, sp, shift_count, relTarget, hfa, hfb]
        cases labelFor P _ <;> simp
      by_cases h_zpg : addressing = "zpg".toList
      · -- the other fourteen conditions are false (whatever their order in the source)
        have n_acc : ¬ addressing = "acc".toList := by rw [h_zpg]; decide
        have n_abs : ¬ addressing = "abs".toList := by rw [h_zpg]; decide
        have n_abx : ¬ addressing = "abx".toList := by rw [h_zpg]; decide
        have n_aby : ¬ addressing = "aby".toList := by rw [h_zpg]; decide
        have n_imm : ¬ addressing = "imm".toList := by rw [h_zpg]; decide
        have n_imp : ¬ addressing = "imp".toList := by rw [h_zpg]; decide
        have n_ind : ¬ addressing = "ind".toList := by rw [h_zpg]; decide
        have n_iny : ¬ addressing = "iny".toList := by rw [h_zpg]; decide
        have n_inx : ¬ addressing = "inx".toList := by rw [h_zpg]; decide
        have n_iax : ¬ addressing = "iax".toList := by rw [h_zpg]; decide
        have n_rel : ¬ addressing = "rel".toList := by rw [h_zpg]; decide
        have n_zpi : ¬ addressing = "zpi".toList := by rw [h_zpg]; decide
        have n_zpx : ¬ addressing = "zpx".toList := by rw [h_zpg]; decide
        have n_zpy : ¬ addressing = "zpy".toList := by rw [h_zpg]; decide
        simp only [eq_false n_acc, eq_false n_abs, eq_false n_abx, eq_false n_aby, eq_false n_imm, eq_false n_imp, eq_false n_ind, eq_false n_iny, eq_false n_inx, eq_false n_iax, eq_false n_rel, eq_false n_zpi, eq_true h_zpg, eq_false n_zpx, eq_false n_zpy,
          if_true, if_false]
        simp only [pctInt, bind_ok, ofExcept, labelOr, label_for_str_eq, sp, shift_count, relTarget, hfa, hfb]
        cases labelFor P _ <;> simp
      by_cases h_zpx : addressing = "zpx".toList
      · -- the other fourteen conditions are false (whatever their order in the source)
        have n_acc : ¬ addressing = "acc".toList := by rw [h_zpx]; decide
        have n_abs : ¬ addressing = "abs".toList := by rw [h_zpx]; decide
        have n_abx : ¬ addressing = "abx".toList := by rw [h_zpx]; decide
        have n_aby : ¬ addressing = "aby".toList := by rw [h_zpx]; decide
        have n_imm : ¬ addressing = "imm".toList := by rw [h_zpx]; decide
        have n_imp : ¬ addressing = "imp".toList := by rw [h_zpx]; decide
        have n_ind : ¬ addressing = "ind".toList := by rw [h_zpx]; decide
        have n_iny : ¬ addressing = "iny".toList := by rw [h_zpx]; decide
        have n_inx : ¬ addressing = "inx".toList := by rw [h_zpx]; decide
        have n_iax : ¬ addressing = "iax".toList := by rw [h_zpx]; decide
        have n_rel : ¬ addressing = "rel".toList := by rw [h_zpx]; decide
        have n_zpi : ¬ addressing = "zpi".toList := by rw [h_zpx]; decide
        have n_zpg : ¬ addressing = "zpg".toList := by rw [h_zpx]; decide
        have n_zpy : ¬ addressing = "zpy".toList := by rw [h_zpx]; decide
        simp only [eq_false n_acc, eq_false n_abs, eq_false n_abx, eq_false n_aby, eq_false n_imm, eq_false n_imp, eq_false n_ind, eq_false n_iny, eq_false n_inx, eq_false n_iax, eq_false n_rel, eq_false n_zpi, eq_false n_zpg, eq_true h_zpx, eq_false n_zpy,
          if_true, if_false]
        simp only [pctInt, bind_ok, ofExcept, labelOr, label_for_str_eq, sp, shift_count, relTarget, hfa, hfb]
        cases labelFor P _ <;> simp
      by_cases h_zpy : addressing = "zpy".toList
      · -- the other fourteen conditions are false (whatever their order in the source)
        have n_acc : ¬ addressing = "acc".toList := by rw [h_zpy]; decide
        have n_abs : ¬ addressing = "abs".toList := by rw [h_zpy]; decide
        have n_abx : ¬ addressing = "abx".toList := by rw [h_zpy]; decide
        have n_aby : ¬ addressing = "aby".toList := by rw [h_zpy]; decide
        have n_imm : ¬ addressing = "imm".toList := by rw [h_zpy]; decide
        have n_imp : ¬ addressing = "imp".toList := by rw [h_zpy]; decide
        have n_ind : ¬ addressing = "ind".toList := by rw [h_zpy]; decide
        have n_iny : ¬ addressing = "iny".toList := by rw [h_zpy]; decide
        have n_inx : ¬ addressing = "inx".toList := by rw [h_zpy]; decide
        have n_iax : ¬ addressing = "iax".toList := by rw [h_zpy]; decide
        have n_rel : ¬ addressing = "rel".toList := by rw [h_zpy]; decide
        have n_zpi : ¬ addressing = "zpi".toList := by rw [h_zpy]; decide
        have n_zpg : ¬ addressing = "zpg".toList := by rw [h_zpy]; decide
        have n_zpx : ¬ addressing = "zpx".toList := by rw [h_zpy]; decide
        simp only [eq_false n_acc, eq_false n_abs, eq_false n_abx, eq_false n_aby, eq_false n_imm, eq_false n_imp, eq_false n_ind, eq_false n_iny, eq_false n_inx, eq_false n_iax, eq_false n_rel, eq_false n_zpi, eq_false n_zpg, eq_false n_zpx, eq_true h_zpy,
          if_true, if_false]
        simp only [pctInt, bind_ok, ofExcept, labelOr, label_for_str_eq, sp, shift_count, relTarget, hfa, hfb]
        cases labelFor P _ <;> simp
      -- no mode matches: `raise NotImplementedError`
      simp only [eq_false h_acc, eq_false h_abs, eq_false h_abx, eq_false h_aby, eq_false h_imm, eq_false h_imp, eq_false h_ind, eq_false h_iny, eq_false h_inx, eq_false h_iax, eq_false h_rel, eq_false h_zpi, eq_false h_zpg, eq_false h_zpx, eq_false h_zpy,
        if_false, bind_error, ofExcept]

/-! ### the `mpu` object is the generated device

`mpuOf d mem` reads memory through `Model.Disasm.byteAt / wordAt`.  For the three devices this is the
GENERATED `ByteAt` / `WordAt` (`Py65/Gen/Mpu6502.lean`; the 65C02 and the 65Org16 inherit them) run with
the live configuration on a memory object that spans the address space and reduces every address
with its mask (`ObservableMemory` under the monitor), and the widths, masks, formats and the
`disassemble` table are the live class / instance attributes of `Py65/Gen/Tables.lean`, `Devices.lean`. -/

/-- a machine state whose memory object is `mem` behind the address mask -/
def stOf (c : Py65.Cfg) (mem : Int → Int) : Py65.St :=
  { (default : Py65.St) with mem := fun a => mem (Py.land a c.addrMask) }

/-- the attributes and methods of a generated device that the disassembler uses -/
def mpuOfGen (c : Py65.Cfg) (byteFmt addrFmt : String) (tbl : List (String × String)) (mem : Int → Int) : Mpu :=
  { ADDR_WIDTH := c.ADDR_WIDTH, BYTE_WIDTH := c.BYTE_WIDTH, ADDR_FORMAT := addrFmt.toList,
    BYTE_FORMAT := byteFmt.toList, addrMask := c.addrMask, byteMask := c.byteMask,
    ByteAt := fun a => (Py65.Gen.Mpu6502.ByteAt c a (stOf c mem)).1,
    WordAt := fun a => (Py65.Gen.Mpu6502.WordAt c a (stOf c mem)).1,
    disassemble := tbl.map strPair, memory := (stOf c mem).mem }

theorem mpuOf_dev6502 (mem : Int → Int) :
    mpuOf dev6502 mem = mpuOfGen Py65.Gen.dev6502.cfg Py65.Gen.dev6502.BYTE_FORMAT Py65.Gen.dev6502.ADDR_FORMAT
      Py65.Gen.dev6502.disassembleL mem := rfl

theorem mpuOf_dev65c02 (mem : Int → Int) :
    mpuOf dev65c02 mem = mpuOfGen Py65.Gen.dev65c02.cfg Py65.Gen.dev65c02.BYTE_FORMAT Py65.Gen.dev65c02.ADDR_FORMAT
      Py65.Gen.dev65c02.disassembleL mem := rfl

theorem mpuOf_dev65org16 (mem : Int → Int) :
    mpuOf dev65org16 mem = mpuOfGen Py65.Gen.dev65org16.cfg Py65.Gen.dev65org16.BYTE_FORMAT
      Py65.Gen.dev65org16.ADDR_FORMAT Py65.Gen.dev65org16.disassembleL mem := rfl

/-! ### transfer of results from the hand model to the generated function -/

/-- the three devices (`DevOK`, established on the generated tables) have modelled formats -/
theorem FmtOK.of_devOK {d : Dev} {v : Py65.Spec.Variant} {W : Nat} (h : Py65.Proofs.Asm.DevOK d v W) : FmtOK d :=
  ⟨fun k => by rw [h.afmt k]; rfl, fun k => by rw [h.bfmt k]; rfl⟩

/-- a successful result of the hand model has a non-negative opcode cell -/
theorem model_ok_nonneg {d : Dev} {P : Parser} {mem : Int → Int} {pc : Int} {n : Nat} {t : Str}
    (h : instructionAt d P mem pc = .ok n t) : 0 ≤ byteAt d mem pc := by
  by_contra hneg
  have hl : byteAt d mem pc < 0 := by omega
  unfold instructionAt at h
  simp only [hl, true_or, if_true] at h
  cases h

/-- whatever the hand model returns successfully, the generated `instruction_at` returns -/
theorem gen_of_model {d : Dev} (hf : FmtOK d) {P : Parser} {mem : Int → Int} {pc : Int} {n : Nat} {t : Str}
    (h : instructionAt d P mem pc = .ok n t) :
    (disOf d P mem).instruction_at pc = .ok ((n : Int), t) :=
  ofExcept_ok (by rw [instruction_at_eq d hf P mem pc (model_ok_nonneg h), h])

/-- ... and conversely -/
theorem model_of_gen {d : Dev} (hf : FmtOK d) {P : Parser} {mem : Int → Int} {pc : Int} {n : Nat} {t : Str}
    (h0 : 0 ≤ byteAt d mem pc) (h : (disOf d P mem).instruction_at pc = .ok ((n : Int), t)) :
    instructionAt d P mem pc = .ok n t := by
  rw [← instruction_at_eq d hf P mem pc h0, h]
  simp [ofExcept]

/-! ### `Monitor._format_disassembly`

The display model `Model.Fmt.formatDisassembly` (C19 `disasm_shows_bytes`) works on `Fmt.Dev` records
(digit counts instead of format strings) and a memory `Nat → Nat`. -/

/-- `"%0<k>x"` -/
def hexFmt (k : Nat) : Str := '%' :: '0' :: (toDigits 10 k ++ ['x'])

/-- The mpu object of a display-model device record: the attributes `_format_disassembly` reads
(`ADDR_WIDTH`, `BYTE_WIDTH`, the two formats, `memory`); the others are not read. -/
def mpuOfFmt (d : Fmt.Dev) (mem : Nat → Nat) : Mpu :=
  { ADDR_WIDTH := d.addrWidth, BYTE_WIDTH := d.byteWidth, ADDR_FORMAT := hexFmt d.addrDigits,
    BYTE_FORMAT := hexFmt d.byteDigits, memory := fun a => ((mem a.toNat : Nat) : Int),
    addrMask := 0, byteMask := 0, ByteAt := fun _ => 0, WordAt := fun _ => 0, disassemble := [] }

/-- the `Monitor` after `_reset`, as far as `_format_disassembly` reads it -/
def monOf (d : Fmt.Dev) (mem : Nat → Nat) : Monitor := Monitor._reset_view (mpuOfFmt d mem)

/-- the display-model records carry the widths and formats of the generated device tables -/
theorem fmt_devices_are_generated :
    (Fmt.dev6502.byteWidth = Py65.Gen.dev6502.BYTE_WIDTH ∧ Fmt.dev6502.addrWidth = Py65.Gen.dev6502.ADDR_WIDTH ∧
      hexFmt Fmt.dev6502.byteDigits = Py65.Gen.dev6502.BYTE_FORMAT.toList ∧
      hexFmt Fmt.dev6502.addrDigits = Py65.Gen.dev6502.ADDR_FORMAT.toList) ∧
    (Fmt.dev65c02.byteWidth = Py65.Gen.dev65c02.BYTE_WIDTH ∧ Fmt.dev65c02.addrWidth = Py65.Gen.dev65c02.ADDR_WIDTH ∧
      hexFmt Fmt.dev65c02.byteDigits = Py65.Gen.dev65c02.BYTE_FORMAT.toList ∧
      hexFmt Fmt.dev65c02.addrDigits = Py65.Gen.dev65c02.ADDR_FORMAT.toList) ∧
    (Fmt.dev65org16.byteWidth = Py65.Gen.dev65org16.BYTE_WIDTH ∧
      Fmt.dev65org16.addrWidth = Py65.Gen.dev65org16.ADDR_WIDTH ∧
      hexFmt Fmt.dev65org16.byteDigits = Py65.Gen.dev65org16.BYTE_FORMAT.toList ∧
      hexFmt Fmt.dev65org16.addrDigits = Py65.Gen.dev65org16.ADDR_FORMAT.toList) := by decide +kernel

theorem pctFmt_hexFmt {d : Fmt.Dev} (hd : d ∈ Fmt.devices) (n : Nat) :
    pctFmt (hexFmt d.byteDigits) n = some (fmtHexL d.byteDigits n) ∧
    pctFmt (hexFmt d.addrDigits) n = some (fmtHexL d.addrDigits n) := by
  simp only [Fmt.devices, List.mem_cons, List.mem_nil_iff, or_false] at hd
  rcases hd with rfl | rfl | rfl <;>
    simp [pctFmt, hexFmt, toDigits, digitChar, decVal, isDigit, Fmt.dev6502, Fmt.dev65c02, Fmt.dev65org16]

/-- the `while bytes_remaining:` loop is `Fmt.dumpLoop` -/
theorem dump_loop_eq {d : Fmt.Dev} (hd : d ∈ Fmt.devices) (mem : Nat → Nat) (n : Nat) :
    ∀ (cur : Nat) (dump : Str), ∃ c : Int,
      Monitor._format_disassembly.loop_1 (monOf d mem) ((2 : Int) ^ d.addrWidth - 1) n (cur : Int) dump =
        .ok (c, dump ++ Fmt.dumpLoop d mem cur n) := by
  induction n with
  | zero => intro cur dump; exact ⟨cur, by simp [Monitor._format_disassembly.loop_1, Fmt.dumpLoop]⟩
  | succ n ih =>
    intro cur dump
    have hpow : ((2 : Int) ^ d.addrWidth - 1) = ((2 ^ d.addrWidth - 1 : Nat) : Int) := by
      have : 1 ≤ 2 ^ d.addrWidth := Nat.one_le_two_pow
      push_cast [Nat.cast_sub this]; rfl
    have hcur : (if (cur : Int) > (2 : Int) ^ d.addrWidth - 1 then (0 : Int) else (cur : Int)) =
        ((if cur > 2 ^ d.addrWidth - 1 then 0 else cur : Nat) : Int) := by
      rw [hpow]
      by_cases h : cur > 2 ^ d.addrWidth - 1
      · have h' : (cur : Int) > ((2 ^ d.addrWidth - 1 : Nat) : Int) := by exact_mod_cast h
        rw [if_pos h', if_pos h]; rfl
      · have h' : ¬ (cur : Int) > ((2 ^ d.addrWidth - 1 : Nat) : Int) := by exact_mod_cast h
        rw [if_neg h', if_neg h]
    obtain ⟨c, hc⟩ := ih ((if cur > 2 ^ d.addrWidth - 1 then 0 else cur) + 1)
      (dump ++ (fmtHexL d.byteDigits (mem (if cur > 2 ^ d.addrWidth - 1 then 0 else cur)) ++ " ".toList))
    refine ⟨c, ?_⟩
    unfold Monitor._format_disassembly.loop_1
    simp only [hcur, monOf, Monitor._reset_view, mpuOfFmt, pctInt, Int.toNat_natCast, (pctFmt_hexFmt hd _).1, bind_ok]
    simp only [monOf, Monitor._reset_view, mpuOfFmt] at hc
    rw [show (((if cur > 2 ^ d.addrWidth - 1 then 0 else cur : Nat) : Int) + 1) =
        (((if cur > 2 ^ d.addrWidth - 1 then 0 else cur) + 1 : Nat) : Int) by push_cast; rfl]
    rw [hc]
    simp [Fmt.dumpLoop]

theorem fieldfmt_eq {d : Fmt.Dev} (hd : d ∈ Fmt.devices) (dump : Str) :
    pctStr ("%-".toList ++ pyStrInt (1 + fracToInt (fracAddInt 1 (fracOfDiv (d.byteWidth : Int) 4)) * 3) ++ "s".toList)
      dump = .ok (Fmt.ljustL dump (Fmt.fieldWidth d)) := by
  simp only [Fmt.devices, List.mem_cons, List.mem_nil_iff, or_false] at hd
  rcases hd with rfl | rfl | rfl <;>
    simp [pctStr, pyStrInt, intDigits, toDigits, digitChar, fracToInt, fracAddInt, fracOfDiv, decVal, isDigit,
      Fmt.ljustL, Fmt.fieldWidth, Fmt.dev6502, Fmt.dev65c02, Fmt.dev65org16]

/-- `_format_disassembly`: the generated function is the display model, for every device, memory,
address, length and instruction text. -/
theorem format_disassembly_eq {d : Fmt.Dev} (hd : d ∈ Fmt.devices) (mem : Nat → Nat) (address length : Nat)
    (disasm : Str) :
    Monitor._format_disassembly (monOf d mem) (address : Int) (length : Int) disasm =
      .ok (Fmt.formatDisassembly d mem address length disasm) := by
  obtain ⟨c, hc⟩ := dump_loop_eq hd mem length address []
  have hneg : ¬ (length : Int) < 0 := by omega
  unfold Monitor._format_disassembly
  simp only [hneg, if_false, Int.toNat_natCast]
  have e1 : (monOf d mem)._mpu.ADDR_WIDTH = d.addrWidth := rfl
  have e2 : (monOf d mem).byteWidth = d.byteWidth := rfl
  have e3 : (monOf d mem).addrFmt = hexFmt d.addrDigits := rfl
  rw [e1, e2, e3]
  have hl : ("".toList : Str) = [] := rfl
  rw [hl, hc]
  simp only [bind_ok, pctInt, Int.toNat_natCast, (pctFmt_hexFmt hd _).2, fieldfmt_eq hd, Fmt.formatDisassembly,
    List.nil_append]
  simp

end Py65.Proofs.DisasmGenEq
