/-
Lemmas for the FULL "never mis-assembles" theorem of C07 (`Py65.Props.C07.asm_sound`): the inversion of
`normalize_and_split` -- the `Statement` scanner, `before.split(" ", 1)`, the `target` rewriting and the
fall-back `statement.split(" ", 1)` -- against the documented token syntax `Spec.Asm.parse`.

S1  the Spec tokeniser: unfolding, words, white space, invariance under `' '.join(s.split())`
S2  the text after the operand word: tokens do not depend on the white space in it
S3  inversion of the `Statement` scanner (`matchStatement_inv`) and of `split(" ", 1)`
S4  `AddressParser.number` never values a word that contains `(` (label names without `(`)
S5  the operand value `value`, mnemonics, upper-casing
S6  `Spec.Asm.parse` on structured text (`parse_structured`, `parse_bare`)
S7  inversion of the canonical operand text
S8  the two paths of `normalize_and_split`; `asm_sound_gen`
-/
import Py65.Proofs.AsmRound

namespace Py65.Proofs.Asm
open Py65.Model Py65.Model.PyStr Py65.Model.AddrParser Py65.Model.Asm Py65.Proofs.Num
open Py65.Spec (Mode Mn Variant decode)
open Py65.Spec.Asm (opcodeOf Shape Outcome Refusal Stmt encode encodeIn encodeAbs Documented mnText
  Tok tokens tokensAux parseOperand parse isBlank litOpen charLit isX isY isA fits isZp operandBytes)

/-! ## S1: the Spec tokeniser -/

/-- the Spec's white space is the white space of `str.split()` / `\s` -/
theorem isBlank_eq (c : Char) : isBlank c = isReSpace c := rfl

theorem spec_upperS_eq (s : Str) : Py65.Spec.Asm.upperS s = upperS s := rfl

/-- the word being read, as a token (nothing when no word is being read) -/
def flush (cur : Str) : List Tok := if cur = [] then [] else [.word cur.reverse]

@[simp] theorem flush_nil : flush [] = [] := rfl
theorem flush_ne {cur : Str} (h : cur ≠ []) : flush cur = [.word cur.reverse] := by simp [flush, h]

theorem tokensAux_nil (cur : Str) : tokensAux [] cur = flush cur := rfl

theorem tokensAux_cons (c : Char) (cs cur : Str) :
    tokensAux (c :: cs) cur =
      if isBlank c then flush cur ++ tokensAux cs []
      else if litOpen cur then tokensAux cs (c :: cur)
      else if c = '(' then flush cur ++ .lparen :: tokensAux cs []
      else if c = ')' then flush cur ++ .rparen :: tokensAux cs []
      else if c = ',' then flush cur ++ .comma :: tokensAux cs []
      else tokensAux cs (c :: cur) := rfl

/-- neither white space nor a delimiter -/
def Plain (c : Char) : Prop := isReSpace c = false ∧ c ≠ '(' ∧ c ≠ ')' ∧ c ≠ ','

theorem tokensAux_blank {c : Char} (h : isReSpace c = true) (cs cur : Str) :
    tokensAux (c :: cs) cur = flush cur ++ tokensAux cs [] := by
  rw [tokensAux_cons, isBlank_eq, h, if_pos rfl]

theorem tokensAux_plain {c : Char} (h : Plain c) (cs cur : Str) :
    tokensAux (c :: cs) cur = tokensAux cs (c :: cur) := by
  rw [tokensAux_cons, isBlank_eq, h.1]
  simp only [Bool.false_eq_true, if_false, h.2.1, h.2.2.1, h.2.2.2, ite_self]

theorem tokensAux_lit {c : Char} (hb : isReSpace c = false) (cs : Str) {cur : Str} (hl : litOpen cur = true) :
    tokensAux (c :: cs) cur = tokensAux cs (c :: cur) := by
  rw [tokensAux_cons, isBlank_eq, hb]
  simp only [Bool.false_eq_true, if_false, hl, if_true]

theorem litOpen_nil : litOpen [] = false := rfl

theorem litOpen_length {cur : Str} (h : litOpen cur = true) : cur.length = 2 := by
  simp only [litOpen, Bool.or_eq_true, decide_eq_true_eq] at h
  rcases h with rfl | rfl <;> rfl

theorem litOpen_reverse {cur : Str} (h : litOpen cur = true) :
    cur.reverse = ['#', '\''] ∨ cur.reverse = ['#', '"'] := by
  simp only [litOpen, Bool.or_eq_true, decide_eq_true_eq] at h
  rcases h with rfl | rfl
  · left; rfl
  · right; rfl

theorem tokensAux_lparen (cs : Str) {cur : Str} (hl : litOpen cur = false) :
    tokensAux ('(' :: cs) cur = flush cur ++ .lparen :: tokensAux cs [] := by
  rw [tokensAux_cons, hl]
  have : isBlank '(' = false := by decide
  simp [this]

theorem tokensAux_rparen (cs : Str) {cur : Str} (hl : litOpen cur = false) :
    tokensAux (')' :: cs) cur = flush cur ++ .rparen :: tokensAux cs [] := by
  rw [tokensAux_cons, hl]
  have : isBlank ')' = false := by decide
  simp [this]

theorem tokensAux_comma (cs : Str) {cur : Str} (hl : litOpen cur = false) :
    tokensAux (',' :: cs) cur = flush cur ++ .comma :: tokensAux cs [] := by
  rw [tokensAux_cons, hl]
  have : isBlank ',' = false := by decide
  simp [this]

/-- a run of plain characters goes into the word being read -/
theorem tokensAux_plain_run (w rest cur : Str) (hw : ∀ c ∈ w, Plain c) :
    tokensAux (w ++ rest) cur = tokensAux rest (w.reverse ++ cur) := by
  induction w generalizing cur with
  | nil => rfl
  | cons c w ih =>
    rw [List.cons_append, tokensAux_plain (hw c (by simp)), ih _ (fun x hx => hw x (by simp [hx]))]
    simp

/-- white space in front of a token is dropped -/
theorem tokensAux_blank_run (b rest : Str) (hb : Blank b) : tokensAux (b ++ rest) [] = tokensAux rest [] := by
  induction b with
  | nil => rfl
  | cons c b ih =>
    rw [List.cons_append, tokensAux_blank (hb c (by simp)), flush_nil, List.nil_append,
      ih (fun x hx => hb x (by simp [hx]))]

theorem tokensAux_all_blank (b : Str) (hb : Blank b) : tokensAux b [] = [] := by
  have := tokensAux_blank_run b [] hb
  rwa [List.append_nil] at this

/-- the word ends at the end of the text, at white space, at `,` and at `)` -/
theorem tokensAux_end (cur rest : Str) (hne : cur ≠ []) (hl : litOpen cur = false)
    (hr : ∀ c, rest.head? = some c → isTargetChar c = false) :
    tokensAux rest cur = .word cur.reverse :: tokensAux rest [] := by
  cases rest with
  | nil => simp [tokensAux_nil, flush_ne hne]
  | cons c r =>
    have hc := hr c rfl
    simp only [isTargetChar, Bool.not_eq_false', Bool.or_eq_true, decide_eq_true_eq] at hc
    rcases hc with (rfl | hc) | rfl
    · rw [tokensAux_comma r hl, tokensAux_comma r litOpen_nil, flush_ne hne]; rfl
    · rw [tokensAux_blank hc, tokensAux_blank hc, flush_ne hne]; rfl
    · rw [tokensAux_rparen r hl, tokensAux_rparen r litOpen_nil, flush_ne hne]; rfl

/-- `' '.join(s.split())` does not change the tokens -/
theorem tokensAux_nrm (u : Str) :
    (∀ cur, tokensAux (nrmAux false u) cur = tokensAux u cur) ∧
    (∀ cur, tokensAux (nrmAux true u) cur = flush cur ++ tokensAux u []) := by
  induction u with
  | nil =>
    refine ⟨fun cur => by rw [nrmAux_nil], fun cur => ?_⟩
    rw [nrmAux_nil, tokensAux_nil, tokensAux_nil, flush_nil, List.append_nil]
  | cons c u ih =>
    obtain ⟨ih1, ih2⟩ := ih
    by_cases hc : isReSpace c = true
    · constructor
      · intro cur
        simp only [nrmAux, hc, if_true]
        rw [ih2, tokensAux_blank hc]
      · intro cur
        simp only [nrmAux, hc, if_true]
        rw [ih2, tokensAux_blank hc, flush_nil, List.nil_append]
    · have hc' : isReSpace c = false := by simpa using hc
      have h1 : ∀ cur, tokensAux (c :: nrmAux false u) cur = tokensAux (c :: u) cur := by
        intro cur
        rw [tokensAux_cons, tokensAux_cons, isBlank_eq, hc']
        simp only [Bool.false_eq_true, if_false, ih1]
      constructor
      · intro cur
        simp only [nrmAux, hc', Bool.false_eq_true, if_false]
        exact h1 cur
      · intro cur
        simp only [nrmAux, hc', Bool.false_eq_true, if_false, if_true]
        rw [tokensAux_blank (c := ' ') (by decide), h1]

theorem tokens_dropWhile (s : Str) : tokensAux (s.dropWhile isReSpace) [] = tokensAux s [] := by
  induction s with
  | nil => rfl
  | cons c s ih =>
    by_cases hc : isReSpace c = true
    · rw [List.dropWhile_cons_of_pos hc, ih, tokensAux_blank hc, flush_nil, List.nil_append]
    · rw [List.dropWhile_cons_of_neg hc]

theorem tokens_normWs (s : Str) : tokens (normWs s) = tokens s := by
  unfold tokens
  rw [normWs_eq, (tokensAux_nrm _).1, tokens_dropWhile]

theorem parse_normWs (s : Str) : parse (normWs s) = parse s := by
  unfold parse
  rw [tokens_normWs]

/-! ## S2: the text after the operand word -/

/-- `,` or `)` -/
def isDel (c : Char) : Bool := c = ',' || c = ')'

/-- no two neighbouring characters are both non-delimiters: without white space the text has the
same tokens -/
def sparse : Str → Bool
  | c :: d :: r => (isDel c || isDel d) && sparse (d :: r)
  | _ => true

theorem sparse_tail {c : Char} {r : Str} (h : sparse (c :: r) = true) : sparse r = true := by
  cases r with
  | nil => rfl
  | cons d r =>
    simp only [sparse, Bool.and_eq_true] at h
    exact h.2

theorem isDel_not_target {c : Char} (h : isDel c = true) : isTargetChar c = false := by
  simp only [isDel, Bool.or_eq_true, decide_eq_true_eq] at h
  rcases h with rfl | rfl <;> decide

theorem plain_of {c : Char} (h1 : isReSpace c = false) (h2 : c ≠ '(') (h3 : isDel c = false) : Plain c := by
  simp only [isDel, Bool.or_eq_false_iff, decide_eq_false_iff_not] at h3
  exact ⟨h1, h2, h3.2, h3.1⟩

/-- In a text without `(` whose non-blank characters are "sparse", white space does not matter for
the tokens.  (`cur`: nothing, or one character that is followed by a delimiter or the end.) -/
theorem tokensAux_removeWs (u : Str) (hno : ∀ c ∈ removeWs u, c ≠ '(') (hsp : sparse (removeWs u) = true) :
    ∀ cur, (cur = [] ∨ (cur.length = 1 ∧ ∀ c, (removeWs u).head? = some c → isDel c = true)) →
      tokensAux u cur = tokensAux (removeWs u) cur := by
  induction u with
  | nil => intro cur _; rfl
  | cons c u ih =>
    intro cur hcur
    have hlo : litOpen cur = false := by
      cases hl : litOpen cur with
      | false => rfl
      | true =>
        have := litOpen_length hl
        rcases hcur with rfl | ⟨h1, _⟩
        · cases this
        · omega
    by_cases hc : isReSpace c = true
    · rw [removeWs_cons_blank u hc] at hno hsp hcur ⊢
      rw [tokensAux_blank hc, ih hno hsp [] (Or.inl rfl)]
      rcases hcur with rfl | ⟨h1, h2⟩
      · rfl
      · have hne : cur ≠ [] := by intro e; rw [e] at h1; cases h1
        rw [tokensAux_end cur (removeWs u) hne hlo (fun x hx => isDel_not_target (h2 x hx)), flush_ne hne]
        rfl
    · have hc' : isReSpace c = false := by simpa using hc
      rw [removeWs_cons_word u hc'] at hno hsp hcur ⊢
      have hno' : ∀ x ∈ removeWs u, x ≠ '(' := fun x hx => hno x (by simp [hx])
      have hsp' := sparse_tail hsp
      have hcp : c ≠ '(' := hno c (by simp)
      by_cases hd : isDel c = true
      · have ih0 := ih hno' hsp' [] (Or.inl rfl)
        simp only [isDel, Bool.or_eq_true, decide_eq_true_eq] at hd
        rcases hd with rfl | rfl
        · rw [tokensAux_comma _ hlo, tokensAux_comma _ hlo, ih0]
        · rw [tokensAux_rparen _ hlo, tokensAux_rparen _ hlo, ih0]
      · have hd' : isDel c = false := by simpa using hd
        have hpl := plain_of hc' hcp hd'
        have hcur0 : cur = [] := by
          rcases hcur with rfl | ⟨_, h2⟩
          · rfl
          · have := h2 c rfl
            rw [hd'] at this; cases this
        subst hcur0
        rw [tokensAux_plain hpl, tokensAux_plain hpl]
        apply ih hno' hsp' [c]
        right
        refine ⟨rfl, ?_⟩
        intro x hx
        cases hr : removeWs u with
        | nil => rw [hr] at hx; cases hx
        | cons y r =>
          rw [hr] at hx hsp
          simp only [List.head?_cons, Option.some.injEq] at hx
          subst hx
          simp only [sparse, Bool.and_eq_true, Bool.or_eq_true, hd', Bool.false_eq_true, false_or] at hsp
          exact hsp.1

/-! ## S3: inversion of the `Statement` scanner -/

theorem dropWhile_head {p : Char → Bool} (l : Str) (c : Char) (h : (l.dropWhile p).head? = some c) :
    p c = false := by
  induction l with
  | nil => simp at h
  | cons x l ih =>
    by_cases hx : p x = true
    · rw [List.dropWhile_cons_of_pos hx] at h; exact ih h
    · rw [List.dropWhile_cons_of_neg hx] at h
      simp only [List.head?_cons, Option.some.injEq] at h
      subst h
      simpa using hx

theorem mem_dropWhile_of_false {p : Char → Bool} {l : Str} {x : Char} (h : x ∈ l) (hx : p x = false) :
    x ∈ l.dropWhile p := by
  induction l with
  | nil => cases h
  | cons y l ih =>
    by_cases hy : p y = true
    · rw [List.dropWhile_cons_of_pos hy]
      simp only [List.mem_cons] at h
      rcases h with rfl | h
      · rw [hx] at hy; cases hy
      · exact ih h
    · rw [List.dropWhile_cons_of_neg hy]; exact h

theorem tryTarget_inv {b0 rest b t a : Str} (h : tryTarget b0 rest = some (b, t, a)) :
    b = b0 ∧ rest = t ++ a ∧ t ≠ [] ∧ (∀ c ∈ t, isTargetChar c = true) ∧
      (∀ c, a.head? = some c → isTargetChar c = false) ∧ inAfter a = true := by
  unfold tryTarget at h
  simp only at h
  split_ifs at h with hc
  simp only [Option.some.injEq, Prod.mk.injEq] at h
  obtain ⟨rfl, rfl, rfl⟩ := h
  exact ⟨rfl, (List.takeWhile_append_dropWhile (p := isTargetChar) (l := rest)).symm, hc.1,
    fun c hc' => mem_takeWhile_true hc', fun c hc' => dropWhile_head rest c hc', hc.2⟩

/-- what the scanner has established when it matches -/
structure Scanned (s b t a : Str) : Prop where
  split : ∃ M ws1 L, IsMnem M ∧ Blank ws1 ∧ ws1 ≠ [] ∧ (L = [] ∨ ∃ ws2, L = '(' :: ws2 ∧ Blank ws2) ∧
    b = M ++ (ws1 ++ L)
  whole : s = b ++ (t ++ a)
  tne : t ≠ []
  tchars : ∀ c ∈ t, isTargetChar c = true
  ahead : ∀ c, a.head? = some c → isTargetChar c = false
  alang : inAfter a = true

theorem blank_takeWhile (l : Str) : Blank (l.takeWhile isReSpace) := fun _ hc => mem_takeWhile_true hc

/-- what `matchTail_inv` establishes -/
def TailOK (mnm tl b t a : Str) : Prop :=
  (∃ ws1 L, Blank ws1 ∧ ws1 ≠ [] ∧ (L = [] ∨ ∃ ws2, L = '(' :: ws2 ∧ Blank ws2) ∧ b = mnm ++ (ws1 ++ L)) ∧
    mnm ++ tl = b ++ (t ++ a) ∧ t ≠ [] ∧ (∀ c ∈ t, isTargetChar c = true) ∧
      (∀ c, a.head? = some c → isTargetChar c = false) ∧ inAfter a = true

/-- the part of the scanner after the mnemonic `mnm` (3 or 4 characters), on `tl` -/
theorem matchTail_inv (mnm tl b t a : Str)
    (h : (if tl.takeWhile isReSpace = [] then none
          else match tl.dropWhile isReSpace with
            | p :: r3 =>
              if p = '(' then
                match tryTarget (mnm ++ tl.takeWhile isReSpace ++ '(' :: r3.takeWhile isReSpace)
                    (r3.dropWhile isReSpace) with
                | some m => some m
                | none => tryTarget (mnm ++ tl.takeWhile isReSpace) (tl.dropWhile isReSpace)
              else tryTarget (mnm ++ tl.takeWhile isReSpace) (tl.dropWhile isReSpace)
            | [] => none) = some (b, t, a)) : TailOK mnm tl b t a := by
  split_ifs at h with hws
  have htl : tl = tl.takeWhile isReSpace ++ tl.dropWhile isReSpace :=
    (List.takeWhile_append_dropWhile (p := isReSpace) (l := tl)).symm
  have hbl := blank_takeWhile tl
  -- the plain attempt
  have plain : tryTarget (mnm ++ tl.takeWhile isReSpace) (tl.dropWhile isReSpace) = some (b, t, a) →
      TailOK mnm tl b t a := by
    intro h
    obtain ⟨e1, e2, e3, e4, e5, e6⟩ := tryTarget_inv h
    refine ⟨⟨tl.takeWhile isReSpace, [], hbl, hws, Or.inl rfl, by rw [e1, List.append_nil]⟩, ?_, e3, e4, e5, e6⟩
    rw [e1, ← e2, List.append_assoc, ← htl]
  cases hr2 : tl.dropWhile isReSpace with
  | nil => rw [hr2] at h; simp at h
  | cons p r3 =>
    rw [hr2] at h
    simp only at h
    split_ifs at h with hp
    · cases ht : tryTarget (mnm ++ tl.takeWhile isReSpace ++ '(' :: r3.takeWhile isReSpace)
          (r3.dropWhile isReSpace) with
      | some m =>
        rw [ht] at h
        simp only at h
        injection h with h
        subst h
        obtain ⟨e1, e2, e3, e4, e5, e6⟩ := tryTarget_inv ht
        have hr3 : r3 = r3.takeWhile isReSpace ++ r3.dropWhile isReSpace :=
          (List.takeWhile_append_dropWhile (p := isReSpace) (l := r3)).symm
        refine ⟨⟨tl.takeWhile isReSpace, '(' :: r3.takeWhile isReSpace, hbl, hws,
          Or.inr ⟨_, rfl, blank_takeWhile r3⟩, by rw [e1, List.append_assoc]⟩, ?_, e3, e4, e5, e6⟩
        rw [e1, ← e2]
        conv_lhs => rw [htl, hr2, hp, hr3]
        simp only [List.append_assoc, List.cons_append]
      | none =>
        rw [ht] at h
        simp only at h
        rw [← hr2] at h
        exact plain h
    · rw [← hr2] at h
      exact plain h

theorem matchStatement_inv (s b t a : Str) (h : matchStatement s = some (b, t, a)) : Scanned s b t a := by
  rcases s with _ | ⟨c1, _ | ⟨c2, _ | ⟨c3, r0⟩⟩⟩
  · simp [matchStatement] at h
  · simp [matchStatement] at h
  · simp [matchStatement] at h
  · rcases r0 with _ | ⟨c4, r⟩
    · simp [matchStatement] at h
    · by_cases ho : isOct c4 = true
      · simp only [matchStatement, ho, if_true] at h
        by_cases haz : (isAz c1 && isAz c2 && isAz c3) = true
        · rw [if_pos haz] at h
          obtain ⟨⟨ws1, L, a1, a2, a3, a4⟩, a5, a6, a7, a8, a9⟩ : TailOK [c1, c2, c3, c4] r b t a :=
            matchTail_inv [c1, c2, c3, c4] r b t a h
          simp only [Bool.and_eq_true] at haz
          exact ⟨⟨[c1, c2, c3, c4], ws1, L, ⟨c1, c2, c3, [c4], rfl, haz.1.1, haz.1.2, haz.2, Or.inr ⟨c4, rfl, ho⟩⟩,
            a1, a2, a3, a4⟩, by simpa using a5, a6, a7, a8, a9⟩
        · rw [if_neg haz] at h; cases h
      · simp only [matchStatement, ho, Bool.false_eq_true, if_false] at h
        by_cases haz : (isAz c1 && isAz c2 && isAz c3) = true
        · rw [if_pos haz] at h
          obtain ⟨⟨ws1, L, a1, a2, a3, a4⟩, a5, a6, a7, a8, a9⟩ : TailOK [c1, c2, c3] (c4 :: r) b t a :=
            matchTail_inv [c1, c2, c3] (c4 :: r) b t a h
          simp only [Bool.and_eq_true] at haz
          exact ⟨⟨[c1, c2, c3], ws1, L, ⟨c1, c2, c3, [], rfl, haz.1.1, haz.1.2, haz.2, Or.inl rfl⟩,
            a1, a2, a3, a4⟩, by simpa using a5, a6, a7, a8, a9⟩
        · rw [if_neg haz] at h; cases h

/-- `s.split(" ", 1)` -/
theorem splitSp1_spec (n : Str) :
    (∀ o, splitSp1 n = (o, none) → n = o ∧ ' ' ∉ o) ∧
    (∀ o r, splitSp1 n = (o, some r) → n = o ++ ' ' :: r ∧ ' ' ∉ o) := by
  induction n with
  | nil =>
    refine ⟨fun o h => ?_, fun o r h => ?_⟩
    · simp only [splitSp1, Prod.mk.injEq] at h; rw [← h.1]; simp
    · simp [splitSp1] at h
  | cons c n ih =>
    by_cases hc : c = ' '
    · refine ⟨fun o h => ?_, fun o r h => ?_⟩
      · simp [splitSp1, hc] at h
      · simp only [splitSp1, hc, if_true, Prod.mk.injEq, Option.some.injEq] at h
        rw [← h.1, ← h.2, hc]; simp
    · have hc' : ' ' ≠ c := fun e => hc e.symm
      rcases hsp : splitSp1 n with ⟨a, _ | b⟩
      · obtain ⟨e, hno⟩ := ih.1 a hsp
        subst e
        refine ⟨fun o h => ?_, fun o r h => ?_⟩
        · simp only [splitSp1, hc, if_false, hsp, Prod.mk.injEq] at h
          rw [← h.1]
          exact ⟨rfl, by simp [hc', hno]⟩
        · simp [splitSp1, hc, hsp] at h
      · obtain ⟨e, hno⟩ := ih.2 a b hsp
        subst e
        refine ⟨fun o h => ?_, fun o r h => ?_⟩
        · simp [splitSp1, hc, hsp] at h
        · simp only [splitSp1, hc, if_false, hsp, Prod.mk.injEq, Option.some.injEq] at h
          rw [← h.1, ← h.2]
          exact ⟨by simp, by simp [hc', hno]⟩

/-- `s.strip()` only removes white space at the two ends -/
theorem strip_decomp (x : Str) : ∃ b1 b2, Blank b1 ∧ Blank b2 ∧ x = b1 ++ (strip x ++ b2) := by
  refine ⟨x.takeWhile isReSpace, ((x.dropWhile isReSpace).reverse.takeWhile isReSpace).reverse,
    blank_takeWhile x, ?_, ?_⟩
  · intro c hc
    rw [List.mem_reverse] at hc
    exact mem_takeWhile_true hc
  · unfold strip
    rw [← List.reverse_append, List.takeWhile_append_dropWhile, List.reverse_reverse,
      List.takeWhile_append_dropWhile]

/-! ## S4: `AddressParser.number` values no word that contains `(` -/

/-- No label name contains `(`.  (The `Statement` scanner lets `(` into the operand word; a label
named `a(b` would make `LDA a(b` assemble although its tokens `a ( b` denote nothing.) -/
def LabelsNoParen (P : Parser) : Prop := ∀ kv ∈ P.labels, '(' ∉ kv.1

instance (P : Parser) : Decidable (LabelsNoParen P) := by unfold LabelsNoParen; infer_instance

theorem lookup_mem (L : Labels) (k : Str) (v : Int) (h : lookup L k = some v) : (k, v) ∈ L := by
  induction L with
  | nil => cases h
  | cons kv L ih =>
    obtain ⟨k', v'⟩ := kv
    simp only [lookup] at h
    split_ifs at h with hk
    · cases h; subst hk; simp
    · exact List.mem_cons_of_mem _ (ih h)

theorem scanDigits_lparen (b : Nat) (s : Str) : ∀ (acc cnt : Nat) (p : Bool) (v c : Nat) (rest : Str),
    '(' ∈ s → scanDigits b s acc cnt p = some (v, c, rest) → '(' ∈ rest := by
  induction s with
  | nil => intro _ _ _ _ _ _ h; cases h
  | cons y s ih =>
    intro acc cnt p v c rest hmem h
    have hrest : y ≠ '(' → '(' ∈ s := by
      intro hy
      simp only [List.mem_cons] at hmem
      rcases hmem with e | e
      · exact absurd e.symm hy
      · exact e
    have hstop : some (acc, cnt, y :: s) = some (v, c, rest) → '(' ∈ rest := by
      intro e
      simp only [Option.some.injEq, Prod.mk.injEq] at e
      rw [← e.2.2]; exact hmem
    rw [scanDigits] at h
    by_cases hus : y = '_'
    · rw [if_pos hus] at h
      by_cases hp : p = true
      · rw [if_pos hp] at h; cases h
      · rw [if_neg hp] at h
        exact ih _ _ _ _ _ _ (hrest (by rw [hus]; decide)) h
    · rw [if_neg hus] at h
      cases hd : digitVal y with
      | none =>
        rw [hd] at h
        simp only at h
        by_cases hp : p = true
        · rw [if_pos hp] at h; cases h
        · rw [if_neg hp] at h; exact hstop h
      | some dg =>
        rw [hd] at h
        simp only at h
        by_cases hlt : dg < b
        · rw [if_pos hlt] at h
          have hy : y ≠ '(' := by
            intro e
            rw [e] at hd
            have : digitVal '(' = none := by decide
            rw [this] at hd; cases hd
          exact ih _ _ _ _ _ _ (hrest hy) h
        · rw [if_neg hlt] at h
          by_cases hp : p = true
          · rw [if_pos hp] at h; cases h
          · rw [if_neg hp] at h; exact hstop h

theorem dropPrefix_lparen (b : Nat) (s : Str) (h : '(' ∈ s) : '(' ∈ dropPrefix b s := by
  unfold dropPrefix
  split
  · rename_i z l r
    split_ifs with hz
    · have h1 : '(' ∈ r := by
        simp only [List.mem_cons] at h
        rcases h with e | e | e
        · rw [hz.1] at e; exact absurd e (by decide)
        · exfalso
          have := hz.2
          rw [← e] at this
          simp [isPrefixLetter] at this
        · exact e
      split
      · rename_i u r'
        split_ifs with hu
        · simp only [List.mem_cons] at h1
          rcases h1 with e | e
          · rw [hu] at e; exact absurd e (by decide)
          · exact e
        · exact h1
      · exact h1
    · exact h
  · exact h

/-- `int(s, base)` fails on any text that contains `(` -/
theorem pyIntL_lparen (s : Str) (b : Nat) (h : '(' ∈ s) : pyIntL s b = none := by
  unfold pyIntL
  split_ifs with hb
  · rfl
  · have h1 : '(' ∈ s.dropWhile isCSpace := mem_dropWhile_of_false h (by decide)
    generalize s.dropWhile isCSpace = s1 at h1
    have key : ∀ (neg : Bool) (s2 : Str), '(' ∈ s2 →
        (if startsWithChar (dropPrefix b s2) '_' = true then none
         else match scanDigits b (dropPrefix b s2) 0 0 false with
          | none => none
          | some (v, cnt, rest) =>
            if cnt = 0 then none
            else if (!isPow2Base b && decide (maxStrDigits < cnt)) = true then none
            else if rest.all isCSpace = true then some (if neg = true then -(v : Int) else (v : Int))
            else none) = (none : Option Int) := by
      intro neg s2 h2
      have h3 := dropPrefix_lparen b s2 h2
      by_cases hsw : startsWithChar (dropPrefix b s2) '_' = true
      · rw [if_pos hsw]
      · rw [if_neg hsw]
        cases hsd : scanDigits b (dropPrefix b s2) 0 0 false with
        | none => rfl
        | some r =>
          obtain ⟨v, cnt, rest⟩ := r
          have h4 := scanDigits_lparen b _ _ _ _ _ _ _ h3 hsd
          have : rest.all isCSpace = false := by
            rw [List.all_eq_false]
            exact ⟨'(', h4, by decide⟩
          simp [this]
    cases s1 with
    | nil => cases h1
    | cons c r =>
      have hr : c ≠ '(' → '(' ∈ r := by
        intro hc
        simp only [List.mem_cons] at h1
        rcases h1 with e | e
        · exact absurd e.symm hc
        · exact e
      by_cases hp : c = '+'
      · subst hp
        simp only [if_true]
        exact key false r (hr (by decide))
      · by_cases hm : c = '-'
        · subst hm
          have hne : ('-' : Char) ≠ '+' := by decide
          simp only [hne, if_false, if_true]
          exact key true r (hr (by decide))
        · simp only [hp, hm, if_false]
          exact key false (c :: r) h1

theorem ofInt_ok_some {P : Parser} {o : Option Int} {n : Int} (h : ofInt P o = .ok n) : o ≠ none := by
  intro e; rw [e] at h; cases h

/-- a word that `AddressParser.number` values contains no `(` -/
theorem numberL_no_lparen (P : Parser) (hlab : LabelsNoParen P) (t : Str) (n : Int)
    (h : numberL P t = .ok n) : '(' ∉ t := by
  intro hmem
  unfold numberL at h
  rw [numberF_succ] at h
  have hdrop : ∀ c, startsWithChar t c = true → c ≠ '(' → '(' ∈ t.drop 1 := by
    intro c hc hne
    cases t with
    | nil => cases hmem
    | cons y r =>
      simp only [startsWithChar, beq_iff_eq] at hc
      subst hc
      simp only [List.mem_cons] at hmem
      rcases hmem with e | e
      · exact absurd e.symm hne
      · simpa using e
  split_ifs at h with h1 h2 h3
  · exact ofInt_ok_some h (pyIntL_lparen _ _ (hdrop _ h1 (by decide)))
  · exact ofInt_ok_some h (pyIntL_lparen _ _ (hdrop _ h2 (by decide)))
  · exact ofInt_ok_some h (pyIntL_lparen _ _ (hdrop _ h3 (by decide)))
  · cases hl : lookup P.labels t with
    | some a => exact hlab _ (lookup_mem _ _ _ hl) hmem
    | none =>
      rw [hl] at h
      simp only at h
      cases hmo : matchOffset t with
      | none =>
        rw [hmo] at h
        simp only at h
        exact ofInt_ok_some h (pyIntL_lparen _ _ hmem)
      | some r =>
        obtain ⟨label, sign, offset⟩ := r
        rw [hmo] at h
        simp only at h
        cases hlb : lookup P.labels label with
        | none => rw [hlb] at h; cases h
        | some base =>
          have hnl : '(' ∉ label := hlab _ (lookup_mem _ _ _ hlb)
          -- `(` would have to be in the part after the label: sign, blanks, prefix, digits, newline
          unfold matchOffset at hmo
          simp only at hmo
          split_ifs at hmo with hle
          have hsplit : t = t.takeWhile isLabelChar ++ t.dropWhile isLabelChar :=
            (List.takeWhile_append_dropWhile (p := isLabelChar) (l := t)).symm
          cases hr1 : (t.dropWhile isLabelChar).dropWhile isReSpace with
          | nil => rw [hr1] at hmo; cases hmo
          | cons sg r =>
            rw [hr1] at hmo
            simp only at hmo
            split_ifs at hmo with hsg
            obtain ⟨e1, e2, _⟩ := matchOffsetTail_some hmo
            have hin1 : '(' ∈ t.dropWhile isLabelChar := by
              rw [hsplit, List.mem_append] at hmem
              rcases hmem with e | e
              · rw [e1] at hnl; exact absurd e hnl
              · exact e
            have hin2 : '(' ∈ sg :: r := by
              rw [← hr1]; exact mem_dropWhile_of_false hin1 (by decide)
            have hin3 : '(' ∈ r := by
              simp only [List.mem_cons] at hin2
              rcases hin2 with e | e
              · rcases hsg with rfl | rfl <;> exact absurd e (by decide)
              · exact e
            unfold matchOffsetTail at hmo
            simp only at hmo
            have hin4 : '(' ∈ r.dropWhile isReSpace := mem_dropWhile_of_false hin3 (by decide)
            obtain ⟨hsp1, hsp2⟩ := splitPrefix_spec (r.dropWhile isReSpace)
            have hin5 : '(' ∈ (splitPrefix (r.dropWhile isReSpace)).2 := by
              rw [← hsp1, List.mem_append] at hin4
              rcases hin4 with e | e
              · rcases hsp2 with e0 | ⟨p, e0, hp⟩
                · rw [e0] at e; cases e
                · rw [e0] at e
                  simp only [List.mem_cons, List.mem_nil_iff, or_false] at e
                  rw [← e] at hp; exact absurd hp (by decide)
              · exact e
            have hin6 : '(' ∈ (splitPrefix (r.dropWhile isReSpace)).2.dropWhile offsetClass :=
              mem_dropWhile_of_false hin5 (by decide)
            split_ifs at hmo with hds htail
            rcases htail with e | e
            · rw [e] at hin6; cases hin6
            · rw [e] at hin6; exact absurd hin6 (by decide)

/-! ## S5: the operand value, mnemonics, upper-casing -/

/-- The value of the operand word `w` of a statement of shape `sh`: nothing to value for `none` / `A`;
a character literal `'c'` is `ord(c)`; everything else is `AddressParser.number`. -/
def value (P : Parser) : Shape → Str → Res
  | .none, _ => .ok 0
  | .acc, _ => .ok 0
  | .imm, w =>
    match charLit w with
    | some c => .ok (c.toNat : Int)
    | none => numberL P w
  | _, w => numberL P w

theorem isAz_of_upper {c : Char} (h : isAz (upper c) = true) : isAz c = true := by
  rcases upper_cases c with e | ⟨h1, h2, _⟩
  · rwa [e] at h
  · simp only [isAz, Bool.and_eq_true, decide_eq_true_eq]; omega

theorem isOct_of_upper {c : Char} (h : isOct (upper c) = true) : isOct c = true := by
  rcases upper_cases c with e | ⟨h1, h2, h3⟩
  · rwa [e] at h
  · simp only [isOct, Bool.and_eq_true, decide_eq_true_eq] at h; omega

theorem isMnem_of_upper {M : Str} (h : isMnemB (upperS M) = true) : IsMnem M := by
  rcases M with _ | ⟨a, _ | ⟨b, _ | ⟨c, _ | ⟨e, _ | ⟨f, r⟩⟩⟩⟩⟩ <;>
    simp only [upperS, List.map_cons, List.map_nil, isMnemB, Bool.and_eq_true, Bool.false_eq_true] at h
  · exact ⟨a, b, c, [], rfl, isAz_of_upper h.1.1, isAz_of_upper h.1.2, isAz_of_upper h.2, Or.inl rfl⟩
  · exact ⟨a, b, c, [e], rfl, isAz_of_upper h.1.1.1, isAz_of_upper h.1.1.2, isAz_of_upper h.1.2,
      Or.inr ⟨e, rfl, isOct_of_upper h.2⟩⟩

theorem isAz_plain {c : Char} (h : isAz c = true) : Plain c := by
  refine ⟨(isAz_not_space h).1, ?_, ?_, ?_⟩ <;>
    (intro e; rw [e] at h; exact absurd h (by decide))

theorem isOct_plain {c : Char} (h : isOct c = true) : Plain c := by
  refine ⟨(isOct_not_space h).1, ?_, ?_, ?_⟩ <;>
    (intro e; rw [e] at h; exact absurd h (by decide))

theorem IsMnem.plain {M : Str} (h : IsMnem M) : ∀ c ∈ M, Plain c := by
  obtain ⟨c1, c2, c3, dg, rfl, h1, h2, h3, hdg⟩ := h
  intro c hc
  rcases hdg with rfl | ⟨c4, rfl, h4⟩
  · simp only [List.mem_cons, List.mem_nil_iff, or_false] at hc
    rcases hc with rfl | rfl | rfl
    exacts [isAz_plain h1, isAz_plain h2, isAz_plain h3]
  · simp only [List.mem_cons, List.mem_nil_iff, or_false] at hc
    rcases hc with rfl | rfl | rfl | rfl
    exacts [isAz_plain h1, isAz_plain h2, isAz_plain h3, isOct_plain h4]

theorem IsMnem.length {M : Str} (h : IsMnem M) : M.length = 3 ∨ M.length = 4 := by
  obtain ⟨c1, c2, c3, dg, rfl, _, _, _, hdg⟩ := h
  rcases hdg with rfl | ⟨c4, rfl, _⟩
  · left; rfl
  · right; rfl

/-- a documented opcode lookup succeeds only on a row of the documented table -/
theorem opcodeOf_row {v : Variant} {m : Str} {mo : Mode} {op : Nat} (h : opcodeOf v m mo = some op) :
    op < 256 ∧ ∃ mn, decode v (op : Int) = some (mn, mo) ∧ mnText mn = m := by
  unfold opcodeOf at h
  simp only at h
  split_ifs at h with hlt
  cases h
  refine ⟨hlt, ?_⟩
  have hlt' : List.findIdx (Py65.Spec.Asm.rowIs v m mo) (List.range 256) < (List.range 256).length := by
    simpa using hlt
  have := List.findIdx_getElem (w := hlt')
  simp only [List.getElem_range, Py65.Spec.Asm.rowIs] at this
  cases hd : decode v ((List.findIdx (Py65.Spec.Asm.rowIs v m mo) (List.range 256) : Nat) : Int) with
  | none => rw [hd] at this; simp [Py65.Spec.Asm.isRow] at this
  | some r =>
    obtain ⟨mn, mo'⟩ := r
    rw [hd] at this
    simp only [Py65.Spec.Asm.isRow, Bool.and_eq_true, decide_eq_true_eq] at this
    exact ⟨mn, by rw [this.2], this.1⟩

theorem encodeIn_ok_opcode {v : Variant} {W : Nat} {m : Str} {x pc : Int} {bs : List Int} (modes : List Mode)
    (h : encodeIn v W m x pc modes = .ok bs) : ∃ mo op, opcodeOf v m mo = some op := by
  induction modes with
  | nil => simp [encodeIn] at h
  | cons mo rest ih =>
    cases ho : opcodeOf v m mo with
    | some op => exact ⟨mo, op, ho⟩
    | none =>
      rw [encodeIn, ho] at h
      exact ih h

/-- bytes are documented only for a mnemonic of the documented table: three `[A-z]` characters and
an optional digit -/
theorem encode_ok_mnem {v : Variant} {W : Nat} {m : Str} {sh : Shape} {x pc : Int} {bs : List Int}
    (h : encode v W ⟨m, sh, x⟩ pc = .ok bs) : isMnemB m = true := by
  unfold encode at h
  simp only at h
  split_ifs at h
  obtain ⟨mo, op, ho⟩ := encodeIn_ok_opcode _ h
  obtain ⟨hlt, mn, hd, hm⟩ := opcodeOf_row ho
  have hf := rowFacts_all v op hlt
  unfold rowFacts at hf
  rw [hd] at hf
  simp only [Bool.and_eq_true] at hf
  rw [← hm]
  exact hf.1.1.1.1.2

/-- the operand value is not used when the shape has no operand -/
theorem encode_none_val (v : Variant) (W : Nat) (m : Str) (x pc : Int) :
    encode v W ⟨m, .none, x⟩ pc = encode v W ⟨m, .none, 0⟩ pc := by
  simp [encode, Shape.inRange, Shape.modes, encodeIn, fits, isZp, operandBytes]

theorem encode_acc_val (v : Variant) (W : Nat) (m : Str) (x pc : Int) :
    encode v W ⟨m, .acc, x⟩ pc = encode v W ⟨m, .acc, 0⟩ pc := by
  simp [encode, Shape.inRange, Shape.modes, encodeIn, fits, isZp, operandBytes]

theorem digitVal_upper (c : Char) : digitVal (upper c) = digitVal c := by
  rcases upper_cases c with e | ⟨h1, h2, h3⟩
  · rw [e]
  · unfold digitVal
    simp only [h3]
    have a1 : ¬ (48 ≤ c.toNat - 32 ∧ c.toNat - 32 ≤ 57) := by omega
    have a2 : ¬ (97 ≤ c.toNat - 32 ∧ c.toNat - 32 ≤ 122) := by omega
    have a3 : (65 ≤ c.toNat - 32 ∧ c.toNat - 32 ≤ 90) := by omega
    have a4 : ¬ (48 ≤ c.toNat ∧ c.toNat ≤ 57) := by omega
    have a5 : (97 ≤ c.toNat ∧ c.toNat ≤ 122) := ⟨h1, h2⟩
    simp only [a1, a2, a3, a4, a5, if_false]
    simp only [and_self, if_true, Option.some.injEq]
    omega

theorem valAcc_upperS (b acc : Nat) (s : Str) : valAcc b acc (upperS s) = valAcc b acc s := by
  induction s generalizing acc with
  | nil => rfl
  | cons c s ih =>
    rw [upperS_cons, valAcc_cons, valAcc_cons, ih]
    simp only [dv, digitVal_upper]

theorem isDig_of_upper {b : Nat} {c : Char} (h : IsDig b (upper c)) : IsDig b c := by
  obtain ⟨dg, h1, h2⟩ := h
  exact ⟨dg, by rw [← digitVal_upper]; exact h1, h2⟩

theorem isDig_plain {b : Nat} {c : Char} (h : IsDig b c) : Plain c := by
  have hr := h.alnum.respace
  obtain ⟨dg, hd, _⟩ := h
  have r := digitVal_range hd
  refine ⟨hr, ?_, ?_, ?_⟩
  · exact ne_of_toNat_ne (by show c.toNat ≠ 40; omega)
  · exact ne_of_toNat_ne (by show c.toNat ≠ 41; omega)
  · exact ne_of_toNat_ne (by show c.toNat ≠ 44; omega)

/-! ## S6: `Spec.Asm.parse` on structured text -/

/-- The text reads as one word for the tokeniser: put in front of `rest` it becomes the word being
read, and that word is not an open character literal. -/
structure WordLike (t : Str) : Prop where
  ne : t ≠ []
  run : ∀ rest, tokensAux (t ++ rest) [] = tokensAux rest t.reverse
  closed : litOpen t.reverse = false

theorem closed_of {t : Str} (h1 : t ≠ ['#', '\'']) (h2 : t ≠ ['#', '"']) : litOpen t.reverse = false := by
  cases hl : litOpen t.reverse with
  | false => rfl
  | true =>
    rcases litOpen_reverse hl with e | e <;> rw [List.reverse_reverse] at e
    · exact absurd e h1
    · exact absurd e h2

theorem wordLike_plain {t : Str} (hne : t ≠ []) (hp : ∀ c ∈ t, Plain c) (h1 : t ≠ ['#', '\''])
    (h2 : t ≠ ['#', '"']) : WordLike t :=
  ⟨hne, fun rest => by rw [tokensAux_plain_run t rest [] hp, List.append_nil], closed_of h1 h2⟩

/-- a character literal `#'c'`, `#"c"`, `#'c`: whatever the character `c` (white space excepted) -/
theorem wordLike_charlit (q ch : Char) (r3 : Str) (hq : q = '\'' ∨ q = '"') (hch : isReSpace ch = false)
    (hr3 : r3 = [] ∨ r3 = [q]) : WordLike ('#' :: q :: ch :: r3) := by
  have hqp : Plain q := by rcases hq with rfl | rfl <;> exact ⟨by decide, by decide, by decide, by decide⟩
  have hhash : Plain '#' := ⟨by decide, by decide, by decide, by decide⟩
  have hlo : litOpen [q, '#'] = true := by rcases hq with rfl | rfl <;> rfl
  refine ⟨by simp, ?_, ?_⟩
  · intro rest
    simp only [List.cons_append]
    rw [tokensAux_plain hhash, tokensAux_plain hqp, tokensAux_lit hch _ hlo]
    rcases hr3 with rfl | rfl
    · rfl
    · simp only [List.cons_append, List.nil_append]
      rw [tokensAux_plain hqp]
      rfl
  · cases hl : litOpen ('#' :: q :: ch :: r3).reverse with
    | false => rfl
    | true =>
      have := litOpen_length hl
      simp at this

/-- the tokens of the text in front of the operand word: white space and at most one `(` -/
theorem tokensAux_lead (L rest : Str) (hL : ∀ c ∈ L, isReSpace c = true ∨ c = '(') :
    tokensAux (L ++ rest) [] = (removeWs L).map (fun _ => Tok.lparen) ++ tokensAux rest [] := by
  induction L with
  | nil => rfl
  | cons c L ih =>
    have ih' := ih (fun x hx => hL x (by simp [hx]))
    rcases hL c (by simp) with hc | rfl
    · rw [List.cons_append, tokensAux_blank hc, flush_nil, List.nil_append, ih', removeWs_cons_blank L hc]
    · rw [List.cons_append, tokensAux_lparen _ litOpen_nil, flush_nil, List.nil_append, ih',
        removeWs_cons_word L (by decide)]
      rfl

/-- the writings of the text after the operand word, without white space -/
def afterVariants : Shape → List Str
  | .dirX => [[',', 'X'], [',', 'x']]
  | .dirY => [[',', 'Y'], [',', 'y']]
  | .ind => [[')']]
  | .indX => [[',', 'X', ')'], [',', 'x', ')']]
  | .indY => [[')', ',', 'Y'], [')', ',', 'y']]
  | _ => [[]]

theorem afterOf_inv (sh : Shape) (cs : Str) (hcs : upperS cs = afterOf sh) : cs ∈ afterVariants sh := by
  cases sh <;> simp only [afterOf, upperS] at hcs
  case dirX =>
    obtain ⟨a, b, rfl, ha, hb⟩ : ∃ a b, cs = [a, b] ∧ upper a = ',' ∧ upper b = 'X' := by
      rcases cs with _ | ⟨a, _ | ⟨b, _ | ⟨c, r⟩⟩⟩ <;> simp at hcs
      exact ⟨a, b, rfl, hcs.1, hcs.2⟩
    have := upper_eq_comma ha; subst this
    rcases upper_eq_X hb with rfl | rfl <;> simp [afterVariants]
  case dirY =>
    obtain ⟨a, b, rfl, ha, hb⟩ : ∃ a b, cs = [a, b] ∧ upper a = ',' ∧ upper b = 'Y' := by
      rcases cs with _ | ⟨a, _ | ⟨b, _ | ⟨c, r⟩⟩⟩ <;> simp at hcs
      exact ⟨a, b, rfl, hcs.1, hcs.2⟩
    have := upper_eq_comma ha; subst this
    rcases upper_eq_Y hb with rfl | rfl <;> simp [afterVariants]
  case ind =>
    obtain ⟨a, rfl, ha⟩ : ∃ a, cs = [a] ∧ upper a = ')' := by
      rcases cs with _ | ⟨a, _ | ⟨b, r⟩⟩ <;> simp at hcs
      exact ⟨a, rfl, hcs⟩
    have := upper_eq_rp ha; subst this
    simp [afterVariants]
  case indX =>
    obtain ⟨a, b, c, rfl, ha, hb, hc⟩ : ∃ a b c, cs = [a, b, c] ∧ upper a = ',' ∧ upper b = 'X' ∧ upper c = ')' := by
      rcases cs with _ | ⟨a, _ | ⟨b, _ | ⟨c, _ | ⟨e, r⟩⟩⟩⟩ <;> simp at hcs
      exact ⟨a, b, c, rfl, hcs.1, hcs.2.1, hcs.2.2⟩
    have := upper_eq_comma ha; subst this
    have := upper_eq_rp hc; subst this
    rcases upper_eq_X hb with rfl | rfl <;> simp [afterVariants]
  case indY =>
    obtain ⟨a, b, c, rfl, ha, hb, hc⟩ : ∃ a b c, cs = [a, b, c] ∧ upper a = ')' ∧ upper b = ',' ∧ upper c = 'Y' := by
      rcases cs with _ | ⟨a, _ | ⟨b, _ | ⟨c, _ | ⟨e, r⟩⟩⟩⟩ <;> simp at hcs
      exact ⟨a, b, c, rfl, hcs.1, hcs.2.1, hcs.2.2⟩
    have := upper_eq_rp ha; subst this
    have := upper_eq_comma hb; subst this
    rcases upper_eq_Y hc with rfl | rfl <;> simp [afterVariants]
  all_goals
    have : cs = [] := by simpa using hcs
    subst this
    simp [afterVariants]

/-- the facts about a writing that are needed, as a Boolean check -/
def okAfter (cs : Str) : Bool :=
  cs.all (fun c => c != '(') && sparse cs && cs.all (fun c => !isReSpace c) &&
    (match cs.head? with
     | some c => !isTargetChar c
     | none => true)

theorem afterVariants_ok : ∀ sh : Shape, (afterVariants sh).all okAfter = true := by
  intro sh
  cases sh <;> decide

/-- facts about the writings, by evaluation -/
theorem afterVariants_facts (sh : Shape) (cs : Str) (hcs : cs ∈ afterVariants sh) :
    (∀ c ∈ cs, c ≠ '(') ∧ sparse cs = true ∧ NoBlank cs ∧
      (∀ c, cs.head? = some c → isTargetChar c = false) := by
  have h := List.all_eq_true.mp (afterVariants_ok sh) cs hcs
  simp only [okAfter, Bool.and_eq_true, List.all_eq_true, bne_iff_ne, ne_eq, Bool.not_eq_true'] at h
  obtain ⟨⟨⟨h1, h2⟩, h3⟩, h4⟩ := h
  refine ⟨h1, h2, h3, ?_⟩
  intro c hc
  rw [hc] at h4
  simpa using h4

def leadToks : Shape → List Tok
  | .ind | .indX | .indY => [.lparen]
  | _ => []

theorem leadToks_eq (sh : Shape) : (leadOf sh).map (fun _ => Tok.lparen) = leadToks sh := by
  cases sh <;> rfl

/-- the operand tokens of the five shapes that have tokens besides the operand word -/
theorem parseOperand_variants (sh : Shape) (t : Str) (cs : Str) (hcs : cs ∈ afterVariants sh) :
    match sh with
    | .dirX | .dirY | .ind | .indX | .indY =>
      parseOperand (leadToks sh ++ .word t :: tokensAux cs []) = some (sh, t)
    | _ => leadToks sh ++ .word t :: tokensAux cs [] = [.word t] := by
  cases sh <;> simp only [afterVariants, List.mem_cons, List.mem_nil_iff, or_false] at hcs
  case dirX => rcases hcs with rfl | rfl <;> rfl
  case dirY => rcases hcs with rfl | rfl <;> rfl
  case ind => subst hcs; rfl
  case indX => rcases hcs with rfl | rfl <;> rfl
  case indY => rcases hcs with rfl | rfl <;> rfl
  all_goals subst hcs; rfl

/-- The tokens of a statement text written as mnemonic, white space, lead, operand word, rest. -/
theorem tokens_structured (sh : Shape) (M ws1 L t aft : Str) (hM : IsMnem M) (hws : Blank ws1) (hws1 : ws1 ≠ [])
    (hLc : ∀ c ∈ L, isReSpace c = true ∨ c = '(') (hL : removeWs L = leadOf sh)
    (ht : WordLike t) (ha1 : ∀ c, aft.head? = some c → isTargetChar c = false)
    (ha : upperS (removeWs aft) = afterOf sh) :
    ∃ cs ∈ afterVariants sh,
      tokens (M ++ (ws1 ++ (L ++ (t ++ aft)))) = .word M :: (leadToks sh ++ .word t :: tokensAux cs []) := by
  have hmem := afterOf_inv sh (removeWs aft) ha
  obtain ⟨f1, f2, _, _⟩ := afterVariants_facts sh _ hmem
  refine ⟨removeWs aft, hmem, ?_⟩
  obtain ⟨_, _, hMne⟩ := hM.noBlank
  have hMcl : litOpen M.reverse = false := by
    cases hl : litOpen M.reverse with
    | false => rfl
    | true =>
      have := litOpen_length hl
      rw [List.length_reverse] at this
      rcases hM.length with e | e <;> omega
  have hhead : ∀ c, (ws1 ++ (L ++ (t ++ aft))).head? = some c → isTargetChar c = false := by
    intro c hc
    obtain ⟨w, ws', rfl⟩ := List.exists_cons_of_ne_nil hws1
    simp only [List.cons_append, List.head?_cons, Option.some.injEq] at hc
    subst hc
    simp [isTargetChar, hws w (by simp)]
  unfold tokens
  rw [tokensAux_plain_run M _ [] hM.plain, List.append_nil,
    tokensAux_end M.reverse _ (by simpa using hMne) hMcl hhead, List.reverse_reverse,
    tokensAux_blank_run ws1 _ hws, tokensAux_lead L _ hLc, hL, leadToks_eq, ht.run,
    tokensAux_end t.reverse aft (by simpa using ht.ne) ht.closed ha1, List.reverse_reverse,
    tokensAux_removeWs aft f1 f2 [] (Or.inl rfl)]

theorem parse_of_tokens {s m : Str} {rest : List Tok} {sh : Shape} {w : Str}
    (h1 : tokens s = .word m :: rest) (h2 : parseOperand rest = some (sh, w)) :
    parse s = some (upperS m, sh, w) := by
  unfold parse
  rw [h1]
  simp only [h2]
  rfl

/-- a statement that is a mnemonic and nothing else -/
theorem tokens_bare (M b : Str) (hM : IsMnem M) (hb : Blank b) : tokens (M ++ b) = [.word M] := by
  obtain ⟨_, _, hMne⟩ := hM.noBlank
  unfold tokens
  rw [tokensAux_plain_run M _ [] hM.plain, List.append_nil]
  cases b with
  | nil => rw [tokensAux_nil, flush_ne (by simpa using hMne), List.reverse_reverse]
  | cons c b' =>
    rw [tokensAux_blank (hb c (by simp)), flush_ne (by simpa using hMne), List.reverse_reverse,
      tokensAux_all_blank b' (fun x hx => hb x (by simp [hx]))]
    rfl

/-! ## S7: inversion of the canonical operand text -/

section canon
variable {d : Dev} {v : Variant} {W : Nat}

/-- what can follow the operand value in the operand text handed to the back end -/
def AfterAlpha (α : Str) : Prop := ∀ c ∈ α, c = ',' ∨ c = 'X' ∨ c = 'Y' ∨ c = ')'

theorem inAfter_chars {a : Str} (h : inAfter a = true) : ∀ c ∈ a, isAfterChar c = true ∨ c = ')' := by
  intro c hc
  rw [← List.takeWhile_append_dropWhile (p := isAfterChar) (l := a), List.mem_append] at hc
  rcases hc with hc | hc
  · left; exact mem_takeWhile_true hc
  · unfold inAfter at h
    cases hd : a.dropWhile isAfterChar with
    | nil => rw [hd] at hc; cases hc
    | cons y r2 =>
      rw [hd] at h hc
      simp only [Bool.and_eq_true, decide_eq_true_eq, List.all_eq_true] at h
      simp only [List.mem_cons] at hc
      rcases hc with rfl | hc
      · right; exact h.1
      · left; exact h.2 c hc

theorem afterAlpha_of {a : Str} (h : inAfter a = true) : AfterAlpha (upperS (removeWs a)) := by
  intro c hc
  simp only [upperS, List.mem_map] at hc
  obtain ⟨c0, hc0, rfl⟩ := hc
  simp only [removeWs, List.mem_filter, Bool.not_eq_true'] at hc0
  rcases inAfter_chars h c0 hc0.1 with h1 | rfl
  · simp only [isAfterChar, hc0.2, Bool.or_false, Bool.or_eq_true, decide_eq_true_eq] at h1
    rcases h1 with (((rfl | rfl) | rfl) | rfl) | rfl <;> decide
  · decide

theorem afterAlpha_head {α : Str} (h : AfterAlpha α) : ∀ c, α.head? = some c → isHexUpper c = false := by
  intro c hc
  rcases h c (List.mem_of_mem_head? hc) with rfl | rfl | rfl | rfl <;> decide

theorem afterOf_alpha (sh : Shape) : AfterAlpha (afterOf sh) := by
  cases sh <;> intro c hc <;> simp [afterOf] at hc <;> tauto

/-- a run of hex digits followed by something that does not start with a hex digit splits uniquely -/
theorem hex_span_unique {h1 h2 α β : Str} (a1 : ∀ c ∈ h1, isHexUpper c = true) (a2 : ∀ c ∈ h2, isHexUpper c = true)
    (b1 : ∀ c, α.head? = some c → isHexUpper c = false) (b2 : ∀ c, β.head? = some c → isHexUpper c = false)
    (e : h1 ++ α = h2 ++ β) : h1 = h2 ∧ α = β := by
  have s1 := span_stop (p := isHexUpper) a1 b1
  have s2 := span_stop (p := isHexUpper) a2 b2
  rw [e] at s1
  exact ⟨s1.1.symm.trans s2.1, s1.2.symm.trans s2.2⟩

theorem hexFixU_mem_hexUpper (k n : Nat) : ∀ c ∈ hexFixU k n, isHexUpper c = true := by
  have := hexFixU_hexUpper k n
  rwa [List.all_eq_true] at this

theorem canonText_addr (W : Nat) (sh : Shape) (x : Int) (hsh : Shape.isAddr sh = true) :
    canonText W sh x = leadOf sh ++ '$' :: (hexFixU (W / 4 + W / 4) x.toNat ++ afterOf sh) := by
  cases sh <;> simp [Shape.isAddr] at hsh <;> simp [canonText, hexFixU_split, leadOf, afterOf]

theorem canonText_nil {W : Nat} {sh : Shape} {x : Int} (h : canonText W sh x = []) : sh = .none := by
  cases sh <;> simp [canonText, leadOf] at h ⊢

theorem leadOf_cases (sh : Shape) : leadOf sh = [] ∨ leadOf sh = ['('] := by cases sh <;> simp [leadOf]

theorem inRange_addr {W : Nat} {sh : Shape} {x : Int} (hsh : Shape.isAddr sh = true)
    (h : Shape.inRange W sh x = true) : 0 ≤ x ∧ x < 2 ^ (2 * W) := by
  cases sh <;> simp [Shape.isAddr] at hsh <;> simpa [Shape.inRange] using h

theorem hexFixU_inj (k a b : Nat) (ha : a < 16 ^ k) (hb : b < 16 ^ k) (e : hexFixU k a = hexFixU k b) : a = b := by
  have := congrArg (valL 16) e
  rwa [valL_hexFixU, valL_hexFixU, Nat.mod_eq_of_lt ha, Nat.mod_eq_of_lt hb] at this

theorem toNat_inj {a b : Int} (ha : 0 ≤ a) (hb : 0 ≤ b) (e : a.toNat = b.toNat) : a = b := by omega

/-- address operand: `[(]$hhhh…` is the canonical text of an address shape only, with that lead, that
value and that rest -/
theorem canon_inv_addr (h : DevOK d v W) (Lr α : Str) (n x : Int) (sh : Shape) (hn : 0 ≤ n ∧ n < 2 ^ (2 * W))
    (hin : Shape.inRange W sh x = true) (hL : Lr = [] ∨ Lr = ['(']) (hα : AfterAlpha α)
    (e : Lr ++ ('$' :: hexFixU (W / 4 + W / 4) n.toNat) ++ α = canonText W sh x) :
    Shape.isAddr sh = true ∧ Lr = leadOf sh ∧ α = afterOf sh ∧ x = n := by
  have hsh : Shape.isAddr sh = true := by
    cases sh
    case none => rcases hL with rfl | rfl <;> simp [canonText] at e
    case acc => rcases hL with rfl | rfl <;> simp [canonText] at e
    case imm => rcases hL with rfl | rfl <;> simp [canonText] at e
    all_goals rfl
  rw [canonText_addr W sh x hsh] at e
  have key : Lr = leadOf sh ∧
      hexFixU (W / 4 + W / 4) n.toNat ++ α = hexFixU (W / 4 + W / 4) x.toNat ++ afterOf sh := by
    rcases hL with rfl | rfl <;> rcases leadOf_cases sh with hl | hl <;> rw [hl] at e ⊢ <;> simp at e
    · exact ⟨rfl, e⟩
    · exact ⟨rfl, e⟩
  obtain ⟨k1, k2⟩ := key
  obtain ⟨e1, e2⟩ := hex_span_unique (hexFixU_mem_hexUpper _ _) (hexFixU_mem_hexUpper _ _)
    (afterAlpha_head hα) (afterAlpha_head (afterOf_alpha sh)) k2
  have hx := inRange_addr hsh hin
  have := hexFixU_inj _ _ _ (toNat_lt_pow h n hn.2) (toNat_lt_pow h x hx.2) e1
  exact ⟨hsh, k1, e2, (toNat_inj hn.1 hx.1 this).symm⟩

theorem toNat_lt_byte (h : DevOK d v W) (x : Int) (h0 : 0 ≤ x) (h1 : x < 2 ^ W) : x.toNat < 16 ^ (W / 4) := by
  rw [h.pow16]
  have : ((x.toNat : Nat) : Int) = x := Int.toNat_of_nonneg h0
  exact_mod_cast (this ▸ h1 : ((x.toNat : Nat) : Int) < 2 ^ W)

/-- immediate operand: `#$hh` is the canonical text of the immediate shape only -/
theorem canon_inv_imm (h : DevOK d v W) (Lr α : Str) (n x : Int) (sh : Shape) (hn : 0 ≤ n ∧ n < 2 ^ W)
    (hin : Shape.inRange W sh x = true) (hL : Lr = [] ∨ Lr = ['(']) (hα : AfterAlpha α)
    (e : Lr ++ ('#' :: '$' :: hexFixU (W / 4) n.toNat) ++ α = canonText W sh x) :
    sh = .imm ∧ Lr = [] ∧ α = [] ∧ x = n := by
  cases sh
  case none => rcases hL with rfl | rfl <;> simp [canonText] at e
  case acc => rcases hL with rfl | rfl <;> simp [canonText] at e
  case imm =>
    rcases hL with rfl | rfl
    · simp only [canonText, List.nil_append, List.cons_append, List.cons.injEq, true_and] at e
      have e' : hexFixU (W / 4) n.toNat ++ α = hexFixU (W / 4) x.toNat ++ [] := by rw [List.append_nil]; exact e
      obtain ⟨e1, e2⟩ := hex_span_unique (hexFixU_mem_hexUpper _ _) (hexFixU_mem_hexUpper _ _)
        (afterAlpha_head hα) (by simp) e'
      simp only [Shape.inRange, decide_eq_true_eq] at hin
      have b1 := toNat_lt_byte h n hn.1 hn.2
      have b2 := toNat_lt_byte h x hin.1 hin.2
      exact ⟨rfl, rfl, e2, (toNat_inj hn.1 hin.1 (hexFixU_inj _ _ _ b1 b2 e1)).symm⟩
    · simp [canonText] at e
  all_goals
    exfalso
    rw [canonText_addr W _ x rfl] at e
    rcases hL with rfl | rfl <;> simp [leadOf] at e

/-- accumulator operand: `A` is the canonical text of the accumulator shape only -/
theorem canon_inv_acc (Lr α : Str) (x : Int) (sh : Shape) (hL : Lr = [] ∨ Lr = ['('])
    (e : Lr ++ ['A'] ++ α = canonText W sh x) : sh = .acc ∧ Lr = [] ∧ α = [] := by
  cases sh
  case none => rcases hL with rfl | rfl <;> simp [canonText] at e
  case acc =>
    rcases hL with rfl | rfl
    · simp only [canonText, List.nil_append, List.cons_append, List.cons.injEq, true_and] at e
      exact ⟨rfl, rfl, e⟩
    · simp [canonText] at e
  case imm => rcases hL with rfl | rfl <;> simp [canonText] at e
  all_goals
    exfalso
    rw [canonText_addr W _ x rfl] at e
    rcases hL with rfl | rfl <;> simp [leadOf] at e

/-- what `'#$' + BYTE_FORMAT % number` tells about `number` -/
theorem immText_ok_inv (h : DevOK d v W) (n : Int) (t : Str) (ht : immText d n = .ok t) :
    (0 ≤ n ∧ n < 2 ^ W) ∧ upperS t = '#' :: '$' :: hexFixU (W / 4) n.toNat := by
  by_cases hr : 0 ≤ n ∧ n < 2 ^ W
  · obtain ⟨t', h1, h2⟩ := immText_canon h n hr.1 hr.2
    rw [h1] at ht
    cases ht
    exact ⟨hr, h2⟩
  · rw [immText_out h n hr] at ht; cases ht

theorem addrText_ok_inv (h : DevOK d v W) (n : Int) (t : Str) (hn : 0 ≤ n ∧ n < 2 ^ (2 * W))
    (ht : addrText d n = .ok t) : upperS t = '$' :: hexFixU (W / 4 + W / 4) n.toNat := by
  obtain ⟨t', h1, h2⟩ := addrText_canon h n hn.1 hn.2
  rw [h1] at ht
  cases ht
  rw [h2, hexFixU_split]

/-- `AddressParser.number` reads `$` and any mixture of letter cases of the fixed-width digits of
`y` back as `y` -/
theorem numberL_dollar_upper (P : Parser) (K : Nat) (H : Str) (y : Nat) (hK : 1 ≤ K)
    (hH : upperS H = hexFixU K y) (hy : y < 16 ^ K) (hmax : (y : Int) ≤ P.maxaddr) :
    numberL P ('$' :: H) = .ok (y : Int) := by
  have hdig : DigStr 16 H := by
    intro c hc
    apply isDig_of_upper
    apply hexFixU_digStr K y
    rw [← hH]
    exact List.mem_map_of_mem hc
  have hne : H ≠ [] := by
    intro e
    rw [e] at hH
    obtain ⟨k, rfl⟩ : ∃ k, K = k + 1 := ⟨K - 1, by omega⟩
    rw [hexFixU_succ] at hH
    simp [upperS] at hH
  have hv : valL 16 H = y := by
    have : valL 16 (upperS H) = valL 16 H := valAcc_upperS 16 0 H
    rw [← this, hH, valL_hexFixU, Nat.mod_eq_of_lt hy]
  rw [(numberL_prefix P H).1, pyIntL_digits (by decide) (by decide) hne hdig (Or.inl rfl), hv]
  exact constrain_in (Int.natCast_nonneg y) hmax

end canon

/-! ## S8: the two paths of `normalize_and_split` -/

section paths
variable {d : Dev} {v : Variant} {W : Nat}

theorem parseOperand_word_acc (w : Str) (h : isA w = true) : parseOperand [.word w] = some (.acc, []) := by
  simp [parseOperand, h]

theorem parseOperand_word_imm (r : Str) : parseOperand [.word ('#' :: r)] = some (.imm, r) := by
  simp [parseOperand, isA]

theorem parseOperand_word_dir (w : Str) (h1 : w ≠ ['A'] ∧ w ≠ ['a']) (h2 : ∀ r, w ≠ '#' :: r) :
    parseOperand [.word w] = some (.dir, w) := by
  have : isA w = false := by simp [isA, h1.1, h1.2]
  cases w with
  | nil => rfl
  | cons c r =>
    have hc : c ≠ '#' := fun e => h2 r (by rw [e])
    simp only [parseOperand, this, Bool.false_eq_true, if_false]

/-- the operand tokens of an address shape denote that shape and the operand word -/
theorem parseOperand_addr (sh : Shape) (hsh : Shape.isAddr sh = true) (t cs : Str) (hcs : cs ∈ afterVariants sh)
    (h1 : t ≠ ['A'] ∧ t ≠ ['a']) (h2 : ∀ r, t ≠ '#' :: r) :
    parseOperand (leadToks sh ++ .word t :: tokensAux cs []) = some (sh, t) := by
  have := parseOperand_variants sh t cs hcs
  cases sh <;> simp [Shape.isAddr] at hsh
  case dir =>
    simp only at this
    rw [this]
    exact parseOperand_word_dir t h1 h2
  all_goals exact this

theorem blank_sp : Blank [' '] := by intro c hc; simp at hc; subst hc; decide

theorem noBlank_removeWs (u : Str) : NoBlank (removeWs u) := by
  intro c hc
  simpa [removeWs] using (List.mem_filter.mp hc).2

theorem target_plain {c : Char} (h : isTargetChar c = true) (hp : c ≠ '(') : Plain c := by
  simp only [isTargetChar, Bool.not_eq_true', Bool.or_eq_false_iff, decide_eq_false_iff_not] at h
  exact ⟨h.1.2, hp, h.2, h.1.1⟩

/-- a word that `AddressParser.number` values, found by the scanner, is one word for the tokeniser -/
theorem wordLike_number (P : Parser) (hlab : LabelsNoParen P) (t : Str) (n : Int)
    (htc : ∀ c ∈ t, isTargetChar c = true) (h : numberL P t = .ok n) : ∀ c ∈ t, Plain c := by
  have hno := numberL_no_lparen P hlab t n h
  intro c hc
  exact target_plain (htc c hc) (fun e => hno (e ▸ hc))

theorem maxaddr_eq (P : Parser) (hPw : P.width = 2 * W) : P.maxaddr = 2 ^ (2 * W) - 1 := by
  unfold Parser.maxaddr; rw [hPw]

theorem byte_le_addr (h : DevOK d v W) (x : Int) (hx : x < 2 ^ W) : x ≤ 2 ^ (2 * W) - 1 := by
  rcases h.hW with rfl | rfl
  · norm_num at hx ⊢; omega
  · norm_num at hx ⊢; omega

theorem upper_eq_A {c : Char} (h : upper c = 'A') : c = 'A' ∨ c = 'a' := by
  rcases upper_eq_letter (k := 65) (by decide) (by rw [h]; rfl) with e | e
  · left; exact char_of_toNat e
  · right; exact char_of_toNat e

theorem upperS_eq_nil {r : Str} (h : upperS r = []) : r = [] := by
  cases r with
  | nil => rfl
  | cons _ _ => simp [upperS] at h

theorem upperS_eq_cons {r : Str} {c : Char} {b : Str} (h : upperS r = c :: b) :
    ∃ c' r', r = c' :: r' ∧ upper c' = c ∧ upperS r' = b := by
  cases r with
  | nil => simp [upperS] at h
  | cons c' r' =>
    simp only [upperS, List.map_cons, List.cons.injEq] at h
    exact ⟨c', r', rfl, h.1, h.2⟩

theorem upperS_eq_append {r a b : Str} (h : upperS r = a ++ b) :
    ∃ r1 r2, r = r1 ++ r2 ∧ upperS r1 = a ∧ upperS r2 = b := by
  unfold upperS at h
  obtain ⟨r1, r2, e, h1, h2⟩ := List.map_eq_append_iff.mp h
  exact ⟨r1, r2, e, h1, h2⟩

theorem upperS_leadOf {l : Str} {sh : Shape} (h : upperS l = leadOf sh) : l = leadOf sh := by
  rcases leadOf_cases sh with e | e <;> rw [e] at h ⊢
  · exact upperS_eq_nil h
  · obtain ⟨c, r, rfl, h1, h2⟩ := upperS_eq_cons h
    rw [upperS_eq_nil h2, upper_eq_punct (by decide) h1]

/-- the opcode of the fall-back path is a mnemonic -/
theorem fallback_opcode (n o tl : Str) (hN1 : ∀ c ∈ n, isReSpace c = true → c = ' ') (hn : n = o ++ tl)
    (hosp : ' ' ∉ o) (sh : Shape) (x pc : Int) (bs : List Int)
    (henc : encode v W ⟨upperS (strip o), sh, x⟩ pc = .ok bs) :
    IsMnem o ∧ encode v W ⟨upperS o, sh, x⟩ pc = .ok bs := by
  have honb : NoBlank o := by
    intro c hc
    cases hs : isReSpace c with
    | false => rfl
    | true =>
      have := hN1 c (by rw [hn]; simp [hc]) hs
      exact absurd (this ▸ hc) hosp
  rw [strip_noBlank o honb] at henc
  exact ⟨isMnem_of_upper (encode_ok_mnem henc), henc⟩

/-- nothing but the mnemonic -/
theorem sound_bare (P : Parser) (o b : Str) (hM : IsMnem o) (hb : Blank b) (x pc : Int) (bs : List Int)
    (henc : encode v W ⟨upperS o, .none, x⟩ pc = .ok bs) :
    ∃ m sh' w x', parse (o ++ b) = some (m, sh', w) ∧ value P sh' w = .ok x' ∧
      encode v W ⟨m, sh', x'⟩ pc = .ok bs := by
  refine ⟨upperS o, .none, [], 0, ?_, rfl, ?_⟩
  · exact parse_of_tokens (tokens_bare o b hM hb) rfl
  · rw [← encode_none_val]; exact henc

/-- mnemonic, white space, and a text `q` that upper-cased is the canonical text of an address shape -/
theorem sound_rest_addr (h : DevOK d v W) (P : Parser) (hPw : P.width = 2 * W) (o b1 q b2 : Str)
    (hM : IsMnem o) (hb1 : Blank b1) (hb2 : Blank b2) (sh : Shape) (hsh : Shape.isAddr sh = true) (x pc : Int)
    (bs : List Int) (hin : Shape.inRange W sh x = true) (hod : upperS q = canonText W sh x)
    (henc : encode v W ⟨upperS o, sh, x⟩ pc = .ok bs) :
    ∃ m sh' w x', parse (o ++ ' ' :: (b1 ++ (q ++ b2))) = some (m, sh', w) ∧ value P sh' w = .ok x' ∧
      encode v W ⟨m, sh', x'⟩ pc = .ok bs := by
  rw [canonText_addr W sh x hsh] at hod
  obtain ⟨l1, q1, rfl, hl1, hq1⟩ := upperS_eq_append hod
  obtain ⟨c2, q2, rfl, hc2, hq2⟩ := upperS_eq_cons hq1
  obtain ⟨H, A0, rfl, hH, hA0⟩ := upperS_eq_append hq2
  have := upperS_leadOf hl1; subst this
  have := upper_eq_punct (p := '$') (by decide) hc2; subst this
  have hx := inRange_addr hsh hin
  have hmax := maxaddr_eq (W := W) P hPw
  have hA0v := afterOf_inv sh A0 hA0
  obtain ⟨_, _, hA0nb, hA0h⟩ := afterVariants_facts sh A0 hA0v
  have hws : Blank (' ' :: b1) := by
    intro c hc
    simp only [List.mem_cons] at hc
    rcases hc with rfl | hc
    · decide
    · exact hb1 c hc
  have hHp : ∀ c ∈ H, Plain c := by
    intro c hc
    apply isDig_plain (b := 16)
    apply isDig_of_upper
    apply hexFixU_digStr (W / 4 + W / 4) x.toNat
    rw [← hH]
    exact List.mem_map_of_mem hc
  have hwl : WordLike ('$' :: H) := by
    refine wordLike_plain (by simp) ?_ (by simp) (by simp)
    intro c hc
    simp only [List.mem_cons] at hc
    rcases hc with rfl | hc
    · exact ⟨by decide, by decide, by decide, by decide⟩
    · exact hHp c hc
  have hah : ∀ c, (A0 ++ b2).head? = some c → isTargetChar c = false := by
    intro c hc
    cases A0 with
    | nil =>
      simp only [List.nil_append] at hc
      simp [isTargetChar, hb2 c (List.mem_of_mem_head? hc)]
    | cons a A' =>
      exact hA0h c (by simpa using hc)
  have hLc : ∀ c ∈ leadOf sh, isReSpace c = true ∨ c = '(' := by
    intro c hc
    rcases leadOf_cases sh with e | e <;> rw [e] at hc
    · cases hc
    · right; simpa using hc
  have hLr : removeWs (leadOf sh) = leadOf sh := by
    rcases leadOf_cases sh with e | e <;> rw [e] <;> rfl
  obtain ⟨cs, hcs, htok⟩ := tokens_structured sh o (' ' :: b1) (leadOf sh) ('$' :: H) (A0 ++ b2) hM hws (by simp)
    hLc hLr hwl hah (by rw [removeWs_append, removeWs_blank b2 hb2, List.append_nil, removeWs_noBlank A0 hA0nb, hA0])
  have hcast : ((x.toNat : Nat) : Int) = x := Int.toNat_of_nonneg hx.1
  have hnum := numberL_dollar_upper P (W / 4 + W / 4) H x.toNat (by have := h.n_pos; omega) hH
    (toNat_lt_pow h x hx.2) (by rw [hcast, hmax]; omega)
  rw [hcast] at hnum
  refine ⟨upperS o, sh, '$' :: H, x, ?_, ?_, henc⟩
  · have e : o ++ ' ' :: (b1 ++ (leadOf sh ++ '$' :: (H ++ A0) ++ b2)) =
        o ++ ((' ' :: b1) ++ (leadOf sh ++ (('$' :: H) ++ (A0 ++ b2)))) := by simp
    rw [e]
    exact parse_of_tokens htok (parseOperand_addr sh hsh _ cs hcs (by simp) (by simp))
  · cases sh <;> simp [Shape.isAddr] at hsh <;> exact hnum

/-- mnemonic, white space, and a text `q` that upper-cased is the canonical text of `(sh, x)` -/
theorem sound_rest (h : DevOK d v W) (P : Parser) (hPw : P.width = 2 * W) (o b1 q b2 : Str)
    (hM : IsMnem o) (hb1 : Blank b1) (hb2 : Blank b2) (sh : Shape) (x pc : Int)
    (bs : List Int) (hin : Shape.inRange W sh x = true) (hod : upperS q = canonText W sh x)
    (henc : encode v W ⟨upperS o, sh, x⟩ pc = .ok bs) :
    ∃ m sh' w x', parse (o ++ ' ' :: (b1 ++ (q ++ b2))) = some (m, sh', w) ∧ value P sh' w = .ok x' ∧
      encode v W ⟨m, sh', x'⟩ pc = .ok bs := by
  have hws : Blank (' ' :: b1) := by
    intro c hc
    simp only [List.mem_cons] at hc
    rcases hc with rfl | hc
    · decide
    · exact hb1 c hc
  have hb2h : ∀ c, b2.head? = some c → isTargetChar c = false := by
    intro c hc
    simp [isTargetChar, hb2 c (List.mem_of_mem_head? hc)]
  have hmax := maxaddr_eq (W := W) P hPw
  cases sh
  case none =>
    have hq : q = [] := upperS_eq_nil (by rw [hod]; rfl)
    subst hq
    have hb : Blank (' ' :: (b1 ++ ([] ++ b2))) := by
      intro c hc
      simp only [List.mem_cons, List.mem_append, List.nil_append] at hc
      rcases hc with rfl | hc | hc
      · decide
      · exact hb1 c hc
      · exact hb2 c hc
    exact sound_bare P o _ hM hb x pc bs henc
  case acc =>
    obtain ⟨a0, q', rfl, ha0, hq'⟩ := upperS_eq_cons (show upperS q = 'A' :: [] from hod)
    have := upperS_eq_nil hq'
    subst this
    have haA := upper_eq_A ha0
    have hwl : WordLike [a0] := by
      refine wordLike_plain (by simp) ?_ (by simp) (by simp)
      intro c hc
      simp only [List.mem_cons, List.mem_nil_iff, or_false] at hc
      subst hc
      rcases haA with rfl | rfl <;> exact ⟨by decide, by decide, by decide, by decide⟩
    obtain ⟨cs, hcs, htok⟩ := tokens_structured .acc o (' ' :: b1) [] [a0] b2 hM hws (by simp)
      (by intro c hc; cases hc) rfl hwl hb2h (by rw [removeWs_blank b2 hb2]; rfl)
    have hv := parseOperand_variants .acc [a0] cs hcs
    simp only at hv
    rw [hv] at htok
    refine ⟨upperS o, .acc, [], 0, ?_, rfl, ?_⟩
    · have e : o ++ ' ' :: (b1 ++ ([a0] ++ b2)) = o ++ ((' ' :: b1) ++ ([] ++ ([a0] ++ b2))) := by simp
      rw [e]
      exact parse_of_tokens htok (parseOperand_word_acc _ (by rcases haA with rfl | rfl <;> rfl))
    · rw [← encode_acc_val]; exact henc
  case imm =>
    simp only [canonText] at hod
    obtain ⟨c1, q1, rfl, hc1, hq1⟩ := upperS_eq_cons hod
    obtain ⟨c2, H, rfl, hc2, hH⟩ := upperS_eq_cons hq1
    have := upper_eq_punct (p := '#') (by decide) hc1; subst this
    have := upper_eq_punct (p := '$') (by decide) hc2; subst this
    simp only [Shape.inRange, decide_eq_true_eq] at hin
    have hHp : ∀ c ∈ H, Plain c := by
      intro c hc
      apply isDig_plain (b := 16)
      apply isDig_of_upper
      apply hexFixU_digStr (W / 4) x.toNat
      rw [← hH]
      exact List.mem_map_of_mem hc
    have hwl : WordLike ('#' :: '$' :: H) := by
      refine wordLike_plain (by simp) ?_ (by simp) (by simp)
      intro c hc
      simp only [List.mem_cons] at hc
      rcases hc with rfl | rfl | hc
      · exact ⟨by decide, by decide, by decide, by decide⟩
      · exact ⟨by decide, by decide, by decide, by decide⟩
      · exact hHp c hc
    obtain ⟨cs, hcs, htok⟩ := tokens_structured .imm o (' ' :: b1) [] ('#' :: '$' :: H) b2 hM hws (by simp)
      (by intro c hc; cases hc) rfl hwl hb2h (by rw [removeWs_blank b2 hb2]; rfl)
    have hv := parseOperand_variants .imm ('#' :: '$' :: H) cs hcs
    simp only at hv
    rw [hv] at htok
    have hcast : ((x.toNat : Nat) : Int) = x := Int.toNat_of_nonneg hin.1
    have hnum := numberL_dollar_upper P (W / 4) H x.toNat h.n_pos hH (toNat_lt_byte h x hin.1 hin.2)
      (by rw [hcast, hmax]; exact byte_le_addr h x hin.2)
    rw [hcast] at hnum
    refine ⟨upperS o, .imm, '$' :: H, x, ?_, ?_, henc⟩
    · have e : o ++ ' ' :: (b1 ++ ('#' :: '$' :: H ++ b2)) =
          o ++ ((' ' :: b1) ++ ([] ++ (('#' :: '$' :: H) ++ b2))) := by simp
      rw [e]
      exact parse_of_tokens htok (parseOperand_word_imm _)
    · have hq : ¬ (('$' : Char) = '\'' ∨ ('$' : Char) = '"') := by decide
      cases H with
      | nil => exact hnum
      | cons c H' => simp only [value, charLit, hq, false_and, if_false]; exact hnum
  all_goals exact sound_rest_addr h P hPw o b1 q b2 hM hb1 hb2 _ rfl x pc bs hin hod henc

/-- what became of the operand word `t` in `normalize_and_split` -/
inductive Retargeted (d : Dev) (P : Parser) (t t' : Str) : Prop
  | charlit (q ch : Char) (r3 : Str) (ht : t = '#' :: q :: ch :: r3) (hq : q = '\'' ∨ q = '"')
      (hr3 : r3 = [] ∨ r3 = [q]) (h : immText d (ch.toNat : Int) = .ok t')
  | imm (rest : Str) (n : Int) (ht : t = '#' :: rest) (hq : rest.head? ≠ some '\'' ∧ rest.head? ≠ some '"')
      (hne : rest ≠ []) (hn : numberL P rest = .ok n) (h : immText d n = .ok t')
  | acc (ht : t = ['a'] ∨ t = ['A']) (h : t' = t)
  | addr (hh : ∀ r, t ≠ '#' :: r) (ha : t ≠ ['A'] ∧ t ≠ ['a']) (n : Int) (hn : numberL P t = .ok n)
      (h : addrText d n = .ok t')

theorem ofRes_ok {r : Res} {k : Int → TRes} {t' : Str} (h : TRes.ofRes r k = .ok t') :
    ∃ n, r = .ok n ∧ k n = .ok t' := by
  cases r with
  | ok n => exact ⟨n, rfl, h⟩
  | key => cases h
  | overflow => cases h
  | other => cases h

theorem retarget_inv (P : Parser) (t t' : Str) (h : retarget d P t = .ok t') : Retargeted d P t t' := by
  unfold retarget at h
  split at h
  · rename_i rest
    split at h
    · cases h
    · rename_i q rest2
      split_ifs at h with hq
      · split at h
        · cases h
        · rename_i ch rest3
          split_ifs at h with hr3
          exact .charlit q ch rest3 rfl hq hr3 h
      · obtain ⟨n, hn, hk⟩ := ofRes_ok h
        have hq' : q ≠ '\'' ∧ q ≠ '"' := by
          constructor <;> (intro e; exact hq (by simp [e]))
        exact .imm (q :: rest2) n rfl (by simp [hq'.1, hq'.2]) (by simp) hn hk
  · rename_i hns
    split_ifs at h with ha
    · cases h
      exact .acc ha rfl
    · obtain ⟨n, hn, hk⟩ := ofRes_ok h
      have ha' : t ≠ ['A'] ∧ t ≠ ['a'] := ⟨fun e => ha (Or.inr e), fun e => ha (Or.inl e)⟩
      exact .addr (fun r e => hns r e) ha' n hn hk

/-- The `Statement` path: the scanner matched `n = b ++ t ++ a`, the operand word `t` was rewritten
to `t'`, and the operand handed to the back end is the canonical text of `(sh, x)`. -/
theorem sound_match (h : DevOK d v W) (P : Parser) (hPw : P.width = 2 * W) (hwf : P.WF) (hlab : LabelsNoParen P)
    (n b t a t' : Str) (hN1 : ∀ c ∈ n, isReSpace c = true → c = ' ') (hm : matchStatement n = some (b, t, a))
    (hr : retarget d P t = .ok t') (oc od : Str)
    (hn : (match splitSp1 b with
          | (opcode, some lead) => NRes.ok (upperS (strip opcode)) (upperS (strip (removeWs (lead ++ t' ++ a))))
          | (_, none) => NRes.other "unpack") = .ok oc od)
    (sh : Shape) (x pc : Int) (bs : List Int) (hin : Shape.inRange W sh x = true)
    (hod : od = canonText W sh x) (henc : encode v W ⟨oc, sh, x⟩ pc = .ok bs) :
    ∃ m sh' w x', parse n = some (m, sh', w) ∧ value P sh' w = .ok x' ∧ encode v W ⟨m, sh', x'⟩ pc = .ok bs := by
  obtain ⟨⟨M, ws1, L, hM, hws, hws1, hLf, hb⟩, hwhole, htne, htc, hah, hal⟩ := matchStatement_inv n b t a hm
  obtain ⟨hMnb, hMsp, hMne⟩ := hM.noBlank
  -- `before.split(" ", 1)`
  obtain ⟨w, ws1', rfl⟩ := List.exists_cons_of_ne_nil hws1
  have hw : w = ' ' := by
    apply hN1 w _ (hws w (by simp))
    rw [hwhole, hb]; simp
  subst hw
  have hsplit : splitSp1 b = (M, some (ws1' ++ L)) := by
    rw [hb]; exact splitSp1_word M (ws1' ++ L) hMsp
  rw [hsplit] at hn
  simp only [NRes.ok.injEq] at hn
  obtain ⟨hoc, hod'⟩ := hn
  rw [strip_noBlank M hMnb] at hoc
  subst hoc
  -- the operand
  have hws' : Blank ws1' := fun c hc => hws c (by simp [hc])
  have hLc : ∀ c ∈ L, isReSpace c = true ∨ c = '(' := by
    intro c hc
    rcases hLf with rfl | ⟨ws2, rfl, hws2⟩
    · cases hc
    · simp only [List.mem_cons] at hc
      rcases hc with rfl | hc
      · right; rfl
      · left; exact hws2 c hc
  have hLr : removeWs L = [] ∨ removeWs L = ['('] := by
    rcases hLf with rfl | ⟨ws2, rfl, hws2⟩
    · left; rfl
    · right
      rw [removeWs_cons_word _ (by decide), removeWs_blank ws2 hws2]
  have hLu : upperS (removeWs L) = removeWs L := by rcases hLr with e | e <;> rw [e] <;> rfl
  have hα := afterAlpha_of hal
  have hmax := maxaddr_eq (W := W) P hPw
  have hnE : n = M ++ ((' ' :: ws1') ++ (L ++ (t ++ a))) := by rw [hwhole, hb]; simp
  have hopnd : ∀ (hnb : NoBlank t'), removeWs L ++ upperS t' ++ upperS (removeWs a) = canonText W sh x := by
    intro hnb
    rw [← hod, ← hod', strip_noBlank _ (noBlank_removeWs _), removeWs_append, removeWs_append, removeWs_append,
      removeWs_blank ws1' hws', removeWs_noBlank t' hnb, List.nil_append, upperS_append, upperS_append, hLu]
  have hws0 : Blank (' ' :: ws1') := hws
  rcases retarget_inv P t t' hr with ⟨q, ch, r3, rfl, hq, hr3, hi⟩ | ⟨rest, nn, rfl, hq, hne, hnum, hi⟩ |
    ⟨hta, htt⟩ | ⟨hh, hta, nn, hnum, hi⟩
  · -- character literal
    obtain ⟨hrange, hu⟩ := immText_ok_inv h _ _ hi
    have e := hopnd (immText_noBlank h _ _ hi)
    rw [hu] at e
    obtain ⟨rfl, e1, e2, rfl⟩ := canon_inv_imm h _ _ _ x sh hrange hin hLr hα e
    have hchb : isReSpace ch = false := target_not_space (htc ch (by simp))
    obtain ⟨cs, hcs, htok⟩ := tokens_structured .imm M (' ' :: ws1') L _ a hM hws0 (by simp) hLc e1
      (wordLike_charlit q ch r3 hq hchb hr3) hah e2
    have hv := parseOperand_variants .imm ('#' :: q :: ch :: r3) cs hcs
    simp only at hv
    rw [hv] at htok
    refine ⟨upperS M, .imm, q :: ch :: r3, (ch.toNat : Int), ?_, ?_, henc⟩
    · rw [hnE]
      exact parse_of_tokens htok (parseOperand_word_imm _)
    · simp only [value, charLit, hq, hr3, and_self, if_true]
  · -- immediate number / label
    obtain ⟨hrange, hu⟩ := immText_ok_inv h _ _ hi
    have e := hopnd (immText_noBlank h _ _ hi)
    rw [hu] at e
    obtain ⟨rfl, e1, e2, rfl⟩ := canon_inv_imm h _ _ _ x sh hrange hin hLr hα e
    have hrp := wordLike_number P hlab rest x (fun c hc => htc c (by simp [hc])) hnum
    obtain ⟨q0, rest', rfl⟩ := List.exists_cons_of_ne_nil hne
    have hq1 : q0 ≠ '\'' := fun e => hq.1 (by simp [e])
    have hq2 : q0 ≠ '"' := fun e => hq.2 (by simp [e])
    have hwl : WordLike ('#' :: q0 :: rest') := by
      refine wordLike_plain (by simp) ?_ (by simp [hq1]) (by simp [hq2])
      intro c hc
      simp only [List.mem_cons] at hc
      rcases hc with rfl | hc
      · exact ⟨by decide, by decide, by decide, by decide⟩
      · exact hrp c (by simpa using hc)
    obtain ⟨cs, hcs, htok⟩ := tokens_structured .imm M (' ' :: ws1') L _ a hM hws0 (by simp) hLc e1 hwl hah e2
    have hv := parseOperand_variants .imm ('#' :: q0 :: rest') cs hcs
    simp only at hv
    rw [hv] at htok
    refine ⟨upperS M, .imm, q0 :: rest', x, ?_, ?_, henc⟩
    · rw [hnE]
      exact parse_of_tokens htok (parseOperand_word_imm _)
    · have : ¬ (q0 = '\'' ∨ q0 = '"') := fun e => e.elim hq1 hq2
      cases rest' with
      | nil => exact hnum
      | cons c r => simp only [value, charLit, this, false_and, if_false]; exact hnum
  · -- accumulator
    have htt' := htt.symm
    subst htt'
    have hnb : NoBlank t := fun c hc => target_not_space (htc c hc)
    have e := hopnd hnb
    have hu : upperS t = ['A'] := by rcases hta with rfl | rfl <;> rfl
    rw [hu] at e
    obtain ⟨rfl, e1, e2⟩ := canon_inv_acc _ _ x sh hLr e
    have hwl : WordLike t := by
      refine wordLike_plain htne ?_ (by rcases hta with rfl | rfl <;> simp) (by rcases hta with rfl | rfl <;> simp)
      intro c hc
      rcases hta with rfl | rfl <;> (simp at hc; subst hc; exact ⟨by decide, by decide, by decide, by decide⟩)
    obtain ⟨cs, hcs, htok⟩ := tokens_structured .acc M (' ' :: ws1') L t a hM hws0 (by simp) hLc e1 hwl hah e2
    have hv := parseOperand_variants .acc t cs hcs
    simp only at hv
    rw [hv] at htok
    refine ⟨upperS M, .acc, [], 0, ?_, rfl, ?_⟩
    · rw [hnE]
      exact parse_of_tokens htok (parseOperand_word_acc _ (by rcases hta with rfl | rfl <;> rfl))
    · rw [← encode_acc_val]; exact henc
  · -- address
    have hbd := numberL_bounded hwf hnum
    have hrange : 0 ≤ nn ∧ nn < 2 ^ (2 * W) := by rw [hmax] at hbd; omega
    have hu := addrText_ok_inv h nn t' hrange hi
    have e := hopnd (addrText_noBlank h _ _ hi)
    rw [hu] at e
    obtain ⟨hsh, e1, e2, rfl⟩ := canon_inv_addr h _ _ _ x sh hrange hin hLr hα e
    have hrp := wordLike_number P hlab t x htc hnum
    have hwl : WordLike t := by
      refine wordLike_plain htne hrp (fun e => hh _ e) (fun e => hh _ e)
    obtain ⟨cs, hcs, htok⟩ := tokens_structured sh M (' ' :: ws1') L t a hM hws0 (by simp) hLc e1 hwl hah e2
    refine ⟨upperS M, sh, t, x, ?_, ?_, henc⟩
    · rw [hnE]
      exact parse_of_tokens htok (parseOperand_addr sh hsh t cs hcs hta hh)
    · cases sh <;> simp [Shape.isAddr] at hsh <;> exact hnum

/-- **Never mis-assembles, every text.**  If the model of `Assembler.assemble` returns bytes for a
statement text `s`, then the token sequence of `s` denotes a statement `(m, sh, w)` in the documented
syntax, the operand word `w` has a value `x`, and the bytes are the documented encoding of
`(m, sh, x)` at `pc`. -/
theorem asm_sound_gen (h : DevOK d v W) (P : Parser) (hPw : P.width = 2 * W) (hwf : P.WF) (hlab : LabelsNoParen P)
    (s : Str) (pc : Int) (bs : List Int) (hb : assembleL d P s pc = .ok bs) :
    ∃ m sh w x, parse s = some (m, sh, w) ∧ value P sh w = .ok x ∧ encode v W ⟨m, sh, x⟩ pc = .ok bs := by
  unfold assembleL at hb
  cases hn : normalizeAndSplit d P s with
  | ok oc od =>
    rw [hn] at hb
    simp only at hb
    obtain ⟨sh, x, hin, hod, henc⟩ := backend_sound h oc od pc bs hb
    rw [← parse_normWs]
    have hN1 : ∀ c ∈ normWs s, isReSpace c = true → c = ' ' := by
      rw [normWs_eq]; exact nrmAux_blank_is_space _ _
    unfold normalizeAndSplit at hn
    simp only at hn
    generalize normWs s = n at hn hN1 ⊢
    cases hm : matchStatement n with
    | none =>
      rw [hm] at hn
      simp only at hn
      rcases hsp : splitSp1 n with ⟨o, _ | r⟩
      · rw [hsp] at hn
        simp only [NRes.ok.injEq] at hn
        obtain ⟨rfl, rfl⟩ := hn
        obtain ⟨e, hosp⟩ := (splitSp1_spec n).1 o hsp
        subst e
        obtain ⟨hM, henc'⟩ := fallback_opcode n n [] hN1 (by simp) hosp sh x pc bs henc
        have hs := canonText_nil hod.symm
        subst hs
        have := sound_bare P n [] hM (by intro c hc; cases hc) x pc bs henc'
        rwa [List.append_nil] at this
      · rw [hsp] at hn
        simp only [NRes.ok.injEq] at hn
        obtain ⟨rfl, rfl⟩ := hn
        obtain ⟨e, hosp⟩ := (splitSp1_spec n).2 o r hsp
        obtain ⟨hM, henc'⟩ := fallback_opcode n o (' ' :: r) hN1 e hosp sh x pc bs henc
        obtain ⟨b1, b2, hb1, hb2, hr⟩ := strip_decomp r
        have := sound_rest h P hPw o b1 (strip r) b2 hM hb1 hb2 sh x pc bs hin hod henc'
        rwa [← hr, ← e] at this
    | some m =>
      obtain ⟨b, t, a⟩ := m
      rw [hm] at hn
      simp only at hn
      cases hr : retarget d P t with
      | ok t' =>
        rw [hr] at hn
        simp only at hn
        exact sound_match h P hPw hwf hlab n b t a t' hN1 hm hr oc od hn sh x pc bs hin hod henc
      | «syntax» => rw [hr] at hn; simp at hn
      | overflow => rw [hr] at hn; simp at hn
      | key => rw [hr] at hn; simp at hn
      | other w => rw [hr] at hn; simp at hn
  | «syntax» => rw [hn] at hb; cases hb
  | overflow => rw [hn] at hb; cases hb
  | key => rw [hn] at hb; cases hb
  | other w => rw [hn] at hb; cases hb


end paths

end Py65.Proofs.Asm
