/-
Tie by regeneration, C20: the GENERATED dispatcher and state-owning commands
(`Py65/Gen/MonCmdGen.lean`, translated by `harness/py2lean_moncmd.py` on every run from
`Monitor.onecmd / do_registers / do_radix / do_width / do_add_label / do_delete_label / do_show_labels /
do_quit` of py65/monitor.py and from `cmd.Cmd.onecmd / parseline / default / emptyline` of the installed
standard library) equal the hand-written model `Py65.Model.MonCmd`, for ALL argument strings, lines and
session states, for ANY implementation `oth` of the commands that are not translated here, any traceback
text `tb` and any `repr` of the device `mr`.

These are the proof obligations a change of those methods (or of the table of `do_*` methods) breaks.
-/
import Py65.Gen.MonCmdGen
import Py65.Proofs.MonPreGenEq
import Py65.Proofs.NumLemmas

namespace Py65.Proofs.MonCmdGenEq
open Py65 Py65.Model Py65.Model.PyStr Py65.Model.AddrParser Py65.Model.MonCmd Py65.Model.MonGenRt
open Py65.Model.MonCmdRt Py65.Gen Py65.Proofs.MonCmd Py65.Proofs.MonPreGenEq

variable (oth : Str → Str → CmdSt → Flow CmdSt PyRet) (tb : Exc → Str) (mr : Core → Str)

/-! ### the tables -/

/-- The generated table of `do_*` attribute names is the model's command table (same words, same order). -/
theorem doNames_eq : MonCmdGen.doNames = commandTable.map (fun kv => "do_".toList ++ kv.1) := by decide

theorem identchars_sound : ∀ c ∈ MonCmdGen.identchars, isIdentChar c = true := by decide

theorem identchars_complete_nat : ∀ n < 123,
    ((97 ≤ n && n ≤ 122) || (65 ≤ n && n ≤ 90) || (48 ≤ n && n ≤ 57) || n = 95) = true →
      (MonCmdGen.identchars.map Char.toNat).contains n = true := by decide +kernel

/-- `c in self.identchars` is the model's `isIdentChar`. -/
theorem identchars_eq (c : Char) : pyIn c MonCmdGen.identchars = isIdentChar c := by
  unfold pyIn
  cases h : isIdentChar c with
  | true =>
    have hn : c.toNat < 123 := by
      simp only [isIdentChar, Bool.or_eq_true, Bool.and_eq_true, decide_eq_true_eq] at h
      rcases h with ((h | h) | h) | h
      · omega
      · omega
      · omega
      · subst h; decide
    have h2 : ((97 ≤ c.toNat && c.toNat ≤ 122) || (65 ≤ c.toNat && c.toNat ≤ 90) ||
        (48 ≤ c.toNat && c.toNat ≤ 57) || c.toNat = 95) = true := by
      simp only [isIdentChar, Bool.or_eq_true, Bool.and_eq_true, decide_eq_true_eq] at h ⊢
      rcases h with ((h | h) | h) | h
      · exact Or.inl (Or.inl (Or.inl h))
      · exact Or.inl (Or.inl (Or.inr h))
      · exact Or.inl (Or.inr h)
      · subst h; exact Or.inr rfl
    have h3 := identchars_complete_nat c.toNat hn h2
    rw [List.contains_iff_mem] at h3 ⊢
    obtain ⟨c', hc', e⟩ := List.mem_map.mp h3
    have : c' = c := Char.toNat_inj.mp e
    rw [← this]; exact hc'
  | false =>
    by_contra hc
    have hc' : MonCmdGen.identchars.contains c = true := by simpa using hc
    rw [List.contains_iff_mem] at hc'
    rw [identchars_sound c hc'] at h
    cases h

/-! ### `cmd.Cmd.parseline` -/

/-- The model's `Parsed` as the tuple `parseline` returns. -/
def parsedTuple : Parsed → Option Str × Option Str × Str
  | .empty => (none, none, [])
  | .noCmd l => (none, none, l)
  | .cmd w a l => (some w, some a, l)

theorem pyGetItem_nat {α : Type} (l : List α) (k : Nat) : pyGetItem l (k : Int) = l[k]? := by
  have h1 : ¬ ((k : Int) < 0) := by omega
  have h2 : (0 : Int) ≤ (k : Int) := by omega
  simp only [pyGetItem, pyNormIndex, h1, if_false, h2, if_true, Int.toNat_natCast]

theorem pyGetItem_zero_cons {α : Type} (c : α) (l : List α) : pyGetItem (c :: l) 0 = some c := by
  have := pyGetItem_nat (c :: l) 0
  simpa using this

/-- The identifier loop of `parseline`, started at position `k` with enough fuel, stops after the
maximal run of identifier characters. -/
theorem while1_eq (line : Str) : ∀ (fuel k : Nat) (σ : CmdSt), k ≤ line.length → fuel > line.length - k →
    MonCmdGen.Cmd_parseline_while1 oth tb mr (line.length : Int) line fuel (k : Int) σ =
      .ok (((k + ((line.drop k).takeWhile isIdentChar).length : Nat) : Int)) σ := by
  intro fuel
  induction fuel with
  | zero => intro k σ _ h; omega
  | succ f ih =>
    intro k σ hk hf
    unfold MonCmdGen.Cmd_parseline_while1
    by_cases hlt : k < line.length
    · have h1 : ((k : Int) < (line.length : Int)) := by omega
      have hget : line[k]? = some line[k] := List.getElem?_eq_getElem hlt
      have hdrop : line.drop k = line[k] :: line.drop (k + 1) := (List.drop_eq_getElem_cons hlt)
      simp only [h1, if_true, pyGetItem_nat, hget, identchars_eq]
      by_cases hc : isIdentChar line[k] = true
      · have e : (k : Int) + 1 = ((k + 1 : Nat) : Int) := by push_cast; rfl
        simp only [hc, if_true, e]
        rw [ih (k + 1) σ (by omega) (by omega), hdrop, List.takeWhile_cons_of_pos hc]
        congr 2
        simp only [List.length_cons]; omega
      · simp only [hc, if_false, hdrop, List.takeWhile_cons_of_neg hc, List.length_nil, Nat.add_zero,
          Bool.false_eq_true]
    · have h1 : ¬ ((k : Int) < (line.length : Int)) := by omega
      have hd : line.drop k = [] := List.drop_eq_nil_of_le (by omega)
      simp only [h1, if_false, hd, List.takeWhile_nil, List.length_nil, Nat.add_zero]

/-- The common tail of `parseline`: the loop, then `cmd, arg = line[:i], line[i:].strip()`. -/
theorem parse_tail_eq (l : Str) (fuel : Nat) (σ : CmdSt) (hf : fuel > l.length) :
    ((MonCmdGen.Cmd_parseline_while1 oth tb mr (l.length : Int) l fuel 0 σ).bind fun r_ σ =>
      (.ok (some (pySliceTo l r_), some (MonCmd.pyStrip (pySliceFrom l r_)), l) σ :
        Flow CmdSt (Option Str × Option Str × Str))) =
      .ok (some (l.takeWhile isIdentChar), some (MonCmd.pyStrip (l.dropWhile isIdentChar)), l) σ := by
  have h := while1_eq oth tb mr l fuel 0 σ (by omega) (by omega)
  simp only [Nat.cast_zero, List.drop_zero, Nat.zero_add] at h
  rw [h]
  simp only [Flow.bind_ok]
  have e : l = l.takeWhile isIdentChar ++ l.dropWhile isIdentChar := (List.takeWhile_append_dropWhile).symm
  have e1 : pySliceTo l ((l.takeWhile isIdentChar).length : Int) = l.takeWhile isIdentChar := by
    conv => lhs; arg 1; rw [e]
    exact pySliceTo_prefix _ _
  have e2 : pySliceFrom l ((l.takeWhile isIdentChar).length : Int) = l.dropWhile isIdentChar := by
    conv => lhs; arg 1; rw [e]
    exact pySliceFrom_prefix _ _
  rw [e1, e2]

theorem pyStrip_length_le (s : Str) : (MonCmd.pyStrip s).length ≤ s.length := by
  unfold MonCmd.pyStrip rstripP lstripP
  have h1 : ∀ (p : Char → Bool) (l : Str), (l.dropWhile p).length ≤ l.length := by
    intro p l
    exact (List.dropWhile_sublist p).length_le
  calc ((List.dropWhile isReSpace (List.dropWhile isReSpace s).reverse).reverse).length
      = (List.dropWhile isReSpace (List.dropWhile isReSpace s).reverse).length := List.length_reverse
    _ ≤ ((List.dropWhile isReSpace s).reverse).length := h1 _ _
    _ = (List.dropWhile isReSpace s).length := List.length_reverse
    _ ≤ s.length := h1 _ _

theorem no_do_shell : pyHasattrDo MonCmdGen.doNames "do_shell".toList = false := by decide

/-- `GenEq` for `cmd.Cmd.parseline`: with fuel for the identifier loop (`> |line| + 4` always suffices:
a leading `?` becomes `help `), the generated function returns the model's `parseline` as the tuple
`(cmd, arg, line)`, and touches nothing. -/
theorem parseline_eq (fuel : Nat) (line : Str) (σ : CmdSt) (hf : fuel > line.length + 4) :
    MonCmdGen.Cmd_parseline oth tb mr fuel line σ = .ok (parsedTuple (parseline line)) σ := by
  unfold MonCmdGen.Cmd_parseline parseline
  have hlen := pyStrip_length_le line
  cases hs : MonCmd.pyStrip line with
  | nil => simp [parsedTuple]
  | cons c rest =>
    rw [hs] at hlen
    simp only [List.length_cons] at hlen
    have hne : ¬ (c :: rest = []) := by simp
    simp only [hne, if_false, pyGetItem_zero_cons, no_do_shell, Bool.false_eq_true]
    have hsl : pySliceFrom (c :: rest) 1 = rest := pySliceFrom_prefix [c] rest
    by_cases hq : c = '?'
    · subst hq
      have hne2 : ¬ ('?' = '!') := by decide
      simp only [if_true, hne2, if_false, hsl, parsedTuple]
      have := parse_tail_eq oth tb mr ("help ".toList ++ rest) fuel σ (by simp; omega)
      simpa [help] using this
    · simp only [hq, if_false]
      by_cases hb : c = '!'
      · subst hb
        simp [parsedTuple]
      · simp only [hb, if_false, parsedTuple]
        exact parse_tail_eq oth tb mr (c :: rest) fuel σ (by simp only [List.length_cons]; omega)

/-! ### `do_quit`, `do_radix`, `do_width` -/

/-- `GenEq` for `do_quit`: prints an empty line, returns `1`, touches nothing else. -/
theorem do_quit_eq (args : Str) (σ : CmdSt) :
    MonCmdGen.do_quit oth tb mr args σ = .ok (some 1) { σ with out := σ.out ++ [[]] } := rfl

/-- The table of `do_radix`. -/
def radixes : List (Str × Int) :=
  [("Hexadecimal".toList, 16), ("Decimal".toList, 10), ("Octal".toList, 8), ("Binary".toList, 2)]

/-- The lines of the second loop of `do_radix`: `Default radix is <name>` for the current radix. -/
def radixLines (r : Nat) : List Str :=
  (radixes.filter fun p => ((r : Int) = p.2)).map fun p => "Default radix is ".toList ++ p.1

theorem radix_for2_eq : ∀ (l : List (Str × Int)) (σ : CmdSt),
    MonCmdGen.do_radix_for2 oth tb mr l σ =
      .ok () { σ with out := σ.out ++ ((l.filter fun p => ((σ.core.radix : Int) = p.2)).map
        (fun p => "Default radix is ".toList ++ p.1)) } := by
  intro l
  induction l with
  | nil => intro σ; simp [MonCmdGen.do_radix_for2]
  | cons p rest ih =>
    intro σ
    obtain ⟨name, radix⟩ := p
    unfold MonCmdGen.do_radix_for2
    by_cases h : (σ.core.radix : Int) = radix
    · simp only [h, if_true, ih, List.filter_cons, decide_true, List.map_cons, List.append_assoc,
        List.singleton_append]
    · simp only [h, if_false, ih, List.filter_cons, decide_false, Bool.false_eq_true]

/-- What `do_radix` prints before the radix line(s). -/
def radixMsg (args : Str) (v : Verdict) : List Str :=
  if v.isRejected = true then ["Illegal radix: ".toList ++ args] else []

/-- `GenEq` for `do_radix`: the new session core is the model's `doRadix`; `Illegal radix: <args>` is
printed exactly when the model refuses; then the name of the (new) default radix. -/
theorem do_radix_eq (args : Str) (σ : CmdSt) :
    MonCmdGen.do_radix oth tb mr args σ =
      .ok none { σ with core := (doRadix σ.core args).2,
                        out := σ.out ++ radixMsg args (doRadix σ.core args).1 ++
                          radixLines (doRadix σ.core args).2.radix } := by
  unfold MonCmdGen.do_radix
  cases args with
  | nil =>
    have h0 : ¬ (([] : Str) ≠ "".toList) := by simp
    simp only [h0, if_false, radix_for2_eq, Flow.bind_ok]
    simp only [doRadix, radixMsg, Verdict.isRejected, Bool.false_eq_true, if_false, List.append_nil]
    rfl
  | cons ch rest =>
    have hne : (ch :: rest) ≠ "".toList := by simp
    simp only [hne, ne_eq, not_false_eq_true, if_true, pyGetItem_zero_cons]
    have gH : pyGetItem "Hexadecimal".toList 0 = some 'H' := by decide
    have gD : pyGetItem "Decimal".toList 0 = some 'D' := by decide
    have gO : pyGetItem "Octal".toList 0 = some 'O' := by decide
    have gB : pyGetItem "Binary".toList 0 = some 'B' := by decide
    have hH : lower 'H' = 'h' := by decide
    have hD : lower 'D' = 'd' := by decide
    have hO : lower 'O' = 'o' := by decide
    have hB : lower 'B' = 'b' := by decide
    simp only [MonCmdGen.do_radix_for1, gH, gD, gO, gB, hH, hD, hO, hB, doRadix]
    have fin : ∀ (r : Nat) (σ' : CmdSt), σ' = { σ with core := { σ.core with radix := r } } →
        (Flow.ok none { σ' with out := σ'.out ++ ((List.filter (fun p => decide ((σ'.core.radix : Int) = p.2))
          [("Hexadecimal".toList, 16), ("Decimal".toList, 10), ("Octal".toList, 8), ("Binary".toList, 2)]).map
            (fun p => "Default radix is ".toList ++ p.1)) } : Flow CmdSt PyRet) =
        .ok none { σ with core := { σ.core with radix := r },
                          out := σ.out ++ radixMsg (ch :: rest) .ok ++ radixLines r } := by
      intro r σ' e
      subst e
      simp only [radixMsg, Verdict.isRejected, Bool.false_eq_true, if_false, List.append_nil]
      rfl
    by_cases h1 : lower ch = 'h'
    · simp +decide only [h1, if_true, if_false, Flow.bind_ok, radix_for2_eq]
      exact fin 16 _ rfl
    · by_cases h2 : lower ch = 'd'
      · simp +decide only [h2, if_true, if_false, Flow.bind_ok, radix_for2_eq]
        exact fin 10 _ rfl
      · by_cases h3 : lower ch = 'o'
        · simp +decide only [h3, if_true, if_false, Flow.bind_ok, radix_for2_eq]
          exact fin 8 _ rfl
        · by_cases h4 : lower ch = 'b'
          · simp +decide only [h4, if_true, if_false, Flow.bind_ok, radix_for2_eq]
            exact fin 2 _ rfl
          · have g1 : ¬ ('h' = lower ch) := fun e => h1 e.symm
            have g2 : ¬ ('d' = lower ch) := fun e => h2 e.symm
            have g3 : ¬ ('o' = lower ch) := fun e => h3 e.symm
            have g4 : ¬ ('b' = lower ch) := fun e => h4 e.symm
            simp +decide only [h1, h2, h3, h4, g1, g2, g3, g4, if_true, if_false, Flow.bind_ok, radix_for2_eq]
            simp only [radixMsg, Verdict.isRejected, if_true, List.append_assoc]
            rfl

/-- What `do_width` prints before the width line: the reason of a refusal. -/
def widthMsg (args : Str) : List Str :=
  if args = [] then [] else
  match pyIntL args 10 with
  | none => ["Illegal width: ".toList ++ args]
  | some w => if w ≥ 10 then [] else ["Minimum terminal width is 10".toList]

theorem widthMsg_iff (c : Core) (args : Str) : widthMsg args ≠ [] ↔ (doWidth c args).1.isRejected = true := by
  unfold widthMsg doWidth
  by_cases h : args = []
  · simp [h, Verdict.isRejected]
  · simp only [h, if_false]
    cases pyIntL args 10 with
    | none => simp [Verdict.isRejected]
    | some w => by_cases hw : w ≥ 10 <;> simp [hw, Verdict.isRejected]

/-- `GenEq` for `do_width`: the new core is the model's `doWidth`; the reason is printed exactly when the
model refuses (`widthMsg_iff`); then the (new) width. -/
theorem do_width_eq (args : Str) (σ : CmdSt) :
    MonCmdGen.do_width oth tb mr args σ =
      .ok none { σ with core := (doWidth σ.core args).2,
                        out := σ.out ++ widthMsg args ++
                          ["Terminal width is ".toList ++ pyFmtD (doWidth σ.core args).2.width] } := by
  unfold MonCmdGen.do_width doWidth widthMsg
  by_cases h : args = []
  · subst h
    have h0 : ¬ (([] : Str) ≠ "".toList) := by simp
    simp only [h0, if_false, if_true, List.append_nil]
  · have h0 : args ≠ "".toList := by simpa using h
    simp only [h0, ne_eq, not_false_eq_true, if_true, h, if_false]
    cases pyIntL args 10 with
    | none => simp only [List.append_assoc, List.singleton_append]
    | some w =>
      by_cases hw : w ≥ 10
      · simp only [hw, if_true, List.append_nil]
      · simp only [hw, if_false, List.append_assoc, List.singleton_append]

/-! ### the label commands -/

/-- How a translated command ends: with the exception `e` (nothing was changed before it), or normally,
returning `None`, with the model's new core and `lines` printed. -/
def cmdEnd (σ : CmdSt) (core' : Core) (exc : Option Exc) (lines : List Str) : Flow CmdSt PyRet :=
  match exc with
  | some e => .raise e σ
  | none => .ok none { σ with core := core', out := σ.out ++ lines }

def helpAddLabel : List Str := ["add_label <address> <label>".toList, "Map a given address to a label.".toList]
def helpDeleteLabel : List Str :=
  ["delete_label <label>".toList, "Remove the specified label from the label tables.".toList]

/-- The exception `do_add_label` lets escape into the catch-all of `onecmd`: `ValueError` of `shlex.split`
(unbalanced quote, trailing backslash). -/
def addLabelExc (P : Parser) (args : Str) : Option Exc :=
  match shlexSplit args with
  | none => some .ValueError
  | some [addr, _] => if numberL P addr = .other then some .Other else none
  | some _ => none

/-- What `do_add_label` prints: nothing when the label is stored; else the reason. -/
def addLabelLines (P : Parser) (args : Str) : List Str :=
  match shlexSplit args with
  | none => []
  | some [addr, _] =>
    match numberL P addr with
    | .ok _ => []
    | .key => [keyErrorArg0 P addr]
    | .overflow => ["Overflow error: ".toList ++ args]
    | .other => []
  | some _ => ("Syntax error: ".toList ++ args) :: helpAddLabel

theorem pyGetItem_one {α : Type} (a b : α) (l : List α) : pyGetItem (a :: b :: l) 1 = some b := by
  have := pyGetItem_nat (a :: b :: l) 1
  simpa using this

/-- `GenEq` for `do_add_label`, for ALL argument strings: `ValueError` of `shlex.split` escapes; a wrong
number of tokens prints the syntax error and the help text; an unknown label / an address that is too
wide prints its message; otherwise the label table is the model's (`insert`).  The new core is the
model's `doAddLabel` in every case. -/
theorem do_add_label_eq (args : Str) (σ : CmdSt) :
    MonCmdGen.do_add_label oth tb mr args σ =
      cmdEnd σ (doAddLabel σ.core args).2 (addLabelExc σ.core.parser args) (addLabelLines σ.core.parser args) := by
  unfold MonCmdGen.do_add_label doAddLabel addLabelExc addLabelLines cmdEnd
  cases hs : shlexSplit args with
  | none => rfl
  | some toks =>
    match toks with
    | [] =>
      have hl : ((([] : List Str).length : Int) ≠ 2) := by simp
      simp only [hl, ne_eq, not_false_eq_true, if_true, MonCmdGen.help_add_label, helpAddLabel, List.append_assoc,
        List.cons_append, List.nil_append]
    | [a] =>
      have hl : ((([a] : List Str).length : Int) ≠ 2) := by simp
      simp only [hl, ne_eq, not_false_eq_true, if_true, MonCmdGen.help_add_label, helpAddLabel, List.append_assoc,
        List.cons_append, List.nil_append]
    | [addr, label] =>
      have hl : ¬ ((([addr, label] : List Str).length : Int) ≠ 2) := by simp
      simp only [hl, if_false, pyGetItem_zero_cons, pyGetItem_one, parseNumber]
      cases hn : numberL σ.core.parser addr with
      | ok v => simp [pyDictSet]
      | key => simp
      | overflow => simp
      | other => simp
    | a :: b :: c :: rest =>
      have hl : (((a :: b :: c :: rest).length : Int) ≠ 2) := by
        simp only [List.length_cons]; push_cast; omega
      simp only [hl, ne_eq, not_false_eq_true, if_true, MonCmdGen.help_add_label, helpAddLabel, List.append_assoc,
        List.cons_append, List.nil_append]

/-- The model accepts exactly when `do_add_label` neither raises nor prints. -/
theorem addLabel_ok_iff (c : Core) (args : Str) :
    (doAddLabel c args).1 = .ok ↔ addLabelExc c.parser args = none ∧ addLabelLines c.parser args = [] := by
  unfold doAddLabel addLabelExc addLabelLines
  cases shlexSplit args with
  | none => simp
  | some toks =>
    match toks with
    | [] => simp
    | [a] => simp
    | [addr, label] => cases hn : numberL c.parser addr <;> simp [hn, rejectOfRes]
    | a :: b :: c :: rest => simp

theorem filter_ne_of_lookup_none : ∀ (l : Labels) (k : Str), lookup l k = none →
    l.filter (fun kv => kv.1 ≠ k) = l := by
  intro l
  induction l with
  | nil => intro k _; rfl
  | cons p rest ih =>
    intro k h
    obtain ⟨k', v⟩ := p
    unfold lookup at h
    by_cases e : k' = k
    · simp [e] at h
    · simp only [e, if_false] at h
      rw [List.filter_cons]
      have : decide ((k', v).1 ≠ k) = true := by simpa using e
      rw [this, if_pos rfl, ih k h]

/-- `GenEq` for `do_delete_label`: the help text for an empty argument (the model's `usage` refusal);
otherwise the label table is the model's `deleteLabel` (a name that is not in the table changes nothing)
and nothing is printed. -/
theorem do_delete_label_eq (args : Str) (σ : CmdSt) :
    MonCmdGen.do_delete_label oth tb mr args σ =
      cmdEnd σ (doDeleteLabel σ.core args).2 none (if args = [] then helpDeleteLabel else []) := by
  unfold MonCmdGen.do_delete_label doDeleteLabel cmdEnd
  by_cases h : args = []
  · subst h
    have h0 : ([] : Str) = "".toList := rfl
    simp only [h0, if_true, MonCmdGen.help_delete_label, helpDeleteLabel, List.append_assoc, List.cons_append,
      List.nil_append]
  · have h0 : ¬ (args = "".toList) := by simpa using h
    simp only [h0, h, if_false, pyDictHas, pyDictDel, deleteLabel, List.append_nil]
    by_cases hl : (lookup σ.core.labels args).isSome = true
    · simp only [hl, if_true]
    · simp only [hl, if_false, Bool.false_eq_true]
      have hn : lookup σ.core.labels args = none := by
        cases h' : lookup σ.core.labels args with
        | none => rfl
        | some v => rw [h'] at hl; simp at hl
      rw [filter_ne_of_lookup_none _ _ hn]

/-- The lines of `do_show_labels`: the table sorted by (address, name). -/
def showLabelLines (c : Core) : List Str :=
  (pySortPairs (pyZip (pyDictValues c.labels) (pyDictKeys c.labels))).map
    fun p => (pyFmtX (addrFmtW c.dev) p.1 ++ ": ".toList) ++ p.2

theorem show_labels_for1_eq : ∀ (l : List (Int × Str)) (σ : CmdSt),
    MonCmdGen.do_show_labels_for1 oth tb mr l σ =
      .ok () { σ with out := σ.out ++ l.map fun p => (pyFmtX (addrFmtW σ.core.dev) p.1 ++ ": ".toList) ++ p.2 } := by
  intro l
  induction l with
  | nil => intro σ; simp [MonCmdGen.do_show_labels_for1]
  | cons p rest ih =>
    intro σ
    obtain ⟨a, lab⟩ := p
    unfold MonCmdGen.do_show_labels_for1
    simp only [ih, List.map_cons, List.append_assoc, List.singleton_append]

/-- `GenEq` for `do_show_labels`: prints the sorted table, changes nothing (the model's `.plain .ok c`). -/
theorem do_show_labels_eq (args : Str) (σ : CmdSt) :
    MonCmdGen.do_show_labels oth tb mr args σ = cmdEnd σ σ.core none (showLabelLines σ.core) := by
  unfold MonCmdGen.do_show_labels cmdEnd showLabelLines
  simp only [show_labels_for1_eq, Flow.bind_ok]

/-! ### `do_registers` -/

/-- The membership test of `do_registers` against the model's `regOfName`. -/
def RegTuple (n : Str) : Prop :=
  n = "pc".toList ∨ n = "sp".toList ∨ n = "a".toList ∨ n = "x".toList ∨ n = "y".toList ∨ n = "p".toList

theorem regOfName_cases (n : Str) :
    (regOfName n = none ∧ ¬ RegTuple n) ∨
    (∃ reg, regOfName n = some reg ∧ RegTuple n ∧ (n = "pc".toList ↔ reg = .pc)) := by
  unfold regOfName RegTuple
  by_cases h1 : n = "pc".toList
  · subst h1; exact Or.inr ⟨.pc, by decide, by decide, by decide⟩
  · by_cases h2 : n = "sp".toList
    · subst h2; exact Or.inr ⟨.sp, by decide, by decide, by decide⟩
    · by_cases h3 : n = "a".toList
      · subst h3; exact Or.inr ⟨.a, by decide, by decide, by decide⟩
      · by_cases h4 : n = "x".toList
        · subst h4; exact Or.inr ⟨.x, by decide, by decide, by decide⟩
        · by_cases h5 : n = "y".toList
          · subst h5; exact Or.inr ⟨.y, by decide, by decide, by decide⟩
          · by_cases h6 : n = "p".toList
            · subst h6; exact Or.inr ⟨.p, by decide, by decide, by decide⟩
            · left
              simp only [h1, h2, h3, h4, h5, h6, if_false, or_self, not_false_eq_true, and_self]

/-- What `do_registers` prints for one `name=value` pair, given the model's outcome for it. -/
def pairLine (P : Parser) (pair : Str × Str) : Except Reject (RegName × Int) → List Str
  | .ok _ => []
  | .error .illegal => ["Invalid register: ".toList ++ pair.1]
  | .error .label => [keyErrorArg0 P pair.2]
  | .error .overflow =>
    ["Overflow: ".toList ++ pyReprStr pair.2 ++ " too wide for register ".toList ++ pyReprStr pair.1]
  | .error _ => []

/-- All lines of the loop of `do_registers`. -/
def pairLines (d : Dev) (P : Parser) (pairs : List (Str × Str)) : List Str :=
  pairs.flatMap fun p => pairLine P p (pairOutcome d P p)

/-- The generated `for register, value in pairs` loop IS the model's `regsLoop`: same registers at
the end, one message per refused pair (in order), nothing else touched, no exception. -/
theorem registers_for1_eq : ∀ (pairs : List (Str × Str)) (σ : CmdSt),
    MonCmdGen.do_registers_for1 oth tb mr pairs σ =
      .ok () { σ with core := { σ.core with regs := (regsLoop σ.core.dev σ.core.parser pairs σ.core.regs).2 },
                      out := σ.out ++ pairLines σ.core.dev σ.core.parser pairs } := by
  intro pairs
  induction pairs with
  | nil => intro σ; simp [MonCmdGen.do_registers_for1, regsLoop, pairLines]
  | cons pair rest ih =>
    intro σ
    obtain ⟨register, value⟩ := pair
    unfold MonCmdGen.do_registers_for1
    have hcons : ∀ (x : List Str), pairLines σ.core.dev σ.core.parser ((register, value) :: rest) =
        pairLine σ.core.parser (register, value) (pairOutcome σ.core.dev σ.core.parser (register, value)) ++
          pairLines σ.core.dev σ.core.parser rest := by
      intro _; simp [pairLines]
    rcases regOfName_cases register with ⟨hr, ht⟩ | ⟨reg, hr, ht, hpc⟩
    · have ht' : ¬ (register = "pc".toList ∨ register = "sp".toList ∨ register = "a".toList ∨
          register = "x".toList ∨ register = "y".toList ∨ register = "p".toList) := ht
      have ho : pairOutcome σ.core.dev σ.core.parser (register, value) = .error .illegal := by
        simp [pairOutcome, hr]
      simp only [ht', not_false_eq_true, if_true, ih, hcons [], ho, pairLine, regsLoop]
      simp [Core.parser]
    · have ht' : ¬ ¬ (register = "pc".toList ∨ register = "sp".toList ∨ register = "a".toList ∨
          register = "x".toList ∨ register = "y".toList ∨ register = "p".toList) := not_not.mpr ht
      have hset : ∀ v, pySetattrMpu σ.core.regs register v = some (σ.core.regs.set reg v) := by
        intro v; simp [pySetattrMpu, hr]
      simp only [ht', if_false, parseNumber]
      cases hn : numberL σ.core.parser value with
      | other => exact absurd hn (Py65.Proofs.Num.numberL_ne_other _ _)
      | key =>
        have ho : pairOutcome σ.core.dev σ.core.parser (register, value) = .error .label := by
          simp [pairOutcome, hr, hn]
        simp only [if_true, ih, hcons [], ho, pairLine, regsLoop]
        simp [Core.parser]
      | overflow =>
        have ho : pairOutcome σ.core.dev σ.core.parser (register, value) = .error .overflow := by
          simp [pairOutcome, hr, hn]
        have hne : ¬ (Exc.OverflowError = Exc.KeyError) := by decide
        simp only [hne, if_true, if_false, ih, hcons [], ho, pairLine, regsLoop]
        simp [Core.parser]
      | ok v =>
        by_cases hp : register = "pc".toList
        · have hreg : reg = .pc := hpc.mp hp
          have ho : pairOutcome σ.core.dev σ.core.parser (register, value) = .ok (reg, v) := by
            simp [pairOutcome, hr, hn, hreg]
          have hp' : ¬ (register ≠ "pc".toList) := not_not.mpr hp
          simp only [hp', if_false, hset, ih, hcons [], ho, pairLine, regsLoop]
          simp [Core.parser]
        · have hreg : reg ≠ .pc := fun e => hp (hpc.mpr e)
          simp only [ne_eq, hp, not_false_eq_true, if_true]
          by_cases hw : v ≠ Py.land v σ.core.dev.byteMask
          · have ho : pairOutcome σ.core.dev σ.core.parser (register, value) = .error .overflow := by
              simp [pairOutcome, hr, hn, hreg, hw]
            simp only [hw, ih, hcons [], ho, pairLine, regsLoop]
            simp [Core.parser]
          · have ho : pairOutcome σ.core.dev σ.core.parser (register, value) = .ok (reg, v) := by
              simp [pairOutcome, hr, hn, hw]
            simp only [hw, if_false, hset, ih, hcons [], ho, pairLine, regsLoop]
            simp [Core.parser]

/-- What `do_registers` prints. -/
def registersLines (c : Core) (args : Str) : List Str :=
  if args = [] then [] else
  if findPairs args = [] then ["Syntax error: ".toList ++ args]
  else pairLines c.dev c.parser (findPairs args)

/-- `GenEq` for `do_registers`, for ALL argument strings: nothing for an empty argument, the syntax error
when `re.findall` finds no pair, otherwise the registers of the model's `doRegisters` (pair by pair:
`regsLoop`) and one message per refused pair.  No exception; nothing but the registers is touched. -/
theorem do_registers_eq (args : Str) (σ : CmdSt) :
    MonCmdGen.do_registers oth tb mr args σ =
      cmdEnd σ { σ.core with regs := (doRegisters σ.core.dev σ.core.parser σ.core.regs args).2.2 } none
        (registersLines σ.core args) := by
  unfold MonCmdGen.do_registers doRegisters registersLines cmdEnd
  by_cases h : args = []
  · subst h
    have h0 : ([] : Str) = "".toList := rfl
    simp only [h0, if_true, List.append_nil]
  · have h0 : ¬ (args = "".toList) := by simpa using h
    simp only [h0, h, if_false]
    by_cases hp : findPairs args = []
    · simp only [hp, if_true]
    · simp only [hp, if_false, registers_for1_eq, Flow.bind_ok]

/-! ### the dispatcher: `cmd.Cmd.default / emptyline / onecmd`, `Monitor.onecmd` -/

/-- `cmd.Cmd.default`: one line `*** Unknown syntax: <line>`, returns `None`. -/
def unknownSyntax (line : Str) (σ : CmdSt) : Flow CmdSt PyRet :=
  .ok none { σ with out := σ.out ++ ["*** Unknown syntax: ".toList ++ line] }

theorem default_eq (line : Str) (σ : CmdSt) : MonCmdGen.Cmd_default oth tb mr line σ = unknownSyntax line σ := rfl

/-- `cmd.Cmd.onecmd` on the model's `parseline` result, with the virtual `self.onecmd` as a parameter: the
defining equations of the model's dispatcher (`MonCmd.cmdOnecmd / onecmdL`), with the command itself
called through the generated `call_do`. -/
def dispatch (self_onecmd : Str → CmdSt → Flow CmdSt PyRet) : Parsed → CmdSt → Flow CmdSt PyRet
  | .empty, σ => if σ.lastcmd ≠ [] then self_onecmd σ.lastcmd σ else .ok none σ
  | .noCmd l, σ => unknownSyntax l σ
  | .cmd w a l, σ =>
    let σ1 : CmdSt := { σ with lastcmd := if l = "EOF".toList then [] else l }
    if w = [] then unknownSyntax l σ1 else
    match commandOf w with
    | none => unknownSyntax l σ1
    | some _ => MonCmdGen.call_do oth tb mr ("do_".toList ++ w) a σ1

theorem parseline_line_ne_nil {x : Str} :
    (∀ l, parseline x = .noCmd l → l ≠ []) ∧ (∀ w a l, parseline x = .cmd w a l → l ≠ []) := by
  unfold parseline
  cases pyStrip x with
  | nil => simp
  | cons c rest =>
    by_cases hb : c = '!'
    · simp [hb]
    · simp only [hb, if_false]
      refine ⟨fun l h => (by cases h), ?_⟩
      intro w a l h
      injection h with _ _ e
      rw [← e]
      by_cases hq : c = '?' <;> simp [hq, help]

theorem contains_map_do (w : Str) : ∀ (l : List (Str × Command)),
    (l.map fun kv => "do_".toList ++ kv.1).contains ("do_".toList ++ w) =
      (l.find? fun kv => kv.1 = w).isSome := by
  intro l
  induction l with
  | nil => rfl
  | cons p rest ih =>
    by_cases h : p.1 = w
    · simp [h]
    · have h' : ¬ ("do_".toList ++ w = "do_".toList ++ p.1) := fun e => h (List.append_cancel_left e).symm
      have h'' : ("do_".toList ++ w == "do_".toList ++ p.1) = false := by simpa using h'
      simp only [List.map_cons, List.contains_cons, h'', Bool.false_or, ih, List.find?_cons, h, decide_false]

/-- `getattr(self, 'do_' + cmd)` succeeds exactly for the words of the model's command table. -/
theorem getattr_eq (w : Str) :
    pyGetattrDo MonCmdGen.doNames ("do_".toList ++ w) =
      if (commandOf w).isSome = true then some ("do_".toList ++ w) else none := by
  unfold pyGetattrDo commandOf
  rw [doNames_eq, contains_map_do]
  cases commandTable.find? (fun kv => kv.1 = w) <;> rfl

/-- `GenEq` for `cmd.Cmd.onecmd` (and `emptyline`, `default`): with fuel for `parseline`, the generated
function is `dispatch` on the model's `parseline`. -/
theorem Cmd_onecmd_eq (self_onecmd : Str → CmdSt → Flow CmdSt PyRet) (fuel : Nat) (line : Str) (σ : CmdSt)
    (hf : fuel > line.length + 4) :
    MonCmdGen.Cmd_onecmd oth tb mr self_onecmd fuel line σ =
      dispatch oth tb mr self_onecmd (parseline line) σ := by
  unfold MonCmdGen.Cmd_onecmd
  rw [parseline_eq oth tb mr fuel line σ hf]
  simp only [Flow.bind_ok]
  obtain ⟨hn1, hn2⟩ := @parseline_line_ne_nil line
  cases hp : parseline line with
  | empty => simp only [parsedTuple, if_true, MonCmdGen.Cmd_emptyline, dispatch]
  | noCmd l =>
    have := hn1 l hp
    simp only [parsedTuple, this, if_false, dispatch, default_eq]
  | cmd w a l =>
    have := hn2 w a l hp
    simp only [parsedTuple, this, if_false, dispatch, default_eq, getattr_eq]
    have hemp : "".toList = ([] : Str) := rfl
    have hsome : ∀ c : Command, (some c).isSome = true := fun _ => rfl
    by_cases he : l = "EOF".toList
    · by_cases hw : w = []
      · simp only [he, if_true, hw, hemp]
      · cases hc : commandOf w <;>
          simp only [he, if_true, hw, hemp, if_false, Option.isSome_none, Bool.false_eq_true, hsome]
    · by_cases hw : w = []
      · simp only [he, if_false, hw, hemp, if_true]
      · cases hc : commandOf w <;>
          simp only [he, if_true, hw, hemp, if_false, Option.isSome_none, Bool.false_eq_true, hsome]

theorem parseline_empty_iff (line : Str) : parseline line = .empty ↔ MonCmd.pyStrip line = [] := by
  unfold parseline
  cases MonCmd.pyStrip line with
  | nil => simp
  | cons c rest => by_cases hb : c = '!' <;> simp [hb]

/-- An empty line needs no fuel in `parseline` (the identifier loop is not reached). -/
theorem Cmd_onecmd_empty (self_onecmd : Str → CmdSt → Flow CmdSt PyRet) (fuel : Nat) (line : Str) (σ : CmdSt)
    (h : parseline line = .empty) :
    MonCmdGen.Cmd_onecmd oth tb mr self_onecmd fuel line σ = dispatch oth tb mr self_onecmd .empty σ := by
  have hs := (parseline_empty_iff line).mp h
  unfold MonCmdGen.Cmd_onecmd MonCmdGen.Cmd_parseline
  simp only [hs, if_true, Flow.bind_ok, MonCmdGen.Cmd_emptyline, dispatch]

/-- The status line of `Monitor.onecmd`: printed unless the preprocessed line starts with `quit`. -/
def status (l : Str) (s : CmdSt) : CmdSt :=
  if startsWith l quit = true then s else { s with out := s.out ++ ["\n".toList ++ mr s.core] }

/-- The `try / except Exception` of `Monitor.onecmd`, the status line and `return result`: an exception
of the command is absorbed (its traceback printed, `None` returned) with the state at the raise. -/
def finish (l : Str) : Flow CmdSt PyRet → Flow CmdSt PyRet
  | .nofuel => .nofuel
  | .raise e s => .ok none (status mr l { s with out := s.out ++ [tb e] })
  | .ok v s => .ok v (status mr l s)

theorem onecmd_finish (fuel : Nat) (line : Str) (σ : CmdSt) :
    MonCmdGen.onecmd oth tb mr (fuel + 1) line σ =
      finish tb mr (preprocessL line)
        (MonCmdGen.Cmd_onecmd oth tb mr (MonCmdGen.onecmd oth tb mr fuel) fuel (preprocessL line) σ) := by
  rw [MonCmdGen.onecmd]
  simp only [preprocess_eq]
  cases MonCmdGen.Cmd_onecmd oth tb mr (MonCmdGen.onecmd oth tb mr fuel) fuel (preprocessL line) σ with
  | nofuel => rfl
  | raise e s =>
    have hqd : quit = "quit".toList := rfl
    cases hb : startsWith (preprocessL line) "quit".toList <;>
      simp only [finish, status, hqd, hb, Bool.not_false, Bool.not_true, if_true, if_false, Bool.false_eq_true,
        MonCmdGen._output_mpu_status, Flow.bind_ok]
  | ok v s =>
    have hqd : quit = "quit".toList := rfl
    cases hb : startsWith (preprocessL line) "quit".toList <;>
      simp only [finish, status, hqd, hb, Bool.not_false, Bool.not_true, if_true, if_false, Bool.false_eq_true,
        MonCmdGen._output_mpu_status, Flow.bind_ok]

/-- `GenEq` for `Monitor.onecmd` (with `cmd.Cmd.onecmd` inside): preprocess with the generated
`_preprocess_line` (= the model's `preprocessL`), dispatch on the model's `parseline`, absorb any
exception, print the status line, return the command's value.  `fuel + 1` = one level of the
recursion through `emptyline` plus `fuel` for the loop of `parseline`. -/
theorem onecmd_eq (fuel : Nat) (line : Str) (σ : CmdSt) (hf : fuel > (preprocessL line).length + 4) :
    MonCmdGen.onecmd oth tb mr (fuel + 1) line σ =
      finish tb mr (preprocessL line)
        (dispatch oth tb mr (MonCmdGen.onecmd oth tb mr fuel) (parseline (preprocessL line)) σ) := by
  rw [onecmd_finish, Cmd_onecmd_eq oth tb mr _ fuel _ σ hf]

/-- The same for a line that is empty after preprocessing, for ANY fuel. -/
theorem onecmd_eq_empty (fuel : Nat) (line : Str) (σ : CmdSt) (h : parseline (preprocessL line) = .empty) :
    MonCmdGen.onecmd oth tb mr (fuel + 1) line σ =
      finish tb mr (preprocessL line) (dispatch oth tb mr (MonCmdGen.onecmd oth tb mr fuel) .empty σ) := by
  rw [onecmd_finish, Cmd_onecmd_empty oth tb mr _ fuel _ σ h]

/-- `Monitor.onecmd` never lets an exception escape (C20: "returns without raising"): whatever the
commands -- translated or not (`oth`) -- raise, the result is a normal return (or the fuel ran out). -/
theorem onecmd_never_raises (fuel : Nat) (line : Str) (σ : CmdSt) (e : Exc) (s : CmdSt) :
    MonCmdGen.onecmd oth tb mr fuel line σ ≠ .raise e s := by
  cases fuel with
  | zero => simp [MonCmdGen.onecmd]
  | succ f =>
    rw [onecmd_finish]
    cases MonCmdGen.Cmd_onecmd oth tb mr (MonCmdGen.onecmd oth tb mr f) f (preprocessL line) σ <;> simp [finish]

/-! ### `func(arg)`: the generated commands against the model's `runCommand` -/

/-- The state `Monitor.onecmd` goes on with after a command: its final state, or -- the catch-all absorbs
any exception -- the state at the raise. -/
def stateAfter (σ : CmdSt) : Flow CmdSt PyRet → CmdSt
  | .ok _ s => s
  | .raise _ s => s
  | .nofuel => σ

/-- The value a command hands back to `onecmd` (`None` when it raised). -/
def retOf : Flow CmdSt PyRet → PyRet
  | .ok v _ => v
  | _ => none

/-- The word of a command (inverse of the model's `commandTable`). -/
def cmdWord : Command → Str
  | .help => "help".toList | .version => "version".toList | .reset => "reset".toList | .mpu => "mpu".toList
  | .quit => "quit".toList | .assemble => "assemble".toList | .disassemble => "disassemble".toList
  | .step => "step".toList | .ret => "return".toList | .goto => "goto".toList | .cycles => "cycles".toList
  | .radix => "radix".toList | .tilde => "tilde".toList | .registers => "registers".toList | .cd => "cd".toList
  | .pwd => "pwd".toList | .load => "load".toList | .save => "save".toList | .fill => "fill".toList
  | .mem => "mem".toList | .add_label => "add_label".toList | .show_labels => "show_labels".toList
  | .delete_label => "delete_label".toList | .width => "width".toList
  | .add_breakpoint => "add_breakpoint".toList | .delete_breakpoint => "delete_breakpoint".toList
  | .show_breakpoints => "show_breakpoints".toList

theorem commandTable_words : ∀ kv ∈ commandTable, kv.1 = cmdWord kv.2 := by decide

theorem commandOf_word {w : Str} {cmd : Command} (h : commandOf w = some cmd) : w = cmdWord cmd := by
  unfold commandOf at h
  cases hf : commandTable.find? (fun kv => kv.1 = w) with
  | none => simp [hf] at h
  | some kv =>
    simp only [hf, Option.some.injEq] at h
    have hm := List.mem_of_find?_eq_some hf
    have hp := List.find?_some hf
    simp only [decide_eq_true_eq] at hp
    rw [← hp, ← h]
    exact commandTable_words kv hm

/-- The commands translated in `Gen/MonCmdGen.lean` (all others go through `oth`). -/
def translated : Command → Bool
  | .quit | .radix | .width | .registers | .add_label | .show_labels | .delete_label => true
  | _ => false

/-- `call_do` on a name `'do_' + w`: the comparisons are comparisons of the word. -/
theorem call_do_do (w arg : Str) (σ : CmdSt) :
    MonCmdGen.call_do oth tb mr ("do_".toList ++ w) arg σ =
      if w = "quit".toList then MonCmdGen.do_quit oth tb mr arg σ
      else if w = "radix".toList then MonCmdGen.do_radix oth tb mr arg σ
      else if w = "width".toList then MonCmdGen.do_width oth tb mr arg σ
      else if w = "registers".toList then MonCmdGen.do_registers oth tb mr arg σ
      else if w = "add_label".toList then MonCmdGen.do_add_label oth tb mr arg σ
      else if w = "show_labels".toList then MonCmdGen.do_show_labels oth tb mr arg σ
      else if w = "delete_label".toList then MonCmdGen.do_delete_label oth tb mr arg σ
      else oth ("do_".toList ++ w) arg σ := by
  unfold MonCmdGen.call_do
  have e1 : "do_quit".toList = "do_".toList ++ "quit".toList := rfl
  have e2 : "do_radix".toList = "do_".toList ++ "radix".toList := rfl
  have e3 : "do_width".toList = "do_".toList ++ "width".toList := rfl
  have e4 : "do_registers".toList = "do_".toList ++ "registers".toList := rfl
  have e5 : "do_add_label".toList = "do_".toList ++ "add_label".toList := rfl
  have e6 : "do_show_labels".toList = "do_".toList ++ "show_labels".toList := rfl
  have e7 : "do_delete_label".toList = "do_".toList ++ "delete_label".toList := rfl
  simp only [e1, e2, e3, e4, e5, e6, e7, List.append_cancel_left_eq]

theorem call_do_other (w arg : Str) (σ : CmdSt) (h1 : w ≠ "quit".toList) (h2 : w ≠ "radix".toList)
    (h3 : w ≠ "width".toList) (h4 : w ≠ "registers".toList) (h5 : w ≠ "add_label".toList)
    (h6 : w ≠ "show_labels".toList) (h7 : w ≠ "delete_label".toList) :
    MonCmdGen.call_do oth tb mr ("do_".toList ++ w) arg σ = oth ("do_".toList ++ w) arg σ := by
  rw [call_do_do, if_neg h1, if_neg h2, if_neg h3, if_neg h4, if_neg h5, if_neg h6, if_neg h7]

/-- `call_do` on the attribute name of a command that is not translated: `oth`. -/
theorem call_do_oth (cmd : Command) (arg : Str) (σ : CmdSt) (h : translated cmd = false) :
    MonCmdGen.call_do oth tb mr ("do_".toList ++ cmdWord cmd) arg σ = oth ("do_".toList ++ cmdWord cmd) arg σ := by
  cases cmd <;> first
    | exact absurd h (by decide)
    | exact call_do_other oth tb mr _ arg σ (by decide) (by decide) (by decide) (by decide) (by decide) (by decide)
        (by decide)

theorem call_do_quit (arg : Str) (σ : CmdSt) :
    MonCmdGen.call_do oth tb mr ("do_".toList ++ cmdWord .quit) arg σ =
      MonCmdGen.do_quit oth tb mr arg σ := by
  rw [call_do_do]
  have : cmdWord .quit = "quit".toList := rfl
  rw [this, if_pos rfl]

theorem call_do_radix (arg : Str) (σ : CmdSt) :
    MonCmdGen.call_do oth tb mr ("do_".toList ++ cmdWord .radix) arg σ =
      MonCmdGen.do_radix oth tb mr arg σ := by
  rw [call_do_do]
  have : cmdWord .radix = "radix".toList := rfl
  rw [this, if_neg (by decide), if_pos rfl]

theorem call_do_width (arg : Str) (σ : CmdSt) :
    MonCmdGen.call_do oth tb mr ("do_".toList ++ cmdWord .width) arg σ =
      MonCmdGen.do_width oth tb mr arg σ := by
  rw [call_do_do]
  have : cmdWord .width = "width".toList := rfl
  rw [this, if_neg (by decide), if_neg (by decide), if_pos rfl]

theorem call_do_registers (arg : Str) (σ : CmdSt) :
    MonCmdGen.call_do oth tb mr ("do_".toList ++ cmdWord .registers) arg σ =
      MonCmdGen.do_registers oth tb mr arg σ := by
  rw [call_do_do]
  have : cmdWord .registers = "registers".toList := rfl
  rw [this, if_neg (by decide), if_neg (by decide), if_neg (by decide), if_pos rfl]

theorem call_do_add_label (arg : Str) (σ : CmdSt) :
    MonCmdGen.call_do oth tb mr ("do_".toList ++ cmdWord .add_label) arg σ =
      MonCmdGen.do_add_label oth tb mr arg σ := by
  rw [call_do_do]
  have : cmdWord .add_label = "add_label".toList := rfl
  rw [this, if_neg (by decide), if_neg (by decide), if_neg (by decide), if_neg (by decide), if_pos rfl]

theorem call_do_show_labels (arg : Str) (σ : CmdSt) :
    MonCmdGen.call_do oth tb mr ("do_".toList ++ cmdWord .show_labels) arg σ =
      MonCmdGen.do_show_labels oth tb mr arg σ := by
  rw [call_do_do]
  have : cmdWord .show_labels = "show_labels".toList := rfl
  rw [this, if_neg (by decide), if_neg (by decide), if_neg (by decide), if_neg (by decide), if_neg (by decide), if_pos rfl]

theorem call_do_delete_label (arg : Str) (σ : CmdSt) :
    MonCmdGen.call_do oth tb mr ("do_".toList ++ cmdWord .delete_label) arg σ =
      MonCmdGen.do_delete_label oth tb mr arg σ := by
  rw [call_do_do]
  have : cmdWord .delete_label = "delete_label".toList := rfl
  rw [this, if_neg (by decide), if_neg (by decide), if_neg (by decide), if_neg (by decide), if_neg (by decide), if_neg (by decide), if_pos rfl]

/-- What is assumed of the `do_*` methods that are NOT translated here (help, version, reset, mpu,
assemble, disassemble, step, return, goto, cycles, tilde, cd, pwd, load, save, fill, mem, the
breakpoint commands): they end, they do to the session core what the model's `runCommand ext` says,
they leave `lastcmd` alone and they do not return a true value.  (Their own ties: C16, C17, C19 and
the sampled correspondence of C20.) -/
def OthModels (ext : Ext) : Prop :=
  ∀ (cmd : Command) (arg : Str) (σ : CmdSt), translated cmd = false →
    oth ("do_".toList ++ cmdWord cmd) arg σ ≠ .nofuel ∧
    (stateAfter σ (oth ("do_".toList ++ cmdWord cmd) arg σ)).core = (runCommand ext σ.core cmd arg).core ∧
    (stateAfter σ (oth ("do_".toList ++ cmdWord cmd) arg σ)).lastcmd = σ.lastcmd ∧
    (retOf (oth ("do_".toList ++ cmdWord cmd) arg σ)).truthy = false

theorem cmdEnd_facts (σ : CmdSt) (core' : Core) (exc : Option Exc) (lines : List Str)
    (h : exc ≠ none → core' = σ.core) :
    cmdEnd σ core' exc lines ≠ .nofuel ∧ (stateAfter σ (cmdEnd σ core' exc lines)).core = core' ∧
    (stateAfter σ (cmdEnd σ core' exc lines)).lastcmd = σ.lastcmd ∧ (retOf (cmdEnd σ core' exc lines)).truthy = false := by
  cases exc with
  | none => simp [cmdEnd, stateAfter, retOf, PyRet.truthy]
  | some e => simp [cmdEnd, stateAfter, retOf, PyRet.truthy, h (by simp)]

/-- Every command, through the generated `call_do`: it ends, the session core afterwards is the model's
`runCommand`, `lastcmd` is untouched, and the returned value is true exactly for `quit`. -/
theorem call_do_sim (ext : Ext) (hm : OthModels oth ext) (cmd : Command) (arg : Str) (σ : CmdSt) :
    MonCmdGen.call_do oth tb mr ("do_".toList ++ cmdWord cmd) arg σ ≠ .nofuel ∧
    (stateAfter σ (MonCmdGen.call_do oth tb mr ("do_".toList ++ cmdWord cmd) arg σ)).core =
      (runCommand ext σ.core cmd arg).core ∧
    (stateAfter σ (MonCmdGen.call_do oth tb mr ("do_".toList ++ cmdWord cmd) arg σ)).lastcmd = σ.lastcmd ∧
    (retOf (MonCmdGen.call_do oth tb mr ("do_".toList ++ cmdWord cmd) arg σ)).truthy =
      (runCommand ext σ.core cmd arg).exit := by
  have hex : ∀ c, translated c = false → (runCommand ext σ.core c arg).exit = false := by
    intro c hc
    cases c <;> first | rfl | (simp [translated] at hc)
  by_cases ht : translated cmd = false
  · rw [call_do_oth oth tb mr cmd arg σ ht, hex cmd ht]
    exact hm cmd arg σ ht
  · have ht' : translated cmd = true := by simpa using ht
    cases cmd <;> simp only [translated, reduceCtorEq] at ht'
    case quit =>
      rw [call_do_quit]
      simp [do_quit_eq, stateAfter, retOf, PyRet.truthy, runCommand]
    case radix =>
      rw [call_do_radix]
      simp [do_radix_eq, stateAfter, retOf, PyRet.truthy, runCommand, Res.plain]
    case width =>
      rw [call_do_width]
      simp [do_width_eq, stateAfter, retOf, PyRet.truthy, runCommand, Res.plain]
    case registers =>
      rw [call_do_registers, do_registers_eq]
      exact cmdEnd_facts σ _ none _ (by simp)
    case add_label =>
      rw [call_do_add_label, do_add_label_eq]
      refine cmdEnd_facts σ _ _ _ ?_
      intro hx
      apply doAddLabel_rejected
      cases hv : (doAddLabel σ.core arg).1 with
      | rejected why => rfl
      | ok => exact absurd ((addLabel_ok_iff σ.core arg).mp hv).1 hx
    case show_labels =>
      rw [call_do_show_labels, do_show_labels_eq]
      exact cmdEnd_facts σ _ none _ (by simp)
    case delete_label =>
      rw [call_do_delete_label, do_delete_label_eq]
      exact cmdEnd_facts σ _ none _ (by simp)

/-! ### `Monitor.onecmd` against the model's `onecmdL` -/

/-- The generated run `f` of one line agrees with the model's result `m`: it returns normally, the
session core and `lastcmd` afterwards are the model's, and the returned value is true exactly when the
model requests exit. -/
def Sim (m : MonCmd.Res × State) (f : Flow CmdSt PyRet) : Prop :=
  ∃ v s', f = .ok v s' ∧ s'.core = m.2.core ∧ s'.lastcmd = m.2.lastcmd ∧ v.truthy = m.1.exit

theorem status_core (l : Str) (s : CmdSt) : (status mr l s).core = s.core ∧ (status mr l s).lastcmd = s.lastcmd := by
  unfold status; split <;> simp

theorem finish_sim (l : Str) (σ : CmdSt) (f : Flow CmdSt PyRet) (h : f ≠ .nofuel) :
    ∃ s', finish tb mr l f = .ok (retOf f) s' ∧ s'.core = (stateAfter σ f).core ∧
      s'.lastcmd = (stateAfter σ f).lastcmd := by
  cases f with
  | nofuel => exact absurd rfl h
  | ok v s => exact ⟨_, rfl, (status_core mr l s).1, (status_core mr l s).2⟩
  | raise e s =>
    refine ⟨_, rfl, ?_, ?_⟩
    · rw [(status_core mr l _).1]; rfl
    · rw [(status_core mr l _).2]; rfl

/-- A line that is not empty after preprocessing: dispatch + catch-all + status agree with the model's
`cmdOnecmd`. -/
theorem dispatch_sim (ext : Ext) (hm : OthModels oth ext) (self_onecmd : Str → CmdSt → Flow CmdSt PyRet)
    (l : Str) (σ : CmdSt) (hne : parseline l ≠ .empty) :
    Sim ((cmdOnecmd ext { core := σ.core, lastcmd := σ.lastcmd } l).1,
         { core := (cmdOnecmd ext { core := σ.core, lastcmd := σ.lastcmd } l).1.core,
           lastcmd := (cmdOnecmd ext { core := σ.core, lastcmd := σ.lastcmd } l).2 })
      (finish tb mr l (dispatch oth tb mr self_onecmd (parseline l) σ)) := by
  unfold cmdOnecmd Sim
  cases hp : parseline l with
  | empty => exact absurd hp hne
  | noCmd x =>
    simp only [dispatch, unknownSyntax, finish]
    exact ⟨_, _, rfl, (status_core mr l _).1, (status_core mr l _).2, rfl⟩
  | cmd w a x =>
    simp only [dispatch]
    by_cases hw : w = []
    · simp only [hw, if_true, unknownSyntax, finish]
      exact ⟨_, _, rfl, (status_core mr l _).1, (status_core mr l _).2, rfl⟩
    · simp only [hw, if_false]
      cases hc : commandOf w with
      | none =>
        simp only [unknownSyntax, finish]
        exact ⟨_, _, rfl, (status_core mr l _).1, (status_core mr l _).2, rfl⟩
      | some cmd =>
        have hword := commandOf_word hc
        subst hword
        simp only
        obtain ⟨h1, h2, h3, h4⟩ := call_do_sim oth tb mr ext hm cmd a
          { σ with lastcmd := if x = "EOF".toList then [] else x }
        obtain ⟨s', e1, e2, e3⟩ := finish_sim tb mr l { σ with lastcmd := if x = "EOF".toList then [] else x } _ h1
        exact ⟨_, s', e1, e2.trans h2, e3.trans h3, h4⟩

/-- The one situation in which `Monitor.onecmd` does not return: an empty line when `lastcmd` is not
empty but preprocesses to an empty line again (e.g. `lastcmd = "."`, left by the line `"\v."`):
`emptyline` calls `onecmd(lastcmd)`, which is an empty line, ... -/
def Loops (σ : CmdSt) (line : Str) : Prop :=
  parseline (preprocessL line) = .empty ∧ σ.lastcmd ≠ [] ∧ parseline (preprocessL σ.lastcmd) = .empty

/-- In that situation the generated `onecmd` is out of fuel for EVERY fuel: the Python recursion has no
end (CPython stops it with `RecursionError`; the hand model records "refused, nothing changed" there,
which only the sampled correspondence ties to the code). -/
theorem onecmd_diverges (σ : CmdSt) : ∀ (fuel : Nat) (line : Str), Loops σ line →
    MonCmdGen.onecmd oth tb mr fuel line σ = .nofuel := by
  intro fuel
  induction fuel with
  | zero => intro line _; rfl
  | succ f ih =>
    intro line h
    obtain ⟨h1, h2, h3⟩ := h
    rw [onecmd_eq_empty oth tb mr f line σ h1]
    simp only [dispatch, h2, ne_eq, not_false_eq_true, if_true]
    rw [ih σ.lastcmd ⟨h3, h2, h3⟩]
    rfl

theorem onecmdL_nonempty (ext : Ext) (s : State) (line : Str) (he : parseline (preprocessL line) ≠ .empty) :
    onecmdL ext s line = ((cmdOnecmd ext s (preprocessL line)).1,
      { core := (cmdOnecmd ext s (preprocessL line)).1.core, lastcmd := (cmdOnecmd ext s (preprocessL line)).2 }) := by
  unfold onecmdL
  cases hp : parseline (preprocessL line) with
  | empty => exact absurd hp he
  | noCmd x => simp only [hp]
  | cmd w a x => simp only [hp]

theorem onecmdL_empty_nil (ext : Ext) (s : State) (line : Str) (he : parseline (preprocessL line) = .empty)
    (hl : s.lastcmd = []) : onecmdL ext s line = (Res.plain .ok s.core, s) := by
  unfold onecmdL
  simp only [he, hl, if_true]

theorem onecmdL_empty_repeat (ext : Ext) (s : State) (line : Str) (he : parseline (preprocessL line) = .empty)
    (hl : s.lastcmd ≠ []) (he2 : parseline (preprocessL s.lastcmd) ≠ .empty) :
    onecmdL ext s line = ((cmdOnecmd ext s (preprocessL s.lastcmd)).1,
      { core := (cmdOnecmd ext s (preprocessL s.lastcmd)).1.core,
        lastcmd := (cmdOnecmd ext s (preprocessL s.lastcmd)).2 }) := by
  unfold onecmdL
  cases hp : parseline (preprocessL s.lastcmd) with
  | empty => exact absurd hp he2
  | noCmd x => simp only [he, hl, if_false, hp]
  | cmd w a x => simp only [he, hl, if_false, hp]

/-- `GenEq` for the whole of `Monitor.onecmd`, for ALL lines and states: with enough fuel and outside the
diverging situation `Loops`, the generated `onecmd` -- for any `oth` that does to the session core what the
model's `runCommand ext` says -- returns normally with the model's session core and `lastcmd`, and a true
value exactly when the model's `onecmdL` requests exit. -/
theorem onecmd_sim (ext : Ext) (hm : OthModels oth ext) (fuel : Nat) (line : Str) (σ : CmdSt)
    (hf : fuel > (preprocessL line).length + (preprocessL σ.lastcmd).length + 6) (hnl : ¬ Loops σ line) :
    Sim (onecmdL ext { core := σ.core, lastcmd := σ.lastcmd } line) (MonCmdGen.onecmd oth tb mr fuel line σ) := by
  obtain ⟨n, rfl⟩ : ∃ n, fuel = n + 1 := ⟨fuel - 1, by omega⟩
  by_cases he : parseline (preprocessL line) = .empty
  · rw [onecmd_eq_empty oth tb mr n line σ he]
    simp only [dispatch]
    by_cases hl : σ.lastcmd = []
    · rw [onecmdL_empty_nil ext { core := σ.core, lastcmd := σ.lastcmd } line he hl]
      simp only [hl, ne_eq, not_true_eq_false, if_false, finish, Sim]
      exact ⟨_, _, rfl, (status_core mr _ _).1, by rw [(status_core mr _ _).2, hl], rfl⟩
    · have he2 : parseline (preprocessL σ.lastcmd) ≠ .empty := fun h => hnl ⟨he, hl, h⟩
      rw [onecmdL_empty_repeat ext { core := σ.core, lastcmd := σ.lastcmd } line he hl he2]
      simp only [hl, ne_eq, not_false_eq_true, if_true]
      obtain ⟨m, rfl⟩ : ∃ m, n = m + 1 := ⟨n - 1, by omega⟩
      rw [onecmd_eq oth tb mr m σ.lastcmd σ (by omega)]
      obtain ⟨v, s', e1, e2, e3, e4⟩ := dispatch_sim oth tb mr ext hm (MonCmdGen.onecmd oth tb mr m)
        (preprocessL σ.lastcmd) σ he2
      rw [e1]
      exact ⟨v, _, rfl, (status_core mr _ _).1.trans e2, (status_core mr _ _).2.trans e3, e4⟩
  · rw [onecmd_eq oth tb mr n line σ (by omega), onecmdL_nonempty ext { core := σ.core, lastcmd := σ.lastcmd } line he]
    exact dispatch_sim oth tb mr ext hm _ (preprocessL line) σ he

/-! ### only `quit` returns a true value -/

/-- What `quit_forms` needs of the commands that are not translated: they return no true value. -/
def OthFalsy : Prop := ∀ (name arg : Str) (σ : CmdSt), (retOf (oth name arg σ)).truthy = false

theorem retOf_cmdEnd (σ : CmdSt) (core' : Core) (exc : Option Exc) (lines : List Str) :
    retOf (cmdEnd σ core' exc lines) = none := by
  cases exc <;> rfl

/-- Through `call_do`, only `do_quit` returns a true value. -/
theorem call_do_truthy (ho : OthFalsy oth) (cmd : Command) (arg : Str) (σ : CmdSt)
    (h : (retOf (MonCmdGen.call_do oth tb mr ("do_".toList ++ cmdWord cmd) arg σ)).truthy = true) : cmd = .quit := by
  by_cases ht : translated cmd = false
  · rw [call_do_oth oth tb mr cmd arg σ ht, ho] at h
    cases h
  · have ht' : translated cmd = true := by simpa using ht
    cases cmd <;> simp only [translated, reduceCtorEq] at ht'
    case quit => rfl
    case radix => rw [call_do_radix, do_radix_eq] at h; simp [retOf, PyRet.truthy] at h
    case width => rw [call_do_width, do_width_eq] at h; simp [retOf, PyRet.truthy] at h
    case registers => rw [call_do_registers, do_registers_eq, retOf_cmdEnd] at h; simp [PyRet.truthy] at h
    case add_label => rw [call_do_add_label, do_add_label_eq, retOf_cmdEnd] at h; simp [PyRet.truthy] at h
    case show_labels => rw [call_do_show_labels, do_show_labels_eq, retOf_cmdEnd] at h; simp [PyRet.truthy] at h
    case delete_label =>
      rw [call_do_delete_label, do_delete_label_eq, retOf_cmdEnd] at h; simp [PyRet.truthy] at h

theorem retOf_finish (l : Str) (f : Flow CmdSt PyRet) (h : (retOf (finish tb mr l f)).truthy = true) :
    (retOf f).truthy = true := by
  cases f with
  | nofuel => simp [finish, retOf, PyRet.truthy] at h
  | raise e s => simp [finish, retOf, PyRet.truthy] at h
  | ok v s => simpa [finish, retOf] using h

theorem dispatch_truthy (ho : OthFalsy oth) (self_onecmd : Str → CmdSt → Flow CmdSt PyRet) (p : Parsed) (σ : CmdSt)
    (hne : p ≠ .empty) (h : (retOf (dispatch oth tb mr self_onecmd p σ)).truthy = true) :
    ∃ a x, p = .cmd quit a x := by
  cases p with
  | empty => exact absurd rfl hne
  | noCmd x => simp [dispatch, unknownSyntax, retOf, PyRet.truthy] at h
  | cmd w a x =>
    simp only [dispatch] at h
    by_cases hw : w = []
    · simp [hw, unknownSyntax, retOf, PyRet.truthy] at h
    · simp only [hw, if_false] at h
      cases hc : commandOf w with
      | none => simp [hc, unknownSyntax, retOf, PyRet.truthy] at h
      | some cmd =>
        have hword := commandOf_word hc
        subst hword
        simp only [hc] at h
        have := call_do_truthy oth tb mr ho cmd a _ h
        subst this
        exact ⟨a, x, rfl⟩

/-- If the generated `onecmd` returns a true value, the line is dispatched on the word `quit` (the model's
`dispatchWord`: after preprocessing and `parseline`, or, for an empty line, the repeated `lastcmd`).
Needs of `oth` only that it returns no true value. -/
theorem onecmd_truthy (ho : OthFalsy oth) (fuel : Nat) (line : Str) (σ : CmdSt)
    (hf : fuel > (preprocessL line).length + (preprocessL σ.lastcmd).length + 6)
    (h : (retOf (MonCmdGen.onecmd oth tb mr fuel line σ)).truthy = true) :
    dispatchWord { core := σ.core, lastcmd := σ.lastcmd } line = some quit := by
  obtain ⟨n, rfl⟩ : ∃ n, fuel = n + 1 := ⟨fuel - 1, by omega⟩
  unfold dispatchWord
  by_cases he : parseline (preprocessL line) = .empty
  · rw [onecmd_eq_empty oth tb mr n line σ he] at h
    have h1 := retOf_finish tb mr _ _ h
    simp only [dispatch] at h1
    by_cases hl : σ.lastcmd = []
    · simp [hl, retOf, PyRet.truthy] at h1
    · simp only [hl, ne_eq, not_false_eq_true, if_true] at h1
      by_cases he2 : parseline (preprocessL σ.lastcmd) = .empty
      · rw [onecmd_diverges oth tb mr σ n σ.lastcmd ⟨he2, hl, he2⟩] at h1
        simp [retOf, PyRet.truthy] at h1
      · obtain ⟨m, rfl⟩ : ∃ m, n = m + 1 := ⟨n - 1, by omega⟩
        rw [onecmd_eq oth tb mr m σ.lastcmd σ (by omega)] at h1
        obtain ⟨a, x, hp⟩ := dispatch_truthy oth tb mr ho _ _ σ he2 (retOf_finish tb mr _ _ h1)
        simp only [he, hl, if_false, hp]
  · rw [onecmd_eq oth tb mr n line σ (by omega)] at h
    obtain ⟨a, x, hp⟩ := dispatch_truthy oth tb mr ho _ _ σ he (retOf_finish tb mr _ _ h)
    simp only [hp]

/-- A line dispatched on `quit` (directly): the generated `onecmd` returns `1`, prints the empty line of
`do_quit` -- and the status line only if the preprocessed line does not start with `quit` --, and
leaves the session core alone.  Any `oth`. -/
theorem onecmd_quit (fuel : Nat) (line a x : Str) (σ : CmdSt) (hf : fuel > (preprocessL line).length + 5)
    (hp : parseline (preprocessL line) = .cmd quit a x) :
    ∃ s', MonCmdGen.onecmd oth tb mr fuel line σ = .ok (some 1) s' ∧ s'.core = σ.core ∧
      s'.lastcmd = (if x = "EOF".toList then [] else x) := by
  obtain ⟨n, rfl⟩ : ∃ n, fuel = n + 1 := ⟨fuel - 1, by omega⟩
  rw [onecmd_eq oth tb mr n line σ (by omega), hp]
  have hq : quit ≠ [] := by decide
  have hc : commandOf quit = some .quit := by decide
  have hw : "do_".toList ++ quit = "do_".toList ++ cmdWord .quit := rfl
  simp only [dispatch, hq, if_false, hc, hw, call_do_quit, do_quit_eq, finish]
  exact ⟨_, rfl, (status_core mr _ _).1, (status_core mr _ _).2⟩

end Py65.Proofs.MonCmdGenEq
