/-
The walk of `disassemble start:end` (`Model.Show.Visits`, C19) against the iteration of an arbitrary
step function: if, between two listed instructions, one step takes the "program counter" from the listed
address to that address plus the listed length (modulo the size of the address space), then the `k`-th
state's program counter is the `k`-th listed address.  Generic in the state type, the step function and
the invariant; `Props/C09h.lean` instantiates it with the generated device step and the generated
`Disassembler.instruction_at`.  Ordinary ranges and ranges that wrap past the top of memory.
-/
import Py65.Proofs.ShowLemmas
import Py65.Proofs.DisasmGenEq
import Py65.Proofs.AsmTables

namespace Py65.Proofs.Compose2
open Py65.Model.PyStr Py65.Model.Show Py65.Proofs.Show

/-! ### what `Visits` says of each listed instruction -/

theorem visits_mem {ε : Type} (iat : Int → Except ε (Int × Str)) (maxA start end_ : Int) :
    ∀ (vs : List (Int × Int × Str)) (cur : Int) (nw : Bool), Visits iat maxA start end_ cur nw vs →
      ∀ v ∈ vs, iat v.1 = .ok (v.2.1, v.2.2) := by
  intro vs
  induction vs with
  | nil => intro _ _ _ v hv; cases hv
  | cons v0 rest ih =>
    intro cur nw h v hv
    cases h with
    | step _ hi _ hr =>
      rcases List.mem_cons.1 hv with rfl | hv
      · exact hi
      · exact ih _ _ hr v hv

/-- `Visits` looks at the successful results of the disassembler only: two disassemblers with the same
successful results (e.g. the generated `instruction_at` and the same behind a renaming of its exception
classes, as the monitor model `C19g.iatG` calls it) list the same. -/
theorem visits_congr_ok {ε ε' : Type} (iat : Int → Except ε (Int × Str)) (iat' : Int → Except ε' (Int × Str))
    (h : ∀ a r, iat' a = .ok r → iat a = .ok r) (maxA start end_ : Int) :
    ∀ (vs : List (Int × Int × Str)) (cur : Int) (nw : Bool), Visits iat' maxA start end_ cur nw vs →
      Visits iat maxA start end_ cur nw vs := by
  intro vs
  induction vs with
  | nil => intro _ _ hv; cases hv with | stop hc => exact Visits.stop hc
  | cons v0 rest ih =>
    intro cur nw hv
    cases hv with
    | step hc hi hl hr => exact Visits.step hc (h _ _ hi) hl (ih _ _ hr)

theorem emod_top (maxA x : Int) (h0 : 0 ≤ x) (h1 : x ≤ maxA) : x % (maxA + 1) = x :=
  Int.emod_eq_of_lt h0 (by omega)

theorem emod_wrap (maxA x : Int) (h0 : maxA < x) (h1 : x ≤ maxA + (maxA + 1)) :
    x % (maxA + 1) = x - (maxA + 1) := by
  have e : x = (x - (maxA + 1)) + (maxA + 1) := by omega
  have h2 : (x - (maxA + 1)) % (maxA + 1) = x - (maxA + 1) := Int.emod_eq_of_lt (by omega) (by omega)
  calc x % (maxA + 1) = ((x - (maxA + 1)) + (maxA + 1)) % (maxA + 1) := by rw [← e]
    _ = (x - (maxA + 1)) % (maxA + 1) := Int.add_emod_right _ _
    _ = x - (maxA + 1) := h2

/-- The listed instructions as a computed value (for the non-vacuity examples: `decide +kernel` runs the
generated `instruction_at` through it); `none`: the walk raises, meets a negative length or needs more fuel. -/
def visitList {ε : Type} (iat : Int → Except ε (Int × Str)) (maxA start end_ : Int) :
    Nat → Int → Bool → Option (List (Int × Int × Str))
  | 0, _, _ => none
  | fuel + 1, cur, nw =>
    if nw = true ∨ cur ≤ end_ then
      match iat cur with
      | .error _ => none
      | .ok (len, text) =>
        if 0 ≤ len then
          let a := advance maxA (decide (start > end_)) len.toNat cur nw
          (visitList iat maxA start end_ fuel a.1 a.2).map fun r => (cur, len, text) :: r
        else none
    else some []

theorem visitList_sound {ε : Type} (iat : Int → Except ε (Int × Str)) (maxA start end_ : Int) :
    ∀ (fuel : Nat) (cur : Int) (nw : Bool) (vs : List (Int × Int × Str)),
      visitList iat maxA start end_ fuel cur nw = some vs → Visits iat maxA start end_ cur nw vs := by
  intro fuel
  induction fuel with
  | zero => intro _ _ _ h; cases h
  | succ f ih =>
    intro cur nw vs h
    unfold visitList at h
    by_cases hc : nw = true ∨ cur ≤ end_
    · rw [if_pos hc] at h
      cases hi : iat cur with
      | error e => rw [hi] at h; cases h
      | ok r =>
        obtain ⟨len, text⟩ := r
        rw [hi] at h
        simp only at h
        by_cases hl : 0 ≤ len
        · rw [if_pos hl] at h
          cases hr : visitList iat maxA start end_ f
              (advance maxA (decide (start > end_)) len.toNat cur nw).1
              (advance maxA (decide (start > end_)) len.toNat cur nw).2 with
          | none => rw [hr] at h; cases h
          | some rest =>
            rw [hr] at h
            simp only [Option.map_some, Option.some.injEq] at h
            subst h
            exact Visits.step hc hi hl (ih _ _ _ hr)
        · rw [if_neg hl] at h; cases h
    · rw [if_neg hc] at h
      simp only [Option.some.injEq] at h
      subst h
      exact Visits.stop hc

/-- The cells of the range `start:end`: `start … end`, or - when `start > end`, a range that wraps past the
top of memory - `start … top` and `0 … end`. -/
def InRange (start end_ c : Int) : Prop :=
  if start > end_ then (start ≤ c ∨ c ≤ end_) else (start ≤ c ∧ c ≤ end_)

/-- Every listed address lies in the range (lengths not negative and at most the size of the address space). -/
theorem visits_in_range {ε : Type} (iat : Int → Except ε (Int × Str)) (maxA start end_ : Int) (he : end_ ≤ maxA) :
    ∀ (vs : List (Int × Int × Str)) (cur : Int) (nw : Bool), Visits iat maxA start end_ cur nw vs →
      0 ≤ cur → cur ≤ maxA → (¬ start > end_ → nw = false) → (nw = true → start ≤ cur) →
      (¬ start > end_ → start ≤ cur) → (∀ v ∈ vs, v.2.1 ≤ maxA + 1) →
      ∀ v ∈ vs, InRange start end_ v.1 := by
  intro vs
  induction vs with
  | nil => intro _ _ _ _ _ _ _ _ _ v hv; cases hv
  | cons v0 rest ih =>
    intro cur nw hv h0 h1 hnw hI1 hI2 hlen v hmem
    cases hv with
    | @step _ _ len text _ hcond hi hl hr =>
      rcases List.mem_cons.1 hmem with rfl | hm'
      · show InRange start end_ cur
        unfold InRange
        by_cases hw : start > end_
        · rw [if_pos hw]
          rcases hcond with hc | hc
          · exact Or.inl (hI1 hc)
          · exact Or.inr hc
        · rw [if_neg hw]
          have := hnw hw
          subst this
          rcases hcond with hc | hc
          · cases hc
          · exact ⟨hI2 hw, hc⟩
      · have hl2 : len ≤ maxA + 1 := hlen (cur, len, text) List.mem_cons_self
        have hlen' : ∀ v ∈ rest, v.2.1 ≤ maxA + 1 := fun v hv => hlen v (List.mem_cons_of_mem _ hv)
        obtain ⟨n, rfl⟩ := Int.eq_ofNat_of_zero_le hl
        simp only [Int.toNat_natCast] at hr
        by_cases hw : start > end_
        · have hd : decide (start > end_) = true := by simp [hw]
          rw [hd, advance_wrap maxA n cur nw h0 h1 hl2] at hr
          by_cases hc : cur + n > maxA
          · rw [if_pos hc] at hr
            exact ih _ _ hr (by show 0 ≤ cur + n - (maxA + 1); omega) (by show cur + n - (maxA + 1) ≤ maxA; omega)
              (fun h => absurd hw h) (fun h => by cases h) (fun h => absurd hw h) hlen' v hm'
          · rw [if_neg hc] at hr
            exact ih _ _ hr (by show 0 ≤ cur + (n : Int); omega) (by show cur + (n : Int) ≤ maxA; omega)
              (fun h => absurd hw h) (fun h => by have := hI1 h; show start ≤ cur + (n : Int); omega)
              (fun h => absurd hw h) hlen' v hm'
        · have hd : decide (start > end_) = false := by simp [hw]
          have hnwf := hnw hw
          subst hnwf
          rw [hd, advance_plain] at hr
          cases hr with
          | stop _ => cases hm'
          | step hc' hi' hl' hr' =>
            have hle : cur + (n : Int) ≤ end_ := by
              rcases hc' with hc' | hc'
              · cases hc'
              · exact hc'
            have hI2' := hI2 hw
            exact ih _ _ (Visits.step hc' hi' hl' hr') (by show 0 ≤ cur + (n : Int); omega)
              (by show cur + (n : Int) ≤ maxA; omega)
              (fun _ => rfl) (fun h => by cases h) (fun _ => by show start ≤ cur + (n : Int); omega) hlen' v hm'

/-- **The walk against an iteration.**  `f` is the step function, `pc` the observed counter, `Good` an
invariant.  If the walk started at `pc s` lists `vs`, and whenever the `k`-th state is at the `k`-th listed
address (and good) and there IS a next listed instruction, one step leads to address + length modulo
`maxA + 1` (and a good state), then every listed address is the counter of the corresponding state. -/
theorem visits_follow {ε σ : Type} (iat : Int → Except ε (Int × Str)) (maxA start end_ : Int)
    (he : end_ ≤ maxA) (f : σ → σ) (pc : σ → Int) (Good : σ → Prop) :
    ∀ (vs : List (Int × Int × Str)) (cur : Int) (nw : Bool) (s : σ),
      Visits iat maxA start end_ cur nw vs → 0 ≤ cur → cur ≤ maxA → (¬ start > end_ → nw = false) →
      pc s = cur → Good s →
      (∀ k (hk : k + 1 < vs.length), pc (f^[k] s) = (vs[k]).1 → Good (f^[k] s) →
        1 ≤ (vs[k]).2.1 ∧ (vs[k]).2.1 ≤ maxA + 1 ∧
        pc (f^[k + 1] s) = ((vs[k]).1 + (vs[k]).2.1) % (maxA + 1) ∧ Good (f^[k + 1] s)) →
      ∀ k (hk : k < vs.length), pc (f^[k] s) = (vs[k]).1 ∧ Good (f^[k] s) := by
  intro vs
  induction vs with
  | nil => intro _ _ _ _ _ _ _ _ _ _ k hk; cases hk
  | cons v0 rest ih =>
    intro cur nw s hv h0 h1 hnw hpc hg hstep k hk
    cases hv with
    | @step _ _ len text _ hcond hi hlen hr =>
      cases k with
      | zero => exact ⟨hpc, hg⟩
      | succ k =>
        have hk' : k < rest.length := by simpa using hk
        have h01 : 0 + 1 < ((cur, len, text) :: rest).length := by simp; omega
        obtain ⟨l1, l2, hnext, hg'⟩ := hstep 0 h01 hpc hg
        simp only [List.getElem_cons_zero] at l1 l2 hnext
        obtain ⟨n, rfl⟩ := Int.eq_ofNat_of_zero_le hlen
        simp only [Int.toNat_natCast] at hr
        -- the address the walk goes to is address + length modulo the size of the address space
        have hadv : (advance maxA (decide (start > end_)) n cur nw).1 = (cur + n) % (maxA + 1) ∧
            0 ≤ (advance maxA (decide (start > end_)) n cur nw).1 ∧
            (advance maxA (decide (start > end_)) n cur nw).1 ≤ maxA ∧
            (¬ start > end_ → (advance maxA (decide (start > end_)) n cur nw).2 = false) := by
          by_cases hw : start > end_
          · have hd : decide (start > end_) = true := by simp [hw]
            rw [hd, advance_wrap maxA n cur nw h0 h1 l2]
            by_cases hc : cur + n > maxA
            · rw [if_pos hc]
              refine ⟨(emod_wrap maxA _ hc (by omega)).symm, by show 0 ≤ cur + n - (maxA + 1); omega,
                by show cur + n - (maxA + 1) ≤ maxA; omega, fun h => absurd hw h⟩
            · rw [if_neg hc]
              exact ⟨(emod_top maxA _ (by omega) (by omega)).symm, by show 0 ≤ cur + (n : Int); omega,
                by show cur + (n : Int) ≤ maxA; omega, fun h => absurd hw h⟩
          · have hd : decide (start > end_) = false := by simp [hw]
            have hnwf := hnw hw
            subst hnwf
            rw [hd, advance_plain] at hr ⊢
            -- there is a next listed instruction, so the walk has not passed `end`
            have hle : cur + (n : Int) ≤ end_ := by
              cases hr with
              | stop _ => cases hk'
              | step hc' _ _ _ =>
                rcases hc' with hc' | hc'
                · cases hc'
                · exact hc'
            exact ⟨(emod_top maxA _ (by omega) (by omega)).symm, by show 0 ≤ cur + (n : Int); omega,
              by show cur + (n : Int) ≤ maxA; omega, fun _ => rfl⟩
        obtain ⟨ha1, ha2, ha3, ha4⟩ := hadv
        have hpc' : pc (f s) = (advance maxA (decide (start > end_)) n cur nw).1 := by
          rw [ha1]; exact hnext
        have := ih _ _ (f s) hr ha2 ha3 ha4 hpc' hg' (fun j hj hp hgj => by
          have hj' : (j + 1) + 1 < ((cur, (n : Int), text) :: rest).length := by simp; omega
          have := hstep (j + 1) hj' (by simpa [Function.iterate_succ_apply] using hp)
            (by simpa [Function.iterate_succ_apply] using hgj)
          simpa [Function.iterate_succ_apply] using this) k hk'
        simpa [Function.iterate_succ_apply] using this

end Py65.Proofs.Compose2
