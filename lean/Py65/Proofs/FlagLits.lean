/- GENERATED ONCE by harness/gen_flaglits.py (static file; proofs are checked by the kernel). -/
import Py65.Proofs.LandLits
import Py65.Spec.Cpu

namespace Py65.Proofs
open Py Py65.Spec

/-- simp set: status-register idioms to `setFlag`/`flag` normal form -/

@[flagalg] theorem lor_flag_1 (p : Int) : lor p 1 = setFlag p 0 true := by
  rw [lor_lit_1, land_lit_1]; simp [setFlag]; omega

@[flagalg] theorem land_flag_1 (p : Int) : land p 1 = if flag p 0 then 1 else 0 := by
  rw [land_lit_1]; simp [flag, eqB]; have : p % 2 = 0 ∨ p % 2 = 1 := by omega
  rcases this with h | h <;> simp [h]

@[flagalg ↓] theorem lor_land_flag_1 (p v : Int) : lor p (land v 1) = setFlag p 0 (flag p 0 || flag v 0) := by
  rw [lor_land, land_lit_1, land_lit_1, bitv_land_1]; simp [setFlag, flag, eqB]
  have h1 : p % 2 = 0 ∨ p % 2 = 1 := by omega
  have h2 : v % 2 = 0 ∨ v % 2 = 1 := by omega
  rcases h1 with h1 | h1 <;> rcases h2 with h2 | h2 <;> simp [h1, h2] <;> omega

@[flagalg] theorem setFlag_same_0 (p : Int) (b c : Bool) : setFlag (setFlag p 0 b) 0 c = setFlag p 0 c := by
  cases b <;> cases c <;> simp [setFlag] <;> omega

@[flagalg] theorem setFlag_of_flag_0 (p : Int) (b : Bool) (h : flag p 0 = b) : setFlag p 0 b = p := by
  subst h; simp only [setFlag, flag, eqB]
  have h1 : p % 2 = 0 ∨ p % 2 = 1 := by omega
  rcases h1 with h1 | h1 <;> simp [h1]

@[flagalg] theorem flag_setFlag_same_0 (p : Int) (b : Bool) : flag (setFlag p 0 b) 0 = b := by
  cases b <;> simp [setFlag, flag, eqB] <;> omega

@[flagalg] theorem flag_setFlag_0_1 (p : Int) (b : Bool) : flag (setFlag p 0 b) 1 = flag p 1 := by
  cases b <;> simp [setFlag, flag, eqB] <;> omega

@[flagalg] theorem flag_setFlag_0_2 (p : Int) (b : Bool) : flag (setFlag p 0 b) 2 = flag p 2 := by
  cases b <;> simp [setFlag, flag, eqB] <;> omega

@[flagalg] theorem flag_setFlag_0_3 (p : Int) (b : Bool) : flag (setFlag p 0 b) 3 = flag p 3 := by
  cases b <;> simp [setFlag, flag, eqB] <;> omega

@[flagalg] theorem flag_setFlag_0_4 (p : Int) (b : Bool) : flag (setFlag p 0 b) 4 = flag p 4 := by
  cases b <;> simp [setFlag, flag, eqB] <;> omega

@[flagalg] theorem flag_setFlag_0_5 (p : Int) (b : Bool) : flag (setFlag p 0 b) 5 = flag p 5 := by
  cases b <;> simp [setFlag, flag, eqB] <;> omega

@[flagalg] theorem flag_setFlag_0_6 (p : Int) (b : Bool) : flag (setFlag p 0 b) 6 = flag p 6 := by
  cases b <;> simp [setFlag, flag, eqB] <;> omega

@[flagalg] theorem flag_setFlag_0_7 (p : Int) (b : Bool) : flag (setFlag p 0 b) 7 = flag p 7 := by
  cases b <;> simp [setFlag, flag, eqB] <;> omega

@[flagalg] theorem flag_setFlag_0_14 (p : Int) (b : Bool) : flag (setFlag p 0 b) 14 = flag p 14 := by
  cases b <;> simp [setFlag, flag, eqB] <;> omega

@[flagalg] theorem flag_setFlag_0_15 (p : Int) (b : Bool) : flag (setFlag p 0 b) 15 = flag p 15 := by
  cases b <;> simp [setFlag, flag, eqB] <;> omega

@[flagalg] theorem lor_flag_2 (p : Int) : lor p 2 = setFlag p 1 true := by
  rw [lor_lit_2, land_lit_2]; simp [setFlag]; omega

@[flagalg] theorem land_flag_2 (p : Int) : land p 2 = if flag p 1 then 2 else 0 := by
  rw [land_lit_2]; simp [flag, eqB]; have : p / 2 % 2 = 0 ∨ p / 2 % 2 = 1 := by omega
  rcases this with h | h <;> simp [h]

@[flagalg ↓] theorem lor_land_flag_2 (p v : Int) : lor p (land v 2) = setFlag p 1 (flag p 1 || flag v 1) := by
  rw [lor_land, land_lit_2, land_lit_2, bitv_land_2]; simp [setFlag, flag, eqB]
  have h1 : p / 2 % 2 = 0 ∨ p / 2 % 2 = 1 := by omega
  have h2 : v / 2 % 2 = 0 ∨ v / 2 % 2 = 1 := by omega
  rcases h1 with h1 | h1 <;> rcases h2 with h2 | h2 <;> simp [h1, h2] <;> omega

@[flagalg] theorem setFlag_same_1 (p : Int) (b c : Bool) : setFlag (setFlag p 1 b) 1 c = setFlag p 1 c := by
  cases b <;> cases c <;> simp [setFlag] <;> omega

@[flagalg] theorem setFlag_of_flag_1 (p : Int) (b : Bool) (h : flag p 1 = b) : setFlag p 1 b = p := by
  subst h; simp only [setFlag, flag, eqB]
  have h1 : p / 2 % 2 = 0 ∨ p / 2 % 2 = 1 := by omega
  rcases h1 with h1 | h1 <;> simp [h1]

@[flagalg] theorem flag_setFlag_same_1 (p : Int) (b : Bool) : flag (setFlag p 1 b) 1 = b := by
  cases b <;> simp [setFlag, flag, eqB] <;> omega

@[flagalg] theorem flag_setFlag_1_0 (p : Int) (b : Bool) : flag (setFlag p 1 b) 0 = flag p 0 := by
  cases b <;> simp [setFlag, flag, eqB] <;> omega

@[flagalg] theorem setFlag_comm_1_0 (p : Int) (b c : Bool) :
    setFlag (setFlag p 1 b) 0 c = setFlag (setFlag p 0 c) 1 b := by
  cases b <;> cases c <;> simp [setFlag] <;> omega

@[flagalg] theorem flag_setFlag_1_2 (p : Int) (b : Bool) : flag (setFlag p 1 b) 2 = flag p 2 := by
  cases b <;> simp [setFlag, flag, eqB] <;> omega

@[flagalg] theorem flag_setFlag_1_3 (p : Int) (b : Bool) : flag (setFlag p 1 b) 3 = flag p 3 := by
  cases b <;> simp [setFlag, flag, eqB] <;> omega

@[flagalg] theorem flag_setFlag_1_4 (p : Int) (b : Bool) : flag (setFlag p 1 b) 4 = flag p 4 := by
  cases b <;> simp [setFlag, flag, eqB] <;> omega

@[flagalg] theorem flag_setFlag_1_5 (p : Int) (b : Bool) : flag (setFlag p 1 b) 5 = flag p 5 := by
  cases b <;> simp [setFlag, flag, eqB] <;> omega

@[flagalg] theorem flag_setFlag_1_6 (p : Int) (b : Bool) : flag (setFlag p 1 b) 6 = flag p 6 := by
  cases b <;> simp [setFlag, flag, eqB] <;> omega

@[flagalg] theorem flag_setFlag_1_7 (p : Int) (b : Bool) : flag (setFlag p 1 b) 7 = flag p 7 := by
  cases b <;> simp [setFlag, flag, eqB] <;> omega

@[flagalg] theorem flag_setFlag_1_14 (p : Int) (b : Bool) : flag (setFlag p 1 b) 14 = flag p 14 := by
  cases b <;> simp [setFlag, flag, eqB] <;> omega

@[flagalg] theorem flag_setFlag_1_15 (p : Int) (b : Bool) : flag (setFlag p 1 b) 15 = flag p 15 := by
  cases b <;> simp [setFlag, flag, eqB] <;> omega

@[flagalg] theorem lor_flag_4 (p : Int) : lor p 4 = setFlag p 2 true := by
  rw [lor_lit_4, land_lit_4]; simp [setFlag]; omega

@[flagalg] theorem land_flag_4 (p : Int) : land p 4 = if flag p 2 then 4 else 0 := by
  rw [land_lit_4]; simp [flag, eqB]; have : p / 4 % 2 = 0 ∨ p / 4 % 2 = 1 := by omega
  rcases this with h | h <;> simp [h]

@[flagalg ↓] theorem lor_land_flag_4 (p v : Int) : lor p (land v 4) = setFlag p 2 (flag p 2 || flag v 2) := by
  rw [lor_land, land_lit_4, land_lit_4, bitv_land_4]; simp [setFlag, flag, eqB]
  have h1 : p / 4 % 2 = 0 ∨ p / 4 % 2 = 1 := by omega
  have h2 : v / 4 % 2 = 0 ∨ v / 4 % 2 = 1 := by omega
  rcases h1 with h1 | h1 <;> rcases h2 with h2 | h2 <;> simp [h1, h2] <;> omega

@[flagalg] theorem setFlag_same_2 (p : Int) (b c : Bool) : setFlag (setFlag p 2 b) 2 c = setFlag p 2 c := by
  cases b <;> cases c <;> simp [setFlag] <;> omega

@[flagalg] theorem setFlag_of_flag_2 (p : Int) (b : Bool) (h : flag p 2 = b) : setFlag p 2 b = p := by
  subst h; simp only [setFlag, flag, eqB]
  have h1 : p / 4 % 2 = 0 ∨ p / 4 % 2 = 1 := by omega
  rcases h1 with h1 | h1 <;> simp [h1]

@[flagalg] theorem flag_setFlag_same_2 (p : Int) (b : Bool) : flag (setFlag p 2 b) 2 = b := by
  cases b <;> simp [setFlag, flag, eqB] <;> omega

@[flagalg] theorem flag_setFlag_2_0 (p : Int) (b : Bool) : flag (setFlag p 2 b) 0 = flag p 0 := by
  cases b <;> simp [setFlag, flag, eqB] <;> omega

@[flagalg] theorem setFlag_comm_2_0 (p : Int) (b c : Bool) :
    setFlag (setFlag p 2 b) 0 c = setFlag (setFlag p 0 c) 2 b := by
  cases b <;> cases c <;> simp [setFlag] <;> omega

@[flagalg] theorem flag_setFlag_2_1 (p : Int) (b : Bool) : flag (setFlag p 2 b) 1 = flag p 1 := by
  cases b <;> simp [setFlag, flag, eqB] <;> omega

@[flagalg] theorem setFlag_comm_2_1 (p : Int) (b c : Bool) :
    setFlag (setFlag p 2 b) 1 c = setFlag (setFlag p 1 c) 2 b := by
  cases b <;> cases c <;> simp [setFlag] <;> omega

@[flagalg] theorem flag_setFlag_2_3 (p : Int) (b : Bool) : flag (setFlag p 2 b) 3 = flag p 3 := by
  cases b <;> simp [setFlag, flag, eqB] <;> omega

@[flagalg] theorem flag_setFlag_2_4 (p : Int) (b : Bool) : flag (setFlag p 2 b) 4 = flag p 4 := by
  cases b <;> simp [setFlag, flag, eqB] <;> omega

@[flagalg] theorem flag_setFlag_2_5 (p : Int) (b : Bool) : flag (setFlag p 2 b) 5 = flag p 5 := by
  cases b <;> simp [setFlag, flag, eqB] <;> omega

@[flagalg] theorem flag_setFlag_2_6 (p : Int) (b : Bool) : flag (setFlag p 2 b) 6 = flag p 6 := by
  cases b <;> simp [setFlag, flag, eqB] <;> omega

@[flagalg] theorem flag_setFlag_2_7 (p : Int) (b : Bool) : flag (setFlag p 2 b) 7 = flag p 7 := by
  cases b <;> simp [setFlag, flag, eqB] <;> omega

@[flagalg] theorem flag_setFlag_2_14 (p : Int) (b : Bool) : flag (setFlag p 2 b) 14 = flag p 14 := by
  cases b <;> simp [setFlag, flag, eqB] <;> omega

@[flagalg] theorem flag_setFlag_2_15 (p : Int) (b : Bool) : flag (setFlag p 2 b) 15 = flag p 15 := by
  cases b <;> simp [setFlag, flag, eqB] <;> omega

@[flagalg] theorem lor_flag_8 (p : Int) : lor p 8 = setFlag p 3 true := by
  rw [lor_lit_8, land_lit_8]; simp [setFlag]; omega

@[flagalg] theorem land_flag_8 (p : Int) : land p 8 = if flag p 3 then 8 else 0 := by
  rw [land_lit_8]; simp [flag, eqB]; have : p / 8 % 2 = 0 ∨ p / 8 % 2 = 1 := by omega
  rcases this with h | h <;> simp [h]

@[flagalg ↓] theorem lor_land_flag_8 (p v : Int) : lor p (land v 8) = setFlag p 3 (flag p 3 || flag v 3) := by
  rw [lor_land, land_lit_8, land_lit_8, bitv_land_8]; simp [setFlag, flag, eqB]
  have h1 : p / 8 % 2 = 0 ∨ p / 8 % 2 = 1 := by omega
  have h2 : v / 8 % 2 = 0 ∨ v / 8 % 2 = 1 := by omega
  rcases h1 with h1 | h1 <;> rcases h2 with h2 | h2 <;> simp [h1, h2] <;> omega

@[flagalg] theorem setFlag_same_3 (p : Int) (b c : Bool) : setFlag (setFlag p 3 b) 3 c = setFlag p 3 c := by
  cases b <;> cases c <;> simp [setFlag] <;> omega

@[flagalg] theorem setFlag_of_flag_3 (p : Int) (b : Bool) (h : flag p 3 = b) : setFlag p 3 b = p := by
  subst h; simp only [setFlag, flag, eqB]
  have h1 : p / 8 % 2 = 0 ∨ p / 8 % 2 = 1 := by omega
  rcases h1 with h1 | h1 <;> simp [h1]

@[flagalg] theorem flag_setFlag_same_3 (p : Int) (b : Bool) : flag (setFlag p 3 b) 3 = b := by
  cases b <;> simp [setFlag, flag, eqB] <;> omega

@[flagalg] theorem flag_setFlag_3_0 (p : Int) (b : Bool) : flag (setFlag p 3 b) 0 = flag p 0 := by
  cases b <;> simp [setFlag, flag, eqB] <;> omega

@[flagalg] theorem setFlag_comm_3_0 (p : Int) (b c : Bool) :
    setFlag (setFlag p 3 b) 0 c = setFlag (setFlag p 0 c) 3 b := by
  cases b <;> cases c <;> simp [setFlag] <;> omega

@[flagalg] theorem flag_setFlag_3_1 (p : Int) (b : Bool) : flag (setFlag p 3 b) 1 = flag p 1 := by
  cases b <;> simp [setFlag, flag, eqB] <;> omega

@[flagalg] theorem setFlag_comm_3_1 (p : Int) (b c : Bool) :
    setFlag (setFlag p 3 b) 1 c = setFlag (setFlag p 1 c) 3 b := by
  cases b <;> cases c <;> simp [setFlag] <;> omega

@[flagalg] theorem flag_setFlag_3_2 (p : Int) (b : Bool) : flag (setFlag p 3 b) 2 = flag p 2 := by
  cases b <;> simp [setFlag, flag, eqB] <;> omega

@[flagalg] theorem setFlag_comm_3_2 (p : Int) (b c : Bool) :
    setFlag (setFlag p 3 b) 2 c = setFlag (setFlag p 2 c) 3 b := by
  cases b <;> cases c <;> simp [setFlag] <;> omega

@[flagalg] theorem flag_setFlag_3_4 (p : Int) (b : Bool) : flag (setFlag p 3 b) 4 = flag p 4 := by
  cases b <;> simp [setFlag, flag, eqB] <;> omega

@[flagalg] theorem flag_setFlag_3_5 (p : Int) (b : Bool) : flag (setFlag p 3 b) 5 = flag p 5 := by
  cases b <;> simp [setFlag, flag, eqB] <;> omega

@[flagalg] theorem flag_setFlag_3_6 (p : Int) (b : Bool) : flag (setFlag p 3 b) 6 = flag p 6 := by
  cases b <;> simp [setFlag, flag, eqB] <;> omega

@[flagalg] theorem flag_setFlag_3_7 (p : Int) (b : Bool) : flag (setFlag p 3 b) 7 = flag p 7 := by
  cases b <;> simp [setFlag, flag, eqB] <;> omega

@[flagalg] theorem flag_setFlag_3_14 (p : Int) (b : Bool) : flag (setFlag p 3 b) 14 = flag p 14 := by
  cases b <;> simp [setFlag, flag, eqB] <;> omega

@[flagalg] theorem flag_setFlag_3_15 (p : Int) (b : Bool) : flag (setFlag p 3 b) 15 = flag p 15 := by
  cases b <;> simp [setFlag, flag, eqB] <;> omega

@[flagalg] theorem lor_flag_16 (p : Int) : lor p 16 = setFlag p 4 true := by
  rw [lor_lit_16, land_lit_16]; simp [setFlag]; omega

@[flagalg] theorem land_flag_16 (p : Int) : land p 16 = if flag p 4 then 16 else 0 := by
  rw [land_lit_16]; simp [flag, eqB]; have : p / 16 % 2 = 0 ∨ p / 16 % 2 = 1 := by omega
  rcases this with h | h <;> simp [h]

@[flagalg ↓] theorem lor_land_flag_16 (p v : Int) : lor p (land v 16) = setFlag p 4 (flag p 4 || flag v 4) := by
  rw [lor_land, land_lit_16, land_lit_16, bitv_land_16]; simp [setFlag, flag, eqB]
  have h1 : p / 16 % 2 = 0 ∨ p / 16 % 2 = 1 := by omega
  have h2 : v / 16 % 2 = 0 ∨ v / 16 % 2 = 1 := by omega
  rcases h1 with h1 | h1 <;> rcases h2 with h2 | h2 <;> simp [h1, h2] <;> omega

@[flagalg] theorem setFlag_same_4 (p : Int) (b c : Bool) : setFlag (setFlag p 4 b) 4 c = setFlag p 4 c := by
  cases b <;> cases c <;> simp [setFlag] <;> omega

@[flagalg] theorem setFlag_of_flag_4 (p : Int) (b : Bool) (h : flag p 4 = b) : setFlag p 4 b = p := by
  subst h; simp only [setFlag, flag, eqB]
  have h1 : p / 16 % 2 = 0 ∨ p / 16 % 2 = 1 := by omega
  rcases h1 with h1 | h1 <;> simp [h1]

@[flagalg] theorem flag_setFlag_same_4 (p : Int) (b : Bool) : flag (setFlag p 4 b) 4 = b := by
  cases b <;> simp [setFlag, flag, eqB] <;> omega

@[flagalg] theorem flag_setFlag_4_0 (p : Int) (b : Bool) : flag (setFlag p 4 b) 0 = flag p 0 := by
  cases b <;> simp [setFlag, flag, eqB] <;> omega

@[flagalg] theorem setFlag_comm_4_0 (p : Int) (b c : Bool) :
    setFlag (setFlag p 4 b) 0 c = setFlag (setFlag p 0 c) 4 b := by
  cases b <;> cases c <;> simp [setFlag] <;> omega

@[flagalg] theorem flag_setFlag_4_1 (p : Int) (b : Bool) : flag (setFlag p 4 b) 1 = flag p 1 := by
  cases b <;> simp [setFlag, flag, eqB] <;> omega

@[flagalg] theorem setFlag_comm_4_1 (p : Int) (b c : Bool) :
    setFlag (setFlag p 4 b) 1 c = setFlag (setFlag p 1 c) 4 b := by
  cases b <;> cases c <;> simp [setFlag] <;> omega

@[flagalg] theorem flag_setFlag_4_2 (p : Int) (b : Bool) : flag (setFlag p 4 b) 2 = flag p 2 := by
  cases b <;> simp [setFlag, flag, eqB] <;> omega

@[flagalg] theorem setFlag_comm_4_2 (p : Int) (b c : Bool) :
    setFlag (setFlag p 4 b) 2 c = setFlag (setFlag p 2 c) 4 b := by
  cases b <;> cases c <;> simp [setFlag] <;> omega

@[flagalg] theorem flag_setFlag_4_3 (p : Int) (b : Bool) : flag (setFlag p 4 b) 3 = flag p 3 := by
  cases b <;> simp [setFlag, flag, eqB] <;> omega

@[flagalg] theorem setFlag_comm_4_3 (p : Int) (b c : Bool) :
    setFlag (setFlag p 4 b) 3 c = setFlag (setFlag p 3 c) 4 b := by
  cases b <;> cases c <;> simp [setFlag] <;> omega

@[flagalg] theorem flag_setFlag_4_5 (p : Int) (b : Bool) : flag (setFlag p 4 b) 5 = flag p 5 := by
  cases b <;> simp [setFlag, flag, eqB] <;> omega

@[flagalg] theorem flag_setFlag_4_6 (p : Int) (b : Bool) : flag (setFlag p 4 b) 6 = flag p 6 := by
  cases b <;> simp [setFlag, flag, eqB] <;> omega

@[flagalg] theorem flag_setFlag_4_7 (p : Int) (b : Bool) : flag (setFlag p 4 b) 7 = flag p 7 := by
  cases b <;> simp [setFlag, flag, eqB] <;> omega

@[flagalg] theorem flag_setFlag_4_14 (p : Int) (b : Bool) : flag (setFlag p 4 b) 14 = flag p 14 := by
  cases b <;> simp [setFlag, flag, eqB] <;> omega

@[flagalg] theorem flag_setFlag_4_15 (p : Int) (b : Bool) : flag (setFlag p 4 b) 15 = flag p 15 := by
  cases b <;> simp [setFlag, flag, eqB] <;> omega

@[flagalg] theorem lor_flag_32 (p : Int) : lor p 32 = setFlag p 5 true := by
  rw [lor_lit_32, land_lit_32]; simp [setFlag]; omega

@[flagalg] theorem land_flag_32 (p : Int) : land p 32 = if flag p 5 then 32 else 0 := by
  rw [land_lit_32]; simp [flag, eqB]; have : p / 32 % 2 = 0 ∨ p / 32 % 2 = 1 := by omega
  rcases this with h | h <;> simp [h]

@[flagalg ↓] theorem lor_land_flag_32 (p v : Int) : lor p (land v 32) = setFlag p 5 (flag p 5 || flag v 5) := by
  rw [lor_land, land_lit_32, land_lit_32, bitv_land_32]; simp [setFlag, flag, eqB]
  have h1 : p / 32 % 2 = 0 ∨ p / 32 % 2 = 1 := by omega
  have h2 : v / 32 % 2 = 0 ∨ v / 32 % 2 = 1 := by omega
  rcases h1 with h1 | h1 <;> rcases h2 with h2 | h2 <;> simp [h1, h2] <;> omega

@[flagalg] theorem setFlag_same_5 (p : Int) (b c : Bool) : setFlag (setFlag p 5 b) 5 c = setFlag p 5 c := by
  cases b <;> cases c <;> simp [setFlag] <;> omega

@[flagalg] theorem setFlag_of_flag_5 (p : Int) (b : Bool) (h : flag p 5 = b) : setFlag p 5 b = p := by
  subst h; simp only [setFlag, flag, eqB]
  have h1 : p / 32 % 2 = 0 ∨ p / 32 % 2 = 1 := by omega
  rcases h1 with h1 | h1 <;> simp [h1]

@[flagalg] theorem flag_setFlag_same_5 (p : Int) (b : Bool) : flag (setFlag p 5 b) 5 = b := by
  cases b <;> simp [setFlag, flag, eqB] <;> omega

@[flagalg] theorem flag_setFlag_5_0 (p : Int) (b : Bool) : flag (setFlag p 5 b) 0 = flag p 0 := by
  cases b <;> simp [setFlag, flag, eqB] <;> omega

@[flagalg] theorem setFlag_comm_5_0 (p : Int) (b c : Bool) :
    setFlag (setFlag p 5 b) 0 c = setFlag (setFlag p 0 c) 5 b := by
  cases b <;> cases c <;> simp [setFlag] <;> omega

@[flagalg] theorem flag_setFlag_5_1 (p : Int) (b : Bool) : flag (setFlag p 5 b) 1 = flag p 1 := by
  cases b <;> simp [setFlag, flag, eqB] <;> omega

@[flagalg] theorem setFlag_comm_5_1 (p : Int) (b c : Bool) :
    setFlag (setFlag p 5 b) 1 c = setFlag (setFlag p 1 c) 5 b := by
  cases b <;> cases c <;> simp [setFlag] <;> omega

@[flagalg] theorem flag_setFlag_5_2 (p : Int) (b : Bool) : flag (setFlag p 5 b) 2 = flag p 2 := by
  cases b <;> simp [setFlag, flag, eqB] <;> omega

@[flagalg] theorem setFlag_comm_5_2 (p : Int) (b c : Bool) :
    setFlag (setFlag p 5 b) 2 c = setFlag (setFlag p 2 c) 5 b := by
  cases b <;> cases c <;> simp [setFlag] <;> omega

@[flagalg] theorem flag_setFlag_5_3 (p : Int) (b : Bool) : flag (setFlag p 5 b) 3 = flag p 3 := by
  cases b <;> simp [setFlag, flag, eqB] <;> omega

@[flagalg] theorem setFlag_comm_5_3 (p : Int) (b c : Bool) :
    setFlag (setFlag p 5 b) 3 c = setFlag (setFlag p 3 c) 5 b := by
  cases b <;> cases c <;> simp [setFlag] <;> omega

@[flagalg] theorem flag_setFlag_5_4 (p : Int) (b : Bool) : flag (setFlag p 5 b) 4 = flag p 4 := by
  cases b <;> simp [setFlag, flag, eqB] <;> omega

@[flagalg] theorem setFlag_comm_5_4 (p : Int) (b c : Bool) :
    setFlag (setFlag p 5 b) 4 c = setFlag (setFlag p 4 c) 5 b := by
  cases b <;> cases c <;> simp [setFlag] <;> omega

@[flagalg] theorem flag_setFlag_5_6 (p : Int) (b : Bool) : flag (setFlag p 5 b) 6 = flag p 6 := by
  cases b <;> simp [setFlag, flag, eqB] <;> omega

@[flagalg] theorem flag_setFlag_5_7 (p : Int) (b : Bool) : flag (setFlag p 5 b) 7 = flag p 7 := by
  cases b <;> simp [setFlag, flag, eqB] <;> omega

@[flagalg] theorem flag_setFlag_5_14 (p : Int) (b : Bool) : flag (setFlag p 5 b) 14 = flag p 14 := by
  cases b <;> simp [setFlag, flag, eqB] <;> omega

@[flagalg] theorem flag_setFlag_5_15 (p : Int) (b : Bool) : flag (setFlag p 5 b) 15 = flag p 15 := by
  cases b <;> simp [setFlag, flag, eqB] <;> omega

@[flagalg] theorem lor_flag_64 (p : Int) : lor p 64 = setFlag p 6 true := by
  rw [lor_lit_64, land_lit_64]; simp [setFlag]; omega

@[flagalg] theorem land_flag_64 (p : Int) : land p 64 = if flag p 6 then 64 else 0 := by
  rw [land_lit_64]; simp [flag, eqB]; have : p / 64 % 2 = 0 ∨ p / 64 % 2 = 1 := by omega
  rcases this with h | h <;> simp [h]

@[flagalg ↓] theorem lor_land_flag_64 (p v : Int) : lor p (land v 64) = setFlag p 6 (flag p 6 || flag v 6) := by
  rw [lor_land, land_lit_64, land_lit_64, bitv_land_64]; simp [setFlag, flag, eqB]
  have h1 : p / 64 % 2 = 0 ∨ p / 64 % 2 = 1 := by omega
  have h2 : v / 64 % 2 = 0 ∨ v / 64 % 2 = 1 := by omega
  rcases h1 with h1 | h1 <;> rcases h2 with h2 | h2 <;> simp [h1, h2] <;> omega

@[flagalg] theorem setFlag_same_6 (p : Int) (b c : Bool) : setFlag (setFlag p 6 b) 6 c = setFlag p 6 c := by
  cases b <;> cases c <;> simp [setFlag] <;> omega

@[flagalg] theorem setFlag_of_flag_6 (p : Int) (b : Bool) (h : flag p 6 = b) : setFlag p 6 b = p := by
  subst h; simp only [setFlag, flag, eqB]
  have h1 : p / 64 % 2 = 0 ∨ p / 64 % 2 = 1 := by omega
  rcases h1 with h1 | h1 <;> simp [h1]

@[flagalg] theorem flag_setFlag_same_6 (p : Int) (b : Bool) : flag (setFlag p 6 b) 6 = b := by
  cases b <;> simp [setFlag, flag, eqB] <;> omega

@[flagalg] theorem flag_setFlag_6_0 (p : Int) (b : Bool) : flag (setFlag p 6 b) 0 = flag p 0 := by
  cases b <;> simp [setFlag, flag, eqB] <;> omega

@[flagalg] theorem setFlag_comm_6_0 (p : Int) (b c : Bool) :
    setFlag (setFlag p 6 b) 0 c = setFlag (setFlag p 0 c) 6 b := by
  cases b <;> cases c <;> simp [setFlag] <;> omega

@[flagalg] theorem flag_setFlag_6_1 (p : Int) (b : Bool) : flag (setFlag p 6 b) 1 = flag p 1 := by
  cases b <;> simp [setFlag, flag, eqB] <;> omega

@[flagalg] theorem setFlag_comm_6_1 (p : Int) (b c : Bool) :
    setFlag (setFlag p 6 b) 1 c = setFlag (setFlag p 1 c) 6 b := by
  cases b <;> cases c <;> simp [setFlag] <;> omega

@[flagalg] theorem flag_setFlag_6_2 (p : Int) (b : Bool) : flag (setFlag p 6 b) 2 = flag p 2 := by
  cases b <;> simp [setFlag, flag, eqB] <;> omega

@[flagalg] theorem setFlag_comm_6_2 (p : Int) (b c : Bool) :
    setFlag (setFlag p 6 b) 2 c = setFlag (setFlag p 2 c) 6 b := by
  cases b <;> cases c <;> simp [setFlag] <;> omega

@[flagalg] theorem flag_setFlag_6_3 (p : Int) (b : Bool) : flag (setFlag p 6 b) 3 = flag p 3 := by
  cases b <;> simp [setFlag, flag, eqB] <;> omega

@[flagalg] theorem setFlag_comm_6_3 (p : Int) (b c : Bool) :
    setFlag (setFlag p 6 b) 3 c = setFlag (setFlag p 3 c) 6 b := by
  cases b <;> cases c <;> simp [setFlag] <;> omega

@[flagalg] theorem flag_setFlag_6_4 (p : Int) (b : Bool) : flag (setFlag p 6 b) 4 = flag p 4 := by
  cases b <;> simp [setFlag, flag, eqB] <;> omega

@[flagalg] theorem setFlag_comm_6_4 (p : Int) (b c : Bool) :
    setFlag (setFlag p 6 b) 4 c = setFlag (setFlag p 4 c) 6 b := by
  cases b <;> cases c <;> simp [setFlag] <;> omega

@[flagalg] theorem flag_setFlag_6_5 (p : Int) (b : Bool) : flag (setFlag p 6 b) 5 = flag p 5 := by
  cases b <;> simp [setFlag, flag, eqB] <;> omega

@[flagalg] theorem setFlag_comm_6_5 (p : Int) (b c : Bool) :
    setFlag (setFlag p 6 b) 5 c = setFlag (setFlag p 5 c) 6 b := by
  cases b <;> cases c <;> simp [setFlag] <;> omega

@[flagalg] theorem flag_setFlag_6_7 (p : Int) (b : Bool) : flag (setFlag p 6 b) 7 = flag p 7 := by
  cases b <;> simp [setFlag, flag, eqB] <;> omega

@[flagalg] theorem flag_setFlag_6_14 (p : Int) (b : Bool) : flag (setFlag p 6 b) 14 = flag p 14 := by
  cases b <;> simp [setFlag, flag, eqB] <;> omega

@[flagalg] theorem flag_setFlag_6_15 (p : Int) (b : Bool) : flag (setFlag p 6 b) 15 = flag p 15 := by
  cases b <;> simp [setFlag, flag, eqB] <;> omega

@[flagalg] theorem lor_flag_128 (p : Int) : lor p 128 = setFlag p 7 true := by
  rw [lor_lit_128, land_lit_128]; simp [setFlag]; omega

@[flagalg] theorem land_flag_128 (p : Int) : land p 128 = if flag p 7 then 128 else 0 := by
  rw [land_lit_128]; simp [flag, eqB]; have : p / 128 % 2 = 0 ∨ p / 128 % 2 = 1 := by omega
  rcases this with h | h <;> simp [h]

@[flagalg ↓] theorem lor_land_flag_128 (p v : Int) : lor p (land v 128) = setFlag p 7 (flag p 7 || flag v 7) := by
  rw [lor_land, land_lit_128, land_lit_128, bitv_land_128]; simp [setFlag, flag, eqB]
  have h1 : p / 128 % 2 = 0 ∨ p / 128 % 2 = 1 := by omega
  have h2 : v / 128 % 2 = 0 ∨ v / 128 % 2 = 1 := by omega
  rcases h1 with h1 | h1 <;> rcases h2 with h2 | h2 <;> simp [h1, h2] <;> omega

@[flagalg] theorem setFlag_same_7 (p : Int) (b c : Bool) : setFlag (setFlag p 7 b) 7 c = setFlag p 7 c := by
  cases b <;> cases c <;> simp [setFlag] <;> omega

@[flagalg] theorem setFlag_of_flag_7 (p : Int) (b : Bool) (h : flag p 7 = b) : setFlag p 7 b = p := by
  subst h; simp only [setFlag, flag, eqB]
  have h1 : p / 128 % 2 = 0 ∨ p / 128 % 2 = 1 := by omega
  rcases h1 with h1 | h1 <;> simp [h1]

@[flagalg] theorem flag_setFlag_same_7 (p : Int) (b : Bool) : flag (setFlag p 7 b) 7 = b := by
  cases b <;> simp [setFlag, flag, eqB] <;> omega

@[flagalg] theorem flag_setFlag_7_0 (p : Int) (b : Bool) : flag (setFlag p 7 b) 0 = flag p 0 := by
  cases b <;> simp [setFlag, flag, eqB] <;> omega

@[flagalg] theorem setFlag_comm_7_0 (p : Int) (b c : Bool) :
    setFlag (setFlag p 7 b) 0 c = setFlag (setFlag p 0 c) 7 b := by
  cases b <;> cases c <;> simp [setFlag] <;> omega

@[flagalg] theorem flag_setFlag_7_1 (p : Int) (b : Bool) : flag (setFlag p 7 b) 1 = flag p 1 := by
  cases b <;> simp [setFlag, flag, eqB] <;> omega

@[flagalg] theorem setFlag_comm_7_1 (p : Int) (b c : Bool) :
    setFlag (setFlag p 7 b) 1 c = setFlag (setFlag p 1 c) 7 b := by
  cases b <;> cases c <;> simp [setFlag] <;> omega

@[flagalg] theorem flag_setFlag_7_2 (p : Int) (b : Bool) : flag (setFlag p 7 b) 2 = flag p 2 := by
  cases b <;> simp [setFlag, flag, eqB] <;> omega

@[flagalg] theorem setFlag_comm_7_2 (p : Int) (b c : Bool) :
    setFlag (setFlag p 7 b) 2 c = setFlag (setFlag p 2 c) 7 b := by
  cases b <;> cases c <;> simp [setFlag] <;> omega

@[flagalg] theorem flag_setFlag_7_3 (p : Int) (b : Bool) : flag (setFlag p 7 b) 3 = flag p 3 := by
  cases b <;> simp [setFlag, flag, eqB] <;> omega

@[flagalg] theorem setFlag_comm_7_3 (p : Int) (b c : Bool) :
    setFlag (setFlag p 7 b) 3 c = setFlag (setFlag p 3 c) 7 b := by
  cases b <;> cases c <;> simp [setFlag] <;> omega

@[flagalg] theorem flag_setFlag_7_4 (p : Int) (b : Bool) : flag (setFlag p 7 b) 4 = flag p 4 := by
  cases b <;> simp [setFlag, flag, eqB] <;> omega

@[flagalg] theorem setFlag_comm_7_4 (p : Int) (b c : Bool) :
    setFlag (setFlag p 7 b) 4 c = setFlag (setFlag p 4 c) 7 b := by
  cases b <;> cases c <;> simp [setFlag] <;> omega

@[flagalg] theorem flag_setFlag_7_5 (p : Int) (b : Bool) : flag (setFlag p 7 b) 5 = flag p 5 := by
  cases b <;> simp [setFlag, flag, eqB] <;> omega

@[flagalg] theorem setFlag_comm_7_5 (p : Int) (b c : Bool) :
    setFlag (setFlag p 7 b) 5 c = setFlag (setFlag p 5 c) 7 b := by
  cases b <;> cases c <;> simp [setFlag] <;> omega

@[flagalg] theorem flag_setFlag_7_6 (p : Int) (b : Bool) : flag (setFlag p 7 b) 6 = flag p 6 := by
  cases b <;> simp [setFlag, flag, eqB] <;> omega

@[flagalg] theorem setFlag_comm_7_6 (p : Int) (b c : Bool) :
    setFlag (setFlag p 7 b) 6 c = setFlag (setFlag p 6 c) 7 b := by
  cases b <;> cases c <;> simp [setFlag] <;> omega

@[flagalg] theorem flag_setFlag_7_14 (p : Int) (b : Bool) : flag (setFlag p 7 b) 14 = flag p 14 := by
  cases b <;> simp [setFlag, flag, eqB] <;> omega

@[flagalg] theorem flag_setFlag_7_15 (p : Int) (b : Bool) : flag (setFlag p 7 b) 15 = flag p 15 := by
  cases b <;> simp [setFlag, flag, eqB] <;> omega

@[flagalg] theorem lor_flag_16384 (p : Int) : lor p 16384 = setFlag p 14 true := by
  rw [lor_lit_16384, land_lit_16384]; simp [setFlag]; omega

@[flagalg] theorem land_flag_16384 (p : Int) : land p 16384 = if flag p 14 then 16384 else 0 := by
  rw [land_lit_16384]; simp [flag, eqB]; have : p / 16384 % 2 = 0 ∨ p / 16384 % 2 = 1 := by omega
  rcases this with h | h <;> simp [h]

@[flagalg ↓] theorem lor_land_flag_16384 (p v : Int) : lor p (land v 16384) = setFlag p 14 (flag p 14 || flag v 14) := by
  rw [lor_land, land_lit_16384, land_lit_16384, bitv_land_16384]; simp [setFlag, flag, eqB]
  have h1 : p / 16384 % 2 = 0 ∨ p / 16384 % 2 = 1 := by omega
  have h2 : v / 16384 % 2 = 0 ∨ v / 16384 % 2 = 1 := by omega
  rcases h1 with h1 | h1 <;> rcases h2 with h2 | h2 <;> simp [h1, h2] <;> omega

@[flagalg] theorem setFlag_same_14 (p : Int) (b c : Bool) : setFlag (setFlag p 14 b) 14 c = setFlag p 14 c := by
  cases b <;> cases c <;> simp [setFlag] <;> omega

@[flagalg] theorem setFlag_of_flag_14 (p : Int) (b : Bool) (h : flag p 14 = b) : setFlag p 14 b = p := by
  subst h; simp only [setFlag, flag, eqB]
  have h1 : p / 16384 % 2 = 0 ∨ p / 16384 % 2 = 1 := by omega
  rcases h1 with h1 | h1 <;> simp [h1]

@[flagalg] theorem flag_setFlag_same_14 (p : Int) (b : Bool) : flag (setFlag p 14 b) 14 = b := by
  cases b <;> simp [setFlag, flag, eqB] <;> omega

@[flagalg] theorem flag_setFlag_14_0 (p : Int) (b : Bool) : flag (setFlag p 14 b) 0 = flag p 0 := by
  cases b <;> simp [setFlag, flag, eqB] <;> omega

@[flagalg] theorem setFlag_comm_14_0 (p : Int) (b c : Bool) :
    setFlag (setFlag p 14 b) 0 c = setFlag (setFlag p 0 c) 14 b := by
  cases b <;> cases c <;> simp [setFlag] <;> omega

@[flagalg] theorem flag_setFlag_14_1 (p : Int) (b : Bool) : flag (setFlag p 14 b) 1 = flag p 1 := by
  cases b <;> simp [setFlag, flag, eqB] <;> omega

@[flagalg] theorem setFlag_comm_14_1 (p : Int) (b c : Bool) :
    setFlag (setFlag p 14 b) 1 c = setFlag (setFlag p 1 c) 14 b := by
  cases b <;> cases c <;> simp [setFlag] <;> omega

@[flagalg] theorem flag_setFlag_14_2 (p : Int) (b : Bool) : flag (setFlag p 14 b) 2 = flag p 2 := by
  cases b <;> simp [setFlag, flag, eqB] <;> omega

@[flagalg] theorem setFlag_comm_14_2 (p : Int) (b c : Bool) :
    setFlag (setFlag p 14 b) 2 c = setFlag (setFlag p 2 c) 14 b := by
  cases b <;> cases c <;> simp [setFlag] <;> omega

@[flagalg] theorem flag_setFlag_14_3 (p : Int) (b : Bool) : flag (setFlag p 14 b) 3 = flag p 3 := by
  cases b <;> simp [setFlag, flag, eqB] <;> omega

@[flagalg] theorem setFlag_comm_14_3 (p : Int) (b c : Bool) :
    setFlag (setFlag p 14 b) 3 c = setFlag (setFlag p 3 c) 14 b := by
  cases b <;> cases c <;> simp [setFlag] <;> omega

@[flagalg] theorem flag_setFlag_14_4 (p : Int) (b : Bool) : flag (setFlag p 14 b) 4 = flag p 4 := by
  cases b <;> simp [setFlag, flag, eqB] <;> omega

@[flagalg] theorem setFlag_comm_14_4 (p : Int) (b c : Bool) :
    setFlag (setFlag p 14 b) 4 c = setFlag (setFlag p 4 c) 14 b := by
  cases b <;> cases c <;> simp [setFlag] <;> omega

@[flagalg] theorem flag_setFlag_14_5 (p : Int) (b : Bool) : flag (setFlag p 14 b) 5 = flag p 5 := by
  cases b <;> simp [setFlag, flag, eqB] <;> omega

@[flagalg] theorem setFlag_comm_14_5 (p : Int) (b c : Bool) :
    setFlag (setFlag p 14 b) 5 c = setFlag (setFlag p 5 c) 14 b := by
  cases b <;> cases c <;> simp [setFlag] <;> omega

@[flagalg] theorem flag_setFlag_14_6 (p : Int) (b : Bool) : flag (setFlag p 14 b) 6 = flag p 6 := by
  cases b <;> simp [setFlag, flag, eqB] <;> omega

@[flagalg] theorem setFlag_comm_14_6 (p : Int) (b c : Bool) :
    setFlag (setFlag p 14 b) 6 c = setFlag (setFlag p 6 c) 14 b := by
  cases b <;> cases c <;> simp [setFlag] <;> omega

@[flagalg] theorem flag_setFlag_14_7 (p : Int) (b : Bool) : flag (setFlag p 14 b) 7 = flag p 7 := by
  cases b <;> simp [setFlag, flag, eqB] <;> omega

@[flagalg] theorem setFlag_comm_14_7 (p : Int) (b c : Bool) :
    setFlag (setFlag p 14 b) 7 c = setFlag (setFlag p 7 c) 14 b := by
  cases b <;> cases c <;> simp [setFlag] <;> omega

@[flagalg] theorem flag_setFlag_14_15 (p : Int) (b : Bool) : flag (setFlag p 14 b) 15 = flag p 15 := by
  cases b <;> simp [setFlag, flag, eqB] <;> omega

@[flagalg] theorem lor_flag_32768 (p : Int) : lor p 32768 = setFlag p 15 true := by
  rw [lor_lit_32768, land_lit_32768]; simp [setFlag]; omega

@[flagalg] theorem land_flag_32768 (p : Int) : land p 32768 = if flag p 15 then 32768 else 0 := by
  rw [land_lit_32768]; simp [flag, eqB]; have : p / 32768 % 2 = 0 ∨ p / 32768 % 2 = 1 := by omega
  rcases this with h | h <;> simp [h]

@[flagalg ↓] theorem lor_land_flag_32768 (p v : Int) : lor p (land v 32768) = setFlag p 15 (flag p 15 || flag v 15) := by
  rw [lor_land, land_lit_32768, land_lit_32768, bitv_land_32768]; simp [setFlag, flag, eqB]
  have h1 : p / 32768 % 2 = 0 ∨ p / 32768 % 2 = 1 := by omega
  have h2 : v / 32768 % 2 = 0 ∨ v / 32768 % 2 = 1 := by omega
  rcases h1 with h1 | h1 <;> rcases h2 with h2 | h2 <;> simp [h1, h2] <;> omega

@[flagalg] theorem setFlag_same_15 (p : Int) (b c : Bool) : setFlag (setFlag p 15 b) 15 c = setFlag p 15 c := by
  cases b <;> cases c <;> simp [setFlag] <;> omega

@[flagalg] theorem setFlag_of_flag_15 (p : Int) (b : Bool) (h : flag p 15 = b) : setFlag p 15 b = p := by
  subst h; simp only [setFlag, flag, eqB]
  have h1 : p / 32768 % 2 = 0 ∨ p / 32768 % 2 = 1 := by omega
  rcases h1 with h1 | h1 <;> simp [h1]

@[flagalg] theorem flag_setFlag_same_15 (p : Int) (b : Bool) : flag (setFlag p 15 b) 15 = b := by
  cases b <;> simp [setFlag, flag, eqB] <;> omega

@[flagalg] theorem flag_setFlag_15_0 (p : Int) (b : Bool) : flag (setFlag p 15 b) 0 = flag p 0 := by
  cases b <;> simp [setFlag, flag, eqB] <;> omega

@[flagalg] theorem setFlag_comm_15_0 (p : Int) (b c : Bool) :
    setFlag (setFlag p 15 b) 0 c = setFlag (setFlag p 0 c) 15 b := by
  cases b <;> cases c <;> simp [setFlag] <;> omega

@[flagalg] theorem flag_setFlag_15_1 (p : Int) (b : Bool) : flag (setFlag p 15 b) 1 = flag p 1 := by
  cases b <;> simp [setFlag, flag, eqB] <;> omega

@[flagalg] theorem setFlag_comm_15_1 (p : Int) (b c : Bool) :
    setFlag (setFlag p 15 b) 1 c = setFlag (setFlag p 1 c) 15 b := by
  cases b <;> cases c <;> simp [setFlag] <;> omega

@[flagalg] theorem flag_setFlag_15_2 (p : Int) (b : Bool) : flag (setFlag p 15 b) 2 = flag p 2 := by
  cases b <;> simp [setFlag, flag, eqB] <;> omega

@[flagalg] theorem setFlag_comm_15_2 (p : Int) (b c : Bool) :
    setFlag (setFlag p 15 b) 2 c = setFlag (setFlag p 2 c) 15 b := by
  cases b <;> cases c <;> simp [setFlag] <;> omega

@[flagalg] theorem flag_setFlag_15_3 (p : Int) (b : Bool) : flag (setFlag p 15 b) 3 = flag p 3 := by
  cases b <;> simp [setFlag, flag, eqB] <;> omega

@[flagalg] theorem setFlag_comm_15_3 (p : Int) (b c : Bool) :
    setFlag (setFlag p 15 b) 3 c = setFlag (setFlag p 3 c) 15 b := by
  cases b <;> cases c <;> simp [setFlag] <;> omega

@[flagalg] theorem flag_setFlag_15_4 (p : Int) (b : Bool) : flag (setFlag p 15 b) 4 = flag p 4 := by
  cases b <;> simp [setFlag, flag, eqB] <;> omega

@[flagalg] theorem setFlag_comm_15_4 (p : Int) (b c : Bool) :
    setFlag (setFlag p 15 b) 4 c = setFlag (setFlag p 4 c) 15 b := by
  cases b <;> cases c <;> simp [setFlag] <;> omega

@[flagalg] theorem flag_setFlag_15_5 (p : Int) (b : Bool) : flag (setFlag p 15 b) 5 = flag p 5 := by
  cases b <;> simp [setFlag, flag, eqB] <;> omega

@[flagalg] theorem setFlag_comm_15_5 (p : Int) (b c : Bool) :
    setFlag (setFlag p 15 b) 5 c = setFlag (setFlag p 5 c) 15 b := by
  cases b <;> cases c <;> simp [setFlag] <;> omega

@[flagalg] theorem flag_setFlag_15_6 (p : Int) (b : Bool) : flag (setFlag p 15 b) 6 = flag p 6 := by
  cases b <;> simp [setFlag, flag, eqB] <;> omega

@[flagalg] theorem setFlag_comm_15_6 (p : Int) (b c : Bool) :
    setFlag (setFlag p 15 b) 6 c = setFlag (setFlag p 6 c) 15 b := by
  cases b <;> cases c <;> simp [setFlag] <;> omega

@[flagalg] theorem flag_setFlag_15_7 (p : Int) (b : Bool) : flag (setFlag p 15 b) 7 = flag p 7 := by
  cases b <;> simp [setFlag, flag, eqB] <;> omega

@[flagalg] theorem setFlag_comm_15_7 (p : Int) (b c : Bool) :
    setFlag (setFlag p 15 b) 7 c = setFlag (setFlag p 7 c) 15 b := by
  cases b <;> cases c <;> simp [setFlag] <;> omega

@[flagalg] theorem flag_setFlag_15_14 (p : Int) (b : Bool) : flag (setFlag p 15 b) 14 = flag p 14 := by
  cases b <;> simp [setFlag, flag, eqB] <;> omega

@[flagalg] theorem setFlag_comm_15_14 (p : Int) (b c : Bool) :
    setFlag (setFlag p 15 b) 14 c = setFlag (setFlag p 14 c) 15 b := by
  cases b <;> cases c <;> simp [setFlag] <;> omega

@[flagalg] theorem lor_zero (p : Int) : lor p 0 = p := by rw [lor_eq]; have := land_nonneg p 0 (by decide); have := land_le_right p 0 (by decide); omega

@[flagalg] theorem land_zero (p : Int) : land p 0 = 0 := by have := land_nonneg p 0 (by decide); have := land_le_right p 0 (by decide); omega

@[flagalg] theorem land_clear_1 (p : Int) : land p (-2) = setFlag p 0 false := by
  rw [show ((-2 : Int)) = -(2) by decide, land_neg]; simp only [Int.reduceSub, land_lit_1, setFlag]
  simp <;> omega

@[flagalg] theorem land_clear_2 (p : Int) : land p (-3) = setFlag p 1 false := by
  rw [show ((-3 : Int)) = -(3) by decide, land_neg]; simp only [Int.reduceSub, land_lit_2, setFlag]
  simp <;> omega

@[flagalg] theorem land_clear_4 (p : Int) : land p (-5) = setFlag p 2 false := by
  rw [show ((-5 : Int)) = -(5) by decide, land_neg]; simp only [Int.reduceSub, land_lit_4, setFlag]
  simp <;> omega

@[flagalg] theorem land_clear_8 (p : Int) : land p (-9) = setFlag p 3 false := by
  rw [show ((-9 : Int)) = -(9) by decide, land_neg]; simp only [Int.reduceSub, land_lit_8, setFlag]
  simp <;> omega

@[flagalg] theorem land_clear_16 (p : Int) : land p (-17) = setFlag p 4 false := by
  rw [show ((-17 : Int)) = -(17) by decide, land_neg]; simp only [Int.reduceSub, land_lit_16, setFlag]
  simp <;> omega

@[flagalg] theorem land_clear_64 (p : Int) : land p (-65) = setFlag p 6 false := by
  rw [show ((-65 : Int)) = -(65) by decide, land_neg]; simp only [Int.reduceSub, land_lit_64, setFlag]
  simp <;> omega

@[flagalg] theorem land_clear_130 (p : Int) : land p (-131) = setFlag (setFlag p 1 false) 7 false := by
  rw [show ((-131 : Int)) = -(131) by decide, land_neg]; simp only [Int.reduceSub, land_lit_130, setFlag]
  simp <;> omega

@[flagalg] theorem land_clear_131 (p : Int) : land p (-132) = setFlag (setFlag (setFlag p 0 false) 1 false) 7 false := by
  rw [show ((-132 : Int)) = -(132) by decide, land_neg]; simp only [Int.reduceSub, land_lit_131, setFlag]
  simp <;> omega

@[flagalg] theorem land_clear_194 (p : Int) : land p (-195) = setFlag (setFlag (setFlag p 1 false) 6 false) 7 false := by
  rw [show ((-195 : Int)) = -(195) by decide, land_neg]; simp only [Int.reduceSub, land_lit_194, setFlag]
  simp <;> omega

@[flagalg] theorem land_clear_195 (p : Int) : land p (-196) = setFlag (setFlag (setFlag (setFlag p 0 false) 1 false) 6 false) 7 false := by
  rw [show ((-196 : Int)) = -(196) by decide, land_neg]; simp only [Int.reduceSub, land_lit_195, setFlag]
  simp <;> omega

@[flagalg] theorem land_clear_16384 (p : Int) : land p (-16385) = setFlag p 14 false := by
  rw [show ((-16385 : Int)) = -(16385) by decide, land_neg]; simp only [Int.reduceSub, land_lit_16384, setFlag]
  simp <;> omega

@[flagalg] theorem land_clear_32770 (p : Int) : land p (-32771) = setFlag (setFlag p 1 false) 15 false := by
  rw [show ((-32771 : Int)) = -(32771) by decide, land_neg]; simp only [Int.reduceSub, land_lit_32770, setFlag]
  simp <;> omega

@[flagalg] theorem land_clear_32771 (p : Int) : land p (-32772) = setFlag (setFlag (setFlag p 0 false) 1 false) 15 false := by
  rw [show ((-32772 : Int)) = -(32772) by decide, land_neg]; simp only [Int.reduceSub, land_lit_32771, setFlag]
  simp <;> omega

@[flagalg] theorem land_clear_49154 (p : Int) : land p (-49155) = setFlag (setFlag (setFlag p 1 false) 14 false) 15 false := by
  rw [show ((-49155 : Int)) = -(49155) by decide, land_neg]; simp only [Int.reduceSub, land_lit_49154, setFlag]
  simp <;> omega

@[flagalg] theorem land_clear_49155 (p : Int) : land p (-49156) = setFlag (setFlag (setFlag (setFlag p 0 false) 1 false) 14 false) 15 false := by
  rw [show ((-49156 : Int)) = -(49156) by decide, land_neg]; simp only [Int.reduceSub, land_lit_49155, setFlag]
  simp <;> omega

@[flagalg ↓] theorem lor_land_flag_192 (p v : Int) : lor p (land v 192) = setFlag (setFlag p 6 (flag p 6 || flag v 6)) 7 (flag p 7 || flag v 7) := by
  rw [lor_land, land_lit_192, land_lit_192, bitv_land_64, bitv_land_128]; simp [setFlag, flag, eqB]
  have h1 : p / 64 % 2 = 0 ∨ p / 64 % 2 = 1 := by omega
  have h2 : v / 64 % 2 = 0 ∨ v / 64 % 2 = 1 := by omega
  have h3 : p / 128 % 2 = 0 ∨ p / 128 % 2 = 1 := by omega
  have h4 : v / 128 % 2 = 0 ∨ v / 128 % 2 = 1 := by omega
  rcases h1 with h1 | h1 <;> rcases h2 with h2 | h2 <;> rcases h3 with h3 | h3 <;> rcases h4 with h4 | h4 <;>
    simp [h1, h2, h3, h4] <;> omega

@[flagalg ↓] theorem lor_land_flag_49152 (p v : Int) : lor p (land v 49152) = setFlag (setFlag p 14 (flag p 14 || flag v 14)) 15 (flag p 15 || flag v 15) := by
  rw [lor_land, land_lit_49152, land_lit_49152, bitv_land_16384, bitv_land_32768]; simp [setFlag, flag, eqB]
  have h1 : p / 16384 % 2 = 0 ∨ p / 16384 % 2 = 1 := by omega
  have h2 : v / 16384 % 2 = 0 ∨ v / 16384 % 2 = 1 := by omega
  have h3 : p / 32768 % 2 = 0 ∨ p / 32768 % 2 = 1 := by omega
  have h4 : v / 32768 % 2 = 0 ∨ v / 32768 % 2 = 1 := by omega
  rcases h1 with h1 | h1 <;> rcases h2 with h2 | h2 <;> rcases h3 with h3 | h3 <;> rcases h4 with h4 | h4 <;>
    simp [h1, h2, h3, h4] <;> omega

@[flagalg] theorem lor_set_3 (p : Int) : lor p 3 = setFlag (setFlag p 0 true) 1 true := by
  rw [lor_lit_3, land_lit_3]; simp only [setFlag]; simp; omega

@[flagalg] theorem lor_set_48 (p : Int) : lor p 48 = setFlag (setFlag p 4 true) 5 true := by
  rw [lor_lit_48, land_lit_48]; simp only [setFlag]; simp; omega

end Py65.Proofs
