/-
One operation of a generated device keeps the invariant of the history theorems:
  * every register inside the byte, PC inside the address space, every cell inside the byte (`WF`),
  * a 6502 / 65Org16 never waits.
`step()`: EVERY opcode byte 0..255 - declared (C01/C02/C03 + closure of the programming model,
`Proofs/HistSpecClosed.lean`), ADC/SBC in both arithmetic modes and JSR wherever the stack is (direct,
`Proofs/HistArithSteps.lean`), undeclared (C05 `undeclared_dev*`), and the waiting 65C02.
-/
import Py65.Props.C01
import Py65.Props.C02
import Py65.Props.C03
import Py65.Props.C05
import Py65.Proofs.HistArithSteps
import Py65.Proofs.Hist

set_option linter.unusedSimpArgs false

namespace Py65.Proofs.Hist
open Py65 Py65.Gen Py65.Spec Py65.Proofs Py

/-! ### facts about the instruction tables (kernel evaluation) -/

def smbOk : Mn → Bool
  | .SMB b => decide (b < 8)
  | _ => true

def notWai : Mn → Bool
  | .WAI => false
  | _ => true

theorem smb_rows : ∀ r ∈ cmosExtTable ++ nmosTable, smbOk r.2.1 = true := by decide +kernel
theorem nmos_no_wai : ∀ r ∈ nmosTable, notWai r.2.1 = true := by decide +kernel

theorem decode_mem {v : Variant} {op : Int} {mn : Mn} {mo : Mode} (hd : decode v op = some (mn, mo)) :
    (op, mn, mo) ∈ cmosExtTable ++ nmosTable := by
  cases v with
  | nmos => exact List.mem_append_right _ (lookup_mem hd)
  | cmos =>
    simp only [decode] at hd
    split at hd
    · rename_i r hr
      obtain ⟨mn', mo'⟩ := r
      simp only [Option.some.injEq, Prod.mk.injEq] at hd
      obtain ⟨rfl, rfl⟩ := hd
      exact List.mem_append_left _ (lookup_mem hr)
    · exact List.mem_append_right _ (lookup_mem hd)

theorem decode_smb {v : Variant} {op : Int} {mn : Mn} {mo : Mode} (hd : decode v op = some (mn, mo))
    (b : Nat) (hb : mn = .SMB b) : b < 8 := by
  have := smb_rows _ (decode_mem hd)
  subst hb
  simpa [smbOk] using this

theorem decode_arith {v : Variant} {op : Int} {mn : Mn} {mo : Mode} (hd : decode v op = some (mn, mo))
    (ha : isArith mn = true) : op ∈ arithOps v := by
  cases v with
  | nmos => exact arith_rows_nmos _ (lookup_mem hd) ha
  | cmos => exact arith_rows_cmos _ (decode_mem hd) ha

/-! ### the programming model's `step` is closed -/

theorem spec_step_closed {W : Nat} (hW : W = 8 ∨ W = 16) (v : Variant) (a : AState)
    (ha : AClosed W a) : AClosed W (Spec.step W v a) := by
  unfold Spec.step
  split
  · exact ha
  · split
    · rename_i mn mo hd
      exact exec_closed hW v mn mo _ ⟨ha.a, ha.x, ha.y, ha.sp, ha.p, inA_mod hW _, ha.mem⟩
        (fun b hb => decode_smb hd b hb)
    · exact skip_closed hW a ha

/-- Only WAI changes the waiting flag. -/
theorem exec_waiting (W : Nat) (v : Variant) (mn : Mn) (mo : Mode) (s : AState) (h : mn ≠ .WAI) :
    (exec W v mn mo s).waiting = s.waiting := by
  cases mn <;> first
    | exact absurd rfl h
    | rfl
    | (simp only [exec]; (repeat' split) <;> rfl)

/-! ### `WF` of a model state = closedness of its abstraction -/

theorem inB_of_normP {W : Nat} (hW : W = 8 ∨ W = 16) {p : Int} (h : InB W (normP p)) : InB W p := by
  rcases hW with rfl | rfl <;>
  · simp only [InB, BM, normP, setFlag, bitB, bitU] at *
    simp at h
    omega

theorem aclosed_abs {c : Cfg} (hc : IsDev c) {s : St} (hs : WF c s) : AClosed c.BYTE_WIDTH (abs s) :=
  ⟨(inB_iff hc _).2 hs.a, (inB_iff hc _).2 hs.x, (inB_iff hc _).2 hs.y, (inB_iff hc _).2 hs.sp,
   inB_normP hc.W ((inB_iff hc _).2 hs.p), (inA_iff hc _).2 hs.pc, fun k => (inB_iff hc _).2 (hs.mem k)⟩

theorem WF_of_aclosed_abs {c : Cfg} (hc : IsDev c) {s : St} (h : AClosed c.BYTE_WIDTH (abs s)) : WF c s :=
  ⟨(inB_iff hc _).1 h.a, (inB_iff hc _).1 h.x, (inB_iff hc _).1 h.y, (inB_iff hc _).1 h.sp,
   (inB_iff hc _).1 (inB_of_normP hc.W h.p), (inA_iff hc _).1 h.pc, fun k => (inB_iff hc _).1 (h.mem k)⟩

/-- A model state whose abstraction is a closed Spec state is well-formed. -/
theorem WF_of_abs_eq {c : Cfg} (hc : IsDev c) {s : St} {A : AState} (h : abs s = A)
    (hA : AClosed c.BYTE_WIDTH A) : WF c s := WF_of_aclosed_abs hc (h ▸ hA)

theorem WF_of_core_eq {c : Cfg} (hc : IsDev c) {s' s : St} {pc : Int}
    (h : core s' = { core s with pc := pc }) (hs : WF c s) (hpc : 0 ≤ pc ∧ pc ≤ c.addrMask) : WF c s' := by
  obtain ⟨ha, hx, hy, hsp, hp, hpc', hmem, _⟩ := core_eq h
  exact ⟨ha ▸ hs.a, hx ▸ hs.x, hy ▸ hs.y, hsp ▸ hs.sp, hp ▸ hs.p, hpc' ▸ hpc, hmem ▸ hs.mem⟩

/-! ### one `step()` -/

/-- A declared, non-waiting step through the Spec: shared by the three devices. -/
theorem step_via_spec {c : Cfg} (hc : IsDev c) (v : Variant) {s s' : St} (hs : WF c s)
    (hw : s.waiting = false) {mn : Mn} {mo : Mode} (hd : decode v (s.mem s.pc) = some (mn, mo))
    (h : abs s' = Spec.step c.BYTE_WIDTH v (abs s)) :
    WF c s' ∧ (mn ≠ .WAI → s'.waiting = false) := by
  refine ⟨WF_of_abs_eq hc h (spec_step_closed hc.W v _ (aclosed_abs hc hs)), fun hn => ?_⟩
  have hwa := congrArg AState.waiting h
  have e1 : (abs s).waiting = false := hw
  have e2 : (abs s).mem (abs s).pc = s.mem s.pc := rfl
  simp only [Spec.step, e1, e2, hd, Bool.false_eq_true, if_false] at hwa
  rw [exec_waiting _ _ _ _ _ hn] at hwa
  exact hwa

theorem nmos_not_wai {op : Int} {mn : Mn} {mo : Mode} (hd : decode .nmos op = some (mn, mo)) : mn ≠ .WAI := by
  have := nmos_no_wai _ (lookup_mem hd)
  rintro rfl
  simp [notWai] at this

theorem not_arith_hyps {mn : Mn} (ha : ¬ isArith mn = true) :
    (¬ (mn = .ADC ∨ mn = .SBC)) ∧ mn ≠ .JSR := by
  refine ⟨?_, ?_⟩
  · rintro (rfl | rfl) <;> exact ha rfl
  · rintro rfl; exact ha rfl

/-- 6502: one `step()` at ANY opcode byte keeps the invariant. -/
theorem step_inv_nmos (s : St) (hs : WF dev6502.cfg s) (hw : s.waiting = false) :
    WF dev6502.cfg (dev6502.step s) ∧ (dev6502.step s).waiting = false := by
  have hc : IsDev dev6502.cfg := Or.inl rfl
  have hop : 0 ≤ s.mem s.pc ∧ s.mem s.pc < 256 := by
    have := hs.mem s.pc; constfold at this; omega
  cases hd : decode .nmos (s.mem s.pc) with
  | none =>
    obtain ⟨h1, _⟩ := Py65.Props.C05.undeclared_dev6502 s hs hw hop hd
    refine ⟨WF_of_core_eq hc h1 hs ?_, ?_⟩
    · constfold; omega
    · exact (core_eq h1).2.2.2.2.2.2.2.trans hw
  | some r =>
    obtain ⟨mn, mo⟩ := r
    by_cases ha : isArith mn = true
    · obtain ⟨h1, h2⟩ := arith_step_dev6502 s hs (decode_arith hd ha)
      exact ⟨h1, h2.trans hw⟩
    · obtain ⟨h1, h2⟩ := not_arith_hyps ha
      have h := Py65.Props.C01.C01_full s hs hw mn mo hd (fun h => absurd h h1) (fun h => absurd h h2)
      obtain ⟨g1, g2⟩ := step_via_spec hc .nmos hs hw hd h
      exact ⟨g1, g2 (nmos_not_wai hd)⟩

/-- 65Org16: one `step()` at any opcode cell holding a byte 0..255 keeps the invariant (a cell above
255 raises IndexError in the real `step()`: outside the property's quantifier). -/
theorem step_inv_org16 (s : St) (hs : WF dev65org16.cfg s) (hw : s.waiting = false)
    (hop : s.mem s.pc < 256) :
    WF dev65org16.cfg (dev65org16.step s) ∧ (dev65org16.step s).waiting = false := by
  have hc : IsDev dev65org16.cfg := Or.inr rfl
  have hop' : 0 ≤ s.mem s.pc ∧ s.mem s.pc < 256 := ⟨(hs.mem s.pc).1, hop⟩
  have hstep : dev65org16.step s = Mpu6502.step dev65org16.cfg dev65org16.tbl s := by
    simp only [dev65org16.step, Mpu65org16.step, hw]; rfl
  cases hd : decode .nmos (s.mem s.pc) with
  | none =>
    obtain ⟨h1, _⟩ := Py65.Props.C05.undeclared_dev65org16 s hs hw hop' hd
    refine ⟨WF_of_core_eq hc h1 hs ?_, ?_⟩
    · constfold; omega
    · exact (core_eq h1).2.2.2.2.2.2.2.trans hw
  | some r =>
    obtain ⟨mn, mo⟩ := r
    by_cases ha : isArith mn = true
    · obtain ⟨h1, h2⟩ := arith_step_dev65org16 s hs (decode_arith hd ha)
      rw [hstep]
      exact ⟨h1, h2.trans hw⟩
    · obtain ⟨h1, h2⟩ := not_arith_hyps ha
      have h := Py65.Props.C03.C03_full s hs hw mn mo hd (fun h => absurd h h1) (fun h => absurd h h2)
      obtain ⟨g1, g2⟩ := step_via_spec hc .nmos hs hw hd h
      exact ⟨g1, g2 (nmos_not_wai hd)⟩

/-- 65C02: one `step()` at ANY opcode byte, waiting or not, keeps the state well-formed. -/
theorem step_inv_cmos (s : St) (hs : WF dev65c02.cfg s) : WF dev65c02.cfg (dev65c02.step s) := by
  have hc : IsDev dev65c02.cfg := Or.inl rfl
  cases hw : s.waiting with
  | true =>
    rw [show dev65c02.step s = { s with cycles := s.cycles + 1 } from
      Py65.Proofs.wai_halts dev65c02.cfg dev65c02.tbl s hw]
    exact ⟨hs.a, hs.x, hs.y, hs.sp, hs.p, hs.pc, hs.mem⟩
  | false =>
    have hop : 0 ≤ s.mem s.pc ∧ s.mem s.pc < 256 := by
      have := hs.mem s.pc; rw [dev65c02_cfg] at this; constfold at this; omega
    cases hd : decode .cmos (s.mem s.pc) with
    | none =>
      obtain ⟨h1, _⟩ := Py65.Props.C05.undeclared_dev65c02 s hs hw hop hd
      refine WF_of_core_eq hc h1 hs ?_
      rw [dev65c02_cfg]; constfold; omega
    | some r =>
      obtain ⟨mn, mo⟩ := r
      by_cases ha : isArith mn = true
      · rw [Py65.Props.C02.step_not_waiting s hw]
        exact (arith_step_dev65c02 s hs (decode_arith hd ha)).1
      · obtain ⟨h1, h2⟩ := not_arith_hyps ha
        have h := Py65.Props.C02.C02_full s hs hw mn mo hd (fun h => absurd h h1) (fun h => absurd h h2)
        exact (step_via_spec hc .cmos hs hw hd h).1

/-! ### irq(), nmi(), reset() -/

theorem spec_irq_waiting (W : Nat) (a : AState) : (Spec.irq W a).waiting = false := by
  unfold Spec.irq; split <;> rfl

theorem irq_inv (c : Cfg) (hc : IsDev c) (s : St) (hs : WF c s) (hw : s.waiting = false) :
    WF c (Mpu6502.irq c s) ∧ (Mpu6502.irq c s).waiting = false := by
  have h := irq_sem c hc s hs hw
  refine ⟨WF_of_abs_eq hc h (irq_closed hc.W _ (aclosed_abs hc hs)), ?_⟩
  exact (congrArg AState.waiting h).trans (spec_irq_waiting _ _)

theorem nmi_inv (c : Cfg) (hc : IsDev c) (s : St) (hs : WF c s) (hw : s.waiting = false) :
    WF c (Mpu6502.nmi c s) ∧ (Mpu6502.nmi c s).waiting = false := by
  have h := nmi_sem c hc s hs hw
  exact ⟨WF_of_abs_eq hc h (nmi_closed hc.W _ (aclosed_abs hc hs)), congrArg AState.waiting h⟩

theorem irq_inv_cmos (s : St) (hs : WF dev65c02.cfg s) : WF dev65c02.cfg (dev65c02.irq s) :=
  WF_of_abs_eq (Or.inl rfl) (irq65c02_sem s hs) (irq_closed (Or.inl rfl) _ (aclosed_abs (c := dev65c02.cfg) (Or.inl rfl) hs))

theorem nmi_inv_cmos (s : St) (hs : WF dev65c02.cfg s) : WF dev65c02.cfg (dev65c02.nmi s) :=
  WF_of_abs_eq (Or.inl rfl) (nmi65c02_sem s hs) (nmi_closed (Or.inl rfl) _ (aclosed_abs (c := dev65c02.cfg) (Or.inl rfl) hs))

theorem reset_at_WF (c : Cfg) (hc : IsDev c) (s : St) (hs : WF c s) (a : Int) (ha : 0 ≤ a ∧ a ≤ c.addrMask) :
    WF c (Mpu6502.reset_at c a s) := by
  refine ⟨?_, ?_, ?_, ?_, ?_, ha, hs.mem⟩ <;>
    (rcases hc with rfl | rfl <;> simp [Mpu6502.reset_at] <;> decide)

theorem reset_vec_WF (c : Cfg) (hc : IsDev c) (s : St) (hs : WF c s) : WF c (Mpu6502.reset_vec c s) := by
  have h1 := hs.mem c.RESET
  have h2 := hs.mem ((c.RESET + 1) % AM c.BYTE_WIDTH)
  refine ⟨?_, ?_, ?_, ?_, ?_, ?_, hs.mem⟩
  · rcases hc with rfl | rfl <;> simp [Mpu6502.reset_vec] <;> decide
  · rcases hc with rfl | rfl <;> simp [Mpu6502.reset_vec] <;> decide
  · rcases hc with rfl | rfl <;> simp [Mpu6502.reset_vec] <;> decide
  · rcases hc with rfl | rfl <;> simp [Mpu6502.reset_vec] <;> decide
  · rcases hc with rfl | rfl <;> simp [Mpu6502.reset_vec] <;> decide
  · show 0 ≤ (Mpu6502.WordAt c c.RESET s).1 ∧ (Mpu6502.WordAt c c.RESET s).1 ≤ c.addrMask
    rw [WordAt_val c hc]
    rcases hc with rfl | rfl <;> (constfold at h1 h2 ⊢; omega)

/-! ### the invariant along histories -/

/-- The invariant of the history theorems: well-formed state; a 6502 / 65Org16 is not waiting
(those classes have no WAI; `waiting` is only ever set by the 65C02's WAI). -/
def Inv (d : Dev) (s : St) : Prop := WF d.cfg s ∧ (d ≠ .cmos → s.waiting = false)

/-- What the property's quantifiers demand of one call: a `reset(start)` is given an address; the
opcode cell a 65Org16 executes holds an opcode byte 0..255 (a larger cell raises IndexError in the
real `step()`; recorded in DESIGN 0.5, outside C05's quantifier).  Nothing for the 6502 and 65C02. -/
def OpOK (d : Dev) (o : Op) (s : St) : Prop :=
  match o with
  | .step => d = .org16 → s.mem s.pc < 256
  | .reset (some a) => 0 ≤ a ∧ a ≤ d.cfg.addrMask
  | _ => True

theorem apply_inv (d : Dev) (o : Op) (s : St) (hi : Inv d s) (ho : OpOK d o s) : Inv d (apply d o s) := by
  obtain ⟨hs, hw⟩ := hi
  cases d with
  | nmos =>
    have hw' := hw (by decide)
    cases o with
    | step => exact ⟨(step_inv_nmos s hs hw').1, fun _ => (step_inv_nmos s hs hw').2⟩
    | irq => exact ⟨(irq_inv _ (Or.inl rfl) s hs hw').1, fun _ => (irq_inv _ (Or.inl rfl) s hs hw').2⟩
    | nmi => exact ⟨(nmi_inv _ (Or.inl rfl) s hs hw').1, fun _ => (nmi_inv _ (Or.inl rfl) s hs hw').2⟩
    | reset a =>
      cases a with
      | none => exact ⟨reset_vec_WF _ (Or.inl rfl) s hs, fun _ => hw'⟩
      | some a => exact ⟨reset_at_WF _ (Or.inl rfl) s hs a ho, fun _ => hw'⟩
  | org16 =>
    have hw' := hw (by decide)
    cases o with
    | step => exact ⟨(step_inv_org16 s hs hw' (ho rfl)).1, fun _ => (step_inv_org16 s hs hw' (ho rfl)).2⟩
    | irq => exact ⟨(irq_inv _ (Or.inr rfl) s hs hw').1, fun _ => (irq_inv _ (Or.inr rfl) s hs hw').2⟩
    | nmi => exact ⟨(nmi_inv _ (Or.inr rfl) s hs hw').1, fun _ => (nmi_inv _ (Or.inr rfl) s hs hw').2⟩
    | reset a =>
      cases a with
      | none => exact ⟨reset_vec_WF _ (Or.inr rfl) s hs, fun _ => hw'⟩
      | some a => exact ⟨reset_at_WF _ (Or.inr rfl) s hs a ho, fun _ => hw'⟩
  | cmos =>
    refine ⟨?_, fun h => absurd rfl h⟩
    cases o with
    | step => exact step_inv_cmos s hs
    | irq => exact irq_inv_cmos s hs
    | nmi => exact nmi_inv_cmos s hs
    | reset a =>
      cases a with
      | none =>
        have := reset_vec_WF _ (Or.inl rfl) s hs
        exact ⟨this.a, this.x, this.y, this.sp, this.p, this.pc, this.mem⟩
      | some a =>
        have := reset_at_WF _ (Or.inl rfl) s hs a ho
        exact ⟨this.a, this.x, this.y, this.sp, this.p, this.pc, this.mem⟩

/-- The invariant holds at EVERY state of a history (before each operation) and at its end. -/
theorem run_inv (d : Dev) (ops : List Op) (s : St) (hi : Inv d s) (ho : Along d (OpOK d) ops s) :
    Along d (fun _ s' => Inv d s') ops s ∧ Inv d (run d ops s) := by
  induction ops generalizing s with
  | nil => exact ⟨trivial, hi⟩
  | cons o ops ih =>
    obtain ⟨h1, h2⟩ := ho
    obtain ⟨g1, g2⟩ := ih _ (apply_inv d o s hi h1) h2
    exact ⟨⟨hi, g1⟩, g2⟩

end Py65.Proofs.Hist
