/-
COMPOSITION, second part (C20, builder `asmhon`): the five commands `Proofs/MonCompose.lean` left behind the
parameters `P.unt` / `P.asm` -- `do_assemble` (with `_interactive_assemble`), `do_help`, `do_version`, `do_cd`,
`do_pwd` -- INSTANTIATED with the generated methods of unit `asmc` (`Gen/MonAsmGen.lean`) through the adapter
`Model/MonCompose2Rt.lean`, with

  `asm`     := the GENERATED assembler of the session's device (`C20a.asmG (asmDev c.dev) Q.kt`),
  `dis`     := the GENERATED `do_disassemble` of unit `show` (`MonCompose.disC`) on the core the `AsmSt` denotes,
  `iat`, `fmtdis` := the same uninterpreted parameters `P.iat` / `P.fmtdis` unit `show` is run with,
  `cmdhelp` := `Q.cmdhelp` (cmd.Cmd.do_help: standard library, NOT translated; hypothesis `C20a.OutOnly`),
  `reply`, `d`, `w` := the glue's reply oracle, the device's widths, the OS parameter `Q.aw`.

`Params2.full Q : Params` is the resulting instance of `MonCompose.Params`.  Proved here:
* `asm_kept`            every end of the generated `do_assemble` leaves registers, labels, radix, breakpoints, width;
* `asm_rejected_end`    a refused `assemble` (verdict `asmVerdict`) ENDS, with memory object, registers, ... untouched;
* `asm_honest`          `AsmHonest (Q.full)`                                  (hyp. `GlueOK`);
* `models_assemble`     `ModelsAt … .assemble` at a call that returns          (hyp. that run `≠ .nofuel`);
* `models_help/version/cd/pwd`  `ModelsAt` unconditionally (hyp. `GlueOK`; `help`: `OutOnly Q.cmdhelp`);
* `unt_models`          `UntModels (Q.full)` from `GlueOK`, `OutOnly Q.cmdhelp`, `InputOK Q` (every `assemble` run ends);
* `models_at2`, `onecmd_sim_composed2`, `onecmd_rejected_composed2`: the composed simulation in POINTWISE form -- no
  `InputOK`: a refused line never needs it.
-/
import Py65.Model.MonCompose2Rt
import Py65.Proofs.MonCompose
import Py65.Props.C20a

namespace Py65.Proofs.MonCompose2
open Py65 Py65.Model Py65.Model.PyStr Py65.Model.AddrParser Py65.Model.MonCmd Py65.Model.MonGenRt
open Py65.Model.MonCmdRt Py65.Model.MonComposeRt Py65.Model.MonCompose2Rt Py65.Model.MonAsmRt Py65.Model.MonAsm
open Py65.Gen Py65.Proofs.MonCmd Py65.Proofs.MonCmdGenEq Py65.Proofs.MonCompose Py65.Proofs.MonAsmGenEq
open Py65.Props.C20a

/-! ## Part 1: frame lemmas for the hand model of `do_assemble` (any `asm`, `iat`, `fmtdis`; a `dis` that keeps
the frame): registers, address parser (labels, radix), breakpoints and width are never assigned -/

/-- registers, address parser, breakpoints, width of `s` are those of `σ` -/
def Fr (σ s : AsmSt) : Prop :=
  s.regs = σ.regs ∧ s.parser = σ.parser ∧ s.breakpoints = σ.breakpoints ∧ s.width = σ.width

theorem Fr.refl (σ : AsmSt) : Fr σ σ := ⟨rfl, rfl, rfl, rfl⟩

theorem Fr.trans {a b c : AsmSt} (h1 : Fr a b) (h2 : Fr b c) : Fr a c :=
  ⟨h2.1.trans h1.1, h2.2.1.trans h1.2.1, h2.2.2.1.trans h1.2.2.1, h2.2.2.2.trans h1.2.2.2⟩

/-- If the call ended (returned or raised), the frame is as in `σ`. -/
def Kept {α : Type} (σ : AsmSt) : AFlow AsmSt α → Prop
  | .ok _ s => Fr σ s
  | .raise _ s => Fr σ s
  | .nofuel => True

theorem Kept.of_fr {α : Type} {σ0 σ : AsmSt} (h : Fr σ0 σ) {r : AFlow AsmSt α} (hk : Kept σ r) : Kept σ0 r := by
  cases r with
  | ok v s => exact h.trans hk
  | raise e s => exact h.trans hk
  | nofuel => trivial

theorem Kept.bind {α β : Type} {σ : AsmSt} {x : AFlow AsmSt α} {f : α → AsmSt → AFlow AsmSt β}
    (hx : Kept σ x) (hf : ∀ v s, Kept s (f v s)) : Kept σ (x.bind f) := by
  cases x with
  | ok v s => exact Kept.of_fr hx (hf v s)
  | raise e s => exact hx
  | nofuel => trivial

section frame
variable (asm : Parser → Str → Int → Except AExc (List Int))
  (iat : AsmSt → Int → Except AExc (Int × Str)) (fmtdis : AsmSt → Int → Int → Str → Except AExc Str)
  (dis : Str → AsmSt → AFlow AsmSt Unit) (reply : ObsMem.Reply) (d : MonMem.Dev)

theorem asmHandlers_kept (args st : Str) (e : AExc) (σ : AsmSt) : Kept σ (asmHandlers args st e σ) := by
  cases e <;> exact Fr.refl σ

theorem catchAsm_kept (args st : Str) (σ : AsmSt) (r : AFlow AsmSt Unit) (h : Kept σ r) :
    Kept σ (catchAsm args st r) := by
  cases r with
  | ok v s => exact h
  | raise e s => exact Kept.of_fr h (asmHandlers_kept args st e s)
  | nofuel => trivial

theorem iaAccept_kept (start : Int) (pr line : Str) (bytes : List Int) (σ : AsmSt) :
    Kept σ (iaAccept iat fmtdis reply d start pr line bytes σ) := by
  unfold iaAccept
  dsimp only
  split
  · exact Fr.refl σ
  · split
    · exact Fr.refl σ
    · exact Fr.refl σ

theorem iaTry_kept (start : Int) (pr line : Str) (σ : AsmSt) :
    Kept σ (iaTry asm iat fmtdis reply d start pr line σ) := by
  unfold iaTry
  split
  · exact Fr.refl σ
  · exact iaAccept_kept iat fmtdis reply d start pr line _ σ

theorem iaLine_kept (start : Int) (pr line : Str) (σ : AsmSt) :
    Kept σ (iaLine asm iat fmtdis reply d start pr line σ) := by
  unfold iaLine
  have h := iaTry_kept asm iat fmtdis reply d start pr line σ
  cases hr : iaTry asm iat fmtdis reply d start pr line σ with
  | ok v s => rw [hr] at h; exact h
  | nofuel => trivial
  | raise e s =>
    rw [hr] at h
    dsimp only
    split
    · exact h
    · exact h

theorem iaLoop_kept (fuel : Nat) : ∀ (start : Int) (σ : AsmSt), Kept σ (iaLoop asm iat fmtdis reply d fuel start σ) := by
  induction fuel with
  | zero => intro start σ; trivial
  | succ n ih =>
    intro start σ
    unfold iaLoop
    cases hi : σ.inp with
    | nil => trivial
    | cons line rest =>
      dsimp only
      split
      · exact Fr.refl σ
      · refine Kept.of_fr ?_ (Kept.bind (iaLine_kept asm iat fmtdis reply d start _ line _) (fun a s => ih a s))
        exact ⟨rfl, rfl, rfl, rfl⟩

theorem interactiveAssemble_kept (fuel : Nat) (args : Str) (σ : AsmSt) :
    Kept σ (interactiveAssemble asm iat fmtdis reply d fuel args σ) := by
  unfold interactiveAssemble
  split
  · exact Kept.bind (iaLoop_kept asm iat fmtdis reply d fuel _ σ) (fun _ s => Fr.refl s)
  · split
    · exact Kept.bind (iaLoop_kept asm iat fmtdis reply d fuel _ σ) (fun _ s => Fr.refl s)
    · exact Fr.refl σ
    · exact Fr.refl σ

theorem doAssemble_kept (hdis : ∀ a σ, Kept σ (dis a σ)) (fuel : Nat) (args : Str) (σ : AsmSt) :
    Kept σ (doAssemble asm dis (interactiveAssemble asm iat fmtdis reply d fuel) reply d args σ) := by
  unfold doAssemble
  split
  · split
    · exact asmHandlers_kept _ _ _ σ
    · split
      · exact asmHandlers_kept _ _ _ σ
      · refine Kept.of_fr ?_ (catchAsm_kept _ _ _ _ (hdis _ _))
        exact ⟨rfl, rfl, rfl, rfl⟩
  · exact interactiveAssemble_kept asm iat fmtdis reply d fuel args σ

end frame

/-! ## Part 2: the instance -/

/-- The parameters of the FULL composition: those of `MonCompose.Params` (`base`; its fields `unt` and `asm` are
NOT used) and what unit `asmc` needs on top: the input oracle and working directory (`I`), the OS for `cd`
(`aw`), the texts of two `KeyError`s that only reach the output (`kt`: the assembler's; `ktDis`: one leaving
`do_disassemble` into `do_assemble`'s handler), `cmd.Cmd.do_help` (`cmdhelp`), the fuel of the interactive loop
(one unit per prompt). -/
structure Params2 where
  base : Params
  I : Inputs
  aw : AWorld
  kt : Parser → Str → Str
  ktDis : Core → Str → Str
  cmdhelp : Str → AsmSt → AFlow AsmSt Unit
  fuelAsm : Nat

variable (Q : Params2)

/-- The assembler's view of the session device. -/
def asmDev : MonCmd.Dev → Asm.Dev
  | .d6502 => Asm.dev6502
  | .d65c02 => Asm.dev65c02
  | .d65org16 => Asm.dev65org16

/-- `self._assembler.assemble`: the GENERATED assembler of the session's device. -/
def asmA (c : Core) : Parser → Str → Int → Except AExc (List Int) := asmG (asmDev c.dev) Q.kt

/-- `self.do_disassemble`: the GENERATED command of unit `show`, run on the core the `AsmSt` denotes. -/
def disA (c : Core) : Str → AsmSt → AFlow AsmSt Unit := fun arg σ =>
  liftShowA (Q.ktDis (coreOfAsm c σ) arg) σ (disC Q.base arg (coreOfAsm c σ))

/-- `self._disassembler.instruction_at`: the parameter unit `show` is run with. -/
def iatA (c : Core) : AsmSt → Int → Except AExc (Int × Str) := fun σ a =>
  match Q.base.iat (coreOfAsm c σ) (stOf (coreOfAsm c σ)) a with
  | .ok r => .ok r
  | .error e => .error (aexcOf (Q.ktDis (coreOfAsm c σ) []) e)

/-- `self._format_disassembly`: the parameter unit `show` is run with. -/
def fmtdisA (c : Core) : AsmSt → Int → Int → Str → Except AExc Str := fun σ a n t =>
  match Q.base.fmtdis (coreOfAsm c σ) (stOf (coreOfAsm c σ)) a n t with
  | .ok r => .ok r
  | .error e => .error (aexcOf (Q.ktDis (coreOfAsm c σ) []) e)

/-! the generated commands of unit `asmc` on the unit state built from a session core -/

def asmC (arg : Str) (c : Core) : AFlow AsmSt Unit :=
  MonAsmGen.do_assemble Q.aw (asmA Q c) (iatA Q c) (fmtdisA Q c) (disA Q c) Q.cmdhelp Q.base.G.reply (memDev c.dev)
    Q.fuelAsm arg (asmStOf Q.base.G Q.I c arg)
def helpC (arg : Str) (c : Core) : AFlow AsmSt Unit :=
  MonAsmGen.do_help Q.aw (asmA Q c) (iatA Q c) (fmtdisA Q c) (disA Q c) Q.cmdhelp Q.base.G.reply (memDev c.dev)
    arg (asmStOf Q.base.G Q.I c arg)
def versionC (arg : Str) (c : Core) : AFlow AsmSt Unit :=
  MonAsmGen.do_version Q.aw (asmA Q c) (iatA Q c) (fmtdisA Q c) (disA Q c) Q.cmdhelp Q.base.G.reply (memDev c.dev)
    arg (asmStOf Q.base.G Q.I c arg)
def cdC (arg : Str) (c : Core) : AFlow AsmSt Unit :=
  MonAsmGen.do_cd Q.aw (asmA Q c) (iatA Q c) (fmtdisA Q c) (disA Q c) Q.cmdhelp Q.base.G.reply (memDev c.dev)
    arg (asmStOf Q.base.G Q.I c arg)
def pwdC (arg : Str) (c : Core) : AFlow AsmSt Unit :=
  MonAsmGen.do_pwd Q.aw (asmA Q c) (iatA Q c) (fmtdisA Q c) (disA Q c) Q.cmdhelp Q.base.G.reply (memDev c.dev)
    (some arg) (asmStOf Q.base.G Q.I c arg)

/-- The parameter `unt` of `MonCompose.Params`: the five GENERATED methods through the adapter (any other name
never gets here: `othG` sends the names of the command table to their units). -/
def untG : Str → Str → CmdSt → Flow CmdSt PyRet := fun name arg σ =>
  match cmdOfName name with
  | some .assemble => liftAsm σ.core σ (asmC Q arg σ.core)
  | some .help => liftAsm σ.core σ (helpC Q arg σ.core)
  | some .version => liftAsm σ.core σ (versionC Q arg σ.core)
  | some .cd => liftAsm σ.core σ (cdC Q arg σ.core)
  | some .pwd => liftAsm σ.core σ (pwdC Q arg σ.core)
  | _ => .ok none σ

/-- The parameter `asm` of `MonCompose.Params` (= `Ext.run .assemble` of the model): the verdict of the address
parser and the GENERATED assembler, registers and cells READ OFF the run of the generated `do_assemble`. -/
def asmModel : Core → Str → Verdict × Regs × (Int → Int) := fun c arg =>
  (asmVerdict (asmA Q c) c arg, asmAfter c (asmC Q arg c))

/-- The instance of `MonCompose.Params` with ALL twenty generated commands plugged in. -/
def Params2.full : Params := { Q.base with unt := untG Q, asm := asmModel Q }

/-! ## Part 3: `assemble` -/

theorem disA_kept (c : Core) (a : Str) (σ : AsmSt) : Kept σ (disA Q c a σ) := by
  unfold disA
  cases disC Q.base a (coreOfAsm c σ) with
  | ok v s => exact Fr.refl σ
  | raise e s => exact Fr.refl σ
  | nofuel => trivial

/-- What is not read back from `do_disassemble` inside `do_assemble` is unchanged: the device object of the
`ShowSt` is, at every end, the one built from the core the `AsmSt` denotes (`MonCompose.dis_kept`). -/
theorem disA_device_kept (c : Core) (a : Str) (σ : AsmSt) : ShowKept (coreOfAsm c σ) (disC Q.base a (coreOfAsm c σ)) :=
  dis_kept Q.base a (coreOfAsm c σ)

/-- EVERY end of the generated `do_assemble` (one-line or interactive, accepted or not, returned or raised):
registers, labels, radix, breakpoints, width are those it started with. -/
theorem asm_kept (arg : Str) (c : Core) : Kept (asmStOf Q.base.G Q.I c arg) (asmC Q arg c) := by
  unfold asmC
  rw [do_assemble_eq]
  exact doAssemble_kept _ _ _ _ _ _ (disA_kept Q c) _ _ _

theorem coreOfAsm_of_fr (G : Glue) (I : Inputs) (c : Core) (arg : Str) (s : AsmSt) (h : Fr (asmStOf G I c arg) s) :
    coreOfAsm c s = { c with regs := s.regs, mem := s.memory.subject } := by
  obtain ⟨-, h2, h3, h4⟩ := h
  have hl : s.parser.labels = c.labels := by rw [h2]; rfl
  have hr : s.parser.radix = c.radix := by rw [h2]; rfl
  have hb : s.breakpoints = c.breakpoints := h3
  have hw : s.width = c.width := h4
  simp only [coreOfAsm, hl, hr, hb, hw]

theorem coreOfAsm_same (G : Glue) (hG : GlueOK G) (I : Inputs) (c : Core) (arg : Str) (s : AsmSt)
    (h : SameSession (asmStOf G I c arg) s) : coreOfAsm c s = c := by
  obtain ⟨h1, h2, h3, h4, h5⟩ := h
  have hm : s.memory.subject = c.mem := by rw [h1]; exact hG c
  have hg : s.regs = c.regs := h2
  have hl : s.parser.labels = c.labels := by rw [h3]; rfl
  have hr : s.parser.radix = c.radix := by rw [h3]; rfl
  have hb : s.breakpoints = c.breakpoints := h4
  have hw : s.width = c.width := h5
  simp only [coreOfAsm, hm, hg, hl, hr, hb, hw]

/-- A REFUSED `assemble` (refused start address, or a statement the generated assembler refuses -- any
exception) ENDS: it returns or raises, never waits for input; memory object, registers, labels, radix,
breakpoints and width are exactly the old ones (`C20a.assemble_rejected_session` for the one-line form, the
start of `_interactive_assemble` for the other). -/
theorem asm_rejected_end (arg : Str) (c : Core) (h : (asmVerdict (asmA Q c) c arg).isRejected = true) :
    ∃ s, (asmC Q arg c = .ok () s ∨ ∃ e, asmC Q arg c = .raise e s) ∧ SameSession (asmStOf Q.base.G Q.I c arg) s := by
  unfold asmVerdict at h
  split at h
  · rename_i a st hs
    have hrej : (∃ e, parseNumberA (asmStOf Q.base.G Q.I c arg).parser a = .error e) ∨
        (∃ start e, parseNumberA (asmStOf Q.base.G Q.I c arg).parser a = .ok start ∧
          asmA Q c (asmStOf Q.base.G Q.I c arg).parser st start = .error e) := by
      show (∃ e, parseNumberA c.parser a = .error e) ∨
        (∃ start e, parseNumberA c.parser a = .ok start ∧ asmA Q c c.parser st start = .error e)
      cases hp : parseNumberA c.parser a with
      | error e => exact Or.inl ⟨e, rfl⟩
      | ok start =>
        rw [hp] at h
        dsimp only at h
        cases ha : asmA Q c c.parser st start with
        | error e => exact Or.inr ⟨start, e, rfl, ha⟩
        | ok bs => rw [ha] at h; cases h
    obtain ⟨s, hs', hss, -, -⟩ := assemble_rejected_session Q.aw (asmA Q c) (iatA Q c) (fmtdisA Q c) (disA Q c)
      Q.cmdhelp Q.base.G.reply (memDev c.dev) Q.fuelAsm arg a st (asmStOf Q.base.G Q.I c arg) hs hrej
    exact ⟨s, hs', hss⟩
  · rename_i hns
    by_cases ha : arg = []
    · rw [if_pos ha] at h; cases h
    · rw [if_neg ha] at h
      unfold asmC
      rw [do_assemble_eq]
      unfold doAssemble
      split
      · rename_i a st hs
        exact absurd hs (hns a st)
      · unfold interactiveAssemble
        rw [if_neg ha]
        have hpar : (asmStOf Q.base.G Q.I c arg).parser = c.parser := rfl
        rw [hpar]
        cases hp : parseNumberA c.parser arg with
        | ok start => rw [hp] at h; cases h
        | error e =>
          cases e <;> dsimp only <;>
            first
              | exact ⟨_, Or.inl rfl, SameSession.print _ _⟩
              | exact ⟨_, Or.inr ⟨_, rfl⟩, ⟨rfl, rfl, rfl, rfl, rfl⟩⟩

/-- `AsmHonest` for the instance: a refused `assemble` leaves registers and cells alone. -/
theorem asm_honest (hG : GlueOK Q.base.G) : AsmHonest Q.full := by
  intro c arg h
  obtain ⟨s, hs, hss⟩ := asm_rejected_end Q arg c h
  have hm : s.memory.subject = c.mem := by rw [hss.1]; exact hG c
  have hr : s.regs = c.regs := hss.2.1
  show (asmAfter c (asmC Q arg c)).1 = c.regs ∧ (asmAfter c (asmC Q arg c)).2 = c.mem
  rcases hs with hs | ⟨e, hs⟩ <;> rw [hs] <;> exact ⟨hr, hm⟩

/-- A refused `assemble` has ended. -/
theorem asm_rejected_ended (arg : Str) (c : Core) (h : (asmVerdict (asmA Q c) c arg).isRejected = true) :
    asmC Q arg c ≠ .nofuel := by
  obtain ⟨s, hs, -⟩ := asm_rejected_end Q arg c h
  rcases hs with hs | ⟨e, hs⟩ <;> rw [hs] <;> simp

theorem untG_word (cmd : Command) (arg : Str) (σ : CmdSt) :
    untG Q ("do_".toList ++ cmdWord cmd) arg σ =
      match cmd with
      | .assemble => liftAsm σ.core σ (asmC Q arg σ.core)
      | .help => liftAsm σ.core σ (helpC Q arg σ.core)
      | .version => liftAsm σ.core σ (versionC Q arg σ.core)
      | .cd => liftAsm σ.core σ (cdC Q arg σ.core)
      | .pwd => liftAsm σ.core σ (pwdC Q arg σ.core)
      | _ => .ok none σ := by
  unfold untG
  rw [cmdOfName_word]
  cases cmd <;> rfl

theorem liftAsm_facts (c : Core) (σ : CmdSt) (arg : Str) (r : AFlow AsmSt Unit) (h : r ≠ .nofuel)
    (hk : Kept (asmStOf Q.base.G Q.I c arg) r) :
    liftAsm c σ r ≠ .nofuel ∧
    (stateAfter σ (liftAsm c σ r)).core = { c with regs := (asmAfter c r).1, mem := (asmAfter c r).2 } ∧
    (stateAfter σ (liftAsm c σ r)).lastcmd = σ.lastcmd ∧ (retOf (liftAsm c σ r)).truthy = false := by
  cases r with
  | nofuel => exact absurd rfl h
  | ok v s => exact ⟨by simp [liftAsm], coreOfAsm_of_fr _ _ c arg s hk, rfl, rfl⟩
  | raise e s => exact ⟨by simp [liftAsm], coreOfAsm_of_fr _ _ c arg s hk, rfl, rfl⟩

/-- `assemble` through the composed `oth` does to the session core what the model says, at every call that
returns (one-line form: `do_disassemble` ended within `fuelDis`; interactive: a blank line came within
`fuelAsm` prompts and before the typed lines ran out). -/
theorem models_assemble (arg : Str) (σ : CmdSt) (h : asmC Q arg σ.core ≠ .nofuel) :
    ModelsAt (othG Q.full) (extG Q.full) .assemble arg σ := by
  unfold ModelsAt
  rw [othG_word]
  show untG Q ("do_".toList ++ cmdWord .assemble) arg σ ≠ .nofuel ∧ _
  rw [untG_word]
  exact liftAsm_facts Q σ.core σ arg _ h (asm_kept Q arg σ.core)

/-! ## Part 4: `help`, `version`, `cd`, `pwd` -/

/-- If the command ended, the session fields are as they were. -/
def SameEnd (σ : AsmSt) : AFlow AsmSt Unit → Prop
  | .ok _ s => SameSession σ s
  | .raise _ s => SameSession σ s
  | .nofuel => False

theorem liftAsm_same (hG : GlueOK Q.base.G) (c : Core) (σ : CmdSt) (arg : Str) (r : AFlow AsmSt Unit)
    (hk : SameEnd (asmStOf Q.base.G Q.I c arg) r) :
    liftAsm c σ r ≠ .nofuel ∧ (stateAfter σ (liftAsm c σ r)).core = c ∧
    (stateAfter σ (liftAsm c σ r)).lastcmd = σ.lastcmd ∧ (retOf (liftAsm c σ r)).truthy = false := by
  cases r with
  | nofuel => exact absurd hk id
  | ok v s => exact ⟨by simp [liftAsm], coreOfAsm_same _ hG _ c arg s hk, rfl, rfl⟩
  | raise e s => exact ⟨by simp [liftAsm], coreOfAsm_same _ hG _ c arg s hk, rfl, rfl⟩

theorem version_same (arg : Str) (c : Core) : SameEnd (asmStOf Q.base.G Q.I c arg) (versionC Q arg c) := by
  unfold versionC
  rw [(display_commands_pure Q.aw _ _ _ _ Q.cmdhelp _ _).1]
  exact SameSession.print _ _

theorem pwd_same (arg : Str) (c : Core) : SameEnd (asmStOf Q.base.G Q.I c arg) (pwdC Q arg c) := by
  unfold pwdC
  rw [do_pwd_eq]
  exact SameSession.print _ _

theorem help_same (hh : OutOnly Q.cmdhelp) (arg : Str) (c : Core) :
    SameEnd (asmStOf Q.base.G Q.I c arg) (helpC Q arg c) := by
  unfold helpC
  rcases (display_commands_pure Q.aw (asmA Q c) (iatA Q c) (fmtdisA Q c) (disA Q c) Q.cmdhelp Q.base.G.reply
    (memDev c.dev)).2.2.1 hh arg (asmStOf Q.base.G Q.I c arg) with ⟨o, ho⟩ | ⟨e, o, ho⟩
  · rw [ho]; exact ⟨rfl, rfl, rfl, rfl, rfl⟩
  · rw [ho]; exact ⟨rfl, rfl, rfl, rfl, rfl⟩

theorem cd_same (arg : Str) (c : Core) : SameEnd (asmStOf Q.base.G Q.I c arg) (cdC Q arg c) := by
  unfold cdC
  obtain ⟨s, hs, hss, -⟩ := (display_commands_pure Q.aw (asmA Q c) (iatA Q c) (fmtdisA Q c) (disA Q c) Q.cmdhelp
    Q.base.G.reply (memDev c.dev)).2.2.2 arg (asmStOf Q.base.G Q.I c arg)
  rcases hs with hs | ⟨⟨e, hs⟩, -⟩ <;> rw [hs] <;> exact hss

theorem models_version (hG : GlueOK Q.base.G) (arg : Str) (σ : CmdSt) :
    ModelsAt (othG Q.full) (extG Q.full) .version arg σ := by
  unfold ModelsAt
  rw [othG_word]
  show untG Q ("do_".toList ++ cmdWord .version) arg σ ≠ .nofuel ∧ _
  rw [untG_word]
  exact liftAsm_same Q hG σ.core σ arg _ (version_same Q arg σ.core)

theorem models_pwd (hG : GlueOK Q.base.G) (arg : Str) (σ : CmdSt) :
    ModelsAt (othG Q.full) (extG Q.full) .pwd arg σ := by
  unfold ModelsAt
  rw [othG_word]
  show untG Q ("do_".toList ++ cmdWord .pwd) arg σ ≠ .nofuel ∧ _
  rw [untG_word]
  exact liftAsm_same Q hG σ.core σ arg _ (pwd_same Q arg σ.core)

theorem models_cd (hG : GlueOK Q.base.G) (arg : Str) (σ : CmdSt) :
    ModelsAt (othG Q.full) (extG Q.full) .cd arg σ := by
  unfold ModelsAt
  rw [othG_word]
  show untG Q ("do_".toList ++ cmdWord .cd) arg σ ≠ .nofuel ∧ _
  rw [untG_word]
  exact liftAsm_same Q hG σ.core σ arg _ (cd_same Q arg σ.core)

theorem models_help (hG : GlueOK Q.base.G) (hh : OutOnly Q.cmdhelp) (arg : Str) (σ : CmdSt) :
    ModelsAt (othG Q.full) (extG Q.full) .help arg σ := by
  unfold ModelsAt
  rw [othG_word]
  show untG Q ("do_".toList ++ cmdWord .help) arg σ ≠ .nofuel ∧ _
  rw [untG_word]
  exact liftAsm_same Q hG σ.core σ arg _ (help_same Q hh arg σ.core)

/-! ## Part 5: `UntModels`, and the composed simulation in pointwise form -/

/-- The input oracle (and the fuels) are such that EVERY `assemble` run ends: each interactive session is
closed by a blank line among the typed lines, within `fuelAsm` prompts; each one-line form's `disassemble` ends
within `fuelDis`.  (Needed only for the universally quantified `UntModels`; NOT for a refused line.) -/
def InputOK : Prop := ∀ arg c, asmC Q arg c ≠ .nofuel

/-- `UntModels` for the instance: DISCHARGED from the C20a theorems. -/
theorem unt_models (hG : GlueOK Q.base.G) (hh : OutOnly Q.cmdhelp) (hin : InputOK Q) : UntModels Q.full := by
  intro cmd hc arg σ
  have tr : ∀ cmd', untranslated cmd' = true → ModelsAt (othG Q.full) (extG Q.full) cmd' arg σ →
      ModelsAt Q.full.unt (extG Q.full) cmd' arg σ := by
    intro cmd' hc' key
    unfold ModelsAt at key ⊢
    rw [othG_word] at key
    cases cmd' <;> first | exact key | exact absurd hc' (by decide)
  cases cmd
  case assemble => exact tr _ rfl (models_assemble Q arg σ (hin arg σ.core))
  case help => exact tr _ rfl (models_help Q hG hh arg σ)
  case version => exact tr _ rfl (models_version Q hG arg σ)
  case cd => exact tr _ rfl (models_cd Q hG arg σ)
  case pwd => exact tr _ rfl (models_pwd Q hG arg σ)
  all_goals exact absurd hc (by decide)

/-- `MonCompose.CallOK` for the full instance, plus: the `assemble` run returned. -/
def CallOK2 (cmd : Command) (arg : Str) (c : Core) : Prop :=
  CallOK Q.full cmd arg c ∧ (cmd = .assemble → asmC Q arg c ≠ .nofuel)

/-- `OthModels (othG Q.full) (extG Q.full)` call by call, for ALL twenty commands outside unit `cmds`. -/
theorem models_at2 (hG : GlueOK Q.base.G) (hh : OutOnly Q.cmdhelp) (cmd : Command) (arg : Str) (σ : CmdSt)
    (ht : translated cmd = false) (hok : CallOK2 Q cmd arg σ.core) : ModelsAt (othG Q.full) (extG Q.full) cmd arg σ := by
  have hG' : GlueOK Q.full.G := hG
  cases cmd
  case help => exact models_help Q hG hh arg σ
  case version => exact models_version Q hG arg σ
  case assemble => exact models_assemble Q arg σ (hok.2 rfl)
  case cd => exact models_cd Q hG arg σ
  case pwd => exact models_pwd Q hG arg σ
  case reset => exact models_reset Q.full arg σ
  case mpu => exact models_mpu Q.full hG' arg σ
  case disassemble => exact models_disassemble Q.full arg σ hok.1
  case step => exact models_step Q.full arg σ
  case ret => exact models_ret Q.full arg σ hok.1
  case goto => exact models_goto Q.full arg σ hok.1
  case cycles => exact models_cycles Q.full arg σ
  case tilde => exact models_tilde Q.full hok.1 arg σ
  case load => exact models_load Q.full arg σ hok.1
  case save => exact models_save Q.full hG' arg σ
  case fill => exact models_fill Q.full arg σ hok.1
  case mem => exact models_mem Q.full hG' arg σ hok.1
  case add_breakpoint => exact models_add_breakpoint Q.full arg σ
  case delete_breakpoint => exact models_delete_breakpoint Q.full arg σ
  case show_breakpoints => exact models_show_breakpoints Q.full arg σ
  all_goals exact absurd ht (by decide)

/-- A call the model REFUSES needs nothing more (a refused `assemble` has ended: `asm_rejected_ended`). -/
theorem callOK2_of_rejected (cmd : Command) (arg : Str) (c : Core)
    (h : (runCommand (extG Q.full) c cmd arg).verdict.isRejected = true) : CallOK2 Q cmd arg c := by
  refine ⟨callOK_of_rejected Q.full cmd arg c h, ?_⟩
  intro hc
  subst hc
  exact asm_rejected_ended Q arg c h

section composed
variable (tb : Exc → Str) (mr : Core → Str)

theorem onecmd_sim_composed2 (hG : GlueOK Q.base.G) (hh : OutOnly Q.cmdhelp) (fuel : Nat) (line : Str) (σ : CmdSt)
    (hf : fuel > (preprocessL line).length + (preprocessL σ.lastcmd).length + 6) (hnl : ¬ Loops σ line)
    (hok : ∀ cmd a, dispatched { core := σ.core, lastcmd := σ.lastcmd } line = some (cmd, a) → CallOK2 Q cmd a σ.core) :
    Sim (onecmdL (extG Q.full) { core := σ.core, lastcmd := σ.lastcmd } line)
      (MonCmdGen.onecmd (othG Q.full) tb mr fuel line σ) := by
  refine onecmd_sim_at (othG Q.full) tb mr (extG Q.full) fuel line σ hf hnl ?_
  intro cmd a hd ht σ1 hσ1
  refine models_at2 Q hG hh cmd a σ1 ht ?_
  rw [hσ1]
  exact hok cmd a hd

theorem onecmd_rejected_composed2 (hG : GlueOK Q.base.G) (hh : OutOnly Q.cmdhelp) (hload : LoadFuel Q.full)
    (fuel : Nat) (line : Str) (σ : CmdSt) (hwf : σ.core.parser.WF) (hfill : FillFuel Q.full σ.core)
    (hf : fuel > (preprocessL line).length + (preprocessL σ.lastcmd).length + 6) (hnl : ¬ Loops σ line)
    (h : (onecmdL (extG Q.full) { core := σ.core, lastcmd := σ.lastcmd } line).1.verdict.isRejected = true) :
    ∃ v σ', MonCmdGen.onecmd (othG Q.full) tb mr fuel line σ = .ok v σ' ∧ σ'.core = σ.core := by
  have hok : ∀ cmd a, dispatched { core := σ.core, lastcmd := σ.lastcmd } line = some (cmd, a) →
      CallOK2 Q cmd a σ.core := by
    intro cmd a hd
    have hdp := onecmdL_dispatched (extG Q.full) { core := σ.core, lastcmd := σ.lastcmd } line
    rw [hd] at hdp
    simp only at hdp
    rw [hdp] at h
    exact callOK2_of_rejected Q cmd a σ.core h
  obtain ⟨v, s', e1, e2, -, -⟩ := onecmd_sim_composed2 Q tb mr hG hh fuel line σ hf hnl hok
  refine ⟨v, s', e1, e2.trans ?_⟩
  exact onecmd_rejected_at (extG Q.full) { core := σ.core, lastcmd := σ.lastcmd }
    (extG_honest_at Q.full hG (asm_honest Q hG) hload σ.core hwf hfill) line h

end composed

end Py65.Proofs.MonCompose2
