/-
String-level lemmas for C07 / C08: `normalize_and_split` on structured statement text.

G1  `' '.join(s.split())` as the one-pass normaliser `nrmAux`
G2  `nrmAux` on words and blank runs
G3  what normalisation preserves: the text without blanks, membership in the group-3 language
-/
import Py65.Proofs.AsmLemmas

namespace Py65.Proofs.Asm
open Py65.Model Py65.Model.PyStr Py65.Model.AddrParser Py65.Model.Asm Py65.Proofs.Num

/-! ## G1: whitespace normalisation in one pass -/

/-- One pass: blank runs inside the text become one blank, trailing blanks vanish.  `pend`: a blank
run is pending after a word.  (Leading blanks must have been dropped.) -/
def nrmAux : Bool → Str → Str
  | _, [] => []
  | pend, c :: cs =>
    if isReSpace c then nrmAux true cs
    else if pend then ' ' :: c :: nrmAux false cs else c :: nrmAux false cs

/-- every character is white space -/
def Blank (w : Str) : Prop := ∀ c ∈ w, isReSpace c = true
/-- no character is white space -/
def NoBlank (w : Str) : Prop := ∀ c ∈ w, isReSpace c = false

theorem joinSp_cons (a : Str) (rest : List Str) :
    joinSp (a :: rest) = a ++ (if rest = [] then [] else ' ' :: joinSp rest) := by
  cases rest with
  | nil => simp [joinSp]
  | cons b r => simp [joinSp]

theorem nrmAux_true (cs : Str) :
    nrmAux true cs = if cs.dropWhile isReSpace = [] then [] else ' ' :: nrmAux false (cs.dropWhile isReSpace) := by
  induction cs with
  | nil => simp [nrmAux]
  | cons c cs ih =>
    by_cases hc : isReSpace c = true
    · simp only [nrmAux, hc, if_true, List.dropWhile_cons, ih]
    · have hc' : isReSpace c = false := by simpa using hc
      simp [nrmAux, hc', List.dropWhile_cons]

theorem pySplitAux_nil_iff (cs : Str) : pySplitAux cs [] = [] ↔ cs.dropWhile isReSpace = [] := by
  induction cs with
  | nil => simp [pySplitAux]
  | cons c cs ih =>
    by_cases hc : isReSpace c = true
    · simp only [pySplitAux, hc, if_true, List.dropWhile_cons, ih]
    · have hc' : isReSpace c = false := by simpa using hc
      simp only [pySplitAux, hc', List.dropWhile_cons]
      simp only [Bool.false_eq_true, if_false, reduceCtorEq, iff_false]
      -- the word being read is non-empty, so the result is non-empty
      have : ∀ (s cur : Str), cur ≠ [] → pySplitAux s cur ≠ [] := by
        intro s
        induction s with
        | nil => intro cur h; simp [pySplitAux, h]
        | cons x s ihs =>
          intro cur h
          by_cases hx : isReSpace x = true
          · simp [pySplitAux, hx, h]
          · have hx' : isReSpace x = false := by simpa using hx
            simp only [pySplitAux, hx', Bool.false_eq_true, if_false]
            exact ihs _ (by simp)
      exact this cs [c] (by simp)

theorem joinSp_pySplitAux (s cur : Str) :
    joinSp (pySplitAux s cur) =
      if cur = [] then nrmAux false (s.dropWhile isReSpace) else cur.reverse ++ nrmAux false s := by
  induction s generalizing cur with
  | nil =>
    by_cases h : cur = []
    · simp [pySplitAux, h, joinSp, nrmAux]
    · simp [pySplitAux, h, joinSp, nrmAux]
  | cons c cs ih =>
    by_cases hc : isReSpace c = true
    · by_cases h : cur = []
      · simp only [pySplitAux, hc, if_true, h, ih, List.dropWhile_cons]
      · simp only [pySplitAux, hc, if_true, h, if_false, joinSp_cons, ih, nrmAux, nrmAux_true,
          pySplitAux_nil_iff]
    · have hc' : isReSpace c = false := by simpa using hc
      simp only [pySplitAux, hc', Bool.false_eq_true, if_false, ih, List.dropWhile_cons, nrmAux]
      by_cases h : cur = []
      · simp [h]
      · simp [h]

/-- `' '.join(s.split())` -/
theorem normWs_eq (s : Str) : normWs s = nrmAux false (s.dropWhile isReSpace) := by
  unfold normWs pySplit
  rw [joinSp_pySplitAux]
  simp

/-! ## G2: words and blank runs -/

theorem nrmAux_nil (p : Bool) : nrmAux p [] = [] := by cases p <;> rfl

theorem nrmAux_blank (p : Bool) (b u : Str) (hb : Blank b) :
    nrmAux p (b ++ u) = nrmAux (p || !b.isEmpty) u := by
  induction b generalizing p with
  | nil => simp
  | cons c b ih =>
    have hc : isReSpace c = true := hb c (by simp)
    have := ih true (fun x hx => hb x (by simp [hx]))
    simp only [List.cons_append, nrmAux, hc, if_true, this]
    simp

theorem nrmAux_word (p : Bool) (x u : Str) (hx : NoBlank x) (hne : x ≠ []) :
    nrmAux p (x ++ u) = (if p then [' '] else []) ++ x ++ nrmAux false u := by
  induction x generalizing p with
  | nil => exact absurd rfl hne
  | cons c x ih =>
    have hc : isReSpace c = false := hx c (by simp)
    by_cases hxe : x = []
    · subst hxe
      cases p <;> simp [nrmAux, hc]
    · have := ih false (fun y hy => hx y (by simp [hy])) hxe
      cases p <;> simp [nrmAux, hc, this]

theorem dropWhile_blank_word (b x u : Str) (hb : Blank b) (hx : NoBlank x) (hne : x ≠ []) :
    (b ++ (x ++ u)).dropWhile isReSpace = x ++ u := by
  have := (span_stop (p := isReSpace) (l := b) (r := x ++ u) hb (by
    intro c hc
    cases x with
    | nil => exact absurd rfl hne
    | cons y x =>
      simp only [List.cons_append, List.head?_cons, Option.some.injEq] at hc
      exact hc ▸ hx y (by simp))).2
  exact this

/-! ## G3: invariants of normalisation -/

theorem removeWs_nrmAux (p : Bool) (u : Str) : removeWs (nrmAux p u) = removeWs u := by
  induction u generalizing p with
  | nil => simp [nrmAux_nil]
  | cons c u ih =>
    by_cases hc : isReSpace c = true
    · simp [nrmAux, hc, ih, removeWs]
      simpa [removeWs] using ih true
    · have hc' : isReSpace c = false := by simpa using hc
      have hsp : isReSpace ' ' = true := by decide
      cases p <;> simp [nrmAux, hc', removeWs, hsp] <;> simpa [removeWs] using ih false

theorem removeWs_append (a b : Str) : removeWs (a ++ b) = removeWs a ++ removeWs b := by
  simp [removeWs]

theorem removeWs_blank (b : Str) (hb : Blank b) : removeWs b = [] := by
  simp only [removeWs, List.filter_eq_nil_iff]
  intro c hc
  simp [hb c hc]

theorem removeWs_noBlank (x : Str) (hx : NoBlank x) : removeWs x = x := by
  simp only [removeWs, List.filter_eq_self]
  intro c hc
  simp [hx c hc]

theorem isAfterChar_blank {c : Char} (h : isReSpace c = true) : isAfterChar c = true := by
  simp [isAfterChar, h]

theorem removeWs_cons_blank {c : Char} (u : Str) (h : isReSpace c = true) : removeWs (c :: u) = removeWs u := by
  simp [removeWs, h]

theorem removeWs_cons_word {c : Char} (u : Str) (h : isReSpace c = false) :
    removeWs (c :: u) = c :: removeWs u := by
  simp [removeWs, h]

theorem all_after_removeWs (u : Str) : (removeWs u).all isAfterChar = u.all isAfterChar := by
  induction u with
  | nil => rfl
  | cons c u ih =>
    by_cases hc : isReSpace c = true
    · rw [removeWs_cons_blank u hc, ih, List.all_cons, isAfterChar_blank hc, Bool.true_and]
    · have hc' : isReSpace c = false := by simpa using hc
      rw [removeWs_cons_word u hc', List.all_cons, List.all_cons, ih]

/-- membership in the group-3 language does not depend on blanks -/
theorem inAfter_removeWs (u : Str) : inAfter (removeWs u) = inAfter u := by
  induction u with
  | nil => rfl
  | cons c u ih =>
    by_cases hc : isReSpace c = true
    · have ha := isAfterChar_blank hc
      have e1 : removeWs (c :: u) = removeWs u := by simp [removeWs, hc]
      have e2 : inAfter (c :: u) = inAfter u := by simp [inAfter, List.dropWhile_cons, ha]
      rw [e1, e2, ih]
    · have hc' : isReSpace c = false := by simpa using hc
      have e1 : removeWs (c :: u) = c :: removeWs u := by simp [removeWs, hc']
      rw [e1]
      by_cases ha : isAfterChar c = true
      · have e2 : inAfter (c :: u) = inAfter u := by simp [inAfter, List.dropWhile_cons, ha]
        have e3 : inAfter (c :: removeWs u) = inAfter (removeWs u) := by
          simp [inAfter, List.dropWhile_cons, ha]
        rw [e2, e3, ih]
      · have ha' : isAfterChar c = false := by simpa using ha
        simp only [inAfter, List.dropWhile_cons, ha', Bool.false_eq_true, if_false, all_after_removeWs]

theorem inAfter_nrmAux (p : Bool) (u : Str) : inAfter (nrmAux p u) = inAfter u := by
  rw [← inAfter_removeWs, removeWs_nrmAux, inAfter_removeWs]

/-- the first character after normalisation is a blank or the original first character -/
theorem nrmAux_head (u : Str) (c : Char) (h : (nrmAux false u).head? = some c) :
    c = ' ' ∨ u.head? = some c := by
  cases u with
  | nil => simp [nrmAux] at h
  | cons x u =>
    by_cases hx : isReSpace x = true
    · left
      simp only [nrmAux, hx, if_true] at h
      rw [nrmAux_true] at h
      split_ifs at h
      · simp at h
      · simpa using h.symm
    · have hx' : isReSpace x = false := by simpa using hx
      right
      simpa [nrmAux, hx'] using h

/-! ## G4: the Statement scanner on normalised structured text -/

/-- three `[A-z]` characters and an optional digit `0 … 7`: what the Statement pattern takes as
the mnemonic -/
def IsMnem (M : Str) : Prop :=
  ∃ c1 c2 c3 dg, M = c1 :: c2 :: c3 :: dg ∧ isAz c1 = true ∧ isAz c2 = true ∧ isAz c3 = true ∧
    (dg = [] ∨ ∃ c4, dg = [c4] ∧ isOct c4 = true)

theorem target_not_space {c : Char} (h : isTargetChar c = true) : isReSpace c = false := by
  simp only [isTargetChar, Bool.not_eq_true', Bool.or_eq_false_iff] at h
  exact h.1.2

theorem takeWhile_sp_word (T u : Str) (hT : T ≠ []) (hTc : ∀ c ∈ T, isTargetChar c = true) :
    (T ++ u).takeWhile isReSpace = [] ∧ (T ++ u).dropWhile isReSpace = T ++ u := by
  cases T with
  | nil => exact absurd rfl hT
  | cons t T' =>
    have := target_not_space (hTc t (by simp))
    simp [this]

theorem tryTarget_ok (before T aft : Str) (hT : T ≠ []) (hTc : ∀ c ∈ T, isTargetChar c = true)
    (haft1 : ∀ c, aft.head? = some c → isTargetChar c = false) (haft2 : inAfter aft = true) :
    tryTarget before (T ++ aft) = some (before, T, aft) := by
  have hs := span_stop (p := isTargetChar) (l := T) (r := aft) hTc haft1
  unfold tryTarget
  simp only [hs.1, hs.2, haft2, and_true, ne_eq, hT, not_false_eq_true, if_true]

theorem matchStatement_norm (M L' T aft : Str) (hM : IsMnem M)
    (hL : L' = [] ∨ L' = ['('] ∨ L' = ['(', ' '])
    (hT : T ≠ []) (hTc : ∀ c ∈ T, isTargetChar c = true) (hTh : L' = [] → T.head? ≠ some '(')
    (haft1 : ∀ c, aft.head? = some c → isTargetChar c = false) (haft2 : inAfter aft = true) :
    matchStatement (M ++ ' ' :: (L' ++ (T ++ aft))) = some (M ++ ' ' :: L', T, aft) := by
  obtain ⟨c1, c2, c3, dg, rfl, h1, h2, h3, hdg⟩ := hM
  have hsp : isReSpace ' ' = true := by decide
  have hspo : isOct ' ' = false := by decide
  have htw := takeWhile_sp_word T aft hT hTc
  obtain ⟨t0, T', rfl⟩ := List.exists_cons_of_ne_nil hT
  have ht0 : isReSpace t0 = false := target_not_space (hTc t0 (by simp))
  have hlp : isReSpace '(' = false := by decide
  rcases hdg with rfl | ⟨c4, rfl, h4⟩
  · rcases hL with rfl | rfl | rfl
    · have hne : t0 ≠ '(' := by
        intro e; exact hTh rfl (by simp [e])
      simp only [matchStatement, List.cons_append, List.nil_append, h1, h2, h3, Bool.and_self, if_true,
        hspo, Bool.false_eq_true, if_false, List.takeWhile_cons, hsp, ht0, List.dropWhile_cons, hne]
      simp
      have := tryTarget_ok [c1, c2, c3, ' '] (t0 :: T') aft (by simp) hTc haft1 haft2
      simpa using this
    · simp only [matchStatement, List.cons_append, List.nil_append, h1, h2, h3, Bool.and_self, if_true,
        hspo, Bool.false_eq_true, if_false, List.takeWhile_cons, hsp, hlp, ht0, List.dropWhile_cons]
      simp
      have := tryTarget_ok [c1, c2, c3, ' ', '('] (t0 :: T') aft (by simp) hTc haft1 haft2
      simp at this
      simp [this]
    · simp only [matchStatement, List.cons_append, List.nil_append, h1, h2, h3, Bool.and_self, if_true,
        hspo, Bool.false_eq_true, if_false, List.takeWhile_cons, hsp, hlp, ht0, List.dropWhile_cons]
      simp
      have := tryTarget_ok [c1, c2, c3, ' ', '(', ' '] (t0 :: T') aft (by simp) hTc haft1 haft2
      simp at this
      simp [this]
  · rcases hL with rfl | rfl | rfl
    · have hne : t0 ≠ '(' := by
        intro e; exact hTh rfl (by simp [e])
      simp only [matchStatement, List.cons_append, List.nil_append, h1, h2, h3, h4, Bool.and_self, if_true,
        List.takeWhile_cons, hsp, ht0, List.dropWhile_cons]
      simp [hne]
      have := tryTarget_ok [c1, c2, c3, c4, ' '] (t0 :: T') aft (by simp) hTc haft1 haft2
      simpa using this
    · simp only [matchStatement, List.cons_append, List.nil_append, h1, h2, h3, h4, Bool.and_self, if_true,
        List.takeWhile_cons, hsp, hlp, ht0, List.dropWhile_cons]
      have := tryTarget_ok [c1, c2, c3, c4, ' ', '('] (t0 :: T') aft (by simp) hTc haft1 haft2
      simp only [List.cons_append] at this
      simp [ht0, hsp, this]
    · simp only [matchStatement, List.cons_append, List.nil_append, h1, h2, h3, h4, Bool.and_self, if_true,
        List.takeWhile_cons, hsp, hlp, ht0, List.dropWhile_cons]
      have := tryTarget_ok [c1, c2, c3, c4, ' ', '(', ' '] (t0 :: T') aft (by simp) hTc haft1 haft2
      simp only [List.cons_append] at this
      simp [ht0, hsp, this]


/-! ## G5: `normalize_and_split` on structured text -/

theorem isAz_not_space {c : Char} (h : isAz c = true) : isReSpace c = false ∧ c ≠ ' ' := by
  simp only [isAz, Bool.and_eq_true, decide_eq_true_eq] at h
  constructor
  · simp only [isReSpace, isCSpace, Bool.or_eq_false_iff, Bool.and_eq_false_iff, decide_eq_false_iff_not]
    omega
  · intro e; rw [e] at h; simp at h

theorem isOct_not_space {c : Char} (h : isOct c = true) : isReSpace c = false ∧ c ≠ ' ' := by
  simp only [isOct, Bool.and_eq_true, decide_eq_true_eq] at h
  constructor
  · simp only [isReSpace, isCSpace, Bool.or_eq_false_iff, Bool.and_eq_false_iff, decide_eq_false_iff_not]
    omega
  · intro e; rw [e] at h; simp at h

theorem IsMnem.noBlank {M : Str} (h : IsMnem M) : NoBlank M ∧ ' ' ∉ M ∧ M ≠ [] := by
  obtain ⟨c1, c2, c3, dg, rfl, h1, h2, h3, hdg⟩ := h
  have a1 := isAz_not_space h1
  have a2 := isAz_not_space h2
  have a3 := isAz_not_space h3
  rcases hdg with rfl | ⟨c4, rfl, h4⟩
  · refine ⟨?_, ?_, by simp⟩
    · intro c hc
      simp only [List.mem_cons, List.mem_nil_iff, or_false] at hc
      rcases hc with rfl | rfl | rfl
      exacts [a1.1, a2.1, a3.1]
    · simp only [List.mem_cons, List.mem_nil_iff, or_false, not_or]
      exact ⟨a1.2.symm, a2.2.symm, a3.2.symm⟩
  · have a4 := isOct_not_space h4
    refine ⟨?_, ?_, by simp⟩
    · intro c hc
      simp only [List.mem_cons, List.mem_nil_iff, or_false] at hc
      rcases hc with rfl | rfl | rfl | rfl
      exacts [a1.1, a2.1, a3.1, a4.1]
    · simp only [List.mem_cons, List.mem_nil_iff, or_false, not_or]
      exact ⟨a1.2.symm, a2.2.symm, a3.2.symm, a4.2.symm⟩

theorem splitSp1_word (M rest : Str) (hM : ' ' ∉ M) : splitSp1 (M ++ ' ' :: rest) = (M, some rest) := by
  induction M with
  | nil => simp [splitSp1]
  | cons c M ih =>
    have hc : c ≠ ' ' := fun e => hM (by simp [e])
    have := ih (fun hm => hM (by simp [hm]))
    simp [splitSp1, hc, this]

theorem strip_noBlank (x : Str) (hx : NoBlank x) : strip x = x := by
  unfold strip
  have h1 : x.dropWhile isReSpace = x := by
    cases x with
    | nil => rfl
    | cons c x => simp [hx c (by simp)]
  rw [h1]
  have hr : NoBlank x.reverse := fun c hc => hx c (by simpa using hc)
  have h2 : x.reverse.dropWhile isReSpace = x.reverse := by
    cases hxr : x.reverse with
    | nil => rfl
    | cons c y => simp [hr c (by rw [hxr]; simp)]
  rw [h2, List.reverse_reverse]

/-- what becomes of a `TRes` -/
def nresOf (r : TRes) (k : Str → NRes) : NRes :=
  match r with
  | .ok t => k t
  | .syntax => .syntax
  | .overflow => .overflow
  | .key => .key
  | .other w => .other w

/-- `normalize_and_split` on a structured statement: blanks `w0`, mnemonic `M`, blanks `w1` (at least
one), lead `L` (nothing or a parenthesis), blanks `b1`, the operand word `T`, the rest `AFT` (text of
the group-3 language that does not continue the word), blanks `wEnd`. -/
theorem normalize_structured (d : Dev) (P : Parser) (w0 M w1 L b1 T AFT wEnd : Str)
    (hw0 : Blank w0) (hw1 : Blank w1) (hw1ne : w1 ≠ []) (hb1 : Blank b1) (hwEnd : Blank wEnd)
    (hM : IsMnem M) (hL : L = [] ∨ L = ['('])
    (hT : T ≠ []) (hTc : ∀ c ∈ T, isTargetChar c = true) (hTh : L = [] → T.head? ≠ some '(')
    (hA1 : ∀ c, AFT.head? = some c → isTargetChar c = false) (hA2 : inAfter AFT = true)
    (hnb : ∀ t, retarget d P T = .ok t → NoBlank t) :
    normalizeAndSplit d P (w0 ++ (M ++ (w1 ++ (L ++ (b1 ++ (T ++ (AFT ++ wEnd))))))) =
      nresOf (retarget d P T) fun t => .ok (upperS M) (upperS (L ++ (t ++ removeWs AFT))) := by
  obtain ⟨hMnb, hMsp, hMne⟩ := hM.noBlank
  have hTnb : NoBlank T := fun c hc => target_not_space (hTc c hc)
  -- normalisation
  set R := AFT ++ wEnd with hR
  set aft := nrmAux false R with haft
  set L' : Str := L ++ (if L = [] then [] else if b1 = [] then [] else [' ']) with hL'
  have hnorm : normWs (w0 ++ (M ++ (w1 ++ (L ++ (b1 ++ (T ++ R)))))) = M ++ ' ' :: (L' ++ (T ++ aft)) := by
    rw [normWs_eq, dropWhile_blank_word w0 M _ hw0 hMnb hMne, nrmAux_word false M _ hMnb hMne,
      nrmAux_blank false w1 _ hw1]
    have e1 : (false || !w1.isEmpty) = true := by
      cases w1 with
      | nil => exact absurd rfl hw1ne
      | cons _ _ => rfl
    rw [e1]
    rcases hL with rfl | rfl
    · rw [List.nil_append, nrmAux_blank true b1 _ hb1, Bool.true_or, nrmAux_word true T _ hTnb hT]
      simp [hL', haft]
    · have hlp : NoBlank ['('] := by intro c hc; simp at hc; subst hc; decide
      rw [nrmAux_word true ['('] _ hlp (by simp), nrmAux_blank false b1 _ hb1, Bool.false_or]
      by_cases hbe : b1 = []
      · subst hbe
        simp only [List.isEmpty_nil, Bool.not_true]
        rw [nrmAux_word false T _ hTnb hT]
        simp [hL', haft]
      · have : (!b1.isEmpty) = true := by
          cases b1 with
          | nil => exact absurd rfl hbe
          | cons _ _ => rfl
        rw [this, nrmAux_word true T _ hTnb hT]
        simp [hL', hbe, haft]
  have hLcases : L' = [] ∨ L' = ['('] ∨ L' = ['(', ' '] := by
    rcases hL with rfl | rfl
    · left; simp [hL']
    · by_cases hbe : b1 = []
      · right; left; simp [hL', hbe]
      · right; right; simp [hL', hbe]
  have hLnil : L' = [] → L = [] := by
    intro h
    rcases hL with rfl | rfl
    · rfl
    · simp [hL'] at h
  -- the rest after normalisation
  have haft1 : ∀ c, aft.head? = some c → isTargetChar c = false := by
    intro c hc
    rcases nrmAux_head R c hc with rfl | h
    · decide
    · cases hAe : AFT with
      | nil =>
        rw [hR, hAe, List.nil_append] at h
        have : c ∈ wEnd := List.mem_of_mem_head? h
        have := hwEnd c this
        simp [isTargetChar, this]
      | cons a A' =>
        rw [hR, hAe] at h
        simp only [List.cons_append, List.head?_cons, Option.some.injEq] at h
        exact hA1 c (by rw [hAe, ← h]; rfl)
  have hrem : removeWs aft = removeWs AFT := by
    rw [haft, removeWs_nrmAux, hR, removeWs_append, removeWs_blank wEnd hwEnd, List.append_nil]
  have haft2 : inAfter aft = true := by
    rw [← inAfter_removeWs, hrem, inAfter_removeWs, hA2]
  have hmatch := matchStatement_norm M L' T aft hM hLcases hT hTc (fun h => hTh (hLnil h)) haft1 haft2
  unfold normalizeAndSplit
  simp only [hnorm, hmatch]
  cases hrt : retarget d P T
  case ok t =>
    have htnb := hnb t hrt
    have hsplit := splitSp1_word M L' hMsp
    have hL'rem : removeWs L' = L := by
      rcases hL with rfl | rfl
      · simp [hL', removeWs]
      · by_cases hbe : b1 = []
        · simp [hL', hbe, removeWs]; decide
        · simp [hL', hbe, removeWs]; decide
    have hop : removeWs (L' ++ t ++ aft) = L ++ (t ++ removeWs AFT) := by
      rw [removeWs_append, removeWs_append, hL'rem, removeWs_noBlank t htnb, hrem, List.append_assoc]
    have hopnb : NoBlank (L ++ (t ++ removeWs AFT)) := by
      intro c hc
      rw [← hop] at hc
      simpa [removeWs] using (List.mem_filter.mp hc).2
    simp only [hsplit, hop, nresOf, strip_noBlank M hMnb, strip_noBlank _ hopnb]
  all_goals simp [nresOf]


/-! ## G6: `assemble` on structured text = the back end on canonical text -/

section text
variable {d : Dev} {v : Py65.Spec.Variant} {W : Nat}
open Py65.Spec.Asm (Shape)

theorem digitChar_noBlank : ∀ k, k < 16 → isReSpace (digitChar k) = false := by decide

theorem fmtHexL_noBlank (k n : Nat) : NoBlank (fmtHexL k n) := by
  unfold fmtHexL rjustL
  intro c hc
  rw [List.mem_append] at hc
  rcases hc with hc | hc
  · rw [List.mem_replicate] at hc
    rw [hc.2]; decide
  · obtain ⟨k', hk', rfl⟩ := toDigits_digCh (b := 16) (by decide) n c hc
    exact digitChar_noBlank k' hk'

theorem immText_noBlank (h : DevOK d v W) (x : Int) (t : Str) (ht : immText d x = .ok t) : NoBlank t := by
  unfold immText at ht
  split_ifs at ht
  rw [h.bfmt] at ht
  cases ht
  intro c hc
  simp only [List.mem_cons] at hc
  rcases hc with rfl | rfl | hc
  · decide
  · decide
  · exact fmtHexL_noBlank _ _ c hc

theorem addrText_noBlank (h : DevOK d v W) (x : Int) (t : Str) (ht : addrText d x = .ok t) : NoBlank t := by
  unfold addrText at ht
  split_ifs at ht
  rw [h.afmt] at ht
  cases ht
  intro c hc
  simp only [List.mem_cons] at hc
  rcases hc with rfl | hc
  · decide
  · exact fmtHexL_noBlank _ _ c hc

/-- an operand word that is a number, a label or label±offset: not `#…`, not the accumulator -/
structure AddrWord (T : Str) : Prop where
  ne : T ≠ []
  target : ∀ c ∈ T, isTargetChar c = true
  notImm : T.head? ≠ some '#'
  notParen : T.head? ≠ some '('
  notA : T ≠ ['a'] ∧ T ≠ ['A']

theorem retarget_addr (P : Parser) {T : Str} (hT : AddrWord T) :
    retarget d P T = TRes.ofRes (numberL P T) (addrText d) := by
  unfold retarget
  obtain ⟨t0, T', rfl⟩ := List.exists_cons_of_ne_nil hT.ne
  have h0 : t0 ≠ '#' := by intro e; exact hT.notImm (by simp [e])
  split
  · rename_i rest heq
    cases heq
    exact absurd rfl h0
  · simp [hT.notA.1, hT.notA.2]

theorem afterOf_upper (sh : Shape) : upperS (afterOf sh) = afterOf sh := by cases sh <;> decide
theorem leadOf_upper (sh : Shape) : upperS (leadOf sh) = leadOf sh := by cases sh <;> decide

/-- the six shapes with an address operand -/
def Shape.isAddr : Shape → Bool
  | .none | .acc | .imm => false
  | _ => true

/-- `asm_text` (address shapes): a statement written as blanks, mnemonic (any case), blanks, the
shape's tokens with arbitrary blanks between and around them, with an operand word `T` that
`AddressParser.number` values at `x`, assembles exactly as the back end does on the canonical text
of `(MNEMONIC, shape, x)`; a word without value is the parser's `KeyError` / `OverflowError`. -/
theorem asm_text_addr (h : DevOK d v W) (P : Parser) (hPw : P.width = 2 * W) (hwf : P.WF) (sh : Shape)
    (hsh : Shape.isAddr sh = true) (w0 M w1 b1 T AFT wEnd : Str) (pc : Int)
    (hw0 : Blank w0) (hw1 : Blank w1) (hw1ne : w1 ≠ []) (hb1 : Blank b1) (hwEnd : Blank wEnd)
    (hM : IsMnem M) (hT : AddrWord T)
    (hA1 : ∀ c, AFT.head? = some c → isTargetChar c = false) (hA2 : inAfter AFT = true)
    (hA3 : upperS (removeWs AFT) = afterOf sh) :
    assembleL d P (w0 ++ (M ++ (w1 ++ (leadOf sh ++ (b1 ++ (T ++ (AFT ++ wEnd))))))) pc =
      match numberL P T with
      | .ok x => assembleVal d (upperS M) sh x pc
      | .key => .key
      | .overflow => .overflow
      | .other => .other "number" := by
  have hL : leadOf sh = [] ∨ leadOf sh = ['('] := by cases sh <;> simp [leadOf]
  have hnb : ∀ t, retarget d P T = .ok t → NoBlank t := by
    intro t ht
    rw [retarget_addr P hT] at ht
    cases hn : numberL P T with
    | ok x => rw [hn] at ht; exact addrText_noBlank h x t ht
    | key => rw [hn] at ht; cases ht
    | overflow => rw [hn] at ht; cases ht
    | other => rw [hn] at ht; cases ht
  unfold assembleL
  rw [normalize_structured d P w0 M w1 (leadOf sh) b1 T AFT wEnd hw0 hw1 hw1ne hb1 hwEnd hM hL hT.ne
    hT.target (fun _ => hT.notParen) hA1 hA2 hnb, retarget_addr P hT]
  cases hn : numberL P T with
  | key => rfl
  | overflow => rfl
  | other => rfl
  | ok x =>
    have hb := numberL_bounded hwf hn
    have hmax : P.maxaddr = 2 ^ (2 * W) - 1 := by unfold Parser.maxaddr; rw [hPw]
    have hr : ¬ (x < 0 ∨ x > 2 ^ (2 * W) - 1) := by rw [hmax] at hb; omega
    have hav : assembleVal d (upperS M) sh x pc =
        ofTRes (addrText d x) fun t => backend d (upperS M) (upperS (leadOf sh ++ t ++ afterOf sh)) pc := by
      cases sh <;> first | (simp [Shape.isAddr] at hsh; done) | simp only [assembleVal, h.aw, hr, if_false]
    simp only [hav, TRes.ofRes]
    cases ha : addrText d x with
    | ok t =>
      simp only [nresOf, ofTRes, upperS_append, hA3, afterOf_upper, List.append_assoc]
    | «syntax» => rfl
    | overflow => rfl
    | key => rfl
    | other w => rfl

/-- `asm_text` (immediate, number or label): `#` followed by a word that is not a character
literal. -/
theorem asm_text_imm (h : DevOK d v W) (P : Parser) (w0 M w1 w wEnd : Str) (pc : Int)
    (hw0 : Blank w0) (hw1 : Blank w1) (hw1ne : w1 ≠ []) (hwEnd : Blank wEnd)
    (hM : IsMnem M) (hw : w ≠ []) (hwc : ∀ c ∈ w, isTargetChar c = true)
    (hq : w.head? ≠ some '\'' ∧ w.head? ≠ some '"') :
    assembleL d P (w0 ++ (M ++ (w1 ++ ('#' :: w ++ wEnd)))) pc =
      match numberL P w with
      | .ok x => assembleVal d (upperS M) .imm x pc
      | .key => .key
      | .overflow => .overflow
      | .other => .other "number" := by
  obtain ⟨q, w', rfl⟩ := List.exists_cons_of_ne_nil hw
  have hq1 : q ≠ '\'' := by intro e; exact hq.1 (by simp [e])
  have hq2 : q ≠ '"' := by intro e; exact hq.2 (by simp [e])
  have hret : retarget d P ('#' :: q :: w') = TRes.ofRes (numberL P (q :: w')) (immText d) := by
    simp [retarget, hq1, hq2]
  have hTc : ∀ c ∈ '#' :: q :: w', isTargetChar c = true := by
    intro c hc
    simp only [List.mem_cons] at hc
    rcases hc with rfl | hc
    · decide
    · exact hwc c (by simpa using hc)
  have hnb : ∀ t, retarget d P ('#' :: q :: w') = .ok t → NoBlank t := by
    intro t ht
    rw [hret] at ht
    cases hn : numberL P (q :: w') with
    | ok x => rw [hn] at ht; exact immText_noBlank h x t ht
    | key => rw [hn] at ht; cases ht
    | overflow => rw [hn] at ht; cases ht
    | other => rw [hn] at ht; cases ht
  have := normalize_structured d P w0 M w1 [] [] ('#' :: q :: w') [] wEnd hw0 hw1 hw1ne
    (by intro c hc; cases hc) hwEnd hM (Or.inl rfl) (by simp) hTc (fun _ => by simp) (by simp) rfl hnb
  simp only [List.nil_append, List.append_nil, removeWs, List.filter_nil] at this
  unfold assembleL
  simp only [List.cons_append] at this ⊢
  rw [this, hret]
  cases hn : numberL P (q :: w') with
  | key => rfl
  | overflow => rfl
  | other => rfl
  | ok x =>
    simp only [TRes.ofRes, assembleVal]
    cases immText d x <;> rfl

/-- `asm_text` (immediate, character literal `'c'`, `"c"`, or without the closing quote). -/
theorem asm_text_char (h : DevOK d v W) (P : Parser) (w0 M w1 wEnd : Str) (q ch : Char) (close : Str) (pc : Int)
    (hw0 : Blank w0) (hw1 : Blank w1) (hw1ne : w1 ≠ []) (hwEnd : Blank wEnd)
    (hM : IsMnem M) (hq : q = '\'' ∨ q = '"') (hch : isTargetChar ch = true)
    (hclose : close = [] ∨ close = [q]) :
    assembleL d P (w0 ++ (M ++ (w1 ++ ('#' :: q :: ch :: close ++ wEnd)))) pc =
      assembleVal d (upperS M) .imm (ch.toNat : Int) pc := by
  have hqt : isTargetChar q = true := by rcases hq with rfl | rfl <;> decide
  have hret : retarget d P ('#' :: q :: ch :: close) = immText d (ch.toNat : Int) := by
    rcases hclose with rfl | rfl <;> simp [retarget, hq]
  have hTc : ∀ c ∈ '#' :: q :: ch :: close, isTargetChar c = true := by
    intro c hc
    simp only [List.mem_cons] at hc
    rcases hc with rfl | rfl | rfl | hc
    · decide
    · exact hqt
    · exact hch
    · rcases hclose with rfl | rfl
      · cases hc
      · simp at hc; subst hc; exact hqt
  have hnb : ∀ t, retarget d P ('#' :: q :: ch :: close) = .ok t → NoBlank t := by
    intro t ht
    rw [hret] at ht
    exact immText_noBlank h _ t ht
  have := normalize_structured d P w0 M w1 [] [] ('#' :: q :: ch :: close) [] wEnd hw0 hw1 hw1ne
    (by intro c hc; cases hc) hwEnd hM (Or.inl rfl) (by simp) hTc (fun _ => by simp) (by simp) rfl hnb
  simp only [List.nil_append, List.append_nil, removeWs, List.filter_nil] at this
  unfold assembleL
  simp only [List.cons_append] at this ⊢
  rw [this, hret]
  simp only [assembleVal]
  cases immText d (ch.toNat : Int) <;> rfl

/-- `asm_text` (accumulator): `ASL A`, `asl a`. -/
theorem asm_text_acc (P : Parser) (w0 M w1 wEnd : Str) (a : Char) (pc : Int)
    (hw0 : Blank w0) (hw1 : Blank w1) (hw1ne : w1 ≠ []) (hwEnd : Blank wEnd)
    (hM : IsMnem M) (ha : a = 'A' ∨ a = 'a') :
    assembleL d P (w0 ++ (M ++ (w1 ++ (a :: wEnd)))) pc = assembleVal d (upperS M) .acc 0 pc := by
  have hret : retarget d P [a] = .ok [a] := by
    rcases ha with rfl | rfl <;> simp [retarget]
  have hTc : ∀ c ∈ [a], isTargetChar c = true := by
    intro c hc; simp at hc; subst hc
    rcases ha with rfl | rfl <;> decide
  have hnb : ∀ t, retarget d P [a] = .ok t → NoBlank t := by
    intro t ht
    rw [hret] at ht
    cases ht
    intro c hc; simp at hc; subst hc
    rcases ha with rfl | rfl <;> decide
  have := normalize_structured d P w0 M w1 [] [] [a] [] wEnd hw0 hw1 hw1ne
    (by intro c hc; cases hc) hwEnd hM (Or.inl rfl) (by simp)
    hTc (fun _ => by rcases ha with rfl | rfl <;> simp) (by simp) rfl hnb
  simp only [List.nil_append, List.append_nil, removeWs, List.filter_nil, List.singleton_append] at this
  unfold assembleL
  rw [this, hret]
  simp only [nresOf, assembleVal]
  have : upperS [a] = ['A'] := by rcases ha with rfl | rfl <;> decide
  rw [this]

theorem matchStatement_bare (M : Str) (hM : IsMnem M) : matchStatement M = none := by
  obtain ⟨c1, c2, c3, dg, rfl, h1, h2, h3, hdg⟩ := hM
  rcases hdg with rfl | ⟨c4, rfl, h4⟩
  · simp [matchStatement, h1, h2, h3]
  · simp [matchStatement, h1, h2, h3, h4]

theorem splitSp1_none (M : Str) (hM : ' ' ∉ M) : splitSp1 M = (M, none) := by
  induction M with
  | nil => rfl
  | cons c M ih =>
    have hc : c ≠ ' ' := fun e => hM (by simp [e])
    have := ih (fun hm => hM (by simp [hm]))
    simp [splitSp1, hc, this]

/-- `asm_text` (no operand): `NOP`, ` nop `. -/
theorem asm_text_none (P : Parser) (w0 M wEnd : Str) (pc : Int)
    (hw0 : Blank w0) (hwEnd : Blank wEnd) (hM : IsMnem M) :
    assembleL d P (w0 ++ (M ++ wEnd)) pc = assembleVal d (upperS M) .none 0 pc := by
  obtain ⟨hMnb, hMsp, hMne⟩ := hM.noBlank
  have hnorm : normWs (w0 ++ (M ++ wEnd)) = M := by
    rw [normWs_eq, dropWhile_blank_word w0 M _ hw0 hMnb hMne, nrmAux_word false M _ hMnb hMne]
    have := nrmAux_blank false wEnd [] hwEnd
    rw [List.append_nil] at this
    rw [this, nrmAux_nil]
    simp
  unfold assembleL normalizeAndSplit
  simp only [hnorm, matchStatement_bare M hM, splitSp1_none M hMsp, strip_noBlank M hMnb, assembleVal]


/-! ## G7: the text after the operand word, with arbitrary blanks and register-letter case -/

theorem upper_cases (c : Char) : upper c = c ∨ (97 ≤ c.toNat ∧ c.toNat ≤ 122 ∧ (upper c).toNat = c.toNat - 32) := by
  unfold upper
  split_ifs with h
  · right
    refine ⟨h.1, h.2, ?_⟩
    have key : ∀ k < 123, 97 ≤ k → (Char.ofNat (k - 32)).toNat = k - 32 := by decide
    exact key c.toNat (by omega) h.1
  · left; rfl

theorem upper_eq_punct {c p : Char} (hp : p.toNat < 65) (h : upper c = p) : c = p := by
  rcases upper_cases c with e | ⟨h1, h2, h3⟩
  · rw [← e]; exact h
  · rw [h] at h3; omega

theorem upper_eq_letter {c : Char} {k : Nat} (hk : 65 ≤ k ∧ k ≤ 90) (h : (upper c).toNat = k) :
    c.toNat = k ∨ c.toNat = k + 32 := by
  rcases upper_cases c with e | ⟨h1, h2, h3⟩
  · left; rw [← e]; exact h
  · right; omega

theorem char_of_toNat {c : Char} {k : Nat} (h : c.toNat = k) : c = Char.ofNat k := by
  rw [← h, Char.ofNat_toNat]

theorem upper_eq_X {c : Char} (h : upper c = 'X') : c = 'X' ∨ c = 'x' := by
  rcases upper_eq_letter (k := 88) (by decide) (by rw [h]; rfl) with e | e
  · left; exact char_of_toNat e
  · right; exact char_of_toNat e

theorem upper_eq_Y {c : Char} (h : upper c = 'Y') : c = 'Y' ∨ c = 'y' := by
  rcases upper_eq_letter (k := 89) (by decide) (by rw [h]; rfl) with e | e
  · left; exact char_of_toNat e
  · right; exact char_of_toNat e

theorem upper_eq_comma {c : Char} (h : upper c = ',') : c = ',' := upper_eq_punct (by decide) h
theorem upper_eq_rp {c : Char} (h : upper c = ')') : c = ')' := upper_eq_punct (by decide) h

/-- The characters after the operand word, each preceded by a run of blanks. -/
def decorate : List Str → Str → Str
  | g :: gs, c :: cs => g ++ c :: decorate gs cs
  | _, _ => []

theorem removeWs_decorate (gs : List Str) (cs : Str) (hg : ∀ g ∈ gs, Blank g) (hl : gs.length = cs.length) :
    removeWs (decorate gs cs) = removeWs cs := by
  induction gs generalizing cs with
  | nil =>
    cases cs with
    | nil => rfl
    | cons _ _ => cases hl
  | cons g gs ih =>
    cases cs with
    | nil => cases hl
    | cons c cs =>
      have hgb : Blank g := hg g (by simp)
      have := ih cs (fun x hx => hg x (by simp [hx])) (by simpa using hl)
      simp only [decorate, removeWs_append, removeWs_blank g hgb, List.nil_append]
      simp only [removeWs, List.filter_cons] at this ⊢
      rw [this]

theorem decorate_head (gs : List Str) (cs : Str) (hg : ∀ g ∈ gs, Blank g) (c : Char)
    (h : (decorate gs cs).head? = some c) : isReSpace c = true ∨ cs.head? = some c := by
  cases gs with
  | nil => simp [decorate] at h
  | cons g gs =>
    cases cs with
    | nil => simp [decorate] at h
    | cons x cs =>
      simp only [decorate] at h
      cases g with
      | nil => right; simpa using h
      | cons y g =>
        left
        simp only [List.cons_append, List.head?_cons, Option.some.injEq] at h
        rw [← h]; exact hg (y :: g) (by simp) y (by simp)

/-- The text after the operand word, decorated with arbitrary blanks, meets the three conditions
of `asm_text_addr`. -/
theorem suffix_ok (sh : Shape) (gs : List Str) (cs : Str) (hg : ∀ g ∈ gs, Blank g)
    (hl : gs.length = cs.length) (hcs : upperS cs = afterOf sh) :
    (∀ c, (decorate gs cs).head? = some c → isTargetChar c = false) ∧
    inAfter (decorate gs cs) = true ∧ upperS (removeWs (decorate gs cs)) = afterOf sh := by
  -- the characters themselves
  have hfacts : NoBlank cs ∧ inAfter cs = true ∧ (∀ c, cs.head? = some c → isTargetChar c = false) := by
    cases sh <;> simp only [afterOf, upperS] at hcs
    case dirX =>
      obtain ⟨a, b, rfl, ha, hb⟩ : ∃ a b, cs = [a, b] ∧ upper a = ',' ∧ upper b = 'X' := by
        rcases cs with _ | ⟨a, _ | ⟨b, _ | ⟨c, r⟩⟩⟩ <;> simp at hcs
        exact ⟨a, b, rfl, hcs.1, hcs.2⟩
      have := upper_eq_comma ha; subst this
      rcases upper_eq_X hb with rfl | rfl <;> refine ⟨?_, by decide, ?_⟩ <;>
        first | (intro c hc; simp at hc; rcases hc with rfl | rfl <;> decide) | (intro c hc; simp at hc; subst hc; decide)
    case dirY =>
      obtain ⟨a, b, rfl, ha, hb⟩ : ∃ a b, cs = [a, b] ∧ upper a = ',' ∧ upper b = 'Y' := by
        rcases cs with _ | ⟨a, _ | ⟨b, _ | ⟨c, r⟩⟩⟩ <;> simp at hcs
        exact ⟨a, b, rfl, hcs.1, hcs.2⟩
      have := upper_eq_comma ha; subst this
      rcases upper_eq_Y hb with rfl | rfl <;> refine ⟨?_, by decide, ?_⟩ <;>
        first | (intro c hc; simp at hc; rcases hc with rfl | rfl <;> decide) | (intro c hc; simp at hc; subst hc; decide)
    case ind =>
      obtain ⟨a, rfl, ha⟩ : ∃ a, cs = [a] ∧ upper a = ')' := by
        rcases cs with _ | ⟨a, _ | ⟨b, r⟩⟩ <;> simp at hcs
        exact ⟨a, rfl, hcs⟩
      have := upper_eq_rp ha; subst this
      refine ⟨?_, by decide, ?_⟩ <;> (intro c hc; simp at hc; subst hc; decide)
    case indX =>
      obtain ⟨a, b, c, rfl, ha, hb, hc⟩ : ∃ a b c, cs = [a, b, c] ∧ upper a = ',' ∧ upper b = 'X' ∧ upper c = ')' := by
        rcases cs with _ | ⟨a, _ | ⟨b, _ | ⟨c, _ | ⟨e, r⟩⟩⟩⟩ <;> simp at hcs
        exact ⟨a, b, c, rfl, hcs.1, hcs.2.1, hcs.2.2⟩
      have := upper_eq_comma ha; subst this
      have := upper_eq_rp hc; subst this
      rcases upper_eq_X hb with rfl | rfl <;> refine ⟨?_, by decide, ?_⟩ <;>
        first | (intro c hc; simp at hc; rcases hc with rfl | rfl | rfl <;> decide) | (intro c hc; simp at hc; subst hc; decide)
    case indY =>
      obtain ⟨a, b, c, rfl, ha, hb, hc⟩ : ∃ a b c, cs = [a, b, c] ∧ upper a = ')' ∧ upper b = ',' ∧ upper c = 'Y' := by
        rcases cs with _ | ⟨a, _ | ⟨b, _ | ⟨c, _ | ⟨e, r⟩⟩⟩⟩ <;> simp at hcs
        exact ⟨a, b, c, rfl, hcs.1, hcs.2.1, hcs.2.2⟩
      have := upper_eq_rp ha; subst this
      have := upper_eq_comma hb; subst this
      rcases upper_eq_Y hc with rfl | rfl <;> refine ⟨?_, by decide, ?_⟩ <;>
        first | (intro c hc; simp at hc; rcases hc with rfl | rfl | rfl <;> decide) | (intro c hc; simp at hc; subst hc; decide)
    all_goals
      have : cs = [] := by simpa using hcs
      subst this
      exact ⟨(by intro c hc; cases hc), rfl, (by intro c hc; simp at hc)⟩
  obtain ⟨hnb, hin, hhd⟩ := hfacts
  have hrem : removeWs (decorate gs cs) = cs := by
    rw [removeWs_decorate gs cs hg hl, removeWs_noBlank cs hnb]
  refine ⟨?_, ?_, ?_⟩
  · intro c hc
    rcases decorate_head gs cs hg c hc with h | h
    · simp [isTargetChar, h]
    · exact hhd c h
  · rw [← inAfter_removeWs, hrem, hin]
  · rw [hrem, hcs]


end text

end Py65.Proofs.Asm
