/-
Helper lemmas for C07 / C08 / C09 (assembler and disassembler models).

Part A  fixed-width hexadecimal: `"%0kx" % v` as `hexFix`, splitting into byte groups, all-zero
        test, reading back with `int(_, 16)` in either letter case
Part B  `matchItems` (compiled templates) step lemmas
-/
import Mathlib.Tactic.SplitIfs
import Mathlib.Tactic.NormNum
import Py65.Proofs.NumLemmas
import Py65.Proofs.PyIntLemmas
import Py65.Model.Asm
import Py65.Model.Disasm
import Py65.Spec.Asm

namespace Py65.Proofs.Asm
open Py65.Model Py65.Model.PyStr Py65.Model.AddrParser Py65.Model.Asm Py65.Model.Disasm Py65.Proofs.Num

/-! ## Part A: fixed-width hexadecimal -/

/-- The `k` low hexadecimal digits of `v`, most significant first, lower case. -/
def hexFix : Nat → Nat → Str
  | 0, _ => []
  | k + 1, v => hexFix k (v / 16) ++ [digitChar (v % 16)]

@[simp] theorem hexFix_length (k v : Nat) : (hexFix k v).length = k := by
  induction k generalizing v with
  | zero => rfl
  | succ k ih => simp [hexFix, ih]

theorem hexFix_zero (k : Nat) : hexFix k 0 = List.replicate k '0' := by
  induction k with
  | zero => rfl
  | succ k ih =>
    rw [hexFix, Nat.zero_div, ih, List.replicate_succ']
    rfl

theorem hexFix_mod (k v : Nat) : hexFix k (v % 16 ^ k) = hexFix k v := by
  induction k generalizing v with
  | zero => rfl
  | succ k ih =>
    rw [hexFix, hexFix]
    have h1 : v % 16 ^ (k + 1) / 16 = (v / 16) % 16 ^ k := by
      rw [Nat.pow_succ, Nat.mul_comm, Nat.mod_mul_right_div_self]
    have h2 : v % 16 ^ (k + 1) % 16 = v % 16 := by
      rw [Nat.pow_succ]
      exact Nat.mod_mul_left_mod v (16 ^ k) 16
    rw [h1, h2, ih]

/-- `"%0kx" % v` for a value that fits in `k ≥ 1` digits. -/
theorem fmtHexL_eq_hexFix (k v : Nat) (hk : 1 ≤ k) (hv : v < 16 ^ k) : fmtHexL k v = hexFix k v := by
  induction k generalizing v with
  | zero => omega
  | succ k ih =>
    unfold fmtHexL rjustL
    rw [toDigits]
    split
    · rename_i h
      have hv16 : v < 16 := by omega
      have : v / 16 = 0 := Nat.div_eq_of_lt hv16
      simp only [List.length_singleton, Nat.add_sub_cancel, hexFix, this, hexFix_zero,
        Nat.mod_eq_of_lt hv16]
    · rename_i h
      have hv16 : 16 ≤ v := by omega
      have hk1 : 1 ≤ k := by
        rcases k with _ | k
        · simp at hv; omega
        · omega
      have hd : v / 16 < 16 ^ k := by
        rw [Nat.div_lt_iff_lt_mul (by omega)]
        rwa [Nat.pow_succ] at hv
      have := ih (v / 16) hk1 hd
      unfold fmtHexL rjustL at this
      simp only [List.length_append, List.length_singleton, hexFix]
      rw [← this, ← List.append_assoc]
      have e : k + 1 - ((toDigits 16 (v / 16)).length + 1) = k - (toDigits 16 (v / 16)).length := by omega
      rw [e]

theorem hexFix_split (a b v : Nat) : hexFix (a + b) v = hexFix a (v / 16 ^ b) ++ hexFix b v := by
  induction b generalizing v with
  | zero => simp [hexFix]
  | succ b ih =>
    rw [← Nat.add_assoc, hexFix, hexFix, ih, List.append_assoc]
    congr 2
    rw [Nat.div_div_eq_div_mul, Nat.pow_succ, Nat.mul_comm]

theorem digitChar_eq_zero : ∀ d, d < 16 → (digitChar d = '0' ↔ d = 0) := by decide
theorem upper_digitChar_eq_zero : ∀ d, d < 16 → (upper (digitChar d) = '0' ↔ d = 0) := by decide
theorem upper_digitChar_hexUpper : ∀ d, d < 16 → isHexUpper (upper (digitChar d)) = true := by decide
theorem dv_upper_digitChar : ∀ d, d < 16 → dv (upper (digitChar d)) = d := by decide
theorem isDig_upper_digitChar16 : ∀ d, d < 16 → IsDig 16 (upper (digitChar d)) := by
  intro d hd
  exact isDig_upper_digitChar (by decide) hd

/-- The upper-cased digits, as `.upper()` leaves them. -/
def hexFixU (k v : Nat) : Str := (hexFix k v).map upper

@[simp] theorem hexFixU_length (k v : Nat) : (hexFixU k v).length = k := by simp [hexFixU]

theorem hexFixU_succ (k v : Nat) : hexFixU (k + 1) v = hexFixU k (v / 16) ++ [upper (digitChar (v % 16))] := by
  simp [hexFixU, hexFix]

theorem hexFixU_split (a b v : Nat) : hexFixU (a + b) v = hexFixU a (v / 16 ^ b) ++ hexFixU b v := by
  simp [hexFixU, hexFix_split]

theorem hexFixU_allzero (k v : Nat) : (hexFixU k v).all (· = '0') = true ↔ v % 16 ^ k = 0 := by
  induction k generalizing v with
  | zero => simp [hexFixU, hexFix, Nat.mod_one]
  | succ k ih =>
    rw [hexFixU_succ, List.all_append, Bool.and_eq_true, ih]
    have hm : v % 16 < 16 := Nat.mod_lt _ (by decide)
    simp only [List.all_cons, List.all_nil, Bool.and_true, decide_eq_true_eq,
      upper_digitChar_eq_zero _ hm]
    rw [Nat.pow_succ, Nat.mul_comm, Nat.mod_mul]
    constructor
    · rintro ⟨h1, h2⟩; rw [h1, h2]
    · intro h; omega

theorem hexFixU_hexUpper (k v : Nat) : (hexFixU k v).all isHexUpper = true := by
  induction k generalizing v with
  | zero => rfl
  | succ k ih =>
    rw [hexFixU_succ, List.all_append, ih]
    simp [upper_digitChar_hexUpper _ (Nat.mod_lt v (by decide : 0 < 16))]

theorem hexFixU_digStr (k v : Nat) : DigStr 16 (hexFixU k v) := by
  induction k generalizing v with
  | zero => intro c hc; cases hc
  | succ k ih =>
    rw [hexFixU_succ]
    exact digStr_append (ih _) (by
      intro c hc
      simp only [List.mem_singleton] at hc
      subst hc
      exact isDig_upper_digitChar16 _ (Nat.mod_lt v (by decide)))

theorem valL_hexFixU (k v : Nat) : valL 16 (hexFixU k v) = v % 16 ^ k := by
  induction k generalizing v with
  | zero => simp [hexFixU, hexFix, valL, valAcc, Nat.mod_one]
  | succ k ih =>
    rw [hexFixU_succ, valL_snoc, ih, dv_upper_digitChar _ (Nat.mod_lt v (by decide))]
    rw [Nat.pow_succ, Nat.mul_comm (16 ^ k), Nat.mod_mul]
    omega

/-- `int(_, 16)` of the upper-cased group. -/
theorem pyIntL_hexFixU (k v : Nat) (hk : 1 ≤ k) : pyIntL (hexFixU k v) 16 = some ((v % 16 ^ k : Nat) : Int) := by
  have hne : hexFixU k v ≠ [] := by
    intro e
    have := congrArg List.length e
    simp at this
    omega
  rw [pyIntL_digits (by decide) (by decide) hne (hexFixU_digStr k v) (Or.inl rfl), valL_hexFixU]

/-- `int("%0kx" % v, 16) = v` -/
theorem pyIntL_fmtHexL (k v : Nat) : pyIntL (fmtHexL k v) 16 = some (v : Int) := by
  unfold fmtHexL
  rw [rjustL_toDigits]
  exact pyIntL_spelling (by decide) (by decide) _ _ _ (Or.inl rfl)

/-! ## Part B: template matching, step by step -/

@[simp] theorem matchItems_nil (n : Nat) (s : Str) :
    matchItems n [] s = if s = [] then some [] else none := by
  unfold matchItems; rfl

@[simp] theorem matchItems_lit_cons (n : Nat) (c c' : Char) (items : List TItem) (s : Str) :
    matchItems n (.lit c :: items) (c' :: s) = if c' = c then matchItems n items s else none := by
  rw [matchItems]

@[simp] theorem matchItems_lit_nil (n : Nat) (c : Char) (items : List TItem) :
    matchItems n (.lit c :: items) [] = none := by
  rw [matchItems]

theorem matchItems_zeros_append (n : Nat) (items : List TItem) (g rest : Str) (hg : g.length = n) :
    matchItems n (.zeros :: items) (g ++ rest) =
      if g.all (· = '0') = true then matchItems n items rest else none := by
  rw [matchItems]
  have h1 : (g ++ rest).take n = g := by rw [← hg]; simp
  have h2 : (g ++ rest).drop n = rest := by rw [← hg]; simp
  have h3 : (g ++ rest).length ≥ n := by simp; omega
  simp only [h1, h2, h3, true_and]

theorem matchItems_hex_append (n : Nat) (items : List TItem) (g rest : Str) (hg : g.length = n)
    (hh : g.all isHexUpper = true) :
    matchItems n (.hex :: items) (g ++ rest) = (matchItems n items rest).map (g :: ·) := by
  rw [matchItems]
  have h1 : (g ++ rest).take n = g := by rw [← hg]; simp
  have h2 : (g ++ rest).drop n = rest := by rw [← hg]; simp
  have h3 : (g ++ rest).length ≥ n := by simp; omega
  simp only [h1, h2, h3, hh, and_self, if_true]
  cases matchItems n items rest <;> rfl

theorem matchItems_zeros_end (n : Nat) (items : List TItem) (g : Str) (hg : g.length = n) :
    matchItems n (.zeros :: items) g =
      if g.all (· = '0') = true then matchItems n items [] else none := by
  have := matchItems_zeros_append n items g [] hg
  rwa [List.append_nil] at this

theorem matchItems_hex_end (n : Nat) (items : List TItem) (g : Str) (hg : g.length = n)
    (hh : g.all isHexUpper = true) :
    matchItems n (.hex :: items) g = (matchItems n items []).map (g :: ·) := by
  have := matchItems_hex_append n items g [] hg hh
  rwa [List.append_nil] at this

/-! ## Part C: the device tables against the documented tables -/

/-- The text of an addressing mode in py65's tables. -/
def modeStr (mo : Py65.Spec.Mode) : PyStr.Str := (Py65.Spec.Mode.name mo).toList

/-- A row of the documented table as py65 spells it. -/
def render : Option (Py65.Spec.Mn × Py65.Spec.Mode) → PyStr.Str × PyStr.Str
  | some (mn, mo) => (Py65.Spec.Asm.mnText mn, modeStr mo)
  | none => ("???".toList, "imp".toList)

/-- The 256 rows of the documented table of a variant, as py65 spells them. -/
def specRows (v : Py65.Spec.Variant) : List (PyStr.Str × PyStr.Str) :=
  (List.range 256).map (fun (n : Nat) => render (Py65.Spec.decode v (n : Int)))

theorem specRows_length (v : Py65.Spec.Variant) : (specRows v).length = 256 := by
  simp [specRows]

theorem modeStr_inj (a b : Py65.Spec.Mode) (h : modeStr a = modeStr b) : a = b := by
  cases a <;> cases b <;> first | rfl | exact absurd h (by decide)

/-- the placeholder of undeclared opcodes -/
abbrev qqq : PyStr.Str := ['?', '?', '?']

theorem mnText_ne_placeholder (mn : Py65.Spec.Mn) : Py65.Spec.Asm.mnText mn ≠ qqq := by
  cases mn <;> simp [Py65.Spec.Asm.mnText]

theorem render_isRow (m : PyStr.Str) (mo : Py65.Spec.Mode) (hm : m ≠ qqq)
    (x : Option (Py65.Spec.Mn × Py65.Spec.Mode)) :
    decide (render x = (m, modeStr mo)) = Py65.Spec.Asm.isRow m mo x := by
  cases x with
  | none => simp [render, Py65.Spec.Asm.isRow, Ne.symm hm]
  | some r =>
    obtain ⟨mn, mo'⟩ := r
    simp only [render, Prod.mk.injEq, Bool.decide_and, Py65.Spec.Asm.isRow]
    congr 1
    by_cases h : mo' = mo
    · simp [h]
    · have : modeStr mo' ≠ modeStr mo := fun e => h (modeStr_inj _ _ e)
      simp [h, this]

/-- `indexOf` on the rendered documented table is the documented opcode lookup (the model never
looks up the placeholder `???`). -/
theorem indexOf_specRows (v : Py65.Spec.Variant) (m : PyStr.Str) (mo : Py65.Spec.Mode)
    (hm : m ≠ qqq) :
    indexOf (specRows v) (m, modeStr mo) = Py65.Spec.Asm.opcodeOf v m mo := by
  unfold indexOf Py65.Spec.Asm.opcodeOf
  simp only [specRows_length]
  have h : List.findIdx (fun y => decide (y = (m, modeStr mo))) (specRows v) =
      List.findIdx (Py65.Spec.Asm.rowIs v m mo) (List.range 256) := by
    unfold specRows
    rw [List.findIdx_map]
    congr 1
    funext n
    simp only [Function.comp, Py65.Spec.Asm.rowIs]
    exact render_isRow m mo hm _
  rw [h]

/-- No documented instruction is spelled `???`: the documented lookup of the placeholder fails. -/
theorem opcodeOf_placeholder (v : Py65.Spec.Variant) (mo : Py65.Spec.Mode) :
    Py65.Spec.Asm.opcodeOf v qqq mo = none := by
  unfold Py65.Spec.Asm.opcodeOf
  have : List.findIdx (Py65.Spec.Asm.rowIs v qqq mo) (List.range 256) = (List.range 256).length := by
    rw [List.findIdx_eq_length]
    intro n _
    unfold Py65.Spec.Asm.rowIs
    cases Py65.Spec.decode v (n : Int) with
    | none => rfl
    | some r =>
      obtain ⟨mn, mo'⟩ := r
      simp [Py65.Spec.Asm.isRow, mnText_ne_placeholder mn]
  rw [this]
  simp

/-! ## Part D: the back end under the device hypotheses -/

open Py65.Spec.Asm (opcodeOf Shape Outcome Refusal Stmt encode encodeIn encodeAbs Documented disp isZp fits operandBytes)
open Py65.Spec (Mode)

theorem compiled_eq : compiled = [
    (['z', 'p', 'i'], [.lit '(', .lit '$', .zeros, .hex, .lit ')']),
    (['z', 'p', 'x'], [.lit '$', .zeros, .hex, .lit ',', .lit 'X']),
    (['z', 'p', 'y'], [.lit '$', .zeros, .hex, .lit ',', .lit 'Y']),
    (['z', 'p', 'g'], [.lit '$', .zeros, .hex]),
    (['i', 'n', 'x'], [.lit '(', .lit '$', .zeros, .hex, .lit ',', .lit 'X', .lit ')']),
    (['i', 'a', 'x'], [.lit '(', .lit '$', .hex, .hex, .lit ',', .lit 'X', .lit ')']),
    (['i', 'n', 'y'], [.lit '(', .lit '$', .zeros, .hex, .lit ')', .lit ',', .lit 'Y']),
    (['i', 'n', 'd'], [.lit '(', .lit '$', .hex, .hex, .lit ')']),
    (['a', 'b', 'x'], [.lit '$', .hex, .hex, .lit ',', .lit 'X']),
    (['a', 'b', 'y'], [.lit '$', .hex, .hex, .lit ',', .lit 'Y']),
    (['a', 'b', 's'], [.lit '$', .hex, .hex]),
    (['r', 'e', 'l'], [.lit '$', .hex, .hex]),
    (['i', 'm', 'p'], []),
    (['a', 'c', 'c'], []),
    (['a', 'c', 'c'], [.lit 'A']),
    (['i', 'm', 'm'], [.lit '#', .lit '$', .hex]) ] := by decide

/-- What the theorems need to know about a device record: its table is the rendered documented
table of the variant, its widths are `W` / `2W` with `W ∈ {8, 16}`, its formats are `%0(W/4)x` and
`%0(W/2)x`.  Established for the three devices by evaluation (`decide +kernel` on the GENERATED
tables), so a change of a device table or format makes these instances -- and every theorem that
uses them -- fail. -/
structure DevOK (d : Dev) (v : Py65.Spec.Variant) (W : Nat) : Prop where
  table : d.table = specRows v
  bw : d.byteWidth = W
  aw : d.addrWidth = 2 * W
  bfmt : ∀ k, pctFmt d.byteFmt k = some (fmtHexL (W / 4) k)
  afmt : ∀ k, pctFmt d.addrFmt k = some (fmtHexL (W / 2) k)
  hW : W = 8 ∨ W = 16

section backend
variable {d : Dev} {v : Py65.Spec.Variant} {W : Nat}

theorem DevOK.numchars (h : DevOK d v W) : d.numchars = W / 4 := by
  unfold Dev.numchars; rw [h.bw]

theorem DevOK.n_pos (h : DevOK d v W) : 1 ≤ W / 4 := by
  rcases h.hW with rfl | rfl <;> decide

theorem DevOK.pow16 (h : DevOK d v W) : 16 ^ (W / 4) = 2 ^ W := by
  rcases h.hW with rfl | rfl <;> decide

theorem DevOK.half (h : DevOK d v W) : W / 2 = W / 4 + W / 4 := by
  rcases h.hW with rfl | rfl <;> decide

/-- the relative-branch computation is the documented displacement with its range check -/
theorem relOperand_spec (h : DevOK d v W) (x pc : Int) :
    relOperand d x pc =
      (if -(2 ^ (W - 1)) ≤ Py65.Spec.Asm.disp W x pc ∧ Py65.Spec.Asm.disp W x pc < 2 ^ (W - 1)
       then some (Py65.Spec.Asm.disp W x pc % 2 ^ W) else none) := by
  unfold relOperand Py65.Spec.Asm.disp Dev.addrMask Dev.byteMask
  rw [h.bw, h.aw]
  simp only [Py.shl, Py.shr, Int.one_mul, Py.land_mask]
  have e : x - pc - 2 = x - (pc + 2) := by omega
  rw [e]
  rcases h.hW with rfl | rfl
  · have h0 := Int.emod_nonneg (x - (pc + 2)) (show (2 : Int) ^ (2 * 8) ≠ 0 by decide)
    have h1 := Int.emod_lt_of_pos (x - (pc + 2)) (show (0 : Int) < 2 ^ (2 * 8) by decide)
    generalize (x - (pc + 2)) % 2 ^ (2 * 8) = r at *
    norm_num at h0 h1 ⊢
    split_ifs <;> first | rfl | omega
  · have h0 := Int.emod_nonneg (x - (pc + 2)) (show (2 : Int) ^ (2 * 16) ≠ 0 by decide)
    have h1 := Int.emod_lt_of_pos (x - (pc + 2)) (show (0 : Int) < 2 ^ (2 * 16) by decide)
    generalize (x - (pc + 2)) % 2 ^ (2 * 16) = r at *
    norm_num at h0 h1 ⊢
    split_ifs <;> first | rfl | omega

theorem emit_placeholder (pc : Int) (mode : Str) (gs : List Str) : emit d qqq pc mode gs = none := by
  simp [emit]

theorem modeStr_rel_iff (mo : Py65.Spec.Mode) : modeStr mo = ['r', 'e', 'l'] ↔ mo = .rel := by
  cases mo <;> decide

/-- `emit` for every mode but `rel`, in terms of the documented opcode lookup. -/
theorem emit_nonrel (h : DevOK d v W) {m : Str} (hm : m ≠ qqq) (mo : Py65.Spec.Mode) (hmo : mo ≠ .rel)
    (pc : Int) (gs : List Str) :
    emit d m pc (modeStr mo) gs =
      match opcodeOf v m mo with
      | none => none
      | some op =>
        match hexInts (match gs with | [a, b] => [b, a] | gs => gs) with
        | some ops => some (finish d pc ((op : Int) :: ops))
        | none => some (.other "int") := by
  unfold emit
  have hr : ¬ modeStr mo = ['r', 'e', 'l'] := fun e => hmo ((modeStr_rel_iff mo).1 e)
  have hq : "???".toList = qqq := rfl
  have hrel : "rel".toList = ['r', 'e', 'l'] := rfl
  rw [hq, hrel, if_neg hm, h.table, indexOf_specRows v m mo hm]
  cases opcodeOf v m mo with
  | none => rfl
  | some op => simp only [if_neg hr]; rfl


theorem hexInts_nil : hexInts [] = some [] := rfl

theorem hexInts_one (n a : Nat) (hn : 1 ≤ n) :
    hexInts [hexFixU n a] = some [((a % 16 ^ n : Nat) : Int)] := by
  simp only [hexInts, pyIntL_hexFixU n a hn]

theorem hexInts_two (n a b : Nat) (hn : 1 ≤ n) :
    hexInts [hexFixU n a, hexFixU n b] = some [((a % 16 ^ n : Nat) : Int), ((b % 16 ^ n : Nat) : Int)] := by
  simp only [hexInts, pyIntL_hexFixU n a hn, pyIntL_hexFixU n b hn]

theorem hexInts_fmt (n a : Nat) : hexInts [fmtHexL n a] = some [(a : Int)] := by
  simp only [hexInts, pyIntL_fmtHexL]

/-- `emit` for `rel` on the two groups of a full address `x`. -/
theorem emit_rel (h : DevOK d v W) {m : Str} (hm : m ≠ qqq) (pc : Int) (x : Nat)
    (hx : x < 16 ^ (W / 4 + W / 4)) :
    emit d m pc ['r', 'e', 'l'] [hexFixU (W / 4) (x / 16 ^ (W / 4)), hexFixU (W / 4) x] =
      match opcodeOf v m .rel with
      | none => none
      | some op =>
        some (if -(2 ^ (W - 1)) ≤ disp W x pc ∧ disp W x pc < 2 ^ (W - 1)
              then finish d pc [(op : Int), disp W x pc % 2 ^ W] else .overflow) := by
  unfold emit
  have hq : "???".toList = qqq := rfl
  have hrel : "rel".toList = ['r', 'e', 'l'] := rfl
  have hms : (['r', 'e', 'l'] : Str) = modeStr .rel := rfl
  rw [hq, hrel, if_neg hm, h.table, hms, indexOf_specRows v m .rel hm]
  cases opcodeOf v m .rel with
  | none => rfl
  | some op =>
    have hfl : [hexFixU (W / 4) (x / 16 ^ (W / 4)), hexFixU (W / 4) x].flatten
        = hexFixU (W / 4 + W / 4) x := by
      simp [hexFixU_split]
    have hpos : 1 ≤ W / 4 + W / 4 := by have := h.n_pos; omega
    simp only [if_true, hfl, pyIntL_hexFixU _ x hpos, Nat.mod_eq_of_lt hx, relOperand_spec h]
    split_ifs with hc
    · have h0 : 0 ≤ disp W x pc % 2 ^ W := Int.emod_nonneg _ (by positivity)
      simp only [h.bfmt, hexInts_fmt, Int.toNat_of_nonneg h0]
    · rfl


/-! ### the loop over the templates with combinators -/

/-- `for … : if match: … return`: the first template that produces a result wins -/
def orElseA (o : Option ARes) (k : ARes) : ARes :=
  match o with
  | some r => r
  | none => k

/-- the pattern matched with groups `gs`, then the body of the loop -/
def andThenG (g : Option (List Str)) (f : List Str → Option ARes) : Option ARes :=
  match g with
  | none => none
  | some gs => f gs

@[simp] theorem orElseA_none (k : ARes) : orElseA none k = k := rfl
@[simp] theorem orElseA_some (r k : ARes) : orElseA (some r) k = r := rfl
@[simp] theorem andThenG_none (f : List Str → Option ARes) : andThenG none f = none := rfl
@[simp] theorem andThenG_some (gs : List Str) (f : List Str → Option ARes) : andThenG (some gs) f = f gs := rfl
@[simp] theorem andThenG_ite (c : Prop) [Decidable c] (gs : List Str) (f : List Str → Option ARes) :
    andThenG (if c then some gs else none) f = if c then f gs else none := by
  split_ifs <;> rfl

theorem tryModes_cons (oc od : Str) (pc : Int) (mode : Str) (items : List TItem)
    (rest : List (Str × List TItem)) :
    tryModes d oc od pc ((mode, items) :: rest) =
      orElseA (andThenG (matchItems d.numchars items od) (emit d oc pc mode)) (tryModes d oc od pc rest) := by
  rw [tryModes, tryMode]
  cases matchItems d.numchars items od with
  | none => rfl
  | some gs =>
    simp only [andThenG_some]
    cases emit d oc pc mode gs <;> rfl

theorem tryModes_nil (oc od : Str) (pc : Int) : tryModes d oc od pc [] = .syntax := rfl

/-! ### canonical operand text and the value-level assembler -/

/-- text in front of the operand value -/
def leadOf : Shape → Str
  | .ind | .indX | .indY => ['(']
  | _ => []

/-- text after the operand value -/
def afterOf : Shape → Str
  | .dirX => [',', 'X'] | .dirY => [',', 'Y'] | .ind => [')']
  | .indX => [',', 'X', ')'] | .indY => [')', ',', 'Y'] | _ => []

/-- Spec outcome as a model result. -/
def toARes : Outcome → ARes
  | .ok bs => .ok bs
  | .refuse .syntax => .syntax
  | .refuse .overflow => .overflow
  | .refuse .key => .key

def ofTRes (r : TRes) (k : Str → ARes) : ARes :=
  match r with
  | .ok t => k t
  | .syntax => .syntax
  | .overflow => .overflow
  | .key => .key
  | .other w => .other w

/-- The model's back end on the canonical operand text of `(shape, value)`, preceded by the range
check that `normalize_and_split` applies to the value (`number`'s `_constrain` for addresses, the
byte check for immediates): what `assemble` computes once the operand word has been valued. -/
def assembleVal (d : Dev) (m : Str) (sh : Shape) (x pc : Int) : ARes :=
  match sh with
  | .none => backend d m [] pc
  | .acc => backend d m ['A'] pc
  | .imm => ofTRes (immText d x) fun t => backend d m (upperS t) pc
  | sh =>
    if x < 0 ∨ x > 2 ^ d.addrWidth - 1 then .overflow
    else ofTRes (addrText d x) fun t => backend d m (upperS (leadOf sh ++ t ++ afterOf sh)) pc

theorem upperS_cons (c : Char) (s : Str) : upperS (c :: s) = upper c :: upperS s := rfl
theorem upperS_append (a b : Str) : upperS (a ++ b) = upperS a ++ upperS b := by simp [upperS]
theorem upperS_nil : upperS [] = [] := rfl

theorem toNat_lt_pow (h : DevOK d v W) (x : Int) (h1 : x < 2 ^ (2 * W)) :
    x.toNat < 16 ^ (W / 4 + W / 4) := by
  rcases h.hW with rfl | rfl
  · norm_num at h1 ⊢; omega
  · norm_num at h1 ⊢; omega

/-- canonical address text: `$` and the two upper-cased byte groups -/
theorem addrText_canon (h : DevOK d v W) (x : Int) (h0 : 0 ≤ x) (h1 : x < 2 ^ (2 * W)) :
    ∃ t, addrText d x = .ok t ∧
      upperS t = '$' :: (hexFixU (W / 4) (x.toNat / 16 ^ (W / 4)) ++ hexFixU (W / 4) x.toNat) := by
  have hlt := toNat_lt_pow h x h1
  refine ⟨'$' :: fmtHexL (W / 2) x.toNat, ?_, ?_⟩
  · unfold addrText
    rw [if_neg (by omega), h.afmt]
  · rw [h.half, fmtHexL_eq_hexFix _ _ (by have := h.n_pos; omega) hlt, upperS_cons]
    show '$' :: hexFixU (W / 4 + W / 4) x.toNat = _
    rw [hexFixU_split]

/-- canonical immediate text: `#$` and one upper-cased byte group -/
theorem immText_canon (h : DevOK d v W) (x : Int) (h0 : 0 ≤ x) (h1 : x < 2 ^ W) :
    ∃ t, immText d x = .ok t ∧ upperS t = '#' :: '$' :: hexFixU (W / 4) x.toNat := by
  have hlt : x.toNat < 16 ^ (W / 4) := by
    rw [h.pow16]
    have : ((x.toNat : Nat) : Int) = x := Int.toNat_of_nonneg h0
    exact_mod_cast (this ▸ h1 : ((x.toNat : Nat) : Int) < 2 ^ W)
  refine ⟨'#' :: '$' :: fmtHexL (W / 4) x.toNat, ?_, ?_⟩
  · unfold immText Dev.byteMask
    rw [h.bw]
    have : ¬ (x < 0 ∨ x > Py.shl 1 W - 1) := by
      simp only [Py.shl, Int.one_mul]; omega
    rw [if_neg this, h.bfmt]
  · rw [fmtHexL_eq_hexFix _ _ h.n_pos hlt]
    rfl

theorem immText_out (h : DevOK d v W) (x : Int) (hx : ¬ (0 ≤ x ∧ x < 2 ^ W)) :
    immText d x = .overflow := by
  unfold immText Dev.byteMask
  rw [h.bw]
  have : (x < 0 ∨ x > Py.shl 1 W - 1) := by
    simp only [Py.shl, Int.one_mul]; omega
  rw [if_pos this]

theorem finish_eq (h : DevOK d v W) (pc : Int) (bs : List Int) :
    finish d pc bs = if pc + (bs.length : Int) > 2 ^ (2 * W) then .overflow else .ok bs := by
  unfold finish; rw [h.aw]

/-- high group all zeros ↔ the value is below one page -/
theorem hi_zero_iff (h : DevOK d v W) (x : Int) (h0 : 0 ≤ x) (h1 : x < 2 ^ (2 * W)) :
    (∀ c ∈ hexFixU (W / 4) (x.toNat / 16 ^ (W / 4)), c = '0') ↔ x < 2 ^ W := by
  have hall := hexFixU_allzero (W / 4) (x.toNat / 16 ^ (W / 4))
  simp only [List.all_eq_true, decide_eq_true_eq] at hall
  rw [hall]
  have hlt := toNat_lt_pow h x h1
  rcases h.hW with rfl | rfl
  · norm_num at hlt h1 ⊢; omega
  · norm_num at hlt h1 ⊢; omega

theorem lo_val (h : DevOK d v W) (x : Int) (h0 : 0 ≤ x) :
    ((x.toNat % 16 ^ (W / 4) : Nat) : Int) = x % 2 ^ W := by
  rcases h.hW with rfl | rfl
  · norm_num; omega
  · norm_num; omega

theorem hi_val (h : DevOK d v W) (x : Int) (h0 : 0 ≤ x) (h1 : x < 2 ^ (2 * W)) :
    ((x.toNat / 16 ^ (W / 4) % 16 ^ (W / 4) : Nat) : Int) = x / 2 ^ W := by
  rcases h.hW with rfl | rfl
  · norm_num at h1 ⊢; omega
  · norm_num at h1 ⊢; omega

/-- a zero-page template followed by the rest of the loop -/
theorem step_zp (h : DevOK d v W) (m : Str) (x pc : Int) (h0 : 0 ≤ x) (h1 : x < 2 ^ (2 * W))
    (mo : Mode) (hz : isZp mo = true) (K : ARes) (rest : List Mode)
    (hK : K = toARes (encodeIn v W m x pc rest)) :
    orElseA (if ∀ c ∈ hexFixU (W / 4) (x.toNat / 16 ^ (W / 4)), c = '0'
             then emit d m pc (modeStr mo) [hexFixU (W / 4) x.toNat] else none) K
      = toARes (encodeIn v W m x pc (mo :: rest)) := by
  have hrel : mo ≠ .rel := by rintro rfl; simp [isZp] at hz
  have hops : operandBytes W mo x pc = some [x] := by
    cases mo <;> first | rfl | simp [isZp] at hz
  have hlen : mo.len = 2 := by
    cases mo <;> first | rfl | simp [isZp] at hz
  subst hK
  rw [encodeIn]
  simp only [hi_zero_iff h x h0 h1, fits, hz, if_true]
  by_cases hm : m = qqq
  · subst hm
    simp only [emit_placeholder, opcodeOf_placeholder]
    split_ifs <;> rfl
  · rw [emit_nonrel h hm mo hrel]
    cases opcodeOf v m mo with
    | none => simp
    | some op =>
      by_cases hx : x < 2 ^ W
      · have hmod : x % 2 ^ W = x := Int.emod_eq_of_lt h0 hx
        simp only [hx, if_true, decide_true, hexInts_one _ _ h.n_pos, lo_val h x h0, hmod, hops,
          orElseA_some, finish_eq h, hlen, List.length_cons, List.length_nil]
        split_ifs <;> first | rfl | omega
      · simp [hx]

def isAbs2 : Mode → Bool
  | .abs | .abx | .aby | .ind | .iax => true
  | _ => false

/-- an absolute (two-byte operand) template followed by the rest of the loop -/
theorem step_abs (h : DevOK d v W) (m : Str) (x pc : Int) (h0 : 0 ≤ x) (h1 : x < 2 ^ (2 * W))
    (mo : Mode) (hz : isAbs2 mo = true) (K : ARes) (rest : List Mode)
    (hK : K = toARes (encodeIn v W m x pc rest)) :
    orElseA (emit d m pc (modeStr mo)
        [hexFixU (W / 4) (x.toNat / 16 ^ (W / 4)), hexFixU (W / 4) x.toNat]) K
      = toARes (encodeIn v W m x pc (mo :: rest)) := by
  have hrel : mo ≠ .rel := by rintro rfl; simp [isAbs2] at hz
  have hzp : isZp mo = false := by cases mo <;> first | rfl | simp [isAbs2] at hz
  have hops : operandBytes W mo x pc = some [x % 2 ^ W, x / 2 ^ W] := by
    cases mo <;> first | rfl | simp [isAbs2] at hz
  have hlen : mo.len = 3 := by
    cases mo <;> first | rfl | simp [isAbs2] at hz
  subst hK
  rw [encodeIn]
  simp only [fits, hzp, if_true, Bool.false_eq_true, if_false]
  by_cases hm : m = qqq
  · subst hm
    simp only [emit_placeholder, opcodeOf_placeholder]
    rfl
  · rw [emit_nonrel h hm mo hrel]
    cases opcodeOf v m mo with
    | none => simp
    | some op =>
      simp only [hexInts_two _ _ _ h.n_pos, lo_val h x h0, hi_val h x h0 h1, hops, orElseA_some,
        finish_eq h, hlen, List.length_cons, List.length_nil]
      split_ifs <;> first | rfl | omega

/-- the `rel` template followed by the rest of the loop -/
theorem step_rel (h : DevOK d v W) (m : Str) (x pc : Int) (h0 : 0 ≤ x) (h1 : x < 2 ^ (2 * W))
    (K : ARes) (rest : List Mode) (hK : K = toARes (encodeIn v W m x pc rest)) :
    orElseA (emit d m pc ['r', 'e', 'l']
        [hexFixU (W / 4) (x.toNat / 16 ^ (W / 4)), hexFixU (W / 4) x.toNat]) K
      = toARes (encodeIn v W m x pc (.rel :: rest)) := by
  subst hK
  rw [encodeIn]
  have hfit : fits W .rel x = true := rfl
  have hx : ((x.toNat : Nat) : Int) = x := Int.toNat_of_nonneg h0
  by_cases hm : m = qqq
  · subst hm
    simp only [emit_placeholder, opcodeOf_placeholder]
    rfl
  · rw [emit_rel h hm pc x.toNat (toNat_lt_pow h x h1)]
    cases opcodeOf v m .rel with
    | none => simp
    | some op =>
      simp only [hfit, if_true, operandBytes, hx, orElseA_some, finish_eq h, List.length_cons,
        List.length_nil]
      have hlen : Mode.rel.len = 2 := rfl
      rw [hlen]
      split_ifs <;> first | rfl | omega

/-- the `imp` / `acc` templates (no operand) followed by the rest of the loop -/
theorem step_noop (h : DevOK d v W) (m : Str) (x pc : Int)
    (mo : Mode) (hz : mo = .imp ∨ mo = .acc) (K : ARes) (rest : List Mode)
    (hK : K = toARes (encodeIn v W m x pc rest)) :
    orElseA (emit d m pc (modeStr mo) []) K = toARes (encodeIn v W m x pc (mo :: rest)) := by
  have hrel : mo ≠ .rel := by rcases hz with rfl | rfl <;> decide
  have hzp : isZp mo = false := by rcases hz with rfl | rfl <;> rfl
  have hops : operandBytes W mo x pc = some [] := by rcases hz with rfl | rfl <;> rfl
  have hlen : mo.len = 1 := by rcases hz with rfl | rfl <;> rfl
  subst hK
  rw [encodeIn]
  simp only [fits, hzp, if_true, Bool.false_eq_true, if_false]
  by_cases hm : m = qqq
  · subst hm
    simp only [emit_placeholder, opcodeOf_placeholder]
    rfl
  · rw [emit_nonrel h hm mo hrel]
    cases opcodeOf v m mo with
    | none => simp
    | some op =>
      simp only [hexInts_nil, hops, orElseA_some, finish_eq h, hlen, List.length_cons, List.length_nil]
      split_ifs <;> first | rfl | omega

/-- the `imm` template followed by the rest of the loop -/
theorem step_imm (h : DevOK d v W) (m : Str) (x pc : Int) (h0 : 0 ≤ x) (h1 : x < 2 ^ W)
    (K : ARes) (rest : List Mode) (hK : K = toARes (encodeIn v W m x pc rest)) :
    orElseA (emit d m pc ['i', 'm', 'm'] [hexFixU (W / 4) x.toNat]) K
      = toARes (encodeIn v W m x pc (.imm :: rest)) := by
  subst hK
  rw [encodeIn]
  have hfit : fits W .imm x = true := rfl
  have hmod : x % 2 ^ W = x := Int.emod_eq_of_lt h0 h1
  by_cases hm : m = qqq
  · subst hm
    simp only [emit_placeholder, opcodeOf_placeholder]
    rfl
  · have e := emit_nonrel h hm .imm (by decide) pc [hexFixU (W / 4) x.toNat]
    have hms : modeStr .imm = ['i', 'm', 'm'] := rfl
    rw [hms] at e
    rw [e]
    cases opcodeOf v m .imm with
    | none => simp
    | some op =>
      simp only [hfit, if_true, operandBytes, hexInts_one _ _ h.n_pos, lo_val h x h0, hmod,
        orElseA_some, finish_eq h, List.length_cons, List.length_nil]
      have hlen : Mode.imm.len = 2 := rfl
      rw [hlen]
      split_ifs <;> first | rfl | omega


/-! ### `asm_core`, shape by shape -/

/-- evaluate the sixteen templates on a canonical address text -/
macro "eval_templates" hH:ident hL:ident hHh:ident hLh:ident : tactic =>
  `(tactic| (
    simp only [backend, compiled_eq, tryModes_cons, tryModes_nil, matchItems_lit_cons,
      matchItems_lit_nil, matchItems_zeros_append _ _ _ _ $hH, matchItems_hex_append _ _ _ _ $hH $hHh,
      matchItems_hex_append _ _ _ _ $hL $hLh, matchItems_hex_end _ _ _ $hL $hLh, matchItems_nil]
    simp))

theorem upper_comma : upper ',' = ',' := by decide
theorem upper_X : upper 'X' = 'X' := by decide
theorem upper_Y : upper 'Y' = 'Y' := by decide
theorem upper_lp : upper '(' = '(' := by decide
theorem upper_rp : upper ')' = ')' := by decide

/-- the common opening of the address shapes: range check, canonical text -/
macro "open_addr" h:ident x:ident hr:ident hr':ident : tactic =>
  `(tactic| (
    unfold assembleVal encode
    simp only [Shape.inRange, DevOK.aw $h]
    by_cases $hr:ident : $x < 0 ∨ $x > 2 ^ (2 * W) - 1
    · have : ¬ (0 ≤ $x ∧ $x < 2 ^ (2 * W)) := by omega
      simp [$hr:ident, this, toARes]
    have $hr':ident : 0 ≤ $x ∧ $x < 2 ^ (2 * W) := by omega
    obtain ⟨t, ht, hu⟩ := addrText_canon $h $x (And.left $hr') (And.right $hr')
    simp only [$hr:ident, $hr':ident, if_false, ht, ofTRes, leadOf, afterOf, List.nil_append,
      List.append_nil, List.cons_append, upperS_append, upperS_cons, upperS_nil, hu, Shape.modes,
      and_self, decide_true, if_true, upper_comma, upper_X, upper_Y, upper_lp, upper_rp,
      List.append_assoc]))

theorem core_dir (h : DevOK d v W) (m : Str) (x pc : Int) :
    assembleVal d m .dir x pc = toARes (encode v W ⟨m, .dir, x⟩ pc) := by
  open_addr h x hr hr'
  have hH : (hexFixU (W / 4) (x.toNat / 16 ^ (W / 4))).length = d.numchars := by
    rw [h.numchars]; simp
  have hL : (hexFixU (W / 4) x.toNat).length = d.numchars := by rw [h.numchars]; simp
  have hHh := hexFixU_hexUpper (W / 4) (x.toNat / 16 ^ (W / 4))
  have hLh := hexFixU_hexUpper (W / 4) x.toNat
  eval_templates hH hL hHh hLh
  exact step_zp h m x pc hr'.1 hr'.2 .zpg rfl _ _
    (step_abs h m x pc hr'.1 hr'.2 .abs rfl _ _ (step_rel h m x pc hr'.1 hr'.2 _ _ rfl))

theorem core_dirX (h : DevOK d v W) (m : Str) (x pc : Int) :
    assembleVal d m .dirX x pc = toARes (encode v W ⟨m, .dirX, x⟩ pc) := by
  open_addr h x hr hr'
  have hH : (hexFixU (W / 4) (x.toNat / 16 ^ (W / 4))).length = d.numchars := by
    rw [h.numchars]; simp
  have hL : (hexFixU (W / 4) x.toNat).length = d.numchars := by rw [h.numchars]; simp
  have hHh := hexFixU_hexUpper (W / 4) (x.toNat / 16 ^ (W / 4))
  have hLh := hexFixU_hexUpper (W / 4) x.toNat
  eval_templates hH hL hHh hLh
  exact step_zp h m x pc hr'.1 hr'.2 .zpx rfl _ _ (step_abs h m x pc hr'.1 hr'.2 .abx rfl _ _ rfl)

theorem core_dirY (h : DevOK d v W) (m : Str) (x pc : Int) :
    assembleVal d m .dirY x pc = toARes (encode v W ⟨m, .dirY, x⟩ pc) := by
  open_addr h x hr hr'
  have hH : (hexFixU (W / 4) (x.toNat / 16 ^ (W / 4))).length = d.numchars := by
    rw [h.numchars]; simp
  have hL : (hexFixU (W / 4) x.toNat).length = d.numchars := by rw [h.numchars]; simp
  have hHh := hexFixU_hexUpper (W / 4) (x.toNat / 16 ^ (W / 4))
  have hLh := hexFixU_hexUpper (W / 4) x.toNat
  eval_templates hH hL hHh hLh
  exact step_zp h m x pc hr'.1 hr'.2 .zpy rfl _ _ (step_abs h m x pc hr'.1 hr'.2 .aby rfl _ _ rfl)

theorem core_ind (h : DevOK d v W) (m : Str) (x pc : Int) :
    assembleVal d m .ind x pc = toARes (encode v W ⟨m, .ind, x⟩ pc) := by
  open_addr h x hr hr'
  have hH : (hexFixU (W / 4) (x.toNat / 16 ^ (W / 4))).length = d.numchars := by
    rw [h.numchars]; simp
  have hL : (hexFixU (W / 4) x.toNat).length = d.numchars := by rw [h.numchars]; simp
  have hHh := hexFixU_hexUpper (W / 4) (x.toNat / 16 ^ (W / 4))
  have hLh := hexFixU_hexUpper (W / 4) x.toNat
  eval_templates hH hL hHh hLh
  exact step_zp h m x pc hr'.1 hr'.2 .zpi rfl _ _ (step_abs h m x pc hr'.1 hr'.2 .ind rfl _ _ rfl)

theorem core_indX (h : DevOK d v W) (m : Str) (x pc : Int) :
    assembleVal d m .indX x pc = toARes (encode v W ⟨m, .indX, x⟩ pc) := by
  open_addr h x hr hr'
  have hH : (hexFixU (W / 4) (x.toNat / 16 ^ (W / 4))).length = d.numchars := by
    rw [h.numchars]; simp
  have hL : (hexFixU (W / 4) x.toNat).length = d.numchars := by rw [h.numchars]; simp
  have hHh := hexFixU_hexUpper (W / 4) (x.toNat / 16 ^ (W / 4))
  have hLh := hexFixU_hexUpper (W / 4) x.toNat
  eval_templates hH hL hHh hLh
  exact step_zp h m x pc hr'.1 hr'.2 .inx rfl _ _ (step_abs h m x pc hr'.1 hr'.2 .iax rfl _ _ rfl)

theorem core_indY (h : DevOK d v W) (m : Str) (x pc : Int) :
    assembleVal d m .indY x pc = toARes (encode v W ⟨m, .indY, x⟩ pc) := by
  open_addr h x hr hr'
  have hH : (hexFixU (W / 4) (x.toNat / 16 ^ (W / 4))).length = d.numchars := by
    rw [h.numchars]; simp
  have hL : (hexFixU (W / 4) x.toNat).length = d.numchars := by rw [h.numchars]; simp
  have hHh := hexFixU_hexUpper (W / 4) (x.toNat / 16 ^ (W / 4))
  have hLh := hexFixU_hexUpper (W / 4) x.toNat
  eval_templates hH hL hHh hLh
  exact step_zp h m x pc hr'.1 hr'.2 .iny rfl _ _ rfl

theorem core_none (h : DevOK d v W) (m : Str) (x pc : Int) :
    assembleVal d m .none x pc = toARes (encode v W ⟨m, .none, x⟩ pc) := by
  unfold assembleVal encode
  simp only [Shape.inRange, if_true, Shape.modes]
  simp only [backend, compiled_eq, tryModes_cons, tryModes_nil, matchItems_lit_nil, matchItems_nil]
  simp
  exact step_noop h m x pc .imp (Or.inl rfl) _ _ (step_noop h m x pc .acc (Or.inr rfl) _ _ rfl)

theorem core_acc (h : DevOK d v W) (m : Str) (x pc : Int) :
    assembleVal d m .acc x pc = toARes (encode v W ⟨m, .acc, x⟩ pc) := by
  unfold assembleVal encode
  simp only [Shape.inRange, if_true, Shape.modes]
  simp only [backend, compiled_eq, tryModes_cons, tryModes_nil, matchItems_lit_nil, matchItems_nil,
    matchItems_lit_cons]
  simp
  exact step_noop h m x pc .acc (Or.inr rfl) _ _ rfl

theorem core_imm (h : DevOK d v W) (m : Str) (x pc : Int) :
    assembleVal d m .imm x pc = toARes (encode v W ⟨m, .imm, x⟩ pc) := by
  unfold assembleVal encode
  simp only [Shape.inRange]
  by_cases hr : 0 ≤ x ∧ x < 2 ^ W
  · obtain ⟨t, ht, hu⟩ := immText_canon h x hr.1 hr.2
    simp only [hr, and_self, decide_true, if_true, ht, ofTRes, hu, Shape.modes]
    have hL : (hexFixU (W / 4) x.toNat).length = d.numchars := by rw [h.numchars]; simp
    have hLh := hexFixU_hexUpper (W / 4) x.toNat
    simp only [backend, compiled_eq, tryModes_cons, tryModes_nil, matchItems_lit_cons,
      matchItems_lit_nil, matchItems_hex_end _ _ _ hL hLh, matchItems_nil]
    simp
    exact step_imm h m x pc hr.1 hr.2 _ _ rfl
  · simp only [immText_out h x hr, ofTRes, hr, decide_false, Bool.false_eq_true, if_false, toARes]

/-- The back end on canonical operand text is the documented encoding or the right refusal. -/
theorem asm_core_gen (h : DevOK d v W) (m : Str) (sh : Shape) (x pc : Int) :
    assembleVal d m sh x pc = toARes (encode v W ⟨m, sh, x⟩ pc) := by
  cases sh
  · exact core_none h m x pc
  · exact core_acc h m x pc
  · exact core_imm h m x pc
  · exact core_dir h m x pc
  · exact core_dirX h m x pc
  · exact core_dirY h m x pc
  · exact core_ind h m x pc
  · exact core_indX h m x pc
  · exact core_indY h m x pc

end backend

/-! ## Part F: soundness of the back end (inversion of template matching) -/

section sound
variable {d : Dev} {v : Py65.Spec.Variant} {W : Nat}

theorem hexUpper_char (c : Char) (h : isHexUpper c = true) : ∃ k, k < 16 ∧ c = upper (digitChar k) := by
  have hc : c = Char.ofNat c.toNat := (Char.ofNat_toNat c).symm
  simp only [isHexUpper, isDigit, Bool.or_eq_true, Bool.and_eq_true, decide_eq_true_eq] at h
  have : c.toNat = 48 ∨ c.toNat = 49 ∨ c.toNat = 50 ∨ c.toNat = 51 ∨ c.toNat = 52 ∨ c.toNat = 53 ∨
      c.toNat = 54 ∨ c.toNat = 55 ∨ c.toNat = 56 ∨ c.toNat = 57 ∨ c.toNat = 65 ∨ c.toNat = 66 ∨
      c.toNat = 67 ∨ c.toNat = 68 ∨ c.toNat = 69 ∨ c.toNat = 70 := by omega
  rcases this with e | e | e | e | e | e | e | e | e | e | e | e | e | e | e | e <;> rw [hc, e]
  · exact ⟨0, by decide, by decide⟩
  · exact ⟨1, by decide, by decide⟩
  · exact ⟨2, by decide, by decide⟩
  · exact ⟨3, by decide, by decide⟩
  · exact ⟨4, by decide, by decide⟩
  · exact ⟨5, by decide, by decide⟩
  · exact ⟨6, by decide, by decide⟩
  · exact ⟨7, by decide, by decide⟩
  · exact ⟨8, by decide, by decide⟩
  · exact ⟨9, by decide, by decide⟩
  · exact ⟨10, by decide, by decide⟩
  · exact ⟨11, by decide, by decide⟩
  · exact ⟨12, by decide, by decide⟩
  · exact ⟨13, by decide, by decide⟩
  · exact ⟨14, by decide, by decide⟩
  · exact ⟨15, by decide, by decide⟩

/-- every group `[0-9A-F]{n}` is the fixed-width upper-case rendering of its value -/
theorem hexUpper_repr (n : Nat) (g : Str) (hl : g.length = n) (hh : g.all isHexUpper = true) :
    ∃ a, a < 16 ^ n ∧ g = hexFixU n a := by
  induction n generalizing g with
  | zero =>
    have : g = [] := List.length_eq_zero_iff.mp hl
    exact ⟨0, by decide, by rw [this]; rfl⟩
  | succ n ih =>
    have hne : g ≠ [] := by intro e; rw [e] at hl; cases hl
    have hsplit := List.dropLast_concat_getLast hne
    have hl' : g.dropLast.length = n := by simp [hl]
    have hall : ∀ c ∈ g, isHexUpper c = true := by simpa [List.all_eq_true] using hh
    have hh' : g.dropLast.all isHexUpper = true := by
      rw [List.all_eq_true]
      intro c hc
      exact hall c (List.dropLast_subset g hc)
    obtain ⟨a', ha', hg'⟩ := ih g.dropLast hl' hh'
    obtain ⟨k, hk, hck⟩ := hexUpper_char (g.getLast hne) (hall _ (List.getLast_mem hne))
    refine ⟨a' * 16 + k, ?_, ?_⟩
    · rw [Nat.pow_succ]; omega
    · rw [hexFixU_succ]
      have e1 : (a' * 16 + k) / 16 = a' := by omega
      have e2 : (a' * 16 + k) % 16 = k := by omega
      rw [e1, e2, ← hg', ← hck, hsplit]

theorem zeros_repr (n : Nat) : List.replicate n '0' = hexFixU n 0 := by
  unfold hexFixU
  rw [hexFix_zero]
  rw [List.map_replicate]
  rfl

/-! ### inversion of template matching -/

theorem inv_nil {n : Nat} {s : Str} {gs : List Str} (h : matchItems n [] s = some gs) : s = [] ∧ gs = [] := by
  rw [matchItems_nil] at h
  split_ifs at h with hs
  exact ⟨hs, by cases h; rfl⟩

theorem inv_lit {n : Nat} {c : Char} {items : List TItem} {s : Str} {gs : List Str}
    (h : matchItems n (.lit c :: items) s = some gs) : ∃ s', s = c :: s' ∧ matchItems n items s' = some gs := by
  cases s with
  | nil => rw [matchItems_lit_nil] at h; cases h
  | cons c' s' =>
    rw [matchItems_lit_cons] at h
    split_ifs at h with hc
    exact ⟨s', by rw [hc], h⟩

theorem inv_zeros {n : Nat} {items : List TItem} {s : Str} {gs : List Str}
    (h : matchItems n (.zeros :: items) s = some gs) :
    ∃ s', s = List.replicate n '0' ++ s' ∧ matchItems n items s' = some gs := by
  rw [matchItems] at h
  split_ifs at h with hc
  refine ⟨s.drop n, ?_, h⟩
  have hz : s.take n = List.replicate n '0' := by
    rw [List.eq_replicate_iff]
    refine ⟨by rw [List.length_take]; omega, ?_⟩
    intro b hb
    have := hc.2
    rw [List.all_eq_true] at this
    simpa using this b hb
  rw [← hz, List.take_append_drop]

theorem inv_hex {n : Nat} {items : List TItem} {s : Str} {gs : List Str}
    (h : matchItems n (.hex :: items) s = some gs) :
    ∃ g s' gs', s = g ++ s' ∧ g.length = n ∧ g.all isHexUpper = true ∧
      matchItems n items s' = some gs' ∧ gs = g :: gs' := by
  rw [matchItems] at h
  split_ifs at h with hc
  cases hm : matchItems n items (s.drop n) with
  | none => rw [hm] at h; cases h
  | some gs' =>
    rw [hm] at h
    refine ⟨s.take n, s.drop n, gs', (List.take_append_drop n s).symm, ?_, hc.2, hm, ?_⟩
    · rw [List.length_take]; omega
    · cases h; rfl

/-! ### canonical operand text -/

/-- The operand text `normalize_and_split` produces for `(shape, value)`. -/
def canonText (W : Nat) (sh : Shape) (x : Int) : Str :=
  match sh with
  | .none => []
  | .acc => ['A']
  | .imm => '#' :: '$' :: hexFixU (W / 4) x.toNat
  | sh => leadOf sh ++ '$' ::
      (hexFixU (W / 4) (x.toNat / 16 ^ (W / 4)) ++ (hexFixU (W / 4) x.toNat ++ afterOf sh))

theorem assembleVal_canon (h : DevOK d v W) (m : Str) (sh : Shape) (x pc : Int)
    (hin : Shape.inRange W sh x = true) :
    assembleVal d m sh x pc = backend d m (canonText W sh x) pc := by
  cases sh
  case none => rfl
  case acc => rfl
  case imm =>
    simp only [Shape.inRange, decide_eq_true_eq] at hin
    obtain ⟨t, ht, hu⟩ := immText_canon h x hin.1 hin.2
    simp only [assembleVal, ht, ofTRes, hu, canonText]
  all_goals
    simp only [Shape.inRange, decide_eq_true_eq] at hin
    obtain ⟨t, ht, hu⟩ := addrText_canon h x hin.1 hin.2
    have hr : ¬ (x < 0 ∨ x > 2 ^ (2 * W) - 1) := by omega
    simp only [assembleVal, h.aw, hr, if_false, ht, ofTRes, canonText, leadOf, afterOf, upperS_append,
      upperS_cons, upperS_nil, hu, upper_comma, upper_X, upper_Y, upper_lp, upper_rp,
      List.nil_append, List.append_nil, List.cons_append, List.append_assoc]

theorem pow16_2 (h : DevOK d v W) : (16 : Nat) ^ (W / 4) * 16 ^ (W / 4) = 2 ^ (2 * W) := by
  rcases h.hW with rfl | rfl <;> decide

/-- a zero-page operand text is the canonical text of the value of its group -/
theorem canon_zp (h : DevOK d v W) (a : Nat) (ha : a < 16 ^ (W / 4)) (sh : Shape)
    (hsh : sh ≠ .none ∧ sh ≠ .acc ∧ sh ≠ .imm) :
    Shape.inRange W sh (a : Int) = true ∧
    leadOf sh ++ '$' :: (List.replicate (W / 4) '0' ++ (hexFixU (W / 4) a ++ afterOf sh))
      = canonText W sh (a : Int) := by
  have h2 := pow16_2 h
  have hpos : 0 < 16 ^ (W / 4) := Nat.pow_pos (by decide)
  constructor
  · have : ((a : Nat) : Int) < 2 ^ (2 * W) := by
      have : a < 2 ^ (2 * W) := by
        rw [← h2]; exact Nat.lt_of_lt_of_le ha (Nat.le_mul_of_pos_left _ hpos)
      exact_mod_cast this
    cases sh <;> simp_all [Shape.inRange]
  · have e0 : a / 16 ^ (W / 4) = 0 := Nat.div_eq_of_lt ha
    cases sh
    case none => exact absurd rfl hsh.1
    case acc => exact absurd rfl hsh.2.1
    case imm => exact absurd rfl hsh.2.2
    all_goals simp only [canonText, leadOf, afterOf, Int.toNat_natCast, e0, zeros_repr]

/-- an absolute operand text is the canonical text of the value of its two groups -/
theorem canon_abs (h : DevOK d v W) (a b : Nat) (ha : a < 16 ^ (W / 4)) (hb : b < 16 ^ (W / 4)) (sh : Shape)
    (hsh : sh ≠ .none ∧ sh ≠ .acc ∧ sh ≠ .imm) :
    Shape.inRange W sh ((a * 16 ^ (W / 4) + b : Nat) : Int) = true ∧
    leadOf sh ++ '$' :: (hexFixU (W / 4) a ++ (hexFixU (W / 4) b ++ afterOf sh))
      = canonText W sh ((a * 16 ^ (W / 4) + b : Nat) : Int) := by
  have h2 := pow16_2 h
  have hpos : 0 < 16 ^ (W / 4) := Nat.pow_pos (by decide)
  constructor
  · have : a * 16 ^ (W / 4) + b < 2 ^ (2 * W) := by
      rw [← h2]
      calc a * 16 ^ (W / 4) + b < a * 16 ^ (W / 4) + 16 ^ (W / 4) := by omega
        _ = (a + 1) * 16 ^ (W / 4) := by rw [Nat.add_mul, Nat.one_mul]
        _ ≤ 16 ^ (W / 4) * 16 ^ (W / 4) := Nat.mul_le_mul_right _ ha
    have : (((a * 16 ^ (W / 4) + b : Nat)) : Int) < 2 ^ (2 * W) := by exact_mod_cast this
    have h0 : (0 : Int) ≤ ((a * 16 ^ (W / 4) + b : Nat) : Int) := Int.natCast_nonneg _
    cases sh <;> simp_all [Shape.inRange]
  · have e1 : (a * 16 ^ (W / 4) + b) / 16 ^ (W / 4) = a := by
      rw [Nat.add_comm, Nat.add_mul_div_right _ _ hpos, Nat.div_eq_of_lt hb, Nat.zero_add]
    have e2 : hexFixU (W / 4) (a * 16 ^ (W / 4) + b) = hexFixU (W / 4) b := by
      unfold hexFixU
      rw [← hexFix_mod, Nat.add_comm, Nat.add_mul_mod_self_right, Nat.mod_eq_of_lt hb]
    cases sh
    case none => exact absurd rfl hsh.1
    case acc => exact absurd rfl hsh.2.1
    case imm => exact absurd rfl hsh.2.2
    all_goals simp only [canonText, leadOf, afterOf, Int.toNat_natCast, e1, e2]

/-- A text matched by any of the sixteen templates is the canonical operand text of some
`(shape, value)` within range. -/
theorem match_canonical (h : DevOK d v W) (od : Str) (mode : Str) (items : List TItem) (gs : List Str)
    (hmem : (mode, items) ∈ compiled) (hm0 : matchItems (W / 4) items od = some gs) :
    ∃ sh x, Shape.inRange W sh x = true ∧ od = canonText W sh x := by
  have nn : (Shape.dir ≠ .none ∧ Shape.dir ≠ .acc ∧ Shape.dir ≠ .imm) := by decide
  have nx : (Shape.dirX ≠ .none ∧ Shape.dirX ≠ .acc ∧ Shape.dirX ≠ .imm) := by decide
  have ny : (Shape.dirY ≠ .none ∧ Shape.dirY ≠ .acc ∧ Shape.dirY ≠ .imm) := by decide
  have ni : (Shape.ind ≠ .none ∧ Shape.ind ≠ .acc ∧ Shape.ind ≠ .imm) := by decide
  have nix : (Shape.indX ≠ .none ∧ Shape.indX ≠ .acc ∧ Shape.indX ≠ .imm) := by decide
  have niy : (Shape.indY ≠ .none ∧ Shape.indY ≠ .acc ∧ Shape.indY ≠ .imm) := by decide
  rw [compiled_eq] at hmem
  simp only [List.mem_cons, Prod.mk.injEq, List.mem_nil_iff, or_false] at hmem
  rcases hmem with ⟨rfl, rfl⟩ | ⟨rfl, rfl⟩ | ⟨rfl, rfl⟩ | ⟨rfl, rfl⟩ | ⟨rfl, rfl⟩ | ⟨rfl, rfl⟩ | ⟨rfl, rfl⟩ |
    ⟨rfl, rfl⟩ | ⟨rfl, rfl⟩ | ⟨rfl, rfl⟩ | ⟨rfl, rfl⟩ | ⟨rfl, rfl⟩ | ⟨rfl, rfl⟩ | ⟨rfl, rfl⟩ | ⟨rfl, rfl⟩ | ⟨rfl, rfl⟩
  · obtain ⟨_, rfl, hm1⟩ := inv_lit hm0
    obtain ⟨_, rfl, hm2⟩ := inv_lit hm1
    obtain ⟨_, rfl, hm3⟩ := inv_zeros hm2
    obtain ⟨g0, _, _, rfl, hlg0, hhg0, hm4, _⟩ := inv_hex hm3
    obtain ⟨_, rfl, hm5⟩ := inv_lit hm4
    obtain ⟨rfl, _⟩ := inv_nil hm5
    obtain ⟨a, ha, rfl⟩ := hexUpper_repr _ g0 hlg0 hhg0
    exact ⟨.ind, a, (canon_zp h a ha .ind ni).1, (canon_zp h a ha .ind ni).2⟩
  · obtain ⟨_, rfl, hm1⟩ := inv_lit hm0
    obtain ⟨_, rfl, hm2⟩ := inv_zeros hm1
    obtain ⟨g0, _, _, rfl, hlg0, hhg0, hm3, _⟩ := inv_hex hm2
    obtain ⟨_, rfl, hm4⟩ := inv_lit hm3
    obtain ⟨_, rfl, hm5⟩ := inv_lit hm4
    obtain ⟨rfl, _⟩ := inv_nil hm5
    obtain ⟨a, ha, rfl⟩ := hexUpper_repr _ g0 hlg0 hhg0
    exact ⟨.dirX, a, (canon_zp h a ha .dirX nx).1, (canon_zp h a ha .dirX nx).2⟩
  · obtain ⟨_, rfl, hm1⟩ := inv_lit hm0
    obtain ⟨_, rfl, hm2⟩ := inv_zeros hm1
    obtain ⟨g0, _, _, rfl, hlg0, hhg0, hm3, _⟩ := inv_hex hm2
    obtain ⟨_, rfl, hm4⟩ := inv_lit hm3
    obtain ⟨_, rfl, hm5⟩ := inv_lit hm4
    obtain ⟨rfl, _⟩ := inv_nil hm5
    obtain ⟨a, ha, rfl⟩ := hexUpper_repr _ g0 hlg0 hhg0
    exact ⟨.dirY, a, (canon_zp h a ha .dirY ny).1, (canon_zp h a ha .dirY ny).2⟩
  · obtain ⟨_, rfl, hm1⟩ := inv_lit hm0
    obtain ⟨_, rfl, hm2⟩ := inv_zeros hm1
    obtain ⟨g0, _, _, rfl, hlg0, hhg0, hm3, _⟩ := inv_hex hm2
    obtain ⟨rfl, _⟩ := inv_nil hm3
    obtain ⟨a, ha, rfl⟩ := hexUpper_repr _ g0 hlg0 hhg0
    exact ⟨.dir, a, (canon_zp h a ha .dir nn).1, (canon_zp h a ha .dir nn).2⟩
  · obtain ⟨_, rfl, hm1⟩ := inv_lit hm0
    obtain ⟨_, rfl, hm2⟩ := inv_lit hm1
    obtain ⟨_, rfl, hm3⟩ := inv_zeros hm2
    obtain ⟨g0, _, _, rfl, hlg0, hhg0, hm4, _⟩ := inv_hex hm3
    obtain ⟨_, rfl, hm5⟩ := inv_lit hm4
    obtain ⟨_, rfl, hm6⟩ := inv_lit hm5
    obtain ⟨_, rfl, hm7⟩ := inv_lit hm6
    obtain ⟨rfl, _⟩ := inv_nil hm7
    obtain ⟨a, ha, rfl⟩ := hexUpper_repr _ g0 hlg0 hhg0
    exact ⟨.indX, a, (canon_zp h a ha .indX nix).1, (canon_zp h a ha .indX nix).2⟩
  · obtain ⟨_, rfl, hm1⟩ := inv_lit hm0
    obtain ⟨_, rfl, hm2⟩ := inv_lit hm1
    obtain ⟨g0, _, _, rfl, hlg0, hhg0, hm3, _⟩ := inv_hex hm2
    obtain ⟨g1, _, _, rfl, hlg1, hhg1, hm4, _⟩ := inv_hex hm3
    obtain ⟨_, rfl, hm5⟩ := inv_lit hm4
    obtain ⟨_, rfl, hm6⟩ := inv_lit hm5
    obtain ⟨_, rfl, hm7⟩ := inv_lit hm6
    obtain ⟨rfl, _⟩ := inv_nil hm7
    obtain ⟨a, ha, rfl⟩ := hexUpper_repr _ g0 hlg0 hhg0
    obtain ⟨b, hb, rfl⟩ := hexUpper_repr _ g1 hlg1 hhg1
    exact ⟨.indX, _, (canon_abs h a b ha hb .indX nix).1, (canon_abs h a b ha hb .indX nix).2⟩
  · obtain ⟨_, rfl, hm1⟩ := inv_lit hm0
    obtain ⟨_, rfl, hm2⟩ := inv_lit hm1
    obtain ⟨_, rfl, hm3⟩ := inv_zeros hm2
    obtain ⟨g0, _, _, rfl, hlg0, hhg0, hm4, _⟩ := inv_hex hm3
    obtain ⟨_, rfl, hm5⟩ := inv_lit hm4
    obtain ⟨_, rfl, hm6⟩ := inv_lit hm5
    obtain ⟨_, rfl, hm7⟩ := inv_lit hm6
    obtain ⟨rfl, _⟩ := inv_nil hm7
    obtain ⟨a, ha, rfl⟩ := hexUpper_repr _ g0 hlg0 hhg0
    exact ⟨.indY, a, (canon_zp h a ha .indY niy).1, (canon_zp h a ha .indY niy).2⟩
  · obtain ⟨_, rfl, hm1⟩ := inv_lit hm0
    obtain ⟨_, rfl, hm2⟩ := inv_lit hm1
    obtain ⟨g0, _, _, rfl, hlg0, hhg0, hm3, _⟩ := inv_hex hm2
    obtain ⟨g1, _, _, rfl, hlg1, hhg1, hm4, _⟩ := inv_hex hm3
    obtain ⟨_, rfl, hm5⟩ := inv_lit hm4
    obtain ⟨rfl, _⟩ := inv_nil hm5
    obtain ⟨a, ha, rfl⟩ := hexUpper_repr _ g0 hlg0 hhg0
    obtain ⟨b, hb, rfl⟩ := hexUpper_repr _ g1 hlg1 hhg1
    exact ⟨.ind, _, (canon_abs h a b ha hb .ind ni).1, (canon_abs h a b ha hb .ind ni).2⟩
  · obtain ⟨_, rfl, hm1⟩ := inv_lit hm0
    obtain ⟨g0, _, _, rfl, hlg0, hhg0, hm2, _⟩ := inv_hex hm1
    obtain ⟨g1, _, _, rfl, hlg1, hhg1, hm3, _⟩ := inv_hex hm2
    obtain ⟨_, rfl, hm4⟩ := inv_lit hm3
    obtain ⟨_, rfl, hm5⟩ := inv_lit hm4
    obtain ⟨rfl, _⟩ := inv_nil hm5
    obtain ⟨a, ha, rfl⟩ := hexUpper_repr _ g0 hlg0 hhg0
    obtain ⟨b, hb, rfl⟩ := hexUpper_repr _ g1 hlg1 hhg1
    exact ⟨.dirX, _, (canon_abs h a b ha hb .dirX nx).1, (canon_abs h a b ha hb .dirX nx).2⟩
  · obtain ⟨_, rfl, hm1⟩ := inv_lit hm0
    obtain ⟨g0, _, _, rfl, hlg0, hhg0, hm2, _⟩ := inv_hex hm1
    obtain ⟨g1, _, _, rfl, hlg1, hhg1, hm3, _⟩ := inv_hex hm2
    obtain ⟨_, rfl, hm4⟩ := inv_lit hm3
    obtain ⟨_, rfl, hm5⟩ := inv_lit hm4
    obtain ⟨rfl, _⟩ := inv_nil hm5
    obtain ⟨a, ha, rfl⟩ := hexUpper_repr _ g0 hlg0 hhg0
    obtain ⟨b, hb, rfl⟩ := hexUpper_repr _ g1 hlg1 hhg1
    exact ⟨.dirY, _, (canon_abs h a b ha hb .dirY ny).1, (canon_abs h a b ha hb .dirY ny).2⟩
  · obtain ⟨_, rfl, hm1⟩ := inv_lit hm0
    obtain ⟨g0, _, _, rfl, hlg0, hhg0, hm2, _⟩ := inv_hex hm1
    obtain ⟨g1, _, _, rfl, hlg1, hhg1, hm3, _⟩ := inv_hex hm2
    obtain ⟨rfl, _⟩ := inv_nil hm3
    obtain ⟨a, ha, rfl⟩ := hexUpper_repr _ g0 hlg0 hhg0
    obtain ⟨b, hb, rfl⟩ := hexUpper_repr _ g1 hlg1 hhg1
    exact ⟨.dir, _, (canon_abs h a b ha hb .dir nn).1, (canon_abs h a b ha hb .dir nn).2⟩
  · obtain ⟨_, rfl, hm1⟩ := inv_lit hm0
    obtain ⟨g0, _, _, rfl, hlg0, hhg0, hm2, _⟩ := inv_hex hm1
    obtain ⟨g1, _, _, rfl, hlg1, hhg1, hm3, _⟩ := inv_hex hm2
    obtain ⟨rfl, _⟩ := inv_nil hm3
    obtain ⟨a, ha, rfl⟩ := hexUpper_repr _ g0 hlg0 hhg0
    obtain ⟨b, hb, rfl⟩ := hexUpper_repr _ g1 hlg1 hhg1
    exact ⟨.dir, _, (canon_abs h a b ha hb .dir nn).1, (canon_abs h a b ha hb .dir nn).2⟩
  · obtain ⟨rfl, _⟩ := inv_nil hm0
    exact ⟨.none, 0, rfl, rfl⟩
  · obtain ⟨rfl, _⟩ := inv_nil hm0
    exact ⟨.none, 0, rfl, rfl⟩
  · obtain ⟨_, rfl, hm1⟩ := inv_lit hm0
    obtain ⟨rfl, _⟩ := inv_nil hm1
    exact ⟨.acc, 0, rfl, rfl⟩
  · obtain ⟨_, rfl, hm1⟩ := inv_lit hm0
    obtain ⟨_, rfl, hm2⟩ := inv_lit hm1
    obtain ⟨g, _, _, rfl, hgl, hgh, hm3, _⟩ := inv_hex hm2
    obtain ⟨rfl, _⟩ := inv_nil hm3
    obtain ⟨a, ha, rfl⟩ := hexUpper_repr _ g hgl hgh
    refine ⟨.imm, a, ?_, ?_⟩
    · have : ((a : Nat) : Int) < 2 ^ W := by
        have : a < 2 ^ W := by rw [← h.pow16]; exact ha
        exact_mod_cast this
      simp [Shape.inRange, this]
    · simp [canonText]

/-- if the loop does not fall off its end, some template matched -/
theorem tryModes_matched (oc od : Str) (pc : Int) (l : List (Str × List TItem)) (r : ARes)
    (hr : tryModes d oc od pc l = r) (hne : r ≠ .syntax) :
    ∃ mode items gs, (mode, items) ∈ l ∧ matchItems d.numchars items od = some gs := by
  induction l with
  | nil => exact absurd (by rw [← hr]; rfl) hne
  | cons p rest ih =>
    obtain ⟨mode, items⟩ := p
    rw [tryModes_cons] at hr
    cases hm : matchItems d.numchars items od with
    | some gs => exact ⟨mode, items, gs, List.mem_cons_self, hm⟩
    | none =>
      rw [hm] at hr
      simp only [andThenG_none, orElseA_none] at hr
      obtain ⟨mode', items', gs', hmem, hm'⟩ := ih hr
      exact ⟨mode', items', gs', List.mem_cons_of_mem _ hmem, hm'⟩

/-- "Never mis-assembles", back end: whatever (opcode, operand) text reaches the back end, if
bytes come back then the operand text is the canonical text of some `(shape, value)` within range
and the bytes are exactly the documented encoding of `(opcode, shape, value)` at `pc`. -/
theorem backend_sound (h : DevOK d v W) (oc od : Str) (pc : Int) (bs : List Int)
    (hb : backend d oc od pc = .ok bs) :
    ∃ sh x, Shape.inRange W sh x = true ∧ od = canonText W sh x ∧ encode v W ⟨oc, sh, x⟩ pc = .ok bs := by
  obtain ⟨mode, items, gs, hmem, hm⟩ := tryModes_matched oc od pc compiled _ hb (by simp)
  rw [h.numchars] at hm
  obtain ⟨sh, x, hin, rfl⟩ := match_canonical h od mode items gs hmem hm
  refine ⟨sh, x, hin, rfl, ?_⟩
  rw [← assembleVal_canon h oc sh x pc hin, asm_core_gen h] at hb
  cases he : encode v W ⟨oc, sh, x⟩ pc with
  | ok bs' => rw [he] at hb; simp only [toARes] at hb; cases hb; rfl
  | refuse r => rw [he] at hb; cases r <;> simp [toARes] at hb


end sound

/-! ## Part E: the disassembler under the device hypotheses -/

section disasm
variable {d : Dev} {v : Py65.Spec.Variant} {W : Nat}
open Py65.Spec (decode)
open Py65.Spec.Asm (mnText)

theorem table_get (h : DevOK d v W) (n : Nat) (hn : n < 256) :
    d.table[n]? = some (render (decode v (n : Int))) := by
  rw [h.table]
  unfold specRows
  rw [List.getElem?_map, List.getElem?_range hn]
  rfl

/-- the operand text the disassembler prints: `label_for(value, '$' + fmt % value)` -/
def shown (P : Parser) (k : Nat) (value : Int) : Str :=
  match labelFor P value with
  | some l => l
  | none => '$' :: fmtHexL k value.toNat

theorem labelOr_byte (h : DevOK d v W) (P : Parser) (a : Int) :
    labelOr P d.byteFmt a = some (shown P (W / 4) a) := by
  unfold labelOr shown
  cases labelFor P a <;> simp [h.bfmt]

theorem labelOr_addr (h : DevOK d v W) (P : Parser) (a : Int) :
    labelOr P d.addrFmt a = some (shown P (W / 2) a) := by
  unfold labelOr shown
  cases labelFor P a <;> simp [h.afmt]

/-- The text and length the disassembler produces for a decoded instruction with operand cell
`b1` and operand word `w` at `pc`. -/
def disText (d : Dev) (P : Parser) (W : Nat) (mn : Str) (mo : Mode) (pc b1 w : Int) : Str :=
  match mo with
  | .imp => mn
  | .acc => mn ++ [' ', 'A']
  | .imm => mn ++ ' ' :: '#' :: '$' :: fmtHexL (W / 4) b1.toNat
  | .zpg => mn ++ ' ' :: shown P (W / 4) b1
  | .zpx => mn ++ ' ' :: (shown P (W / 4) b1 ++ [',', 'X'])
  | .zpy => mn ++ ' ' :: (shown P (W / 4) b1 ++ [',', 'Y'])
  | .abs => mn ++ ' ' :: shown P (W / 2) w
  | .abx => mn ++ ' ' :: (shown P (W / 2) w ++ [',', 'X'])
  | .aby => mn ++ ' ' :: (shown P (W / 2) w ++ [',', 'Y'])
  | .ind => mn ++ ' ' :: '(' :: (shown P (W / 2) w ++ [')'])
  | .inx => mn ++ ' ' :: '(' :: (shown P (W / 4) b1 ++ [',', 'X', ')'])
  | .iny => mn ++ ' ' :: '(' :: (shown P (W / 4) b1 ++ [')', ',', 'Y'])
  | .rel => mn ++ ' ' :: shown P (W / 2) (relTarget d pc b1)
  | .zpi => mn ++ ' ' :: '(' :: (shown P (W / 4) b1 ++ [')'])
  | .iax => mn ++ ' ' :: '(' :: (shown P (W / 2) w ++ [',', 'X', ')'])

theorem dis_spec (h : DevOK d v W) (P : Parser) (mem : Int → Int) (pc : Int)
    (hop : 0 ≤ byteAt d mem pc ∧ byteAt d mem pc < 256) :
    instructionAt d P mem pc =
      match decode v (byteAt d mem pc) with
      | none => .ok 1 qqq
      | some (mn, mo) =>
        .ok mo.len.toNat (disText d P W (mnText mn) mo pc (byteAt d mem (pc + 1)) (wordAt d mem (pc + 1))) := by
  have hlen : d.table.length = 256 := by rw [h.table, specRows_length]
  have hn : (byteAt d mem pc).toNat < 256 := by omega
  have hcast : (((byteAt d mem pc).toNat : Nat) : Int) = byteAt d mem pc := Int.toNat_of_nonneg hop.1
  unfold instructionAt
  simp only [hlen]
  rw [if_neg (by simp; omega), table_get h _ hn, hcast]
  cases hdec : decode v (byteAt d mem pc) with
  | none => simp [render, sp]
  | some r =>
    obtain ⟨mn, mo⟩ := r
    simp only [render, labelOr_byte h, labelOr_addr h, h.bfmt]
    cases mo <;> simp [modeStr, Py65.Spec.Mode.name, sp, disText, Py65.Spec.Mode.len]


end disasm

end Py65.Proofs.Asm
