/-
The model GENERATED from `py65/utils/addressing.py` (`Py65.Gen.AddrParserGen`, written by
`harness/py2lean_addr.py` on every run) equals the hand model `Py65.Model.AddrParser`, for ALL
arguments.  These are the proof obligations a change of the source breaks.

Representation:
  * a generated object `Self` (fields = the instance attributes `radix`, `_maxwidth`, `_maxaddr`,
    `labels`) corresponds to the hand model's `Parser` by `toParser`; the attribute `_maxaddr`,
    which the hand model does not store, is pinned by the invariant `MaxaddrInv`
    (`_maxaddr = 2 ^ _maxwidth - 1`), which `_set_maxwidth` -- the only writer -- establishes;
  * a generated result `M α = Except Exc α` corresponds to `Res` / `RRes` by `toRes` / `toRRes`:
    `KeyError ↦ key`, `OverflowError ↦ overflow`, anything else (`ValueError`, `RecursionError`)
    `↦ other` -- so `num_errors` (the model never yields `other`) says that the generated function
    raises nothing but `KeyError` / `OverflowError`.

Nothing outside this file and `Py65/Props/C15g.lean` imports the generated module.
-/
import Py65.Gen.AddrParserGen
import Py65.Proofs.NumLemmas

namespace Py65.Proofs.AddrParserRep
open Py65.Model Py65.Model.PyStr Py65.Model.AddrParser Py65.Model.PyRt Py65.Proofs.Num
open Py65.Gen
open Py65.Gen.AddrParserGen (Self)

/-! ### representation maps (definitions only; the theorems are in `Py65.Proofs.AddrParserGenEq`) -/

/-- The hand model's parser record of a generated object. -/
def toParser (self : Self) : Parser :=
  { width := self._maxwidth, radix := self.radix, labels := self.labels }

/-- The generated object of a hand-model parser. -/
def ofParser (P : Parser) : Self :=
  { _maxaddr := (2 : Int) ^ P.width - 1, _maxwidth := P.width, labels := P.labels, radix := P.radix }

/-- `self._maxaddr` is what `_set_maxwidth` computed from `self._maxwidth`. -/
def MaxaddrInv (self : Self) : Prop := self._maxaddr = (2 : Int) ^ self._maxwidth - 1

/-- Outcome of a generated `number` / `_constrain` as the hand model's `Res`. -/
def toRes : M Int → Res
  | .ok n => .ok n
  | .error .keyError => .key
  | .error .overflowError => .overflow
  | .error _ => .other

/-- Outcome of a generated `range` as the hand model's `RRes`. -/
def toRRes : M (Int × Int) → RRes
  | .ok (a, b) => .ok a b
  | .error .keyError => .key
  | .error .overflowError => .overflow
  | .error _ => .other

/-- Outcome of the generated constructor as the hand model's `Option Parser`. -/
def toInit : M Self → Option Parser
  | .ok self => some (toParser self)
  | .error _ => none

/-- The label table of the generated object holds in-range values only (`Parser.WF`). -/
def WF (self : Self) : Prop := (toParser self).WF

def S16 : Self := ofParser P16
def S24 : Self := ofParser P24
def S32 : Self := ofParser P32

end Py65.Proofs.AddrParserRep

namespace Py65.Proofs.AddrParserGenEq
open Py65.Model Py65.Model.PyStr Py65.Model.AddrParser Py65.Model.PyRt Py65.Proofs.Num
open Py65.Gen
open Py65.Gen.AddrParserGen (Self)
open Py65.Proofs.AddrParserRep

/-! ### representation maps: basic facts -/

theorem toParser_ofParser (P : Parser) : toParser (ofParser P) = P := rfl
theorem inv_ofParser (P : Parser) : MaxaddrInv (ofParser P) := rfl
theorem ofParser_toParser (self : Self) (h : MaxaddrInv self) : ofParser (toParser self) = self := by
  cases self; simp only [MaxaddrInv] at h; simp [ofParser, toParser, h]

theorem toRes_ok {x : M Int} {n : Int} : toRes x = .ok n ↔ x = .ok n := by
  rcases x with e | v
  · cases e <;> simp [toRes]
  · simp [toRes]
theorem toRes_key {x : M Int} : toRes x = .key ↔ x = .error .keyError := by
  rcases x with e | v
  · cases e <;> simp [toRes]
  · simp [toRes]
theorem toRes_overflow {x : M Int} : toRes x = .overflow ↔ x = .error .overflowError := by
  rcases x with e | v
  · cases e <;> simp [toRes]
  · simp [toRes]
/-- `toRes x ≠ other`: `x` returns or raises `KeyError` / `OverflowError`, nothing else. -/
theorem toRes_ne_other {x : M Int} :
    toRes x ≠ .other ↔ ∀ e, x = .error e → e = .keyError ∨ e = .overflowError := by
  rcases x with e | v
  · cases e <;> simp [toRes]
  · simp [toRes]
theorem toRRes_ok {x : M (Int × Int)} {a b : Int} : toRRes x = .ok a b ↔ x = .ok (a, b) := by
  rcases x with e | ⟨v, w⟩
  · cases e <;> simp [toRRes]
  · simp [toRRes]
theorem toRRes_ne_other {x : M (Int × Int)} :
    toRRes x ≠ .other ↔ ∀ e, x = .error e → e = .keyError ∨ e = .overflowError := by
  rcases x with e | ⟨v, w⟩
  · cases e <;> simp [toRRes]
  · simp [toRRes]

/-! ### `_set_maxwidth`, `_get_maxwidth` (the `maxwidth` property) -/

/-- `_set_maxwidth` stores the width and `pow(2, width) - 1`, nothing else. -/
theorem set_maxwidth_eq (self : Self) (w : Nat) :
    AddrParserGen._set_maxwidth self w = { self with _maxwidth := w, _maxaddr := (2 : Int) ^ w - 1 } := rfl

theorem set_maxwidth_toParser (self : Self) (w : Nat) :
    toParser (AddrParserGen._set_maxwidth self w) = { toParser self with width := w } := rfl

theorem set_maxwidth_inv (self : Self) (w : Nat) : MaxaddrInv (AddrParserGen._set_maxwidth self w) := rfl

theorem get_maxwidth_eq (self : Self) : AddrParserGen._get_maxwidth self = (toParser self).width := rfl

/-! ### `_constrain` -/

theorem constrain_eq (self : Self) (h : MaxaddrInv self) (a : Int) :
    toRes (AddrParserGen._constrain self a) = constrain (toParser self) a := by
  have hm : self._maxaddr = (toParser self).maxaddr := h
  unfold AddrParserGen._constrain constrain
  rw [hm]
  split <;> rfl

/-! ### `__init__` -/

/-- The default arguments of the constructor. -/
theorem init_defaults :
    AddrParserGen.__init__.default_maxwidth = 16 ∧ AddrParserGen.__init__.default_radix = 16 ∧
    AddrParserGen.__init__.default_labels = [] := ⟨rfl, rfl, rfl⟩

private theorem init_fold (w r : Nat) (ls : List (Str × Int)) :
    ∀ (self : Self), self._maxwidth = w → self.radix = r → MaxaddrInv self →
      let step := fun (self : Self) (item : Str × Int) =>
        (AddrParserGen._constrain self item.2 >>= fun t1 =>
          pure { self with labels := PyRt.dictSetItem self.labels item.1 t1 } : M Self)
      toInit (List.foldlM step self ls) =
        List.foldl (fun acc kv =>
          match acc with
          | none => none
          | some P =>
            match constrain { width := w, radix := r, labels := [] } kv.2 with
            | .ok v => some { P with labels := AddrParser.insert P.labels kv.1 v }
            | _ => none) (some (toParser self)) ls ∧
      (∀ s', List.foldlM step self ls = .ok s' → MaxaddrInv s') ∧
      (∀ e, List.foldlM step self ls = .error e → e = .overflowError) := by
  induction ls with
  | nil =>
    intro self _ _ hi
    exact ⟨rfl, fun s' hs => by cases hs; exact hi, fun e he => by cases he⟩
  | cons kv rest ih =>
    intro self hw hr hi
    intro step
    have hc := constrain_eq self hi kv.2
    have hcm : constrain { width := w, radix := r, labels := [] } kv.2 = constrain (toParser self) kv.2 := by
      simp [constrain, Parser.maxaddr, toParser, hw]
    rw [List.foldlM_cons, List.foldl_cons]
    simp only [hcm, ← hc]
    cases hk : AddrParserGen._constrain self kv.2 with
    | error e =>
      have he : e = .overflowError := by
        unfold AddrParserGen._constrain at hk
        split at hk <;> cases hk
        rfl
      subst he
      have hnone : ∀ (l : List (Str × Int)), List.foldl (fun acc kv =>
          match acc with
          | none => none
          | some P =>
            match constrain { width := w, radix := r, labels := [] } kv.2 with
            | .ok v => some { P with labels := AddrParser.insert P.labels kv.1 v }
            | _ => none) (none : Option Parser) l = none := by
        intro l; induction l with
        | nil => rfl
        | cons _ _ ih2 => rw [List.foldl_cons]; exact ih2
      refine ⟨?_, ?_, ?_⟩
      · simp only [step, hk, toRes, bind, Except.bind, toInit]
        exact (hnone rest).symm
      · intro s' hs; simp only [step, hk, bind, Except.bind] at hs; cases hs
      · intro e he; simp only [step, hk, bind, Except.bind] at he; cases he; rfl
    | ok v =>
      have := ih { self with labels := PyRt.dictSetItem self.labels kv.1 v } hw hr hi
      simp only [step, hk, toRes, bind, Except.bind, pure, Except.pure] at this ⊢
      exact this

/-- `__init__` is the hand model's `Parser.init` (`none` = the constructor raised), establishes
the invariant, and raises nothing but `OverflowError`. -/
theorem init_eq (w r : Nat) (ls : List (Str × Int)) :
    toInit (AddrParserGen.__init__ w r ls) = Parser.init w r ls ∧
    (∀ self, AddrParserGen.__init__ w r ls = .ok self → MaxaddrInv self) ∧
    (∀ e, AddrParserGen.__init__ w r ls = .error e → e = .overflowError) := by
  have h := init_fold w r ls
    { (AddrParserGen._set_maxwidth { AddrParserGen.Self.blank with radix := r } w) with labels := [] }
    rfl rfl rfl
  have hb : ∀ (x : M Self), (x >>= fun self => pure self) = x := by
    intro x; cases x <;> rfl
  unfold AddrParserGen.__init__ Parser.init
  simp only [hb]
  exact h

/-! ### `address_for`, `label_for` -/

theorem address_for_eq (self : Self) (label : Str) (dflt : Option Int) :
    AddrParserGen.address_for self label dflt =
      match addressFor (toParser self) label with
      | some a => some a
      | none => dflt := rfl

theorem address_for_defaults : AddrParserGen.address_for.default_default = none := rfl

theorem label_for_eq (self : Self) (address : Int) (dflt : Option Str) :
    AddrParserGen.label_for self address dflt =
      match labelFor (toParser self) address with
      | some l => some l
      | none => dflt := by
  unfold AddrParserGen.label_for labelFor
  simp only [toParser]
  generalize self.labels = L
  induction L with
  | nil => rfl
  | cons kv rest ih =>
    simp only [List.findSome?_cons, List.find?_cons]
    by_cases h : kv.2 = address
    · simp [h]
    · have h' : (kv.2 == address) = false := by simpa using h
      simp only [h, h', if_false]
      exact ih

theorem label_for_defaults : AddrParserGen.label_for.default_default = none := rfl

/-! ### `number` -/

private theorem startsWith_single (s : Str) (c : Char) : startsWith s [c] = startsWithChar s c := by
  cases s with
  | nil => rfl
  | cons d r => simp [startsWith, startsWithChar]

private theorem tryInt (self : Self) (h : MaxaddrInv self) (s : Str) (b : Nat) :
    toRes (PyRt.tryExcept (PyRt.int s b >>= fun t => AddrParserGen._constrain self t) Exc.valueError
      (PyRt.raise Exc.keyError)) = ofInt (toParser self) (pyIntL s b) := by
  unfold PyRt.int
  cases pyIntL s b with
  | none => rfl
  | some v =>
    have hc := constrain_eq self h v
    simp only [ofInt, ← hc, bind, Except.bind]
    unfold AddrParserGen._constrain
    by_cases hv : v < 0 ∨ v > self._maxaddr
    · simp only [hv, if_true]; rfl
    · simp only [hv, if_false]; rfl

private theorem tryExcept_ne {α : Type} (x : M α) :
    PyRt.tryExcept x Exc.valueError (PyRt.raise Exc.keyError) ≠ .error Exc.valueError := by
  unfold PyRt.tryExcept
  split
  · intro hx; cases hx
  · split
    · intro hx; cases hx
    · rename_i hne; intro hx; cases hx; exact hne rfl

/-- No `ValueError` escapes from the generated `numberF` (the whole body is inside the `try`), so
the `except ValueError` of an outer call never sees one coming from the inner `self.number(offset)`. -/
theorem numberF_ne_valueError (self : Self) :
    ∀ (fuel : Nat) (s : Str), AddrParserGen.numberF fuel self s ≠ .error Exc.valueError := by
  intro fuel s
  cases fuel with
  | zero => intro hx; cases hx
  | succ k => unfold AddrParserGen.numberF; exact tryExcept_ne _

/-- The generated `numberF` is the hand model's `numberF`, fuel by fuel. -/
theorem numberF_eq (self : Self) (h : MaxaddrInv self) :
    ∀ (fuel : Nat) (s : Str),
      toRes (AddrParserGen.numberF fuel self s) = AddrParser.numberF (toParser self) fuel s := by
  intro fuel
  induction fuel with
  | zero => intro s; rfl
  | succ k ih =>
    intro s
    rw [numberF_succ]
    unfold AddrParserGen.numberF
    simp only [startsWith_single, PyRt.sliceFrom]
    by_cases h1 : startsWithChar s '$' = true
    · simp only [h1, if_true]; exact tryInt self h _ _
    simp only [h1]
    by_cases h2 : startsWithChar s '+' = true
    · simp only [h2, if_true]; exact tryInt self h _ _
    simp only [h2]
    by_cases h3 : startsWithChar s '%' = true
    · simp only [h3, if_true]; exact tryInt self h _ _
    simp only [h3]
    have hlab : (toParser self).labels = self.labels := rfl
    have hrad : (toParser self).radix = self.radix := rfl
    simp only [hlab, hrad]
    unfold PyRt.dictIn PyRt.dictGetItem
    cases hl : lookup self.labels s with
    | some a => rfl
    | none =>
      simp only [Option.isSome_none, Bool.false_eq_true, if_false]
      unfold PyRt.reMatchLabelOffset
      cases hm : matchOffset s with
      | none => exact tryInt self h _ _
      | some g =>
        obtain ⟨label, sign, offset⟩ := g
        simp only
        cases hb : lookup self.labels label with
        | none => rfl
        | some base =>
          have hi := ih offset
          simp only [Option.isSome_some, not_true_eq_false, if_false]
          rw [← hi]
          cases hn : AddrParserGen.numberF k self offset with
          | error e =>
            cases e with
            | valueError => exact absurd hn (numberF_ne_valueError self k offset)
            | _ => rfl
          | ok off =>
            have hs : (([sign] : Str) = ['+']) ↔ sign = '+' := by simp
            have hc := constrain_eq self h (if sign = '+' then base + off else base - off)
            simp only [toRes, hs, bind, Except.bind]
            rw [← hc]
            unfold AddrParserGen._constrain
            by_cases hv : (if sign = '+' then base + off else base - off) < 0 ∨
                (if sign = '+' then base + off else base - off) > self._maxaddr
            · simp only [hv, if_true]; rfl
            · simp only [hv, if_false]; rfl

/-- `number` (fuel `recursionLimit`) is the hand model's `numberL` (fuel 2): the recursion never
goes deeper than one level. -/
theorem number_eq (self : Self) (h : MaxaddrInv self) (s : Str) :
    toRes (AddrParserGen.number self s) = numberL (toParser self) s := by
  unfold AddrParserGen.number numberL
  rw [numberF_eq self h]
  exact numberF_fuel (toParser self) (PyRt.recursionLimit - 2) s

/-! ### `range` -/

theorem range_eq (self : Self) (h : MaxaddrInv self) (s : Str) :
    toRRes (AddrParserGen.range self s) = rangeL (toParser self) s := by
  unfold AddrParserGen.range rangeL PyRt.reMatchRange
  cases hm : matchRange s with
  | some g =>
    obtain ⟨a, b⟩ := g
    simp only
    rw [← number_eq self h a]
    cases ha : AddrParserGen.number self a with
    | error e => cases e <;> rfl
    | ok x =>
      rw [← number_eq self h b]
      cases hb : AddrParserGen.number self b with
      | error e => cases e <;> rfl
      | ok y =>
        simp only [toRes, bind, Except.bind, pure, Except.pure, ordered]
        split <;> rfl
  | none =>
    simp only
    rw [← number_eq self h s]
    cases ha : AddrParserGen.number self s with
    | error e => cases e <;> rfl
    | ok x =>
      simp only [toRes, bind, Except.bind, pure, Except.pure, ordered]
      split <;> rfl

/-! ### transfer lemmas used by `Py65/Props/C15g.lean` -/

theorem toRes_inj {x y : M Int} (h : toRes x = toRes y) (hy : toRes y ≠ .other) : x = y := by
  rcases x with e | v <;> rcases y with e' | v'
  · cases e <;> cases e' <;> simp_all [toRes]
  · cases e <;> simp_all [toRes]
  · cases e' <;> simp_all [toRes]
  · simp_all [toRes]

theorem number_ok (self : Self) (h : MaxaddrInv self) {s : String} {n : Int}
    (hm : AddrParser.number (toParser self) s = .ok n) : AddrParserGen.number self s.toList = .ok n :=
  toRes_ok.mp ((number_eq self h s.toList).trans hm)

theorem number_key (self : Self) (h : MaxaddrInv self) {s : String}
    (hm : AddrParser.number (toParser self) s = .key) : AddrParserGen.number self s.toList = .error .keyError :=
  toRes_key.mp ((number_eq self h s.toList).trans hm)

theorem number_overflow (self : Self) (h : MaxaddrInv self) {s : String}
    (hm : AddrParser.number (toParser self) s = .overflow) :
    AddrParserGen.number self s.toList = .error .overflowError :=
  toRes_overflow.mp ((number_eq self h s.toList).trans hm)

theorem number_of_ok (self : Self) (h : MaxaddrInv self) {s : String} {n : Int}
    (hg : AddrParserGen.number self s.toList = .ok n) : AddrParser.number (toParser self) s = .ok n := by
  have := number_eq self h s.toList
  rw [hg] at this
  exact this.symm

theorem number_of_key (self : Self) (h : MaxaddrInv self) {s : String}
    (hg : AddrParserGen.number self s.toList = .error .keyError) : AddrParser.number (toParser self) s = .key := by
  have := number_eq self h s.toList
  rw [hg] at this
  exact this.symm

theorem number_of_overflow (self : Self) (h : MaxaddrInv self) {s : String}
    (hg : AddrParserGen.number self s.toList = .error .overflowError) :
    AddrParser.number (toParser self) s = .overflow := by
  have := number_eq self h s.toList
  rw [hg] at this
  exact this.symm

/-- A result of the hand model that is a `constrain` is the generated `_constrain`. -/
theorem number_constrain (self : Self) (h : MaxaddrInv self) {s : String} {a : Int}
    (hm : AddrParser.number (toParser self) s = constrain (toParser self) a) :
    AddrParserGen.number self s.toList = AddrParserGen._constrain self a := by
  apply toRes_inj
  · rw [number_eq self h, constrain_eq self h]; exact hm
  · rw [constrain_eq self h]; exact constrain_ne_other _ _

theorem range_some (self : Self) {s a b : Str} (hm : matchRange s = some (a, b)) :
    AddrParserGen.range self s =
      (AddrParserGen.number self a >>= fun x => AddrParserGen.number self b >>= fun y =>
        pure (min x y, max x y)) := by
  unfold AddrParserGen.range PyRt.reMatchRange
  rw [hm]
  simp only
  cases AddrParserGen.number self a with
  | error e => rfl
  | ok x =>
    cases AddrParserGen.number self b with
    | error e => rfl
    | ok y =>
      simp only [bind, Except.bind, pure, Except.pure]
      split
      · rw [Int.min_eq_right (by omega), Int.max_eq_left (by omega)]
      · rw [Int.min_eq_left (by omega), Int.max_eq_right (by omega)]

theorem range_none (self : Self) {s : Str} (hm : matchRange s = none) :
    AddrParserGen.range self s = (AddrParserGen.number self s >>= fun x => pure (x, x)) := by
  unfold AddrParserGen.range PyRt.reMatchRange
  rw [hm]
  simp only
  cases AddrParserGen.number self s with
  | error e => rfl
  | ok x => simp [bind, Except.bind, pure, Except.pure]

end Py65.Proofs.AddrParserGenEq
