/-
Tie by regeneration for C18: the definitions GENERATED from `py65/monitor.py`
(`Py65/Gen/MonIOGen.lean`: `Microprocessors`, `_get_mpu`, `_install_mpu_observers` with the closures
`putc` / `getc`, `_reset`, `do_reset`, `do_mpu`, `_parse_args`, `__init__`) are the hand model
`Py65/Model/MonIO.lean`, for all arguments.
-/
import Py65.Gen.MonIOGen
import Py65.Gen.Devices
import Py65.Proofs.MonIOLemmas

namespace Py65.Proofs.MonIOGenEq
open Py65 Py65.Model.PyStr Py65.Model.ObsMem Py65.Model.MonIO Py65.Model.MonIORt Py65.Gen.MonIOGen
open Py65.Spec.ObsMem Py65.Proofs.MonIO

/-! ### the device classes (modelled constants vs the CPU-generated configuration) -/

theorem cls_widths :
    MpuCls.mpu6502.ADDR_WIDTH = Py65.Gen.dev6502.cfg.ADDR_WIDTH ∧
    MpuCls.mpu6502.BYTE_WIDTH = Py65.Gen.dev6502.cfg.BYTE_WIDTH ∧
    MpuCls.mpu6502.addrMask = Py65.Gen.dev6502.cfg.addrMask ∧
    MpuCls.mpu6502.byteMask = Py65.Gen.dev6502.cfg.byteMask ∧
    MpuCls.mpu65c02.ADDR_WIDTH = Py65.Gen.dev65c02.cfg.ADDR_WIDTH ∧
    MpuCls.mpu65c02.BYTE_WIDTH = Py65.Gen.dev65c02.cfg.BYTE_WIDTH ∧
    MpuCls.mpu65c02.addrMask = Py65.Gen.dev65c02.cfg.addrMask ∧
    MpuCls.mpu65c02.byteMask = Py65.Gen.dev65c02.cfg.byteMask ∧
    MpuCls.mpu65org16.ADDR_WIDTH = Py65.Gen.dev65org16.cfg.ADDR_WIDTH ∧
    MpuCls.mpu65org16.BYTE_WIDTH = Py65.Gen.dev65org16.cfg.BYTE_WIDTH ∧
    MpuCls.mpu65org16.addrMask = Py65.Gen.dev65org16.cfg.addrMask ∧
    MpuCls.mpu65org16.byteMask = Py65.Gen.dev65org16.cfg.byteMask := by
  decide

/-! ### `_get_mpu` -/

/-- The generated table is the three device classes under their names. -/
theorem microprocessors_eq :
    Microprocessors = [(MpuCls.mpu6502.name, .mpu6502), (MpuCls.mpu65c02.name, .mpu65c02),
                       (MpuCls.mpu65org16.name, .mpu65org16)] := by
  decide

/-- `_get_mpu(name)` picks the FIRST class whose key equals `name` case-insensitively. -/
theorem get_mpu_spec (E : Env) (name : Str) :
    _get_mpu E name =
      if pyLower name = ['6', '5', '0', '2'] then some .mpu6502
      else if pyLower name = ['6', '5', 'c', '0', '2'] then some .mpu65c02
      else if pyLower name = ['6', '5', 'o', 'r', 'g', '1', '6'] then some .mpu65org16
      else none := by
  have h1 : pyLower "6502".toList = ['6', '5', '0', '2'] := by decide
  have h2 : pyLower "65C02".toList = ['6', '5', 'c', '0', '2'] := by decide
  have h3 : pyLower "65Org16".toList = ['6', '5', 'o', 'r', 'g', '1', '6'] := by decide
  simp only [_get_mpu, Microprocessors, _get_mpu_for1, h1, h2, h3]
  generalize pyLower name = n
  simp only [eq_comm (b := n)]

/-- `_get_mpu` = the hand model's `devAddrWidth` (which knows a class by its address width). -/
theorem get_mpu_eq (E : Env) (name : Str) :
    (_get_mpu E name).map MpuCls.ADDR_WIDTH = devAddrWidth name := by
  rw [get_mpu_spec]
  unfold devAddrWidth
  have hl : pyLower name = name.map lower := rfl
  rw [hl]
  dsimp only
  split_ifs <;> rfl

/-- Every class is found under its own name, in any capitalisation of it. -/
theorem get_mpu_own_name (E : Env) (c : MpuCls) (name : Str) (h : pyLower name = pyLower c.name) :
    _get_mpu E name = some c := by
  rw [get_mpu_spec, h]
  cases c <;> decide

/-! ### the closures `putc` / `getc` -/

/-- The hand model's view of the two streams. -/
def ioOf (σ : IoSt) : IO := { pending := σ.stdin, output := σ.stdout.written }

/-- A value the observer can print: a code point (`chr` does not raise) the stream can encode. -/
def okVal (E : Env) (v : Int) : Prop := 0 ≤ v ∧ v < 0x110000 ∧ E.enc v = true

/-- `console.getch_noblock` as modelled = the hand model's `getchByte` on the head of the queue. -/
theorem getchNoblock_eq (p : List Int) :
    getchNoblock p = ((match p with | [] => [] | b :: _ => [getchByte b]), p.tail) := by
  cases p <;> rfl

/-- GENERATED `getc(address)`: always ends normally, answers the hand model's `getcVal` (next pending byte,
LF as CR, or 0) and removes exactly that byte from the queue; nothing else changes. -/
theorem getc_eq (E : Env) (address : Int) (σ : IoSt) :
    _install_mpu_observers.getc E address σ =
      .ok (some (getcVal (ioOf σ))) { σ with stdin := σ.stdin.tail } := by
  unfold _install_mpu_observers.getc
  cases h : σ.stdin with
  | nil => simp [getchNoblock, getcVal, ioOf, h]
  | cons b rest => simp [getchNoblock, getcVal, ioOf, h, pyOrd, getchByte]

/-- GENERATED `putc(address, value)` for a printable value: ends normally with `None`, appends exactly
`value` to the stream, once, and has flushed it; nothing else changes. -/
theorem putc_eq (E : Env) (address value : Int) (σ : IoSt) (hv : okVal E value) :
    _install_mpu_observers.putc E address value σ =
      .ok none { σ with stdout := { written := σ.stdout.written ++ [value],
                                    flushed := σ.stdout.written.length + 1 } } := by
  obtain ⟨h0, h1, he⟩ := hv
  unfold _install_mpu_observers.putc
  simp [pyChr, h0, h1, stdoutWrite, he, stdoutFlush]

/-- ... and for a code point the stream cannot encode (the `UnicodeEncodeError` branch): `?` instead. -/
theorem putc_unencodable (E : Env) (address value : Int) (σ : IoSt) (h0 : 0 ≤ value) (h1 : value < 0x110000)
    (he : E.enc value = false) (hq : E.enc 63 = true) :
    _install_mpu_observers.putc E address value σ =
      .ok none { σ with stdout := { written := σ.stdout.written ++ [63],
                                    flushed := σ.stdout.written.length + 1 } } := by
  unfold _install_mpu_observers.putc
  simp [pyChr, h0, h1, stdoutWrite, he, hq, stdoutFlush]

/-- `chr(value)` raises for anything that is not a code point: the `ValueError` leaves the observer. -/
theorem putc_not_a_code_point (E : Env) (address value : Int) (σ : IoSt) (h : value < 0 ∨ 0x110000 ≤ value) :
    _install_mpu_observers.putc E address value σ = .raise .ValueError σ := by
  unfold _install_mpu_observers.putc
  have : ¬ (0 ≤ value ∧ value < 0x110000) := by omega
  simp [pyChr, this]

/-- The identities the translator gave the closures are the hand model's. -/
theorem call_putc (E : Env) (a v : Int) (σ : IoSt) :
    _install_mpu_observers.call E putcId a (some v) σ = _install_mpu_observers.putc E a v σ := rfl

theorem call_getc (E : Env) (a : Int) (σ : IoSt) :
    _install_mpu_observers.call E getcId a none σ = _install_mpu_observers.getc E a σ := rfl

/-! ### a device access on the monitor's memory object, through the GENERATED closures

(hand-written glue, the counterpart of `MonIO.replyOf / absorb / access / replay`: the
`ObservableMemory` model calls a callback by its identity and asks the oracle `Reply` for its answer;
here the oracle and the effect of the calls come from running the generated closures.  As in the hand
model the callbacks of ONE access are answered from the state at the beginning of the access, which is
exact because an access of this memory calls at most one callback: `mem_subscribers`.) -/

/-- What callback `cb` answers in state `σ`. -/
def replyG (E : Env) (σ : IoSt) : Reply := fun cb _ a v =>
  match _install_mpu_observers.call E cb a v σ with
  | .ok r _ => r
  | _ => none

/-- The effect of the callback calls `evs` (the call log of one access) on the monitor. -/
def absorbG (E : Env) : IoSt → List Ev → IoSt
  | σ, [] => σ
  | σ, e :: es =>
    absorbG E (match _install_mpu_observers.call E e.cb e.addr e.val σ with
               | .ok _ σ' => σ'
               | .raise _ σ' => σ'
               | .nofuel => σ) es

/-- `self._mpu.memory` replaced. -/
def setMem (σ : IoSt) (m : MemObj) : IoSt := { σ with _mpu := { σ._mpu with memory := m } }

/-- One item access of the device on `self._mpu.memory`. -/
def accessG (E : Env) (σ : IoSt) : MemEv → Option Int × IoSt
  | .r a =>
    match σ._mpu.memory with
    | .obs m =>
      let r := get (replyG E σ) { m with log := [] } a
      (some r.1, absorbG E (setMem σ (.obs { r.2 with log := [] })) r.2.log)
    | .plain cells => (some (cells a), σ)
  | .w a v =>
    match σ._mpu.memory with
    | .obs m =>
      let m' := set (replyG E σ) { m with log := [] } a v
      (none, absorbG E (setMem σ (.obs { m' with log := [] })) m'.log)
    | .plain cells => (none, setMem σ (.plain fun k => if k = a then v else cells k))

/-- Replay an access log: values read (`none` for writes), in order, and the final monitor. -/
def replayG (E : Env) : IoSt → List MemEv → List (Option Int) × IoSt
  | σ, [] => ([], σ)
  | σ, e :: es =>
    let r := accessG E σ e
    let r2 := replayG E r.2 es
    (r.1 :: r2.1, r2.2)

/-- The values a program stores must be printable for `putc` to end normally. -/
def okEv (E : Env) : MemEv → Prop
  | .r _ => True
  | .w _ v => okVal E v

/-- A reply that is never asked (subscriptions do not call anybody). -/
def r0 : Reply := fun _ _ _ _ => none

/-- The memory object of a monitor whose observers are installed at `I` / `O` over cells `cells`:
`ObservableMemory(addrWidth=w)` + the two subscriptions, spelled with the hand model's `memOf`. -/
def obsMem (w I O : Int) (cells : Int → Int) : OM :=
  memOf { addrWidth := w, getcAddr := some I, putcAddr := some O, observed := true } r0 cells

theorem obsMem_def (w I O : Int) (cells : Int → Int) :
    obsMem w I O cells = subscribeRead (subscribeWrite (init w cells) [O] putcId) [I] getcId := rfl

theorem memOf_obsMem (reply : Reply) (s : Sess) (I O : Int) (cells : Int → Int) (ho : s.observed = true)
    (hI : s.getcAddr = some I) (hO : s.putcAddr = some O) :
    memOf s reply cells = obsMem s.addrWidth I O cells := by
  cases s; simp only at ho hI hO; subst ho hI hO; rfl

/-- The monitor's observers are installed at `I` / `O` and its memory object is the one
`_install_mpu_observers` builds, over some cells. -/
structure Good (σ : IoSt) (I O : Int) (cells : Int → Int) : Prop where
  hI : σ.getc_addr = some I
  hO : σ.putc_addr = some O
  hm : σ._mpu.memory = .obs (obsMem σ.addrWidth I O cells)

/-- The part of a generated monitor state the hand model's `Sess` talks about. -/
def sessOf (σ : IoSt) : Sess :=
  { addrWidth := σ.addrWidth, getcAddr := σ.getc_addr, putcAddr := σ.putc_addr, observed := σ._mpu.memory.isObs }

theorem sessOf_good {σ : IoSt} {I O : Int} {cells : Int → Int} (g : Good σ I O cells) :
    sessOf σ = { addrWidth := σ.addrWidth, getcAddr := some I, putcAddr := some O, observed := true } := by
  simp [sessOf, g.hI, g.hO, g.hm, MemObj.isObs]

/-- A load on the installed memory, for ANY oracle: at most the one callback `getc` is called. -/
theorem get_obsMem (reply : Reply) (w I O : Int) (c : Int → Int) (a : Int) :
    Py65.Model.ObsMem.get reply { obsMem w I O c with log := [] } a =
      if Py.land a (maskOf w) = Py.land I (maskOf w) then
        ((match reply getcId 0 (Py.land a (maskOf w)) none with
          | some v => v
          | none => c (Py.land a (maskOf w))),
         { obsMem w I O c with log := [⟨getcId, Py.land a (maskOf w), none⟩] })
      else (c (Py.land a (maskOf w)), obsMem w I O c) := by
  simp only [obsMem_def, Py65.Model.ObsMem.get, subscribeRead, subscribeWrite, init, List.foldl, subOne,
    List.not_mem_nil, if_false, List.nil_append, maskOf]
  by_cases h : Py.land a (if w > 16 then 262143 else 65535) = Py.land I (if w > 16 then 262143 else 65535)
  · simp only [h, if_true, readLoop, List.length_nil]
    cases reply getcId 0 (Py.land I (if w > 16 then 262143 else 65535)) none <;> rfl
  · simp only [h, if_false, readLoop]

/-- A store on the installed memory, for ANY oracle: at most the one callback `putc` is called. -/
theorem set_obsMem (reply : Reply) (w I O : Int) (c : Int → Int) (a v : Int) :
    Py65.Model.ObsMem.set reply { obsMem w I O c with log := [] } a v =
      if Py.land a (maskOf w) = Py.land O (maskOf w) then
        { obsMem w I O (fun k => if k = Py.land a (maskOf w) then
            (match reply putcId 0 (Py.land a (maskOf w)) (some v) with | some r => r | none => v) else c k)
          with log := [⟨putcId, Py.land a (maskOf w), some v⟩] }
      else obsMem w I O (fun k => if k = Py.land a (maskOf w) then v else c k) := by
  simp only [obsMem_def, Py65.Model.ObsMem.set, subscribeRead, subscribeWrite, init, List.foldl, subOne,
    List.not_mem_nil, if_false, List.nil_append, maskOf]
  by_cases h : Py.land a (if w > 16 then 262143 else 65535) = Py.land O (if w > 16 then 262143 else 65535)
  · simp only [h, if_true, writeLoop, List.length_nil]
    cases reply putcId 0 (Py.land O (if w > 16 then 262143 else 65535)) (some v) <;> rfl
  · simp only [h, if_false, writeLoop]
    rfl

/-- A monitor state with the memory object and the two streams blanked out. -/
def core (σ : IoSt) : IoSt :=
  { σ with stdin := [], stdout := ⟨[], 0⟩, _mpu := { σ._mpu with memory := .plain fun _ => 0 } }

/-- Everything but the device's memory object and the two streams is as before. -/
def Frame (σ σ' : IoSt) : Prop := core σ' = core σ

theorem Frame.refl (σ : IoSt) : Frame σ σ := rfl
theorem Frame.trans {a b c : IoSt} (h1 : Frame a b) (h2 : Frame b c) : Frame a c := Eq.trans h2 h1
theorem Frame.addrWidth {a b : IoSt} (h : Frame a b) : b.addrWidth = a.addrWidth :=
  show (core b).addrWidth = (core a).addrWidth from congrArg IoSt.addrWidth h
theorem Frame.getc_addr {a b : IoSt} (h : Frame a b) : b.getc_addr = a.getc_addr :=
  show (core b).getc_addr = (core a).getc_addr from congrArg IoSt.getc_addr h
theorem Frame.putc_addr {a b : IoSt} (h : Frame a b) : b.putc_addr = a.putc_addr :=
  show (core b).putc_addr = (core a).putc_addr from congrArg IoSt.putc_addr h

theorem replyG_getc (E : Env) (σ : IoSt) (i : Nat) (a : Int) :
    replyG E σ getcId i a none = some (getcVal (ioOf σ)) := by
  simp only [replyG, call_getc, getc_eq]

theorem replyG_putc (E : Env) (σ : IoSt) (i : Nat) (a v : Int) :
    replyG E σ putcId i a (some v) = none := by
  simp only [replyG, call_putc]
  unfold _install_mpu_observers.putc
  cases pyChr v with
  | none => rfl
  | some t =>
    dsimp only
    cases stdoutWrite E.enc t σ.stdout with
    | none => dsimp only; cases stdoutWrite E.enc [63] σ.stdout <;> rfl
    | some _ => rfl

/-- One access through the GENERATED closures on the memory the GENERATED `_install_mpu_observers`
builds is the hand model's `access`. -/
theorem accessG_good (E : Env) (σ : IoSt) (I O : Int) (cells : Int → Int) (g : Good σ I O cells)
    (e : MemEv) (he : okEv E e) :
    let r := accessG E σ e
    let h := access (sessOf σ) { cells := cells, io := ioOf σ } e
    r.1 = h.1 ∧ Good r.2 I O h.2.cells ∧ ioOf r.2 = h.2.io ∧ Frame σ r.2 ∧
    (σ.stdout.flushed = σ.stdout.written.length → r.2.stdout.flushed = r.2.stdout.written.length) := by
  intro r h
  have hs := sessOf_good g
  have hmem : ∀ rp, memOf { addrWidth := σ.addrWidth, getcAddr := some I, putcAddr := some O, observed := true }
      rp cells = { obsMem σ.addrWidth I O cells with log := [] } := fun _ => rfl
  cases e with
  | r a =>
    simp only [r, h, accessG, access, g.hm, hs, if_true, hmem, get_obsMem]
    by_cases hp : Py.land a (maskOf σ.addrWidth) = Py.land I (maskOf σ.addrWidth)
    · simp only [hp, if_true, replyG_getc, absorbG, call_getc, getc_eq, replyOf, absorb]
      exact ⟨trivial, ⟨g.hI, g.hO, rfl⟩, rfl, rfl, fun hf => hf⟩
    · simp only [hp, if_false]
      exact ⟨trivial, ⟨g.hI, g.hO, rfl⟩, rfl, rfl, fun hf => hf⟩
  | w a v =>
    have hv : okVal E v := he
    simp only [r, h, accessG, access, g.hm, hs, if_true, hmem, set_obsMem]
    by_cases hp : Py.land a (maskOf σ.addrWidth) = Py.land O (maskOf σ.addrWidth)
    · simp only [hp, if_true, replyG_putc, absorbG, call_putc, putc_eq _ _ _ _ hv, replyOf, absorb]
      refine ⟨trivial, ⟨g.hI, g.hO, ?_⟩, ?_, rfl, fun _ => ?_⟩
      · simp [setMem, putcId, getcId]
        rfl
      · simp [ioOf, setMem, putcId, getcId]
      · simp [setMem]
    · simp only [hp, if_false]
      exact ⟨trivial, ⟨g.hI, g.hO, rfl⟩, rfl, rfl, fun hf => hf⟩

/-- Replaying ANY access log of printable stores through the generated closures is the hand model's
`replay`. -/
theorem replayG_good (E : Env) (I O : Int) (evs : List MemEv) :
    ∀ (σ : IoSt) (cells : Int → Int), Good σ I O cells → (∀ e ∈ evs, okEv E e) →
    let r := replayG E σ evs
    let h := replay (sessOf σ) { cells := cells, io := ioOf σ } evs
    r.1 = h.1 ∧ Good r.2 I O h.2.cells ∧ ioOf r.2 = h.2.io ∧ Frame σ r.2 ∧
    (σ.stdout.flushed = σ.stdout.written.length → r.2.stdout.flushed = r.2.stdout.written.length) := by
  induction evs with
  | nil => intro σ cells g _; exact ⟨rfl, g, rfl, Frame.refl σ, fun hf => hf⟩
  | cons e es ih =>
    intro σ cells g hev
    obtain ⟨a1, a2, a3, a4, a5⟩ := accessG_good E σ I O cells g e (hev e (List.mem_cons_self ..))
    obtain ⟨b1, b2, b3, b4, b5⟩ := ih (accessG E σ e).2 _ a2 (fun x hx => hev x (List.mem_cons_of_mem _ hx))
    have hsame : sessOf (accessG E σ e).2 = sessOf σ := by
      rw [sessOf_good a2, sessOf_good g, a4.addrWidth]
    simp only [replayG, replay]
    rw [hsame, a3] at b1 b2 b3
    exact ⟨by rw [a1, b1], b2, b3, a4.trans b4, fun hf => b5 (a5 hf)⟩

/-! ### `_install_mpu_observers`, `_reset` -/

/-- The cells a new device / a new `ObservableMemory` starts from: the constructor's `memory`, or zeros. -/
def cellsOf (σ : IoSt) : Int → Int := σ.memory.getD fun _ => 0

/-- GENERATED `_install_mpu_observers`: whatever its two PARAMETERS are, the observers go to the
ATTRIBUTES `self.putc_addr` / `self.getc_addr` of a new `ObservableMemory(addrWidth=self.addrWidth)`:
the result is the hand model's `memOf` (`obsMem`), put in the device's place; nothing else changes.
With an attribute that is `None` the subscription raises `TypeError` (`None & mask`). -/
theorem install_spec (E : Env) (g p : Option Int) (σ : IoSt) :
    _install_mpu_observers E g p σ =
      match σ.putc_addr, σ.getc_addr with
      | some O, some I => .ok () (setMem σ (.obs (obsMem σ.addrWidth I O (cellsOf σ))))
      | _, _ => .raise .TypeError σ := by
  unfold _install_mpu_observers setMem
  cases σ.putc_addr <;> cases σ.getc_addr <;> rfl

theorem install_eq (E : Env) (g p : Option Int) (σ : IoSt) (I O : Int)
    (hI : σ.getc_addr = some I) (hO : σ.putc_addr = some O) :
    _install_mpu_observers E g p σ = .ok () (setMem σ (.obs (obsMem σ.addrWidth I O (cellsOf σ)))) := by
  rw [install_spec, hI, hO]

theorem install_none (E : Env) (g p : Option Int) (σ : IoSt) (h : σ.putc_addr = none ∨ σ.getc_addr = none) :
    _install_mpu_observers E g p σ = .raise .TypeError σ := by
  rw [install_spec]
  rcases h with h | h
  · rw [h]
  · rw [h]; cases σ.putc_addr <;> rfl

/-- The state after `_reset(cls, …)`, in closed form: a new device of class `cls` (fresh identity) whose
memory is the observed one iff `install`, the six width / format / mask attributes copied from it, a
new parser of that width, a new disassembler and a new assembler bound to the NEW device and the NEW
parser.  The configured addresses, the two streams and the printed lines are untouched. -/
def resetSt (cls : MpuCls) (install : Bool) (σ : IoSt) : IoSt :=
  let n := σ.nextId
  let mem : MemObj :=
    match install, σ.getc_addr, σ.putc_addr with
    | true, some I, some O => .obs (obsMem cls.ADDR_WIDTH I O (cellsOf σ))
    | _, _, _ => .plain (cellsOf σ)
  { σ with
    _mpu := { id := n, cls := cls, memory := mem },
    addrWidth := cls.ADDR_WIDTH, byteWidth := cls.BYTE_WIDTH, addrFmt := cls.ADDR_FORMAT,
    byteFmt := cls.BYTE_FORMAT, addrMask := cls.addrMask, byteMask := cls.byteMask,
    _address_parser := { id := n + 1, maxwidth := cls.ADDR_WIDTH },
    _disassembler := { id := n + 2, mpu := n, parser := n + 1 },
    _assembler := { id := n + 3, mpu := n, parser := n + 1 },
    nextId := n + 4 }

/-- GENERATED `_reset(cls, getc_addr, putc_addr)` = `resetSt`: the observers are installed exactly when
BOTH PARAMETERS are not `None` (0 is an address) -- provided the attributes are integers then, which
every caller guarantees by passing the attributes themselves. -/
theorem reset_eq (E : Env) (cls : MpuCls) (g p : Option Int) (σ : IoSt)
    (h : (g.isSome && p.isSome) = true → σ.getc_addr.isSome = true ∧ σ.putc_addr.isSome = true) :
    _reset E cls g p σ = .ok () (resetSt cls (g.isSome && p.isSome) σ) := by
  unfold _reset
  cases g with
  | none => simp [resetSt, mpuNew, parserNew, toolNew, cellsOf]
  | some gv =>
    cases p with
    | none => simp [resetSt, mpuNew, parserNew, toolNew, cellsOf]
    | some pv =>
      obtain ⟨h1, h2⟩ := h rfl
      obtain ⟨I, hI⟩ := Option.isSome_iff_exists.mp h1
      obtain ⟨O, hO⟩ := Option.isSome_iff_exists.mp h2
      simp only [ne_eq, reduceCtorEq, not_false_eq_true, and_self, if_true, install_spec, hI, hO]
      simp [resetSt, mpuNew, parserNew, toolNew, cellsOf, setMem, hI, hO]

/-- What `_reset` establishes and every modelled operation keeps: the monitor's width is the device's,
and the device's memory object is the observed one (over some cells) exactly when both configured
addresses are integers, the device's own plain list otherwise. -/
structure Inv (σ : IoSt) : Prop where
  width : σ.addrWidth = σ._mpu.cls.ADDR_WIDTH
  mem : ∃ cells, σ._mpu.memory =
    match σ.getc_addr, σ.putc_addr with
    | some I, some O => .obs (obsMem σ.addrWidth I O cells)
    | _, _ => .plain cells

/-- `both σ`: both configured addresses are integers. -/
def both (σ : IoSt) : Bool := σ.getc_addr.isSome && σ.putc_addr.isSome

theorem Inv.good {σ : IoSt} (h : Inv σ) {I O : Int} (hI : σ.getc_addr = some I) (hO : σ.putc_addr = some O) :
    ∃ cells, Good σ I O cells := by
  obtain ⟨cells, hm⟩ := h.mem
  rw [hI, hO] at hm
  exact ⟨cells, hI, hO, hm⟩

theorem Inv.observed {σ : IoSt} (h : Inv σ) : (sessOf σ).observed = both σ := by
  obtain ⟨cells, hm⟩ := h.mem
  unfold sessOf both
  cases hg : σ.getc_addr <;> cases hp : σ.putc_addr <;> simp [hg, hp] at hm ⊢ <;> rw [hm] <;> rfl

theorem inv_resetSt (cls : MpuCls) (σ : IoSt) : Inv (resetSt cls (both σ) σ) := by
  refine ⟨rfl, cellsOf σ, ?_⟩
  unfold resetSt both
  cases hg : σ.getc_addr <;> cases hp : σ.putc_addr <;> simp

/-- `_reset` on the hand model's `Sess`. -/
theorem sessOf_resetSt (cls : MpuCls) (g p : Option Int) (σ : IoSt)
    (h : (g.isSome && p.isSome) = true → σ.getc_addr.isSome = true ∧ σ.putc_addr.isSome = true) :
    sessOf (resetSt cls (g.isSome && p.isSome) σ) = resetWith (sessOf σ) cls.ADDR_WIDTH g p := by
  unfold resetSt sessOf resetWith
  cases hb : (g.isSome && p.isSome)
  · simp [MemObj.isObs]
  · obtain ⟨h1, h2⟩ := h hb
    obtain ⟨I, hI⟩ := Option.isSome_iff_exists.mp h1
    obtain ⟨O, hO⟩ := Option.isSome_iff_exists.mp h2
    simp [hI, hO, MemObj.isObs]

/-! ### `do_reset`, `do_mpu`, command sequences -/

/-- GENERATED `do_reset`: `_reset` with the class of the CURRENT device and the configured ATTRIBUTES. -/
theorem do_reset_eq (E : Env) (args : Str) (σ : IoSt) :
    do_reset E args σ = .ok () (resetSt σ._mpu.cls (both σ) σ) := by
  unfold do_reset
  simp only [reset_eq E σ._mpu.cls σ.getc_addr σ.putc_addr σ (by simp), Flow.bind_ok]
  rfl

/-- The line `available_mpus()` prints. -/
def availLine : Str := "Available MPUs: 6502, 65C02, 65Org16".toList

theorem available_mpus_eq (E : Env) (σ : IoSt) :
    do_mpu.available_mpus E σ = .ok () { σ with out := σ.out ++ [availLine] } := by
  unfold do_mpu.available_mpus
  have : "Available MPUs: ".toList ++ pyJoin ", ".toList (pySorted (pyList (pyKeys Microprocessors))) = availLine := by
    decide
  simp only [this]

/-- GENERATED `do_mpu`: without an argument it only prints; an unknown name only prints; a known name
(any capitalisation) is `_reset` with that class and the configured ATTRIBUTES, then one line. -/
theorem do_mpu_eq (E : Env) (args : Str) (σ : IoSt) :
    do_mpu E args σ =
      if args = [] then
        .ok () { σ with out := σ.out ++ ["Current MPU is ".toList ++ σ._mpu.cls.name, availLine] }
      else
        match _get_mpu E args with
        | none => .ok () { σ with out := σ.out ++ ["Unknown MPU: ".toList ++ args, availLine] }
        | some c =>
          .ok () { resetSt c (both σ) σ with out := σ.out ++ ["Reset with new MPU ".toList ++ c.name] } := by
  unfold do_mpu
  have he : "".toList = ([] : Str) := rfl
  rw [he]
  by_cases h : args = []
  · simp [h, available_mpus_eq]
  · simp only [h, if_false]
    cases hc : _get_mpu E args with
    | none => simp [available_mpus_eq]
    | some c =>
      simp only [reset_eq E c σ.getc_addr σ.putc_addr σ (by simp), Flow.bind_ok]
      rfl

/-- One `reset` / `mpu <name>` command through the GENERATED methods. -/
def applyCmdG (E : Env) (σ : IoSt) : Cmd → Flow IoSt Unit
  | .reset => do_reset E [] σ
  | .mpu name => do_mpu E name σ

/-- A sequence of them. -/
def applyCmdsG (E : Env) : IoSt → List Cmd → Flow IoSt Unit
  | σ, [] => .ok () σ
  | σ, c :: cs => (applyCmdG E σ c).bind fun _ σ => applyCmdsG E σ cs

/-- What a command leaves alone: the configured addresses, the constructor's memory argument and the
two streams. -/
def Kept (σ σ' : IoSt) : Prop :=
  σ'.getc_addr = σ.getc_addr ∧ σ'.putc_addr = σ.putc_addr ∧ σ'.memory = σ.memory ∧
  σ'.stdin = σ.stdin ∧ σ'.stdout = σ.stdout

theorem Kept.refl (σ : IoSt) : Kept σ σ := ⟨rfl, rfl, rfl, rfl, rfl⟩
theorem Kept.trans {a b c : IoSt} (h1 : Kept a b) (h2 : Kept b c) : Kept a c :=
  ⟨h2.1.trans h1.1, h2.2.1.trans h1.2.1, h2.2.2.1.trans h1.2.2.1, h2.2.2.2.1.trans h1.2.2.2.1,
   h2.2.2.2.2.trans h1.2.2.2.2⟩

theorem kept_resetSt (cls : MpuCls) (b : Bool) (σ : IoSt) : Kept σ (resetSt cls b σ) := ⟨rfl, rfl, rfl, rfl, rfl⟩

/-- One GENERATED command is the hand model's `applyCmd`; it always ends normally. -/
theorem applyCmdG_eq (E : Env) (σ : IoSt) (hi : Inv σ) (c : Cmd) :
    ∃ σ', applyCmdG E σ c = .ok () σ' ∧ Inv σ' ∧ sessOf σ' = applyCmd (sessOf σ) c ∧ Kept σ σ' := by
  have hobs := hi.observed
  have hw := hi.width
  have hreset : ∀ cls, sessOf (resetSt cls (both σ) σ) =
      resetWith (sessOf σ) cls.ADDR_WIDTH (sessOf σ).getcAddr (sessOf σ).putcAddr :=
    fun cls => sessOf_resetSt cls σ.getc_addr σ.putc_addr σ (by simp)
  cases c with
  | reset =>
    refine ⟨_, do_reset_eq E [] σ, inv_resetSt _ σ, ?_, kept_resetSt _ _ σ⟩
    rw [hreset]
    show _ = resetWith (sessOf σ) (sessOf σ).addrWidth _ _
    rw [show (sessOf σ).addrWidth = σ._mpu.cls.ADDR_WIDTH from hw]
  | mpu name =>
    simp only [applyCmdG, do_mpu_eq, applyCmd, ← get_mpu_eq E name]
    by_cases hn : name = []
    · simp only [hn, if_true]
      exact ⟨_, rfl, ⟨hi.width, hi.mem⟩, rfl, Kept.refl σ⟩
    · simp only [hn, if_false]
      cases hc : _get_mpu E name with
      | none => exact ⟨_, rfl, ⟨hi.width, hi.mem⟩, rfl, Kept.refl σ⟩
      | some c =>
        refine ⟨_, rfl, ?_, ?_, ?_⟩
        · have := inv_resetSt c σ
          exact ⟨this.width, this.mem⟩
        · simp only [Option.map_some]
          rw [← hreset]
          rfl
        · exact ⟨rfl, rfl, rfl, rfl, rfl⟩

/-- ANY sequence of `reset` / `mpu` commands through the GENERATED methods is the hand model's
`applyCmds`; every command ends normally. -/
theorem applyCmdsG_eq (E : Env) (cmds : List Cmd) :
    ∀ σ, Inv σ → ∃ σ', applyCmdsG E σ cmds = .ok () σ' ∧ Inv σ' ∧
      sessOf σ' = applyCmds (sessOf σ) cmds ∧ Kept σ σ' := by
  induction cmds with
  | nil => intro σ hi; exact ⟨σ, rfl, hi, rfl, Kept.refl σ⟩
  | cons c cs ih =>
    intro σ hi
    obtain ⟨σ1, e1, i1, s1, k1⟩ := applyCmdG_eq E σ hi c
    obtain ⟨σ2, e2, i2, s2, k2⟩ := ih σ1 i1
    refine ⟨σ2, ?_, i2, ?_, k1.trans k2⟩
    · simp only [applyCmdsG, e1, Flow.bind_ok, e2]
    · rw [s2, s1]; rfl

/-! ### `_parse_args`, `__init__` -/

/-- The options `_parse_args` acts on. -/
inductive OptKind where
  | input | output | mpu | help | load | rom | goto | other
  deriving DecidableEq, Repr

/-- Which one an option string (as `getopt` delivers it: `-x` or `--long`) is. -/
def optKind (opt : Str) : OptKind :=
  if opt = "-i".toList ∨ opt = "--input".toList then .input
  else if opt = "-o".toList ∨ opt = "--output".toList then .output
  else if opt = "-m".toList ∨ opt = "--mpu".toList then .mpu
  else if opt = "-h".toList ∨ opt = "--help".toList then .help
  else if opt = "-l".toList ∨ opt = "--load".toList then .load
  else if opt = "-r".toList ∨ opt = "--rom".toList then .rom
  else if opt = "-g".toList ∨ opt = "--goto".toList then .goto
  else .other

/-- The values of `-l / -r / -g` seen so far. -/
structure PAcc where
  load : Option Str
  rom : Option Str
  goto : Option Str

/-- The line `_parse_args` prints for an unknown `-m`. -/
def fatalLine : Str := "Fatal: no such MPU. Available MPUs: 6502, 65C02, 65Org16".toList

/-- One option, as the documentation of `py65mon` has it: `-i X` / `-o X` set the input / output address
to `int(X, 16)` (a `ValueError` leaves the constructor), `-m NAME` selects the device class
(`SystemExit(1)` after one line for an unknown name), `-h` prints the usage and exits with 0,
`-l / -r / -g` remember their value, anything else is ignored. -/
def optStep (E : Env) (opt value : Str) (acc : PAcc) (σ : IoSt) : Flow IoSt PAcc :=
  match optKind opt with
  | .input =>
    match pyIntL value 16 with
    | none => .raise .ValueError σ
    | some v => .ok acc { σ with getc_addr := some v }
  | .output =>
    match pyIntL value 16 with
    | none => .raise .ValueError σ
    | some v => .ok acc { σ with putc_addr := some v }
  | .mpu =>
    match _get_mpu E value with
    | none => .raise (.SystemExit 1) { σ with out := σ.out ++ [fatalLine] }
    | some c => .ok acc { σ with mpu_type := c }
  | .help => .raise (.SystemExit 0) { σ with out := σ.out ++ [E.usage] }
  | .load => .ok { acc with load := some value } σ
  | .rom => .ok { acc with rom := some value } σ
  | .goto => .ok { acc with goto := some value } σ
  | .other => .ok acc σ

/-- The options in order. -/
def parseOpts (E : Env) : List (Str × Str) → PAcc → IoSt → Flow IoSt PAcc
  | [], acc, σ => .ok acc σ
  | (o, v) :: rest, acc, σ => (optStep E o v acc σ).bind fun acc σ => parseOpts E rest acc σ

/-- The seven tests of the loop body are mutually exclusive: each is "the option is of this kind". -/
theorem conds_of_kind (opt : Str) :
    ((opt = "-i".toList ∨ opt = "--input".toList) ↔ (optKind opt = .input)) ∧
    ((opt = "-o".toList ∨ opt = "--output".toList) ↔ (optKind opt = .output)) ∧
    ((opt = "-m".toList ∨ opt = "--mpu".toList) ↔ (optKind opt = .mpu)) ∧
    ((opt = "-h".toList ∨ opt = "--help".toList) ↔ (optKind opt = .help)) ∧
    ((opt = "-l".toList ∨ opt = "--load".toList) ↔ (optKind opt = .load)) ∧
    ((opt = "-r".toList ∨ opt = "--rom".toList) ↔ (optKind opt = .rom)) ∧
    ((opt = "-g".toList ∨ opt = "--goto".toList) ↔ (optKind opt = .goto)) := by
  by_cases h1 : opt = "-i".toList ∨ opt = "--input".toList
  · rcases h1 with rfl | rfl <;> decide +kernel
  by_cases h2 : opt = "-o".toList ∨ opt = "--output".toList
  · rcases h2 with rfl | rfl <;> decide +kernel
  by_cases h3 : opt = "-m".toList ∨ opt = "--mpu".toList
  · rcases h3 with rfl | rfl <;> decide +kernel
  by_cases h4 : opt = "-h".toList ∨ opt = "--help".toList
  · rcases h4 with rfl | rfl <;> decide +kernel
  by_cases h5 : opt = "-l".toList ∨ opt = "--load".toList
  · rcases h5 with rfl | rfl <;> decide +kernel
  by_cases h6 : opt = "-r".toList ∨ opt = "--rom".toList
  · rcases h6 with rfl | rfl <;> decide +kernel
  by_cases h7 : opt = "-g".toList ∨ opt = "--goto".toList
  · rcases h7 with rfl | rfl <;> decide +kernel
  simp only [optKind, h1, h2, h3, h4, h5, h6, h7, if_false, reduceCtorEq]
  trivial

theorem fatal_eq :
    "Fatal: no such MPU. Available MPUs: ".toList ++ pyJoin ", ".toList (pySorted (pyKeys Microprocessors)) =
      fatalLine := by decide

/-- The GENERATED `for opt, value in options:` loop of `_parse_args` is `parseOpts`, for every option
list. -/
theorem parse_loop_eq (E : Env) (opts : List (Str × Str)) :
    ∀ (load rom goto : Option Str) (σ : IoSt),
      _parse_args_for1 E opts load rom goto σ =
        (parseOpts E opts ⟨load, rom, goto⟩ σ).bind fun acc σ => .ok (acc.load, acc.rom, acc.goto) σ := by
  induction opts with
  | nil => intro _ _ _ _; rfl
  | cons ov rest ih =>
    obtain ⟨opt, value⟩ := ov
    intro load rom goto σ
    obtain ⟨c1, c2, c3, c4, c5, c6, c7⟩ := conds_of_kind opt
    simp only [_parse_args_for1, parseOpts, ih, c1, c2, c3, c4, c5, c6, c7, fatal_eq, optStep]
    cases hk : optKind opt
    · cases pyIntL value 16 <;> simp
    · cases pyIntL value 16 <;> simp
    · cases _get_mpu E value <;> simp
    all_goals simp

/-- The option tables `_parse_args` hands to `getopt`. -/
def shortopts : Str := "hi:o:m:l:r:g:".toList
def longopts : List Str :=
  ["help".toList, "mpu=".toList, "input=".toList, "output=".toList, "load=".toList, "rom=".toList, "goto=".toList]

/-- GENERATED `_parse_args(argv)`: `getopt.getopt(argv[1:], shortopts, longopts)`; a `GetoptError` prints
its message and the usage and exits with 1; otherwise the options are processed in order by `parseOpts`
and the values of `-l / -r / -g` are returned. -/
theorem parse_args_eq (E : Env) (argv : List Str) (σ : IoSt) :
    _parse_args E argv σ =
      match E.getopt (pySliceFrom argv 1) shortopts longopts with
      | .error msg => .raise (.SystemExit 1) { σ with out := σ.out ++ [msg, E.usage] }
      | .ok r => (parseOpts E r.1 ⟨none, none, none⟩ σ).bind fun acc σ => .ok (acc.load, acc.rom, acc.goto) σ := by
  unfold _parse_args
  simp only [parse_loop_eq]
  show (match E.getopt (pySliceFrom argv 1) shortopts longopts with | .error m => _ | .ok r => _) = _
  cases E.getopt (pySliceFrom argv 1) shortopts longopts with
  | error msg => simp
  | ok r =>
    simp only
    cases parseOpts E r.1 ⟨none, none, none⟩ σ <;> rfl

/-- The start-up actions of `__init__` (uninterpreted), in the order load, goto, rom; each runs only
when its option was given. -/
def startups (E : Env) (load goto rom : Option Str) (σ : IoSt) : Flow IoSt Unit :=
  (match load with | some x => E.startup 0 x σ | none => .ok () σ).bind fun _ σ =>
  (match goto with | some x => E.startup 1 x σ | none => .ok () σ).bind fun _ σ =>
  (match rom with | some x => E.startup 2 x σ | none => .ok () σ)

theorem startups_none (E : Env) (σ : IoSt) : startups E none none none σ = .ok () σ := rfl

/-- GENERATED `__init__`: store the four keyword arguments, parse `argv` (default `sys.argv`), `_reset`
with the ATTRIBUTES `mpu_type / getc_addr / putc_addr` as they are after the options, then the start-up
actions.  The pre-state `σ` only passes its streams, printed lines and allocation counter on: no
attribute is read before it is set. -/
theorem init_eq (E : Env) (argv : Option (List Str)) (cls : MpuCls) (mem : Option (Int → Int))
    (kp kg : Option Int) (σ : IoSt) :
    __init__ E argv cls mem kp kg σ =
      (_parse_args E (argv.getD E.sys_argv)
          { σ with mpu_type := cls, memory := mem, putc_addr := kp, getc_addr := kg }).bind fun r σ2 =>
        startups E r.1 r.2.2 r.2.1 (resetSt σ2.mpu_type (both σ2) σ2) := by
  have bind_unit : ∀ x : Flow IoSt Unit, (x.bind fun _ σ => .ok () σ) = x := by
    intro x; cases x <;> rfl
  unfold __init__
  cases argv <;>
  · dsimp only [Option.getD]
    congr 1
    funext r σ2
    simp only [reset_eq E σ2.mpu_type σ2.getc_addr σ2.putc_addr σ2 (by simp), Flow.bind_ok]
    obtain ⟨load, rom, goto⟩ := r
    unfold startups
    cases load <;> cases goto <;> cases rom <;> simp only [Flow.bind_ok, both, bind_unit]

/-- The option list of `py65mon [-m NAME] [-i X] [-o Y]` as `getopt` delivers it. -/
def optsOf (m i o : Option Str) : List (Str × Str) :=
  (m.toList.map fun n => ("-m".toList, n)) ++ (i.toList.map fun t => ("-i".toList, t)) ++
  (o.toList.map fun t => ("-o".toList, t))

theorem kind_m : optKind ['-', 'm'] = .mpu := by decide +kernel
theorem kind_i : optKind ['-', 'i'] = .input := by decide +kernel
theorem kind_o : optKind ['-', 'o'] = .output := by decide +kernel

/-- The device class the constructor ends up with: the keyword argument `mpu_type`, or what `-m NAME` names
(`none`: an unknown name). -/
def clsOf (E : Env) (cls : MpuCls) (m : Option Str) : Option MpuCls :=
  match m with
  | none => some cls
  | some n => _get_mpu E n

/-- The options `[-m NAME] [-i X] [-o Y]` through `parseOpts`, in closed form. -/
theorem parse_optsOf (E : Env) (m i o : Option Str) (cls cls' : MpuCls) (mem : Option (Int → Int))
    (kp kg : Option Int) (σ : IoSt)
    (hm : clsOf E cls m = some cls') :
    parseOpts E (optsOf m i o) ⟨none, none, none⟩
        { σ with mpu_type := cls, memory := mem, putc_addr := kp, getc_addr := kg } =
      match (match i with | none => some kg | some t => (pyIntL t 16).map some) with
      | none => .raise .ValueError { σ with mpu_type := cls', memory := mem, putc_addr := kp, getc_addr := kg }
      | some g =>
        match (match o with | none => some kp | some t => (pyIntL t 16).map some) with
        | none => .raise .ValueError { σ with mpu_type := cls', memory := mem, putc_addr := kp, getc_addr := g }
        | some p => .ok ⟨none, none, none⟩ { σ with mpu_type := cls', memory := mem, putc_addr := p, getc_addr := g } := by
  rcases m with _ | n <;> rcases i with _ | t <;> rcases o with _ | u <;>
    simp only [clsOf, Option.some.injEq] at hm <;> (try subst hm) <;>
    (try cases ht : pyIntL t 16) <;> (try cases hu : pyIntL u 16) <;>
    simp [optsOf, parseOpts, optStep, kind_m, kind_i, kind_o, *]

/-- GENERATED constructor = the hand model's `construct`.  For a command line on which `getopt` finds
`[-m NAME] [-i X] [-o Y]` (each optional; `NAME` a known device name in any capitalisation, `cls'` the
class it names, or the keyword argument `mpu_type` without `-m`), keyword arguments `putc_addr = kp`,
`getc_addr = kg`, and ANY pre-state: if the hand model's `construct` (keyword arguments overridden by
`-i` / `-o` parsed as hexadecimal) gives `s0`, the generated `__init__` ends normally in a state whose
session is `s0`, which satisfies `Inv`, runs a device of class `cls'` and has the streams of the
pre-state; if it gives `none` (`int(X, 16)` fails), `__init__` raises `ValueError`. -/
theorem init_construct (E : Env) (argv rest : List Str) (m i o : Option Str) (cls cls' : MpuCls)
    (mem : Option (Int → Int)) (kp kg : Option Int) (σ : IoSt)
    (hget : E.getopt (pySliceFrom argv 1) shortopts longopts = .ok (optsOf m i o, rest))
    (hm : clsOf E cls m = some cls') :
    match construct cls'.ADDR_WIDTH kg kp i o with
    | some s0 =>
      ∃ σ', __init__ E (some argv) cls mem kp kg σ = .ok () σ' ∧ Inv σ' ∧ sessOf σ' = s0 ∧
        σ'._mpu.cls = cls' ∧ σ'.memory = mem ∧ σ'.stdin = σ.stdin ∧ σ'.stdout = σ.stdout
    | none => ∃ σ', __init__ E (some argv) cls mem kp kg σ = .raise .ValueError σ' := by
  rw [init_eq, Option.getD_some, parse_args_eq, hget]
  simp only [parse_optsOf E m i o cls cls' mem kp kg σ hm, construct]
  have fin : ∀ g p : Option Int, ∃ σ',
      (((Flow.ok (⟨none, none, none⟩ : PAcc)
            { σ with mpu_type := cls', memory := mem, putc_addr := p, getc_addr := g }).bind
          fun acc σ => Flow.ok (acc.load, acc.rom, acc.goto) σ).bind
        fun r σ2 => startups E r.1 r.2.2 r.2.1 (resetSt σ2.mpu_type (both σ2) σ2)) = .ok () σ' ∧
      Inv σ' ∧
      sessOf σ' = resetWith { addrWidth := cls'.ADDR_WIDTH, getcAddr := g, putcAddr := p, observed := false }
        cls'.ADDR_WIDTH g p ∧
      σ'._mpu.cls = cls' ∧ σ'.memory = mem ∧ σ'.stdin = σ.stdin ∧ σ'.stdout = σ.stdout := by
    intro g p
    simp only [Flow.bind_ok, startups_none]
    refine ⟨_, rfl, inv_resetSt _ _, ?_, rfl, rfl, rfl, rfl⟩
    rw [show both { σ with mpu_type := cls', memory := mem, putc_addr := p, getc_addr := g } =
        (g.isSome && p.isSome) from rfl, sessOf_resetSt _ g p _ (by simp)]
    rfl
  rcases i with _ | t <;> rcases o with _ | u <;> dsimp only
  · exact fin _ _
  · cases pyIntL u 16 with
    | none => exact ⟨_, rfl⟩
    | some v => exact fin _ _
  · cases pyIntL t 16 with
    | none => exact ⟨_, rfl⟩
    | some w => exact fin _ _
  · cases pyIntL t 16 with
    | none => exact ⟨_, rfl⟩
    | some w =>
      cases pyIntL u 16 with
      | none => exact ⟨_, rfl⟩
      | some v => exact fin _ _

end Py65.Proofs.MonIOGenEq
