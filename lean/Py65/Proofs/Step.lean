/-
From handler theorems to `step()`: fetch, PC increment, dispatch, final PC mask.
-/
import Py65.Proofs.Ops

set_option linter.unusedSimpArgs false

namespace Py65.Proofs
open Py65 Py65.Gen Py65.Spec Py

/-- The state handed to the handler by `step()`. -/
def afterFetch (c : Cfg) (t : Tbl) (s : St) : St :=
  { s with log := MemEv.r s.pc :: s.log, pc := land (s.pc + 1) c.addrMask, excycles := 0,
           addcycles := t.extracycles (s.mem s.pc) }

theorem step_unfold (c : Cfg) (t : Tbl) (s : St) :
    Mpu6502.step c t s =
      let s2 := t.instruct (s.mem s.pc) (afterFetch c t s)
      { s2 with pc := land s2.pc c.addrMask,
                cycles := s2.cycles + (t.cycletime (s.mem s.pc) + s2.excycles) } := rfl

theorem afterFetch_WF (c : Cfg) (hc : IsDev c) (t : Tbl) (s : St) (hs : WF c s) :
    WF c (afterFetch c t s) := by
  refine ⟨hs.a, hs.x, hs.y, hs.sp, hs.p, ?_, hs.mem⟩
  have := hs.pc
  rcases hc with rfl | rfl <;> (simp [afterFetch, pyarith] at this ⊢; omega)

theorem afterFetch_abs (c : Cfg) (hc : IsDev c) (t : Tbl) (s : St) :
    abs (afterFetch c t s) = { abs s with pc := (s.pc + 1) % AM c.BYTE_WIDTH } := by
  rcases hc with rfl | rfl <;> simp [afterFetch, abs, core, AM, pyarith]

/-- One `step()` of the generated model is one `Spec.step`, given the handler theorem of the
opcode at PC. -/
theorem step_sem (c : Cfg) (hc : IsDev c) (t : Tbl) (v : Variant) (s : St) (hs : WF c s)
    (hw : s.waiting = false) (mn : Mn) (mo : Mode)
    (hd : decode v (s.mem s.pc) = some (mn, mo)) (P : St → Prop) (hP : P (afterFetch c t s))
    (hi : HandlerOKp c v (t.instruct (s.mem s.pc)) mn mo P) :
    abs (Mpu6502.step c t s) = Spec.step c.BYTE_WIDTH v (abs s) := by
  have h1 := hi (afterFetch c t s) (afterFetch_WF c hc t s hs) hP
  rw [afterFetch_abs c hc] at h1
  have e : (abs s).mem (abs s).pc = s.mem s.pc := rfl
  have ew : (abs s).waiting = false := hw
  have e2 : ({ abs s with pc := (s.pc + 1) % AM c.BYTE_WIDTH } : AState) =
      { abs s with pc := ((abs s).pc + 1) % AM c.BYTE_WIDTH } := rfl
  simp only [Spec.step, e, ew, hd, Bool.false_eq_true, if_false]
  rw [e2] at h1
  have e3 : (abs s).waiting = false := hw
  have e4 : ({ abs s with pc := ((abs s).pc + 1) % AM c.BYTE_WIDTH } : AState) =
      { a := (abs s).a, x := (abs s).x, y := (abs s).y, sp := (abs s).sp, p := (abs s).p,
        pc := ((abs s).pc + 1) % AM c.BYTE_WIDTH, mem := (abs s).mem, waiting := false } := by
    simp [e3]
  rw [← e4, ← h1, step_unfold]
  rcases hc with rfl | rfl <;> simp [absH, abs, core, pyarith]


/-- A table lookup that succeeds names a table row. -/
theorem lookup_mem {t : List (Int × Mn × Mode)} {op : Int} {mn : Mn} {mo : Mode}
    (h : lookup t op = some (mn, mo)) : (op, mn, mo) ∈ t := by
  induction t with
  | nil => simp [lookup] at h
  | cons e rest ih =>
    obtain ⟨o, m1, m2⟩ := e
    simp only [lookup] at h
    split at h
    · rename_i heq
      simp only [Option.some.injEq, Prod.mk.injEq] at h
      obtain ⟨rfl, rfl⟩ := h
      subst heq
      exact List.mem_cons_self
    · exact List.mem_cons_of_mem _ (ih h)

/-- `step()` for one table row, given the dispatch fact and the handler theorem. -/
theorem step_case (c : Cfg) (hc : IsDev c) (t : Tbl) (v : Variant) (s : St) (hs : WF c s)
    (hw : s.waiting = false) (op : Int) (mn : Mn) (mo : Mode) (h : St → St) (P : St → Prop)
    (hop : s.mem s.pc = op) (hd : decode v op = some (mn, mo)) (hinst : t.instruct op = h)
    (hh : HandlerOKp c v h mn mo P) (hP : P (afterFetch c t s)) :
    abs (Mpu6502.step c t s) = Spec.step c.BYTE_WIDTH v (abs s) := by
  subst hop
  exact step_sem c hc t v s hs hw mn mo hd P hP (hinst ▸ hh)

end Py65.Proofs
