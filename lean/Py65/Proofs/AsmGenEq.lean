import Py65.Proofs.AsmLemmas
import Py65.Gen.AsmGen

namespace Py65.Proofs.AsmGenEq
open Py65.Model Py65.Model.PyStr Py65.Model.AddrParser Py65.Model.Asm Py65.Model.AsmRt
open Py65.Gen

theorem join_sp (l : List Str) : AsmRt.join " ".toList l = joinSp l := by
  have e : " ".toList = [' '] := rfl
  rw [e]
  induction l with
  | nil => rfl
  | cons a rest ih =>
    cases rest with
    | nil => rfl
    | cons b r => simp only [AsmRt.join, joinSp, ih, List.append_assoc, List.singleton_append]

theorem join_nil (l : List Str) : AsmRt.join "".toList l = l.flatten := by
  have e : "".toList = [] := rfl
  rw [e]
  induction l with
  | nil => rfl
  | cons a rest ih =>
    cases rest with
    | nil => simp [AsmRt.join]
    | cons b r => simp only [AsmRt.join, ih, List.append_nil, List.flatten_cons]

theorem flatten_pySplitAux (s cur : Str) : (pySplitAux s cur).flatten = cur.reverse ++ removeWs s := by
  induction s generalizing cur with
  | nil => by_cases h : cur = [] <;> simp [pySplitAux, h, removeWs]
  | cons c cs ih =>
    by_cases hc : isReSpace c = true
    · by_cases h : cur = [] <;> simp [pySplitAux, hc, h, ih, removeWs]
    · simp [pySplitAux, hc, ih, removeWs]

theorem join_nil_split (s : Str) : AsmRt.join "".toList (AsmRt.split s) = removeWs s := by
  rw [join_nil, AsmRt.split, pySplit, flatten_pySplitAux]; rfl

/-- the definitions of the embedding's monad and helpers, for `simp` -/
macro "rt_simp" " [" ts:Lean.Parser.Tactic.simpLemma,* "]" : tactic =>
  `(tactic| simp [bind, Except.bind, pure, Except.pure, runFn, return_, raise, continue_, tryExcept, call,
      strGet, sliceFrom, listGet, ord, len, unpack2, splitSp1L, startswith, startsWith, AsmRt.number,
      AsmRt.int, AsmRt.index, Exc.isIndexError, Exc.isValueError, nresOf, aresOf, retarget, TRes.ofRes,
      $ts,*])

/-- `number` of the address word, then `'$' + ADDR_FORMAT % address` -/
macro "addr_leaf" d:term:max P:term:max T:term:max hs:(ppSpace colGt ident)* : tactic =>
  `(tactic| (
    cases hn : numberL $P $T with
    | ok n =>
      by_cases h0 : n < 0
      · rt_simp [hn, addrText, fmt, h0, $[$hs:ident],*]
      · cases hp : pctFmt (Dev.addrFmt $d) n.toNat <;> rt_simp [hn, addrText, fmt, h0, hp, $[$hs:ident],*]
    | _ => rt_simp [hn, $[$hs:ident],*]))

/-- the byte range check, then `'#$' + BYTE_FORMAT % number` -/
macro "imm_leaf" d:term:max n:term:max hs:(ppSpace colGt ident)* : tactic =>
  `(tactic| (
    by_cases hr1 : $n < 0
    · rt_simp [immText, hr1, $[$hs:ident],*]
    · by_cases hr2 : Dev.byteMask $d < $n
      · rt_simp [immText, hr1, hr2, $[$hs:ident],*]
      · rt_simp [immText, fmt, hr1, hr2, $[$hs:ident],*]
        generalize pctFmt (Dev.byteFmt $d) _ = o
        cases o <;> simp [hr2]))

theorem join_nil_split' (s : Str) : AsmRt.join "".toList (pySplit s) = removeWs s := join_nil_split s

theorem Statement_eq : AsmGen.Statement = matchStatement := rfl

theorem Addressing_eq : AsmGen.Addressing = addressing := rfl

theorem normalize_and_split_eq (d : Dev) (P : Parser) (s : Str) :
    nresOf (AsmGen.normalize_and_split d P s) = normalizeAndSplit d P s := by
  unfold AsmGen.normalize_and_split normalizeAndSplit
  simp only [join_sp, AsmRt.split, Statement_eq, ← normWs.eq_1, join_nil_split']
  cases matchStatement (normWs s) with
  | none =>
    rcases h : splitSp1 (normWs s) with ⟨a, _ | b⟩
    · simp [h, bind, Except.bind, pure, Except.pure, runFn, return_, listGet, splitSp1L, len, nresOf]; rfl
    · simp [h, bind, Except.bind, pure, Except.pure, runFn, return_, listGet, splitSp1L, len, nresOf]
  | some m =>
    obtain ⟨before, target, after⟩ := m
    have hsp : "#".toList = ['#'] := rfl
    have hq1 : "'".toList = ['\''] := rfl
    have hq2 : "\"".toList = ['"'] := rfl
    have hnil : "".toList = [] := rfl
    have ha1 : "a".toList = ['a'] := rfl
    have ha2 : "A".toList = ['A'] := rfl
    have hhd : "#$".toList = ['#', '$'] := rfl
    have hd1 : "$".toList = ['$'] := rfl
    simp only [hsp, hq1, hq2, hnil, ha1, ha2, hhd, hd1]
    rcases hb : splitSp1 before with ⟨oc, _ | lead⟩ <;>
    (rcases target with _ | ⟨c, rest⟩
     · addr_leaf d P ([] : Str) hb
     · by_cases hc : c = '#'
       · subst hc
         rcases rest with _ | ⟨q, rest2⟩
         · rt_simp [hb]
         · by_cases hq : q = '\'' ∨ q = '"'
           · rcases rest2 with _ | ⟨ch, rest3⟩
             · rt_simp [hb, hq]
             · by_cases h3 : rest3 = [] ∨ rest3 = [q]
               · imm_leaf d (ch.toNat : Int) hb hq h3
               · rt_simp [hb, hq, h3]
           · cases hn : numberL P (q :: rest2) with
             | ok n => imm_leaf d n hb hq hn
             | _ => rt_simp [hn, hb, hq]
       · by_cases hacc : (c = 'a' ∧ rest = []) ∨ (c = 'A' ∧ rest = [])
         · rt_simp [hb, hc, hacc]
         · addr_leaf d P (c :: rest) hb hc hacc)

theorem foldl_append_map {α β : Type} (f : α → β) (l : List α) (init : List β) :
    l.foldl (fun acc x => acc ++ [f x]) init = init ++ l.map f := by
  induction l generalizing init with
  | nil => simp
  | cons a r ih => simp [ih]

/-- `self._addressing` as built by the generated `__init__` is the hand model's `compiled`, each
compiled template read as a matcher -/
theorem init_addressing_eq (d : Dev) :
    AsmGen.init_addressing d = compiled.map (fun p => (p.1, matchItems d.numchars p.2)) := by
  unfold AsmGen.init_addressing compiled
  rw [Addressing_eq]
  have hf : (fun (acc : List (Str × (Str → Option (List Str)))) (x : Str × Str) =>
      match x with
      | (mode, format) => acc ++ [(mode, templatePattern (truedivD d.byteWidth 4) format)]) =
      fun acc x => acc ++ [(fun p : Str × Str => (p.1, matchItems d.numchars (compileTemplate p.2))) x] := by
    funext acc x
    obtain ⟨mode, format⟩ := x
    rfl
  simp only [hf, foldl_append_map, List.nil_append, List.map_map]
  rfl

/-- `[int(hex, 16) for hex in operands]` is the hand model's `hexInts` -/
theorem listComp_int {ρ : Type} (l : List Str) :
    (listComp (fun hex => AsmRt.int hex 16) l : PyM ρ (List Int)) =
      match hexInts l with
      | some vs => .ok vs
      | none => .error (.exc (.valueError "int")) := by
  induction l with
  | nil => rfl
  | cons h rest ih =>
    rw [listComp, ih]
    simp only [hexInts, AsmRt.int, raise]
    cases pyIntL h 16 <;> cases hexInts rest <;> rfl

/-- What one iteration of the generated loop body means for the hand model's `tryMode`: `none` = go
on with the next template (fell through or `continue`), `some r` = the loop ends with `r`. -/
def sigARes : PyM (List Int) Unit → Option ARes
  | .ok () => none
  | .error .cont => none
  | .error (.ret bs) => some (.ok bs)
  | .error (.exc e) => some (aresOf (.error e))

/-- A `for` loop over the templates whose body agrees with `tryMode` on every template, followed by
`raise SyntaxError`, is `tryModes`. -/
theorem forEach_tryModes (d : Dev) (opcode operand : Str) (pc : Int)
    (B : Str × (Str → Option (List Str)) → PyM (List Int) Unit)
    (hB : ∀ mode items, sigARes (B (mode, matchItems d.numchars items)) = tryMode d opcode operand pc mode items)
    (l : List (Str × List TItem)) :
    aresOf (runFn (do
      forEach (l.map (fun p => (p.1, matchItems d.numchars p.2))) B
      raise .syntaxError)) = tryModes d opcode operand pc l := by
  induction l with
  | nil => rfl
  | cons x rest ih =>
    obtain ⟨mode, items⟩ := x
    have h := hB mode items
    simp only [List.map_cons, forEach, tryModes]
    rw [← h]
    generalize B (mode, matchItems d.numchars items) = r at *
    rcases r with (e | _ | bs) | ⟨⟩
    · cases e <;> rfl
    · exact ih
    · rfl
    · exact ih

theorem byteMask_nonneg (d : Dev) : 0 ≤ d.byteMask := by
  unfold Dev.byteMask Py.shl
  have : (0 : Int) < 2 ^ d.byteWidth := by positivity
  omega

/-- `[int(hex, 16) …]`, `bytes.extend`, the top-of-memory check, `return bytes` -/
macro "hex_tail" d:term:max pc:term:max : tactic =>
  `(tactic| (
    generalize hexInts _ = o
    cases o with
    | none => simp
    | some ops => by_cases hc : 2 ^ Dev.addrWidth $d < $pc + ((ops.length : Int) + 1) <;> simp [hc]))

theorem assemble_eq (d : Dev) (P : Parser) (s : Str) (pc : Int) :
    aresOf (AsmGen.assemble d P s pc) = assembleL d P s pc := by
  unfold AsmGen.assemble assembleL
  rw [← normalize_and_split_eq]
  cases AsmGen.normalize_and_split d P s with
  | error e => cases e <;> rfl
  | ok r =>
    obtain ⟨opcode, operand⟩ := r
    simp only [call, nresOf, backend, init_addressing_eq]
    refine forEach_tryModes d opcode operand pc _ ?_ compiled
    intro mode items
    have e1 : "???".toList = ['?', '?', '?'] := rfl
    have e2 : "rel".toList = ['r', 'e', 'l'] := rfl
    have e3 : "".toList = [] := rfl
    simp only [e1, e2, e3]
    unfold tryMode
    cases hm : matchItems d.numchars items operand with
    | none => rfl
    | some g =>
      simp only []
      unfold emit
      simp only [e1, e2]
      by_cases hq : opcode = ['?', '?', '?']
      · rt_simp [hq, sigARes]
      · cases hi : indexOf d.table (opcode, mode) with
        | none => rt_simp [hq, hi, sigARes]
        | some op =>
          by_cases hrel : mode = ['r', 'e', 'l']
          · subst hrel
            have hj : AsmRt.join [] g = g.flatten := join_nil g
            simp only [listComp_int, hj]
            cases hv : pyIntL g.flatten 16 with
            | none => rt_simp [hq, hi, sigARes, hv]
            | some absolute =>
              unfold relOperand
              have hnn : ∀ x : Int, ¬ Py.land x d.byteMask < 0 := fun x =>
                Int.not_lt.mpr (Py.land_nonneg x _ (byteMask_nonneg d))
              by_cases c1 : Py.shr d.addrMask 1 < Py.land (absolute - pc - 2) d.addrMask
              · by_cases c2 : Py.land (absolute - pc - 2) d.addrMask - (d.addrMask + 1) < -Py.shr (d.byteMask + 1) 1 ∨
                    Py.shr (d.byteMask + 1) 1 ≤ Py.land (absolute - pc - 2) d.addrMask - (d.addrMask + 1)
                · rt_simp [hq, hi, sigARes, hv, c1, c2]
                · rt_simp [hq, hi, sigARes, hv, c1, c2, fmt, hnn, finish]
                  generalize pctFmt d.byteFmt _ = o
                  cases o with
                  | none => simp
                  | some t => simp only []; hex_tail d pc
              · by_cases c2 : Py.land (absolute - pc - 2) d.addrMask < -Py.shr (d.byteMask + 1) 1 ∨
                    Py.shr (d.byteMask + 1) 1 ≤ Py.land (absolute - pc - 2) d.addrMask
                · rt_simp [hq, hi, sigARes, hv, c1, c2]
                · rt_simp [hq, hi, sigARes, hv, c1, c2, fmt, hnn, finish]
                  generalize pctFmt d.byteFmt _ = o
                  cases o with
                  | none => simp
                  | some t => simp only []; hex_tail d pc
          · simp only [listComp_int]
            rcases g with _ | ⟨a, _ | ⟨b, _ | ⟨c, r⟩⟩⟩
            · rt_simp [hq, hi, hrel, sigARes, finish]; hex_tail d pc
            · rt_simp [hq, hi, hrel, sigARes, finish]; hex_tail d pc
            · rt_simp [hq, hi, hrel, sigARes, finish]; hex_tail d pc
            · have h3 : ¬ ((r.length : Int) + 1 + 1 + 1 = 2) := by omega
              rt_simp [hq, hi, hrel, sigARes, finish, h3]; hex_tail d pc

/-! ### the generated functions with their outcome in the hand model's result types -/

/-- `Assembler(mpu, parser).assemble(statement, pc)` as GENERATED from the source -/
def assembleG (d : Dev) (P : Parser) (s : Str) (pc : Int) : ARes := aresOf (AsmGen.assemble d P s pc)

/-- `Assembler(mpu, parser).normalize_and_split(statement)` as GENERATED from the source -/
def splitG (d : Dev) (P : Parser) (s : Str) : NRes := nresOf (AsmGen.normalize_and_split d P s)

theorem assembleG_eq (d : Dev) (P : Parser) (s : Str) (pc : Int) : assembleG d P s pc = assembleL d P s pc :=
  assemble_eq d P s pc

theorem splitG_eq (d : Dev) (P : Parser) (s : Str) : splitG d P s = normalizeAndSplit d P s :=
  normalize_and_split_eq d P s

/-- once `normalize_and_split` has produced `(opcode, operand)`, `assemble` is the template loop on them -/
theorem assembleG_of_split (d : Dev) (P : Parser) (s opcode operand : Str) (pc : Int)
    (hs : splitG d P s = .ok opcode operand) : assembleG d P s pc = backend d opcode operand pc := by
  rw [assembleG_eq, assembleL, ← splitG_eq, hs]

open Py65.Proofs.Asm in
/-- ... and on the canonical operand text of an in-range `(shape, value)` it is the value-level
assembler of Proofs/AsmLemmas -/
theorem assembleG_val {d : Dev} {v : Py65.Spec.Variant} {W : Nat} (h : DevOK d v W) (P : Parser) (s m : Str)
    (sh : Py65.Spec.Asm.Shape) (x pc : Int) (hin : Py65.Spec.Asm.Shape.inRange W sh x = true)
    (hs : splitG d P s = .ok m (canonText W sh x)) : assembleG d P s pc = assembleVal d m sh x pc := by
  rw [assembleG_of_split d P s _ _ pc hs, assembleVal_canon h m sh x pc hin]

end Py65.Proofs.AsmGenEq
