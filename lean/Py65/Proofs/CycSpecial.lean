import Py65.Proofs.CycOps
set_option linter.unusedSimpArgs false
namespace Py65.Proofs
open Py65 Py65.Gen Py65.Spec Py

theorem BranchRelAddr_cycles (c : Cfg) (s : St) : (Mpu6502.BranchRelAddr c s).cycles = s.cycles := by
  dsimp +instances only [Mpu6502.BranchRelAddr, Mpu6502.ImmediateByte, Mpu6502.ByteAt, memGet]
  simp +instances only [apply_ite Prod.snd, apply_ite Prod.fst, apply_ite St.cycles, ite_self]

theorem branch_cyc (c : Cfg) (hc : IsDev c) (f : St → St) (mn : Mn) (taken : Int → Bool)
    (hf : ∀ s, f s = if taken s.p then Mpu6502.BranchRelAddr c s else { s with pc := s.pc + 1 })
    (hcond : ∀ p, branchCond c.BYTE_WIDTH mn p = taken p) (hbr : isBranch mn = true) :
    HandlerCyc c f mn .rel := by
  intro s hs
  rw [hf]
  cases h : taken s.p
  · simp [varCycles, readCrosses, hcond, core, h]
  · simp only [if_true]
    refine ⟨BranchRelAddr_cycles c s, ?_⟩
    rw [BranchRelAddr_cyc c hc s hs]
    simp [varCycles, readCrosses, hcond, hbr, core, h]
    omega

theorem opBCL_cyc (c : Cfg) (hc : IsDev c) (x : Int) (k : Nat) (mn : Mn)
    (hx : ∀ p : Int, (land p x ≠ 0) = (flag p k = true))
    (hcond : ∀ p, branchCond c.BYTE_WIDTH mn p = !flag p k) (hbr : isBranch mn = true) :
    HandlerCyc c (Mpu6502.opBCL c x) mn .rel := by
  apply branch_cyc c hc _ mn (fun p => !flag p k) _ hcond hbr
  intro s
  simp only [Mpu6502.opBCL, hx]
  cases h : flag s.p k <;> simp

theorem opBST_cyc (c : Cfg) (hc : IsDev c) (x : Int) (k : Nat) (mn : Mn)
    (hx : ∀ p : Int, (land p x ≠ 0) = (flag p k = true))
    (hcond : ∀ p, branchCond c.BYTE_WIDTH mn p = flag p k) (hbr : isBranch mn = true) :
    HandlerCyc c (Mpu6502.opBST c x) mn .rel := by
  apply branch_cyc c hc _ mn (fun p => flag p k) _ hcond hbr
  intro s
  simp only [Mpu6502.opBST, hx]

theorem c_10 (c : Cfg) (hc : IsDev c) : HandlerCyc c (Mpu6502.inst_0x10 c) .BPL .rel := by
  rcases hc with rfl | rfl
  · exact opBCL_cyc _ (Or.inl rfl) _ 7 .BPL (fun p => (land_test p).2.2.2.1) (fun p => rfl) rfl
  · exact opBCL_cyc _ (Or.inr rfl) _ 15 .BPL (fun p => (land_test p).2.2.2.2.2) (fun p => rfl) rfl
theorem c_30 (c : Cfg) (hc : IsDev c) : HandlerCyc c (Mpu6502.inst_0x30 c) .BMI .rel := by
  rcases hc with rfl | rfl
  · exact opBST_cyc _ (Or.inl rfl) _ 7 .BMI (fun p => (land_test p).2.2.2.1) (fun p => rfl) rfl
  · exact opBST_cyc _ (Or.inr rfl) _ 15 .BMI (fun p => (land_test p).2.2.2.2.2) (fun p => rfl) rfl
theorem c_50 (c : Cfg) (hc : IsDev c) : HandlerCyc c (Mpu6502.inst_0x50 c) .BVC .rel := by
  rcases hc with rfl | rfl
  · exact opBCL_cyc _ (Or.inl rfl) _ 6 .BVC (fun p => (land_test p).2.2.1) (fun p => rfl) rfl
  · exact opBCL_cyc _ (Or.inr rfl) _ 14 .BVC (fun p => (land_test p).2.2.2.2.1) (fun p => rfl) rfl
theorem c_70 (c : Cfg) (hc : IsDev c) : HandlerCyc c (Mpu6502.inst_0x70 c) .BVS .rel := by
  rcases hc with rfl | rfl
  · exact opBST_cyc _ (Or.inl rfl) _ 6 .BVS (fun p => (land_test p).2.2.1) (fun p => rfl) rfl
  · exact opBST_cyc _ (Or.inr rfl) _ 14 .BVS (fun p => (land_test p).2.2.2.2.1) (fun p => rfl) rfl
theorem c_90 (c : Cfg) (hc : IsDev c) : HandlerCyc c (Mpu6502.inst_0x90 c) .BCC .rel := by
  rcases hc with rfl | rfl
  · exact opBCL_cyc _ (Or.inl rfl) _ 0 .BCC (fun p => (land_test p).1) (fun p => rfl) rfl
  · exact opBCL_cyc _ (Or.inr rfl) _ 0 .BCC (fun p => (land_test p).1) (fun p => rfl) rfl
theorem c_b0 (c : Cfg) (hc : IsDev c) : HandlerCyc c (Mpu6502.inst_0xb0 c) .BCS .rel := by
  rcases hc with rfl | rfl
  · exact opBST_cyc _ (Or.inl rfl) _ 0 .BCS (fun p => (land_test p).1) (fun p => rfl) rfl
  · exact opBST_cyc _ (Or.inr rfl) _ 0 .BCS (fun p => (land_test p).1) (fun p => rfl) rfl
theorem c_d0 (c : Cfg) (hc : IsDev c) : HandlerCyc c (Mpu6502.inst_0xd0 c) .BNE .rel := by
  rcases hc with rfl | rfl
  · exact opBCL_cyc _ (Or.inl rfl) _ 1 .BNE (fun p => (land_test p).2.1) (fun p => rfl) rfl
  · exact opBCL_cyc _ (Or.inr rfl) _ 1 .BNE (fun p => (land_test p).2.1) (fun p => rfl) rfl
theorem c_f0 (c : Cfg) (hc : IsDev c) : HandlerCyc c (Mpu6502.inst_0xf0 c) .BEQ .rel := by
  rcases hc with rfl | rfl
  · exact opBST_cyc _ (Or.inl rfl) _ 1 .BEQ (fun p => (land_test p).2.1) (fun p => rfl) rfl
  · exact opBST_cyc _ (Or.inr rfl) _ 1 .BEQ (fun p => (land_test p).2.1) (fun p => rfl) rfl

/-! ### handlers without an addressing-mode helper -/
theorem c_18 (c : Cfg) : HandlerCyc c (Mpu6502.inst_0x18 c) .CLC .imp :=
  plain_cyc c _ _ _ rfl (fun _ => rfl) (by op_cyc [Mpu6502.inst_0x18])
theorem c_38 (c : Cfg) : HandlerCyc c (Mpu6502.inst_0x38 c) .SEC .imp :=
  plain_cyc c _ _ _ rfl (fun _ => rfl) (by op_cyc [Mpu6502.inst_0x38])
theorem c_58 (c : Cfg) : HandlerCyc c (Mpu6502.inst_0x58 c) .CLI .imp :=
  plain_cyc c _ _ _ rfl (fun _ => rfl) (by op_cyc [Mpu6502.inst_0x58])
theorem c_78 (c : Cfg) : HandlerCyc c (Mpu6502.inst_0x78 c) .SEI .imp :=
  plain_cyc c _ _ _ rfl (fun _ => rfl) (by op_cyc [Mpu6502.inst_0x78])
theorem c_b8 (c : Cfg) : HandlerCyc c (Mpu6502.inst_0xb8 c) .CLV .imp :=
  plain_cyc c _ _ _ rfl (fun _ => rfl) (by op_cyc [Mpu6502.inst_0xb8])
theorem c_d8 (c : Cfg) : HandlerCyc c (Mpu6502.inst_0xd8 c) .CLD .imp :=
  plain_cyc c _ _ _ rfl (fun _ => rfl) (by op_cyc [Mpu6502.inst_0xd8])
theorem c_f8 (c : Cfg) : HandlerCyc c (Mpu6502.inst_0xf8 c) .SED .imp :=
  plain_cyc c _ _ _ rfl (fun _ => rfl) (by op_cyc [Mpu6502.inst_0xf8])
theorem c_aa (c : Cfg) : HandlerCyc c (Mpu6502.inst_0xaa c) .TAX .imp :=
  plain_cyc c _ _ _ rfl (fun _ => rfl) (by op_cyc [Mpu6502.inst_0xaa])
theorem c_a8 (c : Cfg) : HandlerCyc c (Mpu6502.inst_0xa8 c) .TAY .imp :=
  plain_cyc c _ _ _ rfl (fun _ => rfl) (by op_cyc [Mpu6502.inst_0xa8])
theorem c_8a (c : Cfg) : HandlerCyc c (Mpu6502.inst_0x8a c) .TXA .imp :=
  plain_cyc c _ _ _ rfl (fun _ => rfl) (by op_cyc [Mpu6502.inst_0x8a])
theorem c_98 (c : Cfg) : HandlerCyc c (Mpu6502.inst_0x98 c) .TYA .imp :=
  plain_cyc c _ _ _ rfl (fun _ => rfl) (by op_cyc [Mpu6502.inst_0x98])
theorem c_ba (c : Cfg) : HandlerCyc c (Mpu6502.inst_0xba c) .TSX .imp :=
  plain_cyc c _ _ _ rfl (fun _ => rfl) (by op_cyc [Mpu6502.inst_0xba])
theorem c_9a (c : Cfg) : HandlerCyc c (Mpu6502.inst_0x9a c) .TXS .imp :=
  plain_cyc c _ _ _ rfl (fun _ => rfl) (by op_cyc [Mpu6502.inst_0x9a])
theorem c_e8 (c : Cfg) : HandlerCyc c (Mpu6502.inst_0xe8 c) .INX .imp :=
  plain_cyc c _ _ _ rfl (fun _ => rfl) (by op_cyc [Mpu6502.inst_0xe8])
theorem c_c8 (c : Cfg) : HandlerCyc c (Mpu6502.inst_0xc8 c) .INY .imp :=
  plain_cyc c _ _ _ rfl (fun _ => rfl) (by op_cyc [Mpu6502.inst_0xc8])
theorem c_ca (c : Cfg) : HandlerCyc c (Mpu6502.inst_0xca c) .DEX .imp :=
  plain_cyc c _ _ _ rfl (fun _ => rfl) (by op_cyc [Mpu6502.inst_0xca])
theorem c_88 (c : Cfg) : HandlerCyc c (Mpu6502.inst_0x88 c) .DEY .imp :=
  plain_cyc c _ _ _ rfl (fun _ => rfl) (by op_cyc [Mpu6502.inst_0x88])
theorem c_ea (c : Cfg) : HandlerCyc c (Mpu6502.inst_0xea c) .NOP .imp :=
  plain_cyc c _ _ _ rfl (fun _ => rfl) (by op_cyc [Mpu6502.inst_0xea])
theorem c_0a (c : Cfg) : HandlerCyc c (Mpu6502.inst_0x0a c) .ASL .acc :=
  plain_cyc c _ _ _ rfl (fun _ => rfl) (by op_cyc [Mpu6502.inst_0x0a, Mpu6502.opASL_acc, Mpu6502.opLSR_acc, Mpu6502.opROL_acc, Mpu6502.opROR_acc])
theorem c_4a (c : Cfg) : HandlerCyc c (Mpu6502.inst_0x4a c) .LSR .acc :=
  plain_cyc c _ _ _ rfl (fun _ => rfl) (by op_cyc [Mpu6502.inst_0x4a, Mpu6502.opASL_acc, Mpu6502.opLSR_acc, Mpu6502.opROL_acc, Mpu6502.opROR_acc])
theorem c_2a (c : Cfg) : HandlerCyc c (Mpu6502.inst_0x2a c) .ROL .acc :=
  plain_cyc c _ _ _ rfl (fun _ => rfl) (by op_cyc [Mpu6502.inst_0x2a, Mpu6502.opASL_acc, Mpu6502.opLSR_acc, Mpu6502.opROL_acc, Mpu6502.opROR_acc])
theorem c_6a (c : Cfg) : HandlerCyc c (Mpu6502.inst_0x6a c) .ROR .acc :=
  plain_cyc c _ _ _ rfl (fun _ => rfl) (by op_cyc [Mpu6502.inst_0x6a, Mpu6502.opASL_acc, Mpu6502.opLSR_acc, Mpu6502.opROL_acc, Mpu6502.opROR_acc])
theorem c_48 (c : Cfg) : HandlerCyc c (Mpu6502.inst_0x48 c) .PHA .imp :=
  plain_cyc c _ _ _ rfl (fun _ => rfl) (by op_cyc [Mpu6502.inst_0x48])
theorem c_08 (c : Cfg) : HandlerCyc c (Mpu6502.inst_0x08 c) .PHP .imp :=
  plain_cyc c _ _ _ rfl (fun _ => rfl) (by op_cyc [Mpu6502.inst_0x08])
theorem c_68 (c : Cfg) : HandlerCyc c (Mpu6502.inst_0x68 c) .PLA .imp :=
  plain_cyc c _ _ _ rfl (fun _ => rfl) (by op_cyc [Mpu6502.inst_0x68])
theorem c_28 (c : Cfg) : HandlerCyc c (Mpu6502.inst_0x28 c) .PLP .imp :=
  plain_cyc c _ _ _ rfl (fun _ => rfl) (by op_cyc [Mpu6502.inst_0x28])
theorem c_4c (c : Cfg) : HandlerCyc c (Mpu6502.inst_0x4c c) .JMP .abs :=
  plain_cyc c _ _ _ rfl (fun _ => rfl) (by op_cyc [Mpu6502.inst_0x4c])
theorem c_60 (c : Cfg) : HandlerCyc c (Mpu6502.inst_0x60 c) .RTS .imp :=
  plain_cyc c _ _ _ rfl (fun _ => rfl) (by op_cyc [Mpu6502.inst_0x60])
theorem c_40 (c : Cfg) : HandlerCyc c (Mpu6502.inst_0x40 c) .RTI .imp :=
  plain_cyc c _ _ _ rfl (fun _ => rfl) (by op_cyc [Mpu6502.inst_0x40])
theorem c_00 (c : Cfg) : HandlerCyc c (Mpu6502.inst_0x00 c) .BRK .imp :=
  plain_cyc c _ _ _ rfl (fun _ => rfl) (by op_cyc [Mpu6502.inst_0x00])
theorem c_20 (c : Cfg) : HandlerCyc c (Mpu6502.inst_0x20 c) .JSR .abs :=
  plain_cyc c _ _ _ rfl (fun _ => rfl) (by op_cyc [Mpu6502.inst_0x20])
theorem c_6c (c : Cfg) : HandlerCyc c (Mpu6502.inst_0x6c c) .JMP .ind :=
  plain_cyc c _ _ _ rfl (fun _ => rfl) (by op_cyc [Mpu6502.inst_0x6c])

/-! ### 65C02 -/
theorem cc_00 (c : Cfg) : HandlerCyc c (Mpu65c02.inst_0x00 c) .BRK .imp :=
  plain_cyc c _ _ _ rfl (fun _ => rfl) (by op_cyc [Mpu65c02.inst_0x00, Mpu6502.opINCR_acc, Mpu6502.opDECR_acc, Mpu6502.ImmediateByte, Mpu65c02.IndirectAbsXAddr])
theorem cc_da (c : Cfg) : HandlerCyc c (Mpu65c02.inst_0xda c) .PHX .imp :=
  plain_cyc c _ _ _ rfl (fun _ => rfl) (by op_cyc [Mpu65c02.inst_0xda, Mpu6502.opINCR_acc, Mpu6502.opDECR_acc, Mpu6502.ImmediateByte, Mpu65c02.IndirectAbsXAddr])
theorem cc_5a (c : Cfg) : HandlerCyc c (Mpu65c02.inst_0x5a c) .PHY .imp :=
  plain_cyc c _ _ _ rfl (fun _ => rfl) (by op_cyc [Mpu65c02.inst_0x5a, Mpu6502.opINCR_acc, Mpu6502.opDECR_acc, Mpu6502.ImmediateByte, Mpu65c02.IndirectAbsXAddr])
theorem cc_fa (c : Cfg) : HandlerCyc c (Mpu65c02.inst_0xfa c) .PLX .imp :=
  plain_cyc c _ _ _ rfl (fun _ => rfl) (by op_cyc [Mpu65c02.inst_0xfa, Mpu6502.opINCR_acc, Mpu6502.opDECR_acc, Mpu6502.ImmediateByte, Mpu65c02.IndirectAbsXAddr])
theorem cc_7a (c : Cfg) : HandlerCyc c (Mpu65c02.inst_0x7a c) .PLY .imp :=
  plain_cyc c _ _ _ rfl (fun _ => rfl) (by op_cyc [Mpu65c02.inst_0x7a, Mpu6502.opINCR_acc, Mpu6502.opDECR_acc, Mpu6502.ImmediateByte, Mpu65c02.IndirectAbsXAddr])
theorem cc_89 (c : Cfg) : HandlerCyc c (Mpu65c02.inst_0x89 c) .BIT .imm :=
  plain_cyc c _ _ _ rfl (fun _ => rfl) (by op_cyc [Mpu65c02.inst_0x89, Mpu6502.opINCR_acc, Mpu6502.opDECR_acc, Mpu6502.ImmediateByte, Mpu65c02.IndirectAbsXAddr])
theorem cc_cb (c : Cfg) : HandlerCyc c (Mpu65c02.inst_0xcb c) .WAI .imp :=
  plain_cyc c _ _ _ rfl (fun _ => rfl) (by op_cyc [Mpu65c02.inst_0xcb, Mpu6502.opINCR_acc, Mpu6502.opDECR_acc, Mpu6502.ImmediateByte, Mpu65c02.IndirectAbsXAddr])
theorem cc_1a (c : Cfg) : HandlerCyc c (Mpu65c02.inst_0x1a c) .INC .acc :=
  plain_cyc c _ _ _ rfl (fun _ => rfl) (by op_cyc [Mpu65c02.inst_0x1a, Mpu6502.opINCR_acc, Mpu6502.opDECR_acc, Mpu6502.ImmediateByte, Mpu65c02.IndirectAbsXAddr])
theorem cc_3a (c : Cfg) : HandlerCyc c (Mpu65c02.inst_0x3a c) .DEC .acc :=
  plain_cyc c _ _ _ rfl (fun _ => rfl) (by op_cyc [Mpu65c02.inst_0x3a, Mpu6502.opINCR_acc, Mpu6502.opDECR_acc, Mpu6502.ImmediateByte, Mpu65c02.IndirectAbsXAddr])
theorem cc_6c (c : Cfg) : HandlerCyc c (Mpu65c02.inst_0x6c c) .JMP .ind :=
  plain_cyc c _ _ _ rfl (fun _ => rfl) (by op_cyc [Mpu65c02.inst_0x6c, Mpu6502.opINCR_acc, Mpu6502.opDECR_acc, Mpu6502.ImmediateByte, Mpu65c02.IndirectAbsXAddr])
theorem cc_7c (c : Cfg) : HandlerCyc c (Mpu65c02.inst_0x7c c) .JMP .iax :=
  plain_cyc c _ _ _ rfl (fun _ => rfl) (by op_cyc [Mpu65c02.inst_0x7c, Mpu6502.opINCR_acc, Mpu6502.opDECR_acc, Mpu6502.ImmediateByte, Mpu65c02.IndirectAbsXAddr])

end Py65.Proofs
