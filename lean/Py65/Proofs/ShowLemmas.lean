/-
Helper lemmas for C19 about the display-command model `Py65/Model/Show.lean`: closed forms of
`advance`, and the two inductions on the fuel of `walk` (what a completed walk visited; when a walk
completes).  Property theorems: `Py65/Props/C19c.lean`.
-/
import Py65.Model.Show
import Mathlib.Tactic.SplitIfs
import Mathlib.Data.List.Forall2

namespace Py65.Proofs.Show
open Py65.Model.PyStr Py65.Model.Show

/-- In an ordinary range (`start ≤ end`) the address just advances by the length. -/
theorem advance_plain (maxA : Int) : ∀ (n : Nat) (cur : Int) (nw : Bool),
    advance maxA false n cur nw = (cur + n, nw) := by
  intro n
  induction n with
  | zero => intro cur nw; simp [advance]
  | succ k ih =>
    intro cur nw
    simp only [advance, Bool.false_eq_true, false_and, if_false, ih]
    ext
    · push_cast; omega
    · rfl

/-- In a wrapping range (`start > end`) the address advances by the length modulo the size of the
address space, and passing the top ends the `needs_wrap` phase. -/
theorem advance_wrap (maxA : Int) : ∀ (n : Nat) (cur : Int) (nw : Bool), 0 ≤ cur → cur ≤ maxA → (n : Int) ≤ maxA + 1 →
    advance maxA true n cur nw = if cur + n > maxA then (cur + n - (maxA + 1), false) else (cur + n, nw) := by
  intro n
  induction n with
  | zero =>
    intro cur nw _ h2 _
    have : ¬ (cur + ((0 : Nat) : Int) > maxA) := by simp; omega
    rw [if_neg this]
    simp [advance]
  | succ k ih =>
    intro cur nw h1 h2 h3
    simp only [advance, true_and]
    by_cases hc : cur + 1 > maxA
    · have hk : ¬ ((0 : Int) + (k : Int) > maxA) := by push_cast at h3; omega
      have hk' : cur + ((k + 1 : Nat) : Int) > maxA := by push_cast; omega
      rw [if_pos hc, ih 0 false (Int.le_refl 0) (by omega) (by push_cast at h3; omega), if_neg hk, if_pos hk']
      ext
      · push_cast; omega
      · rfl
    · rw [if_neg hc, ih (cur + 1) nw (by omega) (by omega) (by push_cast at h3; omega)]
      by_cases hw : cur + 1 + (k : Int) > maxA
      · have hw' : cur + ((k + 1 : Nat) : Int) > maxA := by push_cast; omega
        rw [if_pos hw, if_pos hw']
        ext
        · push_cast; omega
        · rfl
      · have hw' : ¬ (cur + ((k + 1 : Nat) : Int) > maxA) := by push_cast; omega
        rw [if_neg hw, if_neg hw']
        ext
        · push_cast; omega
        · rfl

/-- `advance` never produces a negative address from one that is not negative. -/
theorem advance_nonneg (maxA : Int) (w : Bool) : ∀ (n : Nat) (cur : Int) (nw : Bool), 0 ≤ cur →
    0 ≤ (advance maxA w n cur nw).1 := by
  intro n
  induction n with
  | zero => intro cur nw h; simpa [advance] using h
  | succ k ih =>
    intro cur nw h
    simp only [advance]
    split_ifs
    · exact ih 0 false (Int.le_refl 0)
    · exact ih (cur + 1) nw (by omega)

variable {ε : Type} (iat : Int → Except ε (Int × Str)) (fmt : Int → Int → Str → Except ε Str)

/-- What a COMPLETED walk printed: one line per visited instruction, in order, each the formatter's
text for (address, length, instruction text). -/
theorem walk_visits (maxA start end_ : Int) :
    ∀ (fuel : Nat) (cur : Int) (nw : Bool) (lines : List Str),
      walk iat fmt maxA start end_ fuel cur nw = (lines, .done) →
      ∃ vs, Visits iat maxA start end_ cur nw vs ∧
        List.Forall₂ (fun v line => fmt v.1 v.2.1 v.2.2 = .ok line) vs lines := by
  intro fuel
  induction fuel with
  | zero => intro cur nw lines h; simp [walk] at h
  | succ f ih =>
    intro cur nw lines h
    unfold walk at h
    by_cases hc : nw = true ∨ cur ≤ end_
    · simp only [hc, if_true] at h
      cases hi : iat cur with
      | error e => simp [hi] at h
      | ok t =>
        obtain ⟨len, text⟩ := t
        simp only [hi] at h
        cases hf : fmt cur len text with
        | error e => simp [hf] at h
        | ok line =>
          simp only [hf] at h
          by_cases hl : 0 ≤ len ∧ len < (f : Int)
          · simp only [hl, and_self, if_true, Prod.mk.injEq] at h
            obtain ⟨h1, h2⟩ := h
            obtain ⟨vs, hv, hfa⟩ := ih _ _ _ (Prod.ext rfl h2)
            refine ⟨(cur, len, text) :: vs, Visits.step hc hi hl.1 hv, ?_⟩
            rw [← h1]
            exact List.Forall₂.cons hf hfa
          · simp [hl] at h
    · simp only [hc, if_false, Prod.mk.injEq] at h
      exact ⟨[], Visits.stop hc, by rw [← h.1]; exact List.Forall₂.nil⟩

/-- In an ordinary range the visited instructions are consecutive: `Steps`. -/
theorem visits_plain (maxA start end_ : Int) (hse : ¬ start > end_) :
    ∀ (vs : List (Int × Int × Str)) (cur : Int), Visits iat maxA start end_ cur false vs → Steps iat end_ cur vs := by
  intro vs
  induction vs with
  | nil =>
    intro cur h
    cases h with
    | stop hn => exact Steps.stop (by simp at hn; omega)
  | cons v rest ih =>
    intro cur h
    cases h with
    | step hc hi hl hv =>
      have hd : decide (start > end_) = false := by simpa using hse
      rw [hd, advance_plain] at hv
      simp only [Bool.false_eq_true, false_or] at hc
      rename_i len text
      have : (len.toNat : Int) = len := Int.toNat_of_nonneg hl
      rw [this] at hv
      exact Steps.step hc hi hl (ih _ hv)

/-- Every visited address and length is non-negative when the walk starts at one. -/
theorem visits_nonneg (maxA start end_ : Int) :
    ∀ (vs : List (Int × Int × Str)) (cur : Int) (nw : Bool), 0 ≤ cur → Visits iat maxA start end_ cur nw vs →
      ∀ v ∈ vs, 0 ≤ v.1 ∧ 0 ≤ v.2.1 := by
  intro vs
  induction vs with
  | nil => intro cur nw _ _ v hv; simp at hv
  | cons w rest ih =>
    intro cur nw h0 h v hv
    cases h with
    | step hc hi hl hvs =>
      rcases List.mem_cons.1 hv with rfl | hm
      · exact ⟨h0, hl⟩
      · exact ih _ _ (advance_nonneg _ _ _ _ _ h0) hvs v hm

/-- An ordinary range whose instructions all have a length in `1 … L` and a printable line is walked
to its end within `cells + L + 1` units of fuel (`cells` = addresses from `cur` to `end`). -/
theorem walk_complete (maxA start end_ : Int) (hse : ¬ start > end_) (L : Nat)
    (hi : ∀ a, a ≤ end_ → ∃ len text line, iat a = .ok (len, text) ∧ 1 ≤ len ∧ len ≤ (L : Int) ∧
      fmt a len text = .ok line) :
    ∀ (fuel : Nat) (cur : Int), (end_ - cur + 1).toNat + L + 1 ≤ fuel →
      (walk iat fmt maxA start end_ fuel cur false).2 = .done := by
  intro fuel
  induction fuel with
  | zero => intro cur h; omega
  | succ f ih =>
    intro cur h
    unfold walk
    by_cases hc : cur ≤ end_
    · obtain ⟨len, text, line, h1, h2, h3, h4⟩ := hi cur hc
      have hl : 0 ≤ len ∧ len < (f : Int) := by omega
      have hd : decide (start > end_) = false := by simpa using hse
      simp only [Bool.false_eq_true, false_or, hc, if_true, h1, h4, hl, and_self, hd, advance_plain]
      apply ih
      have : (len.toNat : Int) = len := Int.toNat_of_nonneg (by omega)
      omega
    · simp [hc]

/-- `advance` never sets the flag. -/
theorem advance_flag_false (maxA : Int) (w : Bool) : ∀ (n : Nat) (cur : Int), (advance maxA w n cur false).2 = false := by
  intro n
  induction n with
  | zero => intro cur; rfl
  | succ k ih => intro cur; simp only [advance]; split_ifs <;> exact ih _

/-- While a wrapping walk still has to wrap, its address is inside the address space. -/
theorem advance_flag_le (maxA : Int) : ∀ (n : Nat) (cur : Int) (nw : Bool), cur ≤ maxA →
    (advance maxA true n cur nw).2 = true → (advance maxA true n cur nw).1 ≤ maxA := by
  intro n
  induction n with
  | zero => intro cur nw h _; simpa [advance] using h
  | succ k ih =>
    intro cur nw h hf
    simp only [advance, true_and] at hf ⊢
    by_cases hc : cur + 1 > maxA
    · rw [if_pos hc] at hf
      rw [advance_flag_false] at hf
      exact absurd hf (by simp)
    · rw [if_neg hc] at hf ⊢
      exact ih _ _ (by omega) hf

/-- Every visited address lies inside the address space when the range does (`end ≤ maxA`, and
`start ≤ maxA` for a wrapping walk). -/
theorem visits_le (maxA start end_ : Int) (he : end_ ≤ maxA) :
    ∀ (vs : List (Int × Int × Str)) (cur : Int) (nw : Bool),
      (nw = true → decide (start > end_) = true ∧ cur ≤ maxA) → Visits iat maxA start end_ cur nw vs →
      ∀ v ∈ vs, v.1 ≤ maxA := by
  intro vs
  induction vs with
  | nil => intro cur nw _ _ v hv; simp at hv
  | cons w rest ih =>
    intro cur nw hinv h v hv
    cases h with
    | step hc hi hl hvs =>
      have hcur : cur ≤ maxA := by
        rcases hc with hnw | hle
        · exact (hinv hnw).2
        · omega
      rcases List.mem_cons.1 hv with rfl | hm
      · exact hcur
      · refine ih _ _ ?_ hvs v hm
        intro hf
        cases nw with
        | false => rw [advance_flag_false] at hf; exact absurd hf (by simp)
        | true =>
          have hw := (hinv rfl).1
          rw [hw] at hf ⊢
          exact ⟨rfl, advance_flag_le maxA _ _ _ hcur hf⟩

theorem forall₂_and_left {α β : Type} {R : α → β → Prop} {Q : α → Prop} :
    ∀ {l : List α} {m : List β}, List.Forall₂ R l m → (∀ a ∈ l, Q a) → List.Forall₂ (fun a b => Q a ∧ R a b) l m := by
  intro l m h
  induction h with
  | nil => intro _; exact List.Forall₂.nil
  | cons hr _ ih =>
    intro hq
    exact List.Forall₂.cons ⟨hq _ (List.mem_cons_self ..), hr⟩ (ih fun a ha => hq a (List.mem_cons_of_mem _ ha))

end Py65.Proofs.Show
