/-
Operation helpers of the generated model meet `Spec.exec` (aspect *sem*), at both widths.
Each lemma is stated for an arbitrary addressing-mode helper satisfying `ModeSem`, so a handler
theorem is an instance `op-lemma (mode-lemma)`.
-/
import Py65.Proofs.Modes

set_option linter.unusedSimpArgs false

namespace Py65.Proofs
open Py65 Py65.Gen Py65.Spec Py

/-- Forcing bits 4 and 5 commutes with writing any architectural flag. -/
theorem normP_setFlag (p : Int) (k : Nat) (b : Bool) (hk : k ∈ [0, 1, 2, 3, 6, 7, 14, 15]) :
    normP (setFlag p k b) = setFlag (normP p) k b := by
  simp only [List.mem_cons, List.mem_nil_iff, or_false] at hk
  rcases hk with rfl | rfl | rfl | rfl | rfl | rfl | rfl | rfl <;>
  · simp only [normP, setFlag, bitB, bitU]
    cases b <;> simp <;> omega

theorem flag_normP (p : Int) (k : Nat) (hk : k ∈ [0, 1, 2, 3, 6, 7, 14, 15]) :
    flag (normP p) k = flag p k := by
  simp only [List.mem_cons, List.mem_nil_iff, or_false] at hk
  rcases hk with rfl | rfl | rfl | rfl | rfl | rfl | rfl | rfl <;>
  · simp only [normP, setFlag, flag, bitB, bitU]
    simp [eqB]; omega

theorem normP_setNZ (W : Nat) (hW : W = 8 ∨ W = 16) (p v : Int) :
    normP (setNZ W p v) = setNZ W (normP p) v := by
  rcases hW with rfl | rfl <;>
  · simp only [setNZ, bitN, bitZ]
    rw [normP_setFlag _ _ _ (by decide), normP_setFlag _ _ _ (by decide)]

theorem IsDev.W {c : Cfg} (hc : IsDev c) : c.BYTE_WIDTH = 8 ∨ c.BYTE_WIDTH = 16 := by
  rcases hc with rfl | rfl <;> simp [pyarith]

/-- `ea` and the operand fetches do not look at the status register. -/
theorem ea_abs (W : Nat) (mo : Mode) (s : St) : ea W mo (abs s) = ea W mo (core s) := by
  cases mo <;> rfl
theorem nextPc_abs (W : Nat) (mo : Mode) (s : St) : nextPc W mo (abs s) = nextPc W mo (core s) := rfl

theorem FlagsNZ_core (c : Cfg) (hc : IsDev c) (v : Int) (s : St) (hv : 0 ≤ v ∧ v ≤ c.byteMask) :
    core (Mpu6502.FlagsNZ c v s) = { core s with p := setNZ c.BYTE_WIDTH s.p v } := by
  rcases hc with rfl | rfl <;>
  · simp only [Mpu6502.FlagsNZ, core]
    constfold [setNZ] at hv ⊢
    simp only [flagalg]
    split <;> simp [flagalg, *] <;> flag_close

/-- What a handler theorem says: for every well-formed state after the opcode fetch, the
handler's effect (PC reduced modulo the address space, status bits 4/5 forced) is `Spec.exec`. -/
def HandlerOK (c : Cfg) (v : Variant) (h : St → St) (mn : Mn) (mo : Mode) : Prop :=
  ∀ s, WF c s → absH c (h s) = exec c.BYTE_WIDTH v mn mo (abs s)

/-- Handler theorem under a precondition on the state after the opcode fetch (JSR: the pushed
cells are not the instruction's own operand bytes; ADC/SBC: decimal flag clear). -/
def HandlerOKp (c : Cfg) (v : Variant) (h : St → St) (mn : Mn) (mo : Mode) (P : St → Prop) : Prop :=
  ∀ s, WF c s → P s → absH c (h s) = exec c.BYTE_WIDTH v mn mo (abs s)

theorem HandlerOK.toP {c : Cfg} {v : Variant} {h : St → St} {mn : Mn} {mo : Mode}
    (hh : HandlerOK c v h mn mo) (P : St → Prop) : HandlerOKp c v h mn mo P :=
  fun s hs _ => hh s hs

/-- `pc += k` after the operation, as every handler does. -/
def bump (k : Int) (s : St) : St := { s with pc := s.pc + k }

theorem addrMask_succ {c : Cfg} (hc : IsDev c) : c.addrMask + 1 = AM c.BYTE_WIDTH := by
  rcases hc with rfl | rfl <;> simp [AM, pyarith]


/-! ### projections of `FlagsNZ` -/
section
variable (c : Cfg) (v : Int) (s : St)
@[simp] theorem FlagsNZ_a : (Mpu6502.FlagsNZ c v s).a = s.a := by unfold Mpu6502.FlagsNZ; simp only []; split <;> rfl
@[simp] theorem FlagsNZ_x : (Mpu6502.FlagsNZ c v s).x = s.x := by unfold Mpu6502.FlagsNZ; simp only []; split <;> rfl
@[simp] theorem FlagsNZ_y : (Mpu6502.FlagsNZ c v s).y = s.y := by unfold Mpu6502.FlagsNZ; simp only []; split <;> rfl
@[simp] theorem FlagsNZ_sp : (Mpu6502.FlagsNZ c v s).sp = s.sp := by unfold Mpu6502.FlagsNZ; simp only []; split <;> rfl
@[simp] theorem FlagsNZ_pc : (Mpu6502.FlagsNZ c v s).pc = s.pc := by unfold Mpu6502.FlagsNZ; simp only []; split <;> rfl
@[simp] theorem FlagsNZ_mem : (Mpu6502.FlagsNZ c v s).mem = s.mem := by unfold Mpu6502.FlagsNZ; simp only []; split <;> rfl
@[simp] theorem FlagsNZ_waiting : (Mpu6502.FlagsNZ c v s).waiting = s.waiting := by unfold Mpu6502.FlagsNZ; simp only []; split <;> rfl
theorem FlagsNZ_p (hc : IsDev c) (hv : 0 ≤ v ∧ v ≤ c.byteMask) :
    (Mpu6502.FlagsNZ c v s).p = setNZ c.BYTE_WIDTH s.p v := by
  have := congrArg AState.p (FlagsNZ_core c hc v s hv)
  simpa [core] using this
end

/-- Projection lemmas used to compute the fields of a handler's final state. -/
macro "proj_simp" : tactic =>
  `(tactic| simp only [absH, abs, bump, core, ByteAt_val, ByteAt_a, ByteAt_x, ByteAt_y,
    ByteAt_sp, ByteAt_p, ByteAt_pc, ByteAt_mem, ByteAt_waiting, FlagsNZ_a, FlagsNZ_x, FlagsNZ_y,
    FlagsNZ_sp, FlagsNZ_pc, FlagsNZ_mem, FlagsNZ_waiting, nextPc, *])

theorem opLDA_ok (c : Cfg) (hc : IsDev c) (v : Variant) (x : St → Int × St) (mo : Mode)
    (hx : ModeSem c x mo) :
    HandlerOK c v (fun s => bump (mo.len - 1) (Mpu6502.opLDA c x s)) .LDA mo := by
  intro s hs
  obtain ⟨hv, hcore⟩ := hx s hs
  obtain ⟨ha, hxx, hy, hsp, hp, hpc, hmem, hw⟩ := core_fields hcore
  have hm := hs.mem (ea c.BYTE_WIDTH mo (core s))
  simp only [exec, ea_abs, nextPc_abs]
  generalize ea c.BYTE_WIDTH mo (core s) = e at hv hm
  simp only [Mpu6502.opLDA]
  proj_simp
  rw [FlagsNZ_p c _ _ hc (by simpa [hmem, hv] using hm)]
  simp only [hp, hmem, hv, ByteAt_p, ByteAt_val, normP_setNZ _ hc.W, addrMask_succ hc]


theorem opLDX_ok (c : Cfg) (hc : IsDev c) (v : Variant) (x : St → Int × St) (mo : Mode)
    (hx : ModeSem c x mo) :
    HandlerOK c v (fun s => bump (mo.len - 1) (Mpu6502.opLDX c x s)) .LDX mo := by
  intro s hs
  obtain ⟨hv, hcore⟩ := hx s hs
  obtain ⟨ha, hxx, hy, hsp, hp, hpc, hmem, hw⟩ := core_fields hcore
  have hm := hs.mem (ea c.BYTE_WIDTH mo (core s))
  simp only [exec, ea_abs, nextPc_abs]
  generalize ea c.BYTE_WIDTH mo (core s) = e at hv hm
  simp only [Mpu6502.opLDX]
  proj_simp
  rw [FlagsNZ_p c _ _ hc (by simpa [hmem, hv] using hm)]
  simp only [hp, hmem, hv, ByteAt_p, ByteAt_val, normP_setNZ _ hc.W, addrMask_succ hc]

theorem opLDY_ok (c : Cfg) (hc : IsDev c) (v : Variant) (x : St → Int × St) (mo : Mode)
    (hx : ModeSem c x mo) :
    HandlerOK c v (fun s => bump (mo.len - 1) (Mpu6502.opLDY c x s)) .LDY mo := by
  intro s hs
  obtain ⟨hv, hcore⟩ := hx s hs
  obtain ⟨ha, hxx, hy, hsp, hp, hpc, hmem, hw⟩ := core_fields hcore
  have hm := hs.mem (ea c.BYTE_WIDTH mo (core s))
  simp only [exec, ea_abs, nextPc_abs]
  generalize ea c.BYTE_WIDTH mo (core s) = e at hv hm
  simp only [Mpu6502.opLDY]
  proj_simp
  rw [FlagsNZ_p c _ _ hc (by simpa [hmem, hv] using hm)]
  simp only [hp, hmem, hv, ByteAt_p, ByteAt_val, normP_setNZ _ hc.W, addrMask_succ hc]

/-! ### logic -/

theorem byte_pow {c : Cfg} (hc : IsDev c) : c.byteMask + 1 = 2 ^ c.BYTE_WIDTH := by
  rcases hc with rfl | rfl <;> simp [pyarith]

theorem lor_byte {c : Cfg} (hc : IsDev c) (x y : Int) (hx : 0 ≤ x ∧ x ≤ c.byteMask)
    (hy : 0 ≤ y ∧ y ≤ c.byteMask) : 0 ≤ lor x y ∧ lor x y ≤ c.byteMask := by
  have h := byte_pow hc
  have := lor_range x y c.BYTE_WIDTH hx.1 (by omega) hy.1 (by omega)
  omega
theorem lxor_byte {c : Cfg} (hc : IsDev c) (x y : Int) (hx : 0 ≤ x ∧ x ≤ c.byteMask)
    (hy : 0 ≤ y ∧ y ≤ c.byteMask) : 0 ≤ lxor x y ∧ lxor x y ≤ c.byteMask := by
  have h := byte_pow hc
  have := lxor_range x y c.BYTE_WIDTH hx.1 (by omega) hy.1 (by omega)
  omega
theorem land_byte {c : Cfg} (x y : Int) (hy : 0 ≤ y ∧ y ≤ c.byteMask) :
    0 ≤ land x y ∧ land x y ≤ c.byteMask := by
  have := land_nonneg x y hy.1
  have := land_le_right x y hy.1
  omega

theorem opORA_ok (c : Cfg) (hc : IsDev c) (v : Variant) (x : St → Int × St) (mo : Mode)
    (hx : ModeSem c x mo) :
    HandlerOK c v (fun s => bump (mo.len - 1) (Mpu6502.opORA c x s)) .ORA mo := by
  intro s hs
  obtain ⟨hv, hcore⟩ := hx s hs
  obtain ⟨ha, hxx, hy, hsp, hp, hpc, hmem, hw⟩ := core_fields hcore
  have hm := hs.mem (ea c.BYTE_WIDTH mo (core s))
  simp only [exec, ea_abs, nextPc_abs]
  generalize ea c.BYTE_WIDTH mo (core s) = e at hv hm
  simp only [Mpu6502.opORA]
  proj_simp
  rw [FlagsNZ_p c _ _ hc (by simpa [ha, hmem, hv] using lor_byte hc _ _ hs.a hm)]
  simp only [hp, ha, hmem, hv, ByteAt_p, ByteAt_a, ByteAt_val, normP_setNZ _ hc.W, addrMask_succ hc]

theorem opAND_ok (c : Cfg) (hc : IsDev c) (v : Variant) (x : St → Int × St) (mo : Mode)
    (hx : ModeSem c x mo) :
    HandlerOK c v (fun s => bump (mo.len - 1) (Mpu6502.opAND c x s)) .AND mo := by
  intro s hs
  obtain ⟨hv, hcore⟩ := hx s hs
  obtain ⟨ha, hxx, hy, hsp, hp, hpc, hmem, hw⟩ := core_fields hcore
  have hm := hs.mem (ea c.BYTE_WIDTH mo (core s))
  simp only [exec, ea_abs, nextPc_abs]
  generalize ea c.BYTE_WIDTH mo (core s) = e at hv hm
  simp only [Mpu6502.opAND]
  proj_simp
  rw [FlagsNZ_p c _ _ hc (by simpa [ha, hmem, hv] using land_byte (c := c) s.a _ hm)]
  simp only [hp, ha, hmem, hv, ByteAt_p, ByteAt_a, ByteAt_val, normP_setNZ _ hc.W, addrMask_succ hc]

theorem opEOR_ok (c : Cfg) (hc : IsDev c) (v : Variant) (x : St → Int × St) (mo : Mode)
    (hx : ModeSem c x mo) :
    HandlerOK c v (fun s => bump (mo.len - 1) (Mpu6502.opEOR c x s)) .EOR mo := by
  intro s hs
  obtain ⟨hv, hcore⟩ := hx s hs
  obtain ⟨ha, hxx, hy, hsp, hp, hpc, hmem, hw⟩ := core_fields hcore
  have hm := hs.mem (ea c.BYTE_WIDTH mo (core s))
  simp only [exec, ea_abs, nextPc_abs]
  generalize ea c.BYTE_WIDTH mo (core s) = e at hv hm
  simp only [Mpu6502.opEOR]
  proj_simp
  rw [FlagsNZ_p c _ _ hc (by simpa [ha, hmem, hv] using lxor_byte hc _ _ hs.a hm)]
  simp only [hp, ha, hmem, hv, ByteAt_p, ByteAt_a, ByteAt_val, normP_setNZ _ hc.W, addrMask_succ hc]

/-! ### stores -/

theorem opSTA_ok (c : Cfg) (hc : IsDev c) (v : Variant) (x : St → Int × St) (mo : Mode)
    (hx : ModeSem c x mo) :
    HandlerOK c v (fun s => bump (mo.len - 1) (Mpu6502.opSTA c x s)) .STA mo := by
  intro s hs
  obtain ⟨hv, hcore⟩ := hx s hs
  obtain ⟨ha, hxx, hy, hsp, hp, hpc, hmem, hw⟩ := core_fields hcore
  simp only [exec, ea_abs, nextPc_abs]
  generalize ea c.BYTE_WIDTH mo (core s) = e at hv
  simp only [Mpu6502.opSTA, memSet, write]
  proj_simp
  simp only [addrMask_succ hc]

theorem opSTX_ok (c : Cfg) (hc : IsDev c) (v : Variant) (x : St → Int × St) (mo : Mode)
    (hx : ModeSem c x mo) :
    HandlerOK c v (fun s => bump (mo.len - 1) (Mpu6502.opSTX c x s)) .STX mo := by
  intro s hs
  obtain ⟨hv, hcore⟩ := hx s hs
  obtain ⟨ha, hxx, hy, hsp, hp, hpc, hmem, hw⟩ := core_fields hcore
  simp only [exec, ea_abs, nextPc_abs]
  generalize ea c.BYTE_WIDTH mo (core s) = e at hv
  simp only [Mpu6502.opSTX, memSet, write]
  proj_simp
  simp only [addrMask_succ hc]

theorem opSTY_ok (c : Cfg) (hc : IsDev c) (v : Variant) (x : St → Int × St) (mo : Mode)
    (hx : ModeSem c x mo) :
    HandlerOK c v (fun s => bump (mo.len - 1) (Mpu6502.opSTY c x s)) .STY mo := by
  intro s hs
  obtain ⟨hv, hcore⟩ := hx s hs
  obtain ⟨ha, hxx, hy, hsp, hp, hpc, hmem, hw⟩ := core_fields hcore
  simp only [exec, ea_abs, nextPc_abs]
  generalize ea c.BYTE_WIDTH mo (core s) = e at hv
  simp only [Mpu6502.opSTY, memSet, write]
  proj_simp
  simp only [addrMask_succ hc]


/-! ### compare -/

theorem opCMPR_core (c : Cfg) (hc : IsDev c) (x : St → Int × St) (mo : Mode) (hx : ModeSem c x mo)
    (r : Int) (hr : 0 ≤ r ∧ r ≤ c.byteMask) (s : St) (hs : WF c s) :
    core (Mpu6502.opCMPR c x r s) =
      { core s with p := cmpFlags c.BYTE_WIDTH s.p r (s.mem (ea c.BYTE_WIDTH mo (core s))) } := by
  obtain ⟨hv, hcore⟩ := hx s hs
  obtain ⟨ha, hxx, hy, hsp, hp, hpc, hmem, hw⟩ := core_fields hcore
  have hm := hs.mem (ea c.BYTE_WIDTH mo (core s))
  generalize ea c.BYTE_WIDTH mo (core s) = e at hv hm
  simp only [Mpu6502.opCMPR, ByteAt_val, ByteAt_p, hp, hmem, hv]
  generalize s.mem e = m at hm
  rcases hc with rfl | rfl <;>
  · constfold [cmpFlags, setNZ] at hr hm ⊢
    simp only [flagalg]
    split_ifs <;> simp [core, flagalg, *] <;> flag_close

theorem normP_cmpFlags (W : Nat) (hW : W = 8 ∨ W = 16) (p r m : Int) :
    normP (cmpFlags W p r m) = cmpFlags W (normP p) r m := by
  rcases hW with rfl | rfl <;>
  · simp only [cmpFlags, normP_setNZ _ (by decide : (8:Nat) = 8 ∨ (8:Nat) = 16),
      normP_setNZ _ (by decide : (16:Nat) = 8 ∨ (16:Nat) = 16), bitC]
    rw [normP_setFlag _ _ _ (by decide)]

theorem opCMP_ok (c : Cfg) (hc : IsDev c) (v : Variant) (x : St → Int × St) (mo : Mode)
    (hx : ModeSem c x mo) :
    HandlerOK c v (fun s => bump (mo.len - 1) (Mpu6502.opCMPR c x s.a s)) .CMP mo := by
  intro s hs
  have h := opCMPR_core c hc x mo hx s.a hs.a s hs
  obtain ⟨ha, hxx, hy, hsp, hp, hpc, hmem, hw⟩ := core_eq h
  simp only [exec, ea_abs, nextPc_abs]
  simp only [absH, abs, bump, core, nextPc, ha, hxx, hy, hsp, hp, hpc, hmem, hw,
    normP_cmpFlags _ hc.W, addrMask_succ hc]

theorem opCPX_ok (c : Cfg) (hc : IsDev c) (v : Variant) (x : St → Int × St) (mo : Mode)
    (hx : ModeSem c x mo) :
    HandlerOK c v (fun s => bump (mo.len - 1) (Mpu6502.opCMPR c x s.x s)) .CPX mo := by
  intro s hs
  have h := opCMPR_core c hc x mo hx s.x hs.x s hs
  obtain ⟨ha, hxx, hy, hsp, hp, hpc, hmem, hw⟩ := core_eq h
  simp only [exec, ea_abs, nextPc_abs]
  simp only [absH, abs, bump, core, nextPc, ha, hxx, hy, hsp, hp, hpc, hmem, hw,
    normP_cmpFlags _ hc.W, addrMask_succ hc]

theorem opCPY_ok (c : Cfg) (hc : IsDev c) (v : Variant) (x : St → Int × St) (mo : Mode)
    (hx : ModeSem c x mo) :
    HandlerOK c v (fun s => bump (mo.len - 1) (Mpu6502.opCMPR c x s.y s)) .CPY mo := by
  intro s hs
  have h := opCMPR_core c hc x mo hx s.y hs.y s hs
  obtain ⟨ha, hxx, hy, hsp, hp, hpc, hmem, hw⟩ := core_eq h
  simp only [exec, ea_abs, nextPc_abs]
  simp only [absH, abs, bump, core, nextPc, ha, hxx, hy, hsp, hp, hpc, hmem, hw,
    normP_cmpFlags _ hc.W, addrMask_succ hc]

end Py65.Proofs
