/-
Closure facts for C05: undeclared opcodes, and well-formedness of the state after step/irq/nmi/reset.
-/
import Py65.Proofs.Interrupts

set_option linter.unusedSimpArgs false

namespace Py65.Proofs
open Py65 Py65.Gen Py65.Spec Py

/-- An opcode byte whose table slot is the default handler changes nothing but PC (+2, modulo the
address space) - registers, flags, memory and the cycle counter stay (given a zero cycle entry). -/
theorem step_undeclared (c : Cfg) (hc : IsDev c) (t : Tbl) (s : St) (hs : WF c s)
    (h : t.instruct (s.mem s.pc) = Mpu6502.inst_not_implemented c) (hc0 : t.cycletime (s.mem s.pc) = 0) :
    core (Mpu6502.step c t s) = { core s with pc := (s.pc + 2) % AM c.BYTE_WIDTH } ∧
    (Mpu6502.step c t s).cycles = s.cycles := by
  have hpc := hs.pc
  rw [step_unfold, h, hc0]
  simp only [Mpu6502.inst_not_implemented, afterFetch, core]
  rcases hc with rfl | rfl <;>
  · constfold at hpc ⊢
    simp only [pyarith]
    refine ⟨?_, by omega⟩
    simp only [AState.mk.injEq, true_and, and_true]
    omega

/-- In-range value of `normP`: forcing bits 4/5 keeps a byte a byte and reflects negativity. -/
theorem normP_nonneg_iff (p : Int) : 0 ≤ normP p ↔ 0 ≤ p := by
  simp only [normP, setFlag, bitB, bitU]; simp; omega

end Py65.Proofs
