/-
Specification-level pairing theorems (C06): whatever ran in between, as long as it left the
stack pointer and the pushed cells as the entry sequence made them, RTI / RTS undo IRQ / NMI /
BRK / JSR for EVERY stack pointer, including the wrap-around cases.
-/
import Py65.Proofs.CpuBase

set_option linter.unusedSimpArgs false

namespace Py65.Proofs
open Py65.Spec

/-- Abstract well-formedness (what `abs` of a well-formed model state satisfies). -/
structure AWF (W : Nat) (a : AState) : Prop where
  sp : 0 ≤ a.sp ∧ a.sp < BM W
  pc : 0 ≤ a.pc ∧ a.pc < AM W
  p : 0 ≤ a.p ∧ a.p < BM W
  pn : normP a.p = a.p

/-- The three cells an interrupt entry pushes, and the two a JSR pushes. -/
def frame3 (W : Nat) (sp : Int) : List Int :=
  [BM W + sp, BM W + (sp - 1) % BM W, BM W + ((sp - 1) % BM W - 1) % BM W]
def frame2 (W : Nat) (sp : Int) : List Int := [BM W + sp, BM W + (sp - 1) % BM W]

/-- `s'` has the stack pointer of `s1` and agrees with it on the listed cells. -/
def SameFrame (cells : List Int) (s1 s' : AState) : Prop :=
  s'.sp = s1.sp ∧ ∀ k ∈ cells, s'.mem k = s1.mem k

theorem rti_after_interrupt (W : Nat) (hW : W = 8 ∨ W = 16) (v : Variant) (vec : Int) (s s' : AState)
    (hs : AWF W s) (hf : SameFrame (frame3 W s.sp) (interrupt W vec s) s') :
    let r := exec W v .RTI .imp s'
    r.pc = s.pc ∧ r.sp = s.sp ∧ r.p = s.p := by
  obtain ⟨hsp, hmem⟩ := hf
  have hspr := hs.sp; have hpcr := hs.pc; have hpr := hs.p; have hpn := hs.pn
  have m1 := hmem (BM W + s.sp) (by simp [frame3])
  have m2 := hmem (BM W + (s.sp - 1) % BM W) (by simp [frame3])
  have m3 := hmem (BM W + ((s.sp - 1) % BM W - 1) % BM W) (by simp [frame3])
  rcases hW with rfl | rfl
  · simp only [exec, pull, interrupt, push, write] at hsp m1 m2 m3 ⊢
    constfold at hspr hpcr hpr hsp m1 m2 m3 ⊢
    have a1 : 256 + (s'.sp + 1) % 256 = 256 + ((s.sp - 1) % 256 - 1) % 256 := by omega
    have a2 : 256 + ((s'.sp + 1) % 256 + 1) % 256 = 256 + (s.sp - 1) % 256 := by omega
    have a3 : 256 + (((s'.sp + 1) % 256 + 1) % 256 + 1) % 256 = 256 + s.sp := by omega
    have n1 : ¬ (256 + ((s.sp - 1) % 256 - 1) % 256 = 256 + (s.sp - 1) % 256) := by omega
    have n2 : ¬ (256 + ((s.sp - 1) % 256 - 1) % 256 = 256 + s.sp) := by omega
    have n3 : ¬ (256 + (s.sp - 1) % 256 = 256 + s.sp) := by omega
    have n4 : ¬ (256 + (s.sp - 1) % 256 = 256 + ((s.sp - 1) % 256 - 1) % 256) := by omega
    have n5 : ¬ (256 + s.sp = 256 + ((s.sp - 1) % 256 - 1) % 256) := by omega
    have n6 : ¬ (256 + s.sp = 256 + (s.sp - 1) % 256) := by omega
    simp only [n1, n2, n3, n4, n5, n6, if_true, if_false] at m1 m2 m3
    rw [a1, a2, a3, m1, m2, m3]
    refine ⟨by omega, by omega, ?_⟩
    have : normP (setFlag s.p 4 false) = normP s.p := by simp only [normP, bitB, bitU, flagalg]
    rw [this, hpn]
  · simp only [exec, pull, interrupt, push, write] at hsp m1 m2 m3 ⊢
    constfold at hspr hpcr hpr hsp m1 m2 m3 ⊢
    have a1 : 65536 + (s'.sp + 1) % 65536 = 65536 + ((s.sp - 1) % 65536 - 1) % 65536 := by omega
    have a2 : 65536 + ((s'.sp + 1) % 65536 + 1) % 65536 = 65536 + (s.sp - 1) % 65536 := by omega
    have a3 : 65536 + (((s'.sp + 1) % 65536 + 1) % 65536 + 1) % 65536 = 65536 + s.sp := by omega
    have n1 : ¬ (65536 + ((s.sp - 1) % 65536 - 1) % 65536 = 65536 + (s.sp - 1) % 65536) := by omega
    have n2 : ¬ (65536 + ((s.sp - 1) % 65536 - 1) % 65536 = 65536 + s.sp) := by omega
    have n3 : ¬ (65536 + (s.sp - 1) % 65536 = 65536 + s.sp) := by omega
    have n4 : ¬ (65536 + (s.sp - 1) % 65536 = 65536 + ((s.sp - 1) % 65536 - 1) % 65536) := by omega
    have n5 : ¬ (65536 + s.sp = 65536 + ((s.sp - 1) % 65536 - 1) % 65536) := by omega
    have n6 : ¬ (65536 + s.sp = 65536 + (s.sp - 1) % 65536) := by omega
    simp only [n1, n2, n3, n4, n5, n6, if_true, if_false] at m1 m2 m3
    rw [a1, a2, a3, m1, m2, m3]
    refine ⟨by omega, by omega, ?_⟩
    have : normP (setFlag s.p 4 false) = normP s.p := by simp only [normP, bitB, bitU, flagalg]
    rw [this, hpn]


/-- JSR / RTS: execution resumes right after the three-byte JSR, with the caller's stack pointer. -/
theorem rts_after_jsr (W : Nat) (hW : W = 8 ∨ W = 16) (v : Variant) (s s' : AState)
    (hs : AWF W s) (hf : SameFrame (frame2 W s.sp) (exec W v .JSR .abs s) s') :
    let r := exec W v .RTS .imp s'
    r.pc = (s.pc + 2) % AM W ∧ r.sp = s.sp := by
  obtain ⟨hsp, hmem⟩ := hf
  have hspr := hs.sp; have hpcr := hs.pc; have hpr := hs.p
  have m1 := hmem (BM W + s.sp) (by simp [frame2])
  have m2 := hmem (BM W + (s.sp - 1) % BM W) (by simp [frame2])
  rcases hW with rfl | rfl
  · simp only [exec, pull, push, write] at hsp m1 m2 ⊢
    constfold at hspr hpcr hpr hsp m1 m2 ⊢
    have a1 : 256 + (s'.sp + 1) % 256 = 256 + (s.sp - 1) % 256 := by omega
    have a2 : 256 + ((s'.sp + 1) % 256 + 1) % 256 = 256 + s.sp := by omega
    have n1 : ¬ (256 + (s.sp - 1) % 256 = 256 + s.sp) := by omega
    have n2 : ¬ (256 + s.sp = 256 + (s.sp - 1) % 256) := by omega
    simp only [n1, n2, if_true, if_false] at m1 m2
    rw [a1, a2, m1, m2]
    exact ⟨by omega, by omega⟩
  · simp only [exec, pull, push, write] at hsp m1 m2 ⊢
    constfold at hspr hpcr hpr hsp m1 m2 ⊢
    have a1 : 65536 + (s'.sp + 1) % 65536 = 65536 + (s.sp - 1) % 65536 := by omega
    have a2 : 65536 + ((s'.sp + 1) % 65536 + 1) % 65536 = 65536 + s.sp := by omega
    have n1 : ¬ (65536 + (s.sp - 1) % 65536 = 65536 + s.sp) := by omega
    have n2 : ¬ (65536 + s.sp = 65536 + (s.sp - 1) % 65536) := by omega
    simp only [n1, n2, if_true, if_false] at m1 m2
    rw [a1, a2, m1, m2]
    exact ⟨by omega, by omega⟩

/-- BRK / RTI: execution resumes two bytes after the BRK opcode with the flags of the interrupted
code (on the 65C02 D is cleared only inside the handler: the pushed status still has it). -/
theorem rti_after_brk (W : Nat) (hW : W = 8 ∨ W = 16) (v : Variant) (s s' : AState)
    (hs : AWF W s) (hf : SameFrame (frame3 W s.sp) (exec W v .BRK .imp s) s') :
    let r := exec W v .RTI .imp s'
    r.pc = (s.pc + 1) % AM W ∧ r.sp = s.sp ∧ r.p = s.p := by
  obtain ⟨hsp, hmem⟩ := hf
  have hspr := hs.sp; have hpcr := hs.pc; have hpr := hs.p; have hpn := hs.pn
  have m1 := hmem (BM W + s.sp) (by simp [frame3])
  have m2 := hmem (BM W + (s.sp - 1) % BM W) (by simp [frame3])
  have m3 := hmem (BM W + ((s.sp - 1) % BM W - 1) % BM W) (by simp [frame3])
  rcases hW with rfl | rfl
  · simp only [exec, pull, push, write] at hsp m1 m2 m3 ⊢
    constfold at hspr hpcr hpr hsp m1 m2 m3 ⊢
    have a1 : 256 + (s'.sp + 1) % 256 = 256 + ((s.sp - 1) % 256 - 1) % 256 := by omega
    have a2 : 256 + ((s'.sp + 1) % 256 + 1) % 256 = 256 + (s.sp - 1) % 256 := by omega
    have a3 : 256 + (((s'.sp + 1) % 256 + 1) % 256 + 1) % 256 = 256 + s.sp := by omega
    have n1 : ¬ (256 + ((s.sp - 1) % 256 - 1) % 256 = 256 + (s.sp - 1) % 256) := by omega
    have n2 : ¬ (256 + ((s.sp - 1) % 256 - 1) % 256 = 256 + s.sp) := by omega
    have n3 : ¬ (256 + (s.sp - 1) % 256 = 256 + s.sp) := by omega
    have n4 : ¬ (256 + (s.sp - 1) % 256 = 256 + ((s.sp - 1) % 256 - 1) % 256) := by omega
    have n5 : ¬ (256 + s.sp = 256 + ((s.sp - 1) % 256 - 1) % 256) := by omega
    have n6 : ¬ (256 + s.sp = 256 + (s.sp - 1) % 256) := by omega
    simp only [n1, n2, n3, n4, n5, n6, if_true, if_false] at m1 m2 m3
    rw [a1, a2, a3, m1, m2, m3]
    exact ⟨by omega, by omega, hpn⟩
  · simp only [exec, pull, push, write] at hsp m1 m2 m3 ⊢
    constfold at hspr hpcr hpr hsp m1 m2 m3 ⊢
    have a1 : 65536 + (s'.sp + 1) % 65536 = 65536 + ((s.sp - 1) % 65536 - 1) % 65536 := by omega
    have a2 : 65536 + ((s'.sp + 1) % 65536 + 1) % 65536 = 65536 + (s.sp - 1) % 65536 := by omega
    have a3 : 65536 + (((s'.sp + 1) % 65536 + 1) % 65536 + 1) % 65536 = 65536 + s.sp := by omega
    have n1 : ¬ (65536 + ((s.sp - 1) % 65536 - 1) % 65536 = 65536 + (s.sp - 1) % 65536) := by omega
    have n2 : ¬ (65536 + ((s.sp - 1) % 65536 - 1) % 65536 = 65536 + s.sp) := by omega
    have n3 : ¬ (65536 + (s.sp - 1) % 65536 = 65536 + s.sp) := by omega
    have n4 : ¬ (65536 + (s.sp - 1) % 65536 = 65536 + ((s.sp - 1) % 65536 - 1) % 65536) := by omega
    have n5 : ¬ (65536 + s.sp = 65536 + ((s.sp - 1) % 65536 - 1) % 65536) := by omega
    have n6 : ¬ (65536 + s.sp = 65536 + (s.sp - 1) % 65536) := by omega
    simp only [n1, n2, n3, n4, n5, n6, if_true, if_false] at m1 m2 m3
    rw [a1, a2, a3, m1, m2, m3]
    exact ⟨by omega, by omega, hpn⟩

end Py65.Proofs
