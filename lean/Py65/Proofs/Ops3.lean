/-
Branches, flag set/clear, register transfers and increments, NOP.
-/
import Py65.Proofs.Ops2

set_option linter.unusedSimpArgs false

namespace Py65.Proofs
open Py65 Py65.Gen Py65.Spec Py

theorem BranchRelAddr_core (c : Cfg) (hc : IsDev c) (s : St) (hs : WF c s) :
    core (Mpu6502.BranchRelAddr c s) = { core s with pc := branchTarget c.BYTE_WIDTH (core s) } := by
  have hm := hs.mem s.pc
  have hpc := hs.pc
  simp only [Mpu6502.BranchRelAddr, Mpu6502.ImmediateByte, Mpu6502.ByteAt, memGet]
  rcases hc with rfl | rfl <;>
  · constfold [branchTarget, signed, opnd1, core] at hm hpc ⊢
    simp only [pyarith, Int.reducePow, Int.reduceMul]
    split_ifs <;> simp [core, *] <;> omega


/-- A conditional branch helper (`opBCL` branches when the flag is clear, `opBST` when set),
given how its flag test reads the status register. -/
theorem branch_ok (c : Cfg) (hc : IsDev c) (v : Variant) (f : St → St) (mn : Mn)
    (taken : Int → Bool)
    (hf : ∀ s, f s = if taken s.p then Mpu6502.BranchRelAddr c s else { s with pc := s.pc + 1 })
    (hcond : ∀ p, branchCond c.BYTE_WIDTH mn (normP p) = taken p)
    (hexec : ∀ a : AState, exec c.BYTE_WIDTH v mn .rel a =
      if branchCond c.BYTE_WIDTH mn a.p then { a with pc := branchTarget c.BYTE_WIDTH a }
      else { a with pc := nextPc c.BYTE_WIDTH .rel a }) :
    HandlerOK c v f mn .rel := by
  intro s hs
  rw [hexec, hf]
  have e : (abs s).p = normP s.p := rfl
  rw [e, hcond]
  cases h : taken s.p
  · simp only [Bool.false_eq_true, if_false, absH, abs, core, nextPc, Mode.len, addrMask_succ hc]
    rfl
  · simp only [if_true]
    obtain ⟨ha, hxx, hy, hsp, hp, hpc, hmem, hw⟩ := core_eq (BranchRelAddr_core c hc s hs)
    have hbt : branchTarget c.BYTE_WIDTH (abs s) = branchTarget c.BYTE_WIDTH (core s) := rfl
    simp only [absH, abs, core, ha, hxx, hy, hsp, hp, hpc, hmem, hw, hbt, addrMask_succ hc]
    have : branchTarget c.BYTE_WIDTH (core s) % AM c.BYTE_WIDTH = branchTarget c.BYTE_WIDTH (core s) := by
      simp only [branchTarget]; exact Int.emod_emod_of_dvd _ (dvd_refl _)
    simp only [core] at this
    rw [this]
    rfl


theorem normP_idem (p : Int) : normP (normP p) = normP p := by
  simp only [normP, setFlag, bitB, bitU]; simp; omega

theorem normP_range8 (p : Int) (h : 0 ≤ p ∧ p ≤ 255) : 0 ≤ normP p ∧ normP p ≤ 255 := by
  simp only [normP, setFlag, bitB, bitU]; simp; omega
theorem normP_range16 (p : Int) (h : 0 ≤ p ∧ p ≤ 65535) : 0 ≤ normP p ∧ normP p ≤ 65535 := by
  simp only [normP, setFlag, bitB, bitU]; simp; omega

/-- Brute-force proof of a one-byte handler that touches registers/flags only. -/
syntax "simple_handler" "[" Lean.Parser.Tactic.simpLemma,* "]" : tactic
set_option hygiene false in
macro_rules
  | `(tactic| simple_handler [$ls,*]) =>
    `(tactic| (
      intro s hs
      have ha := hs.a; have hx := hs.x; have hy := hs.y; have hsp := hs.sp; have hp := hs.p
      rcases hc with rfl | rfl <;>
      · simp only [$ls,*, Mpu6502.FlagsNZ, Mpu6502.opCLR, Mpu6502.opSET, exec, absH, abs, core, nextPc,
          Mode.len, normP, setNZ]
        try dsimp only [Py65.Spec.BM, Py65.Spec.AM, Py65.Spec.bitN, Py65.Spec.bitV,
          Py65.Spec.bitC, Py65.Spec.bitZ, Py65.Spec.bitI, Py65.Spec.bitD, Py65.Spec.bitB,
          Py65.Spec.bitU, pyconst, Int.reducePow, Nat.reduceSub, Nat.reduceMul, Int.reduceNeg,
          Int.reduceAdd, Int.reduceSub] at ha hx hy hsp hp ⊢
        try simp only [flagalg]
        try simp only [pyarith, Int.reducePow, Int.reduceMul]
        (try split_ifs) <;> (try simp [flagalg, *]) <;> (try flag_close)))

theorem h_18 (c : Cfg) (hc : IsDev c) (v : Variant) : HandlerOK c v (Mpu6502.inst_0x18 c) .CLC .imp := by
  simple_handler [Mpu6502.inst_0x18]
theorem h_38 (c : Cfg) (hc : IsDev c) (v : Variant) : HandlerOK c v (Mpu6502.inst_0x38 c) .SEC .imp := by
  simple_handler [Mpu6502.inst_0x38]
theorem h_58 (c : Cfg) (hc : IsDev c) (v : Variant) : HandlerOK c v (Mpu6502.inst_0x58 c) .CLI .imp := by
  simple_handler [Mpu6502.inst_0x58]
theorem h_78 (c : Cfg) (hc : IsDev c) (v : Variant) : HandlerOK c v (Mpu6502.inst_0x78 c) .SEI .imp := by
  simple_handler [Mpu6502.inst_0x78]
theorem h_b8 (c : Cfg) (hc : IsDev c) (v : Variant) : HandlerOK c v (Mpu6502.inst_0xb8 c) .CLV .imp := by
  simple_handler [Mpu6502.inst_0xb8]
theorem h_d8 (c : Cfg) (hc : IsDev c) (v : Variant) : HandlerOK c v (Mpu6502.inst_0xd8 c) .CLD .imp := by
  simple_handler [Mpu6502.inst_0xd8]
theorem h_f8 (c : Cfg) (hc : IsDev c) (v : Variant) : HandlerOK c v (Mpu6502.inst_0xf8 c) .SED .imp := by
  simple_handler [Mpu6502.inst_0xf8]
theorem h_aa (c : Cfg) (hc : IsDev c) (v : Variant) : HandlerOK c v (Mpu6502.inst_0xaa c) .TAX .imp := by
  simple_handler [Mpu6502.inst_0xaa]
theorem h_a8 (c : Cfg) (hc : IsDev c) (v : Variant) : HandlerOK c v (Mpu6502.inst_0xa8 c) .TAY .imp := by
  simple_handler [Mpu6502.inst_0xa8]
theorem h_8a (c : Cfg) (hc : IsDev c) (v : Variant) : HandlerOK c v (Mpu6502.inst_0x8a c) .TXA .imp := by
  simple_handler [Mpu6502.inst_0x8a]
theorem h_98 (c : Cfg) (hc : IsDev c) (v : Variant) : HandlerOK c v (Mpu6502.inst_0x98 c) .TYA .imp := by
  simple_handler [Mpu6502.inst_0x98]
theorem h_ba (c : Cfg) (hc : IsDev c) (v : Variant) : HandlerOK c v (Mpu6502.inst_0xba c) .TSX .imp := by
  simple_handler [Mpu6502.inst_0xba]
theorem h_9a (c : Cfg) (hc : IsDev c) (v : Variant) : HandlerOK c v (Mpu6502.inst_0x9a c) .TXS .imp := by
  simple_handler [Mpu6502.inst_0x9a]
theorem h_e8 (c : Cfg) (hc : IsDev c) (v : Variant) : HandlerOK c v (Mpu6502.inst_0xe8 c) .INX .imp := by
  simple_handler [Mpu6502.inst_0xe8]
theorem h_c8 (c : Cfg) (hc : IsDev c) (v : Variant) : HandlerOK c v (Mpu6502.inst_0xc8 c) .INY .imp := by
  simple_handler [Mpu6502.inst_0xc8]
theorem h_ca (c : Cfg) (hc : IsDev c) (v : Variant) : HandlerOK c v (Mpu6502.inst_0xca c) .DEX .imp := by
  simple_handler [Mpu6502.inst_0xca]
theorem h_88 (c : Cfg) (hc : IsDev c) (v : Variant) : HandlerOK c v (Mpu6502.inst_0x88 c) .DEY .imp := by
  simple_handler [Mpu6502.inst_0x88]
theorem h_ea (c : Cfg) (hc : IsDev c) (v : Variant) : HandlerOK c v (Mpu6502.inst_0xea c) .NOP .imp := by
  simple_handler [Mpu6502.inst_0xea]

/-! ### conditional branches -/

theorem opBCL_ok (c : Cfg) (hc : IsDev c) (v : Variant) (x : Int) (k : Nat) (mn : Mn)
    (hk : k ∈ [0, 1, 2, 3, 6, 7, 14, 15])
    (hx : ∀ p : Int, (land p x ≠ 0) = (flag p k = true))
    (hcond : ∀ p, branchCond c.BYTE_WIDTH mn p = !flag p k)
    (hexec : ∀ a : AState, exec c.BYTE_WIDTH v mn .rel a =
      if branchCond c.BYTE_WIDTH mn a.p then { a with pc := branchTarget c.BYTE_WIDTH a }
      else { a with pc := nextPc c.BYTE_WIDTH .rel a }) :
    HandlerOK c v (Mpu6502.opBCL c x) mn .rel := by
  apply branch_ok c hc v _ mn (fun p => !flag p k) _ _ hexec
  · intro s
    simp only [Mpu6502.opBCL, hx]
    cases h : flag s.p k <;> simp
  · intro p; rw [hcond, flag_normP _ _ hk]

theorem opBST_ok (c : Cfg) (hc : IsDev c) (v : Variant) (x : Int) (k : Nat) (mn : Mn)
    (hk : k ∈ [0, 1, 2, 3, 6, 7, 14, 15])
    (hx : ∀ p : Int, (land p x ≠ 0) = (flag p k = true))
    (hcond : ∀ p, branchCond c.BYTE_WIDTH mn p = flag p k)
    (hexec : ∀ a : AState, exec c.BYTE_WIDTH v mn .rel a =
      if branchCond c.BYTE_WIDTH mn a.p then { a with pc := branchTarget c.BYTE_WIDTH a }
      else { a with pc := nextPc c.BYTE_WIDTH .rel a }) :
    HandlerOK c v (Mpu6502.opBST c x) mn .rel := by
  apply branch_ok c hc v _ mn (fun p => flag p k) _ _ hexec
  · intro s
    simp only [Mpu6502.opBST, hx]
  · intro p; rw [hcond, flag_normP _ _ hk]

/-- the four flag tests, per width -/
theorem land_test (p : Int) :
    ((land p 1 ≠ 0) = (flag p 0 = true)) ∧ ((land p 2 ≠ 0) = (flag p 1 = true)) ∧
    ((land p 64 ≠ 0) = (flag p 6 = true)) ∧ ((land p 128 ≠ 0) = (flag p 7 = true)) ∧
    ((land p 16384 ≠ 0) = (flag p 14 = true)) ∧ ((land p 32768 ≠ 0) = (flag p 15 = true)) := by
  simp only [flagalg]
  refine ⟨?_, ?_, ?_, ?_, ?_, ?_⟩ <;> (split <;> simp_all)

theorem h_10 (c : Cfg) (hc : IsDev c) (v : Variant) : HandlerOK c v (Mpu6502.inst_0x10 c) .BPL .rel := by
  rcases hc with rfl | rfl
  · exact opBCL_ok _ (Or.inl rfl) v _ 7 .BPL (by decide) (fun p => (land_test p).2.2.2.1) (fun p => rfl) (fun a => rfl)
  · exact opBCL_ok _ (Or.inr rfl) v _ 15 .BPL (by decide) (fun p => (land_test p).2.2.2.2.2) (fun p => rfl) (fun a => rfl)
theorem h_30 (c : Cfg) (hc : IsDev c) (v : Variant) : HandlerOK c v (Mpu6502.inst_0x30 c) .BMI .rel := by
  rcases hc with rfl | rfl
  · exact opBST_ok _ (Or.inl rfl) v _ 7 .BMI (by decide) (fun p => (land_test p).2.2.2.1) (fun p => rfl) (fun a => rfl)
  · exact opBST_ok _ (Or.inr rfl) v _ 15 .BMI (by decide) (fun p => (land_test p).2.2.2.2.2) (fun p => rfl) (fun a => rfl)
theorem h_50 (c : Cfg) (hc : IsDev c) (v : Variant) : HandlerOK c v (Mpu6502.inst_0x50 c) .BVC .rel := by
  rcases hc with rfl | rfl
  · exact opBCL_ok _ (Or.inl rfl) v _ 6 .BVC (by decide) (fun p => (land_test p).2.2.1) (fun p => rfl) (fun a => rfl)
  · exact opBCL_ok _ (Or.inr rfl) v _ 14 .BVC (by decide) (fun p => (land_test p).2.2.2.2.1) (fun p => rfl) (fun a => rfl)
theorem h_70 (c : Cfg) (hc : IsDev c) (v : Variant) : HandlerOK c v (Mpu6502.inst_0x70 c) .BVS .rel := by
  rcases hc with rfl | rfl
  · exact opBST_ok _ (Or.inl rfl) v _ 6 .BVS (by decide) (fun p => (land_test p).2.2.1) (fun p => rfl) (fun a => rfl)
  · exact opBST_ok _ (Or.inr rfl) v _ 14 .BVS (by decide) (fun p => (land_test p).2.2.2.2.1) (fun p => rfl) (fun a => rfl)
theorem h_90 (c : Cfg) (hc : IsDev c) (v : Variant) : HandlerOK c v (Mpu6502.inst_0x90 c) .BCC .rel := by
  rcases hc with rfl | rfl
  · exact opBCL_ok _ (Or.inl rfl) v _ 0 .BCC (by decide) (fun p => (land_test p).1) (fun p => rfl) (fun a => rfl)
  · exact opBCL_ok _ (Or.inr rfl) v _ 0 .BCC (by decide) (fun p => (land_test p).1) (fun p => rfl) (fun a => rfl)
theorem h_b0 (c : Cfg) (hc : IsDev c) (v : Variant) : HandlerOK c v (Mpu6502.inst_0xb0 c) .BCS .rel := by
  rcases hc with rfl | rfl
  · exact opBST_ok _ (Or.inl rfl) v _ 0 .BCS (by decide) (fun p => (land_test p).1) (fun p => rfl) (fun a => rfl)
  · exact opBST_ok _ (Or.inr rfl) v _ 0 .BCS (by decide) (fun p => (land_test p).1) (fun p => rfl) (fun a => rfl)
theorem h_d0 (c : Cfg) (hc : IsDev c) (v : Variant) : HandlerOK c v (Mpu6502.inst_0xd0 c) .BNE .rel := by
  rcases hc with rfl | rfl
  · exact opBCL_ok _ (Or.inl rfl) v _ 1 .BNE (by decide) (fun p => (land_test p).2.1) (fun p => rfl) (fun a => rfl)
  · exact opBCL_ok _ (Or.inr rfl) v _ 1 .BNE (by decide) (fun p => (land_test p).2.1) (fun p => rfl) (fun a => rfl)
theorem h_f0 (c : Cfg) (hc : IsDev c) (v : Variant) : HandlerOK c v (Mpu6502.inst_0xf0 c) .BEQ .rel := by
  rcases hc with rfl | rfl
  · exact opBST_ok _ (Or.inl rfl) v _ 1 .BEQ (by decide) (fun p => (land_test p).2.1) (fun p => rfl) (fun a => rfl)
  · exact opBST_ok _ (Or.inr rfl) v _ 1 .BEQ (by decide) (fun p => (land_test p).2.1) (fun p => rfl) (fun a => rfl)

end Py65.Proofs
