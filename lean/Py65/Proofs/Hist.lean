/-
Histories: lists of device operations (`step()`, `irq()`, `nmi()`, `reset(start)`) folded over the
GENERATED device operations of `Py65/Gen/Devices.lean` (`dev6502.step`, `dev65c02.irq`, ... : exactly
what the compiled driver runs and what the translation validation compares with the real classes;
nothing is re-modelled here).  The history-level property theorems (`Props/C13h`, `C06h`, `C05h`)
are inductions over these lists.
-/
import Py65.Proofs.CpuBase

namespace Py65.Proofs.Hist
open Py65 Py65.Gen Py65.Spec Py65.Proofs

/-- The three device classes. -/
inductive Dev where
  | nmos      -- py65.devices.mpu6502.MPU
  | cmos      -- py65.devices.mpu65c02.MPU
  | org16     -- py65.devices.mpu65org16.MPU
  deriving DecidableEq, Repr

/-- One call made on the device object. -/
inductive Op where
  | step
  | irq
  | nmi
  | reset (start : Option Int)
  deriving DecidableEq, Repr

namespace Dev

def cfg : Dev → Cfg
  | .nmos => dev6502.cfg
  | .cmos => dev65c02.cfg
  | .org16 => dev65org16.cfg

def tbl : Dev → Tbl
  | .nmos => dev6502.tbl
  | .cmos => dev65c02.tbl
  | .org16 => dev65org16.tbl

/-- Byte width of the device. -/
def W : Dev → Nat
  | .nmos => 8
  | .cmos => 8
  | .org16 => 16

/-- Which documented instruction table the device implements. -/
def variant : Dev → Variant
  | .nmos => .nmos
  | .cmos => .cmos
  | .org16 => .nmos

def step : Dev → St → St
  | .nmos => dev6502.step
  | .cmos => dev65c02.step
  | .org16 => dev65org16.step

def irq : Dev → St → St
  | .nmos => dev6502.irq
  | .cmos => dev65c02.irq
  | .org16 => dev65org16.irq

def nmi : Dev → St → St
  | .nmos => dev6502.nmi
  | .cmos => dev65c02.nmi
  | .org16 => dev65org16.nmi

def reset : Dev → Option Int → St → St
  | .nmos => dev6502.reset
  | .cmos => dev65c02.reset
  | .org16 => dev65org16.reset

theorem isDev (d : Dev) : IsDev d.cfg := by
  cases d
  · exact Or.inl rfl
  · exact Or.inl rfl
  · exact Or.inr rfl

theorem W_eq (d : Dev) : d.cfg.BYTE_WIDTH = d.W := by cases d <;> rfl

theorem hW (d : Dev) : d.W = 8 ∨ d.W = 16 := by cases d <;> simp [W]

end Dev

/-- One operation of the generated device. -/
def apply (d : Dev) : Op → St → St
  | .step => d.step
  | .irq => d.irq
  | .nmi => d.nmi
  | .reset a => d.reset a

/-- A history: the operations are applied left to right. -/
def run (d : Dev) : List Op → St → St
  | [], s => s
  | o :: ops, s => run d ops (apply d o s)

@[simp] theorem run_nil (d : Dev) (s : St) : run d [] s = s := rfl
@[simp] theorem run_cons (d : Dev) (o : Op) (ops : List Op) (s : St) :
    run d (o :: ops) s = run d ops (apply d o s) := rfl

theorem run_append (d : Dev) (ops₁ ops₂ : List Op) (s : St) :
    run d (ops₁ ++ ops₂) s = run d ops₂ (run d ops₁ s) := by
  induction ops₁ generalizing s with
  | nil => rfl
  | cons o ops ih => simp only [List.cons_append, run_cons, ih]

/-- The states a history passes through BEFORE each of its operations (the state each operation is
applied to), in order. -/
def states (d : Dev) : List Op → St → List St
  | [], _ => []
  | o :: ops, s => s :: states d ops (apply d o s)

def Op.isReset : Op → Bool
  | .reset _ => true
  | _ => false

/-- A history without `reset()`. -/
def NoReset (ops : List Op) : Prop := ∀ o ∈ ops, Op.isReset o = false

theorem NoReset.tail {o : Op} {ops : List Op} (h : NoReset (o :: ops)) : NoReset ops :=
  fun o' ho' => h o' (List.mem_cons_of_mem _ ho')
theorem NoReset.head {o : Op} {ops : List Op} (h : NoReset (o :: ops)) : Op.isReset o = false :=
  h o List.mem_cons_self

/-- A property of (operation, state it is applied to) holds all along the history. -/
def Along (d : Dev) (P : Op → St → Prop) : List Op → St → Prop
  | [], _ => True
  | o :: ops, s => P o s ∧ Along d P ops (apply d o s)

theorem Along.mono {d : Dev} {P Q : Op → St → Prop} (h : ∀ o s, P o s → Q o s) :
    ∀ (ops : List Op) (s : St), Along d P ops s → Along d Q ops s
  | [], _, _ => trivial
  | _ :: ops, _, ⟨h1, h2⟩ => ⟨h _ _ h1, Along.mono h ops _ h2⟩

theorem Along.append {d : Dev} {P : Op → St → Prop} (ops₁ ops₂ : List Op) (s : St) :
    Along d P (ops₁ ++ ops₂) s ↔ Along d P ops₁ s ∧ Along d P ops₂ (run d ops₁ s) := by
  induction ops₁ generalizing s with
  | nil => simp [Along]
  | cons o ops ih => simp only [List.cons_append, Along, run_cons, ih, and_assoc]

end Py65.Proofs.Hist
