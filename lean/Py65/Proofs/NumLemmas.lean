/-
Helper lemmas for C15 (address parsing) and the number-formatting round trips reused by
C19 / C08 / C16:  `pyIntL (digits) b = value`,  `value (toDigits b n) = n`,  leading zeros, letter
case, the 4300-digit limit, scanner lemmas for the two patterns of `addressing.py`, fuel
independence of `numberF`, and the bounds / error-kind facts of `number` and `range`.
-/
import Py65.Model.PyStr
import Py65.Model.AddrParser

namespace Py65.Proofs.Num
open Py65.Model Py65.Model.PyStr Py65.Model.AddrParser

/-! ### characters -/

/-- `c` is a digit of base `b` (either letter case). -/
def IsDig (b : Nat) (c : Char) : Prop := ∃ d, digitVal c = some d ∧ d < b

/-- every character of `cs` is a digit of base `b` -/
def DigStr (b : Nat) (cs : Str) : Prop := ∀ c ∈ cs, IsDig b c

theorem digitVal_digitChar : ∀ d, d < 36 → digitVal (digitChar d) = some d := by decide

theorem digitVal_upper_digitChar : ∀ d, d < 36 → digitVal (upper (digitChar d)) = some d := by decide

theorem digitVal_range {c : Char} {d : Nat} (h : digitVal c = some d) :
    (48 ≤ c.toNat ∧ c.toNat ≤ 57) ∨ (97 ≤ c.toNat ∧ c.toNat ≤ 122) ∨ (65 ≤ c.toNat ∧ c.toNat ≤ 90) := by
  unfold digitVal at h
  simp only at h
  split at h
  · left; assumption
  · split at h
    · right; left; assumption
    · split at h
      · right; right; assumption
      · cases h

theorem ne_of_toNat_ne {c d : Char} (h : c.toNat ≠ d.toNat) : c ≠ d := fun e => h (by rw [e])

/-- What a digit character is not: underscore, blank, sign, prefix character, separator. -/
structure Alnum (c : Char) : Prop where
  us : c ≠ '_'
  plus : c ≠ '+'
  minus : c ≠ '-'
  dollar : c ≠ '$'
  pct : c ≠ '%'
  cspace : isCSpace c = false
  respace : isReSpace c = false
  label : isLabelChar c = true
  notsep : isSep c = false
  notpre : isPrefixChar c = false

theorem IsDig.alnum {b : Nat} {c : Char} (h : IsDig b c) : Alnum c := by
  obtain ⟨d, hd, _⟩ := h
  have r := digitVal_range hd
  have h1 : c ≠ '_' := ne_of_toNat_ne (by show c.toNat ≠ 95; omega)
  have h2 : c ≠ '+' := ne_of_toNat_ne (by show c.toNat ≠ 43; omega)
  have h3 : c ≠ '-' := ne_of_toNat_ne (by show c.toNat ≠ 45; omega)
  have h4 : c ≠ '$' := ne_of_toNat_ne (by show c.toNat ≠ 36; omega)
  have h5 : c ≠ '%' := ne_of_toNat_ne (by show c.toNat ≠ 37; omega)
  have h6 : c ≠ ':' := ne_of_toNat_ne (by show c.toNat ≠ 58; omega)
  have h7 : c ≠ ',' := ne_of_toNat_ne (by show c.toNat ≠ 44; omega)
  have hc : isCSpace c = false := by
    simp only [isCSpace, Bool.or_eq_false_iff, Bool.and_eq_false_iff, decide_eq_false_iff_not]; omega
  have hr : isReSpace c = false := by
    simp only [isReSpace, hc, Bool.false_or, Bool.and_eq_false_iff, decide_eq_false_iff_not]; omega
  exact ⟨h1, h2, h3, h4, h5, hc, hr, by simp [isLabelChar, hr, h2, h3], by simp [isSep, h6, h7],
    by simp [isPrefixChar, h4, h2, h5]⟩

theorem isDig_zero {b : Nat} (hb : 0 < b) : IsDig b '0' := ⟨0, by decide, hb⟩

theorem isDig_digitChar {b d : Nat} (hb : b ≤ 36) (hd : d < b) : IsDig b (digitChar d) :=
  ⟨d, digitVal_digitChar d (by omega), hd⟩

theorem isDig_upper_digitChar {b d : Nat} (hb : b ≤ 36) (hd : d < b) : IsDig b (upper (digitChar d)) :=
  ⟨d, digitVal_upper_digitChar d (by omega), hd⟩

theorem IsDig.not_prefixLetter {b : Nat} {c : Char} (h : IsDig b c) : isPrefixLetter b c = false := by
  obtain ⟨d, hd, hlt⟩ := h
  unfold isPrefixLetter
  have key : ∀ (x : Char) (v : Nat), digitVal x = some v → b ≤ v → c ≠ x := by
    intro x v hx hv e
    subst e
    rw [hx] at hd
    cases hd
    omega
  by_cases h16 : b = 16
  · subst h16
    have := key 'x' 33 (by decide) (by omega)
    have := key 'X' 33 (by decide) (by omega)
    simp [*]
  · by_cases h8 : b = 8
    · subst h8
      have := key 'o' 24 (by decide) (by omega)
      have := key 'O' 24 (by decide) (by omega)
      simp [*]
    · by_cases h2 : b = 2
      · subst h2
        have := key 'b' 11 (by decide) (by omega)
        have := key 'B' 11 (by decide) (by omega)
        simp [*]
      · simp [*]

/-! ### positional value -/

/-- value of one character as a digit (0 for a non-digit) -/
def dv (c : Char) : Nat := (digitVal c).getD 0

/-- positional value of `cs` in base `b` on top of an accumulator -/
def valAcc (b : Nat) (acc : Nat) (cs : Str) : Nat := cs.foldl (fun a c => a * b + dv c) acc

/-- positional value of a digit string -/
def valL (b : Nat) (cs : Str) : Nat := valAcc b 0 cs

@[simp] theorem valAcc_nil (b acc : Nat) : valAcc b acc [] = acc := rfl
@[simp] theorem valAcc_cons (b acc : Nat) (c : Char) (cs : Str) :
    valAcc b acc (c :: cs) = valAcc b (acc * b + dv c) cs := rfl
theorem valAcc_append (b acc : Nat) (xs ys : Str) :
    valAcc b acc (xs ++ ys) = valAcc b (valAcc b acc xs) ys := by
  simp [valAcc, List.foldl_append]

theorem valAcc_zeros (b z : Nat) : valAcc b 0 (List.replicate z '0') = 0 := by
  induction z with
  | zero => rfl
  | succ k ih =>
    rw [List.replicate_succ, valAcc_cons]
    have : dv '0' = 0 := by decide
    simpa [this] using ih

theorem valL_zeros_append (b z : Nat) (cs : Str) : valL b (List.replicate z '0' ++ cs) = valL b cs := by
  unfold valL
  rw [valAcc_append, valAcc_zeros]

theorem valL_snoc (b : Nat) (cs : Str) (c : Char) : valL b (cs ++ [c]) = valL b cs * b + dv c := by
  unfold valL
  rw [valAcc_append]; rfl

/-! ### the digit loop and `int(str, base)` on a digit string -/

theorem scanDigits_digits {b : Nat} (cs rest : Str) (acc cnt : Nat) (h : DigStr b cs) :
    scanDigits b (cs ++ rest) acc cnt false
      = scanDigits b rest (valAcc b acc cs) (cnt + cs.length) false := by
  induction cs generalizing acc cnt with
  | nil => simp
  | cons c cs ih =>
    have hc : IsDig b c := h c (by simp)
    obtain ⟨d, hd, hlt⟩ := hc
    have hus : c ≠ '_' := (IsDig.alnum ⟨d, hd, hlt⟩).us
    have hdv : dv c = d := by simp [dv, hd]
    rw [List.cons_append, scanDigits]
    simp only [hus, if_false, hd, hlt, if_true]
    rw [ih _ _ (fun x hx => h x (by simp [hx]))]
    simp only [valAcc_cons, hdv, List.length_cons]
    congr 1
    omega

/-- `int(cs, b)` on a non-empty string of base-`b` digits is its positional value (subject to
CPython's digit limit in bases that are not a power of two). -/
theorem pyIntL_digits {b : Nat} {cs : Str} (hb2 : 2 ≤ b) (hb36 : b ≤ 36) (hne : cs ≠ [])
    (h : DigStr b cs) (hlim : isPow2Base b = true ∨ cs.length ≤ maxStrDigits) :
    pyIntL cs b = some ((valL b cs : Nat) : Int) := by
  obtain ⟨c, cs', rfl⟩ := List.exists_cons_of_ne_nil hne
  have hc : IsDig b c := h c (by simp)
  have ac := hc.alnum
  unfold pyIntL
  have hb : ¬ (b < 2 ∨ 36 < b) := by omega
  simp only [hb, if_false]
  have hdw : List.dropWhile isCSpace (c :: cs') = c :: cs' := by
    simp [ac.cspace]
  simp only [hdw, ac.plus, ac.minus, if_false]
  have hdp : dropPrefix b (c :: cs') = c :: cs' := by
    cases cs' with
    | nil => rfl
    | cons l r =>
      have hl : IsDig b l := h l (by simp)
      simp [dropPrefix, hl.not_prefixLetter]
  simp only [hdp]
  have hsw : startsWithChar (c :: cs') '_' = false := by
    simp [startsWithChar, ac.us]
  simp only [hsw, Bool.false_eq_true, if_false]
  have hscan := scanDigits_digits (b := b) (c :: cs') [] 0 0 h
  rw [List.append_nil] at hscan
  rw [hscan]
  simp only [scanDigits, Bool.false_eq_true, if_false]
  have hlen : 0 + (c :: cs').length ≠ 0 := by simp
  simp only [hlen, if_false]
  have hl2 : (!isPow2Base b && decide (maxStrDigits < 0 + (c :: cs').length)) = false := by
    rcases hlim with hp | hl
    · simp [hp]
    · simp only [Bool.and_eq_false_iff, Bool.not_eq_false', decide_eq_false_iff_not]
      right; omega
  simp only [hl2, Bool.false_eq_true, if_false]
  simp [valL]

/-- the same with a minus sign in front -/
theorem pyIntL_neg_digits {b : Nat} {cs : Str} {n : Nat} (hb2 : 2 ≤ b) (hb36 : b ≤ 36) (hne : cs ≠ [])
    (h : DigStr b cs) (hlim : isPow2Base b = true ∨ cs.length ≤ maxStrDigits) (hv : valL b cs = n) :
    pyIntL ('-' :: cs) b = some (-((n : Nat) : Int)) := by
  obtain ⟨c, cs', rfl⟩ := List.exists_cons_of_ne_nil hne
  have hc : IsDig b c := h c (by simp)
  have ac := hc.alnum
  unfold pyIntL
  have hb : ¬ (b < 2 ∨ 36 < b) := by omega
  simp only [hb, if_false]
  have hdw : List.dropWhile isCSpace ('-' :: c :: cs') = '-' :: c :: cs' := by
    have : isCSpace '-' = false := by decide
    simp [this]
  have hm : ('-' : Char) ≠ '+' := by decide
  simp only [hdw, hm, if_false, if_true]
  have hdp : dropPrefix b (c :: cs') = c :: cs' := by
    cases cs' with
    | nil => rfl
    | cons l r =>
      have hl : IsDig b l := h l (by simp)
      simp [dropPrefix, hl.not_prefixLetter]
  simp only [hdp]
  have hsw : startsWithChar (c :: cs') '_' = false := by
    simp [startsWithChar, ac.us]
  simp only [hsw, Bool.false_eq_true, if_false]
  have hscan := scanDigits_digits (b := b) (c :: cs') [] 0 0 h
  rw [List.append_nil] at hscan
  rw [hscan]
  simp only [scanDigits, Bool.false_eq_true, if_false]
  have hlen : 0 + (c :: cs').length ≠ 0 := by simp
  simp only [hlen, if_false]
  have hl2 : (!isPow2Base b && decide (maxStrDigits < 0 + (c :: cs').length)) = false := by
    rcases hlim with hp | hl
    · simp [hp]
    · simp only [Bool.and_eq_false_iff, Bool.not_eq_false', decide_eq_false_iff_not]
      right; omega
  simp only [hl2, Bool.false_eq_true, if_false]
  unfold valL at hv
  simp [hv]

/-! ### canonical digits -/

/-- `c` is the canonical (lower-case) character of a digit `< b` -/
def IsDigCh (b : Nat) (c : Char) : Prop := ∃ d, d < b ∧ c = digitChar d

theorem toDigits_ne_nil (b n : Nat) : toDigits b n ≠ [] := by
  rw [toDigits]
  split <;> simp

theorem toDigits_digCh {b : Nat} (hb : 2 ≤ b) (n : Nat) : ∀ c ∈ toDigits b n, IsDigCh b c := by
  induction n using Nat.strongRecOn with
  | _ n ih =>
    rw [toDigits]
    split
    · rename_i h
      intro c hc
      simp only [List.mem_singleton] at hc
      exact ⟨n, by omega, hc⟩
    · rename_i h
      intro c hc
      rw [List.mem_append] at hc
      rcases hc with hc | hc
      · exact ih (n / b) (Nat.div_lt_self (by omega) (by omega)) c hc
      · simp only [List.mem_singleton] at hc
        exact ⟨n % b, Nat.mod_lt _ (by omega), hc⟩

theorem dv_digitChar {d : Nat} (h : d < 36) : dv (digitChar d) = d := by
  simp [dv, digitVal_digitChar d h]

theorem valL_toDigits {b : Nat} (hb : 2 ≤ b) (hb36 : b ≤ 36) (n : Nat) : valL b (toDigits b n) = n := by
  induction n using Nat.strongRecOn with
  | _ n ih =>
    rw [toDigits]
    split
    · rename_i h
      have : n < 36 := by omega
      simp [valL, dv_digitChar this]
    · rename_i h
      rw [valL_snoc, ih (n / b) (Nat.div_lt_self (by omega) (by omega)),
        dv_digitChar (by have := Nat.mod_lt n (show 0 < b by omega); omega)]
      exact Nat.div_add_mod' n b

theorem toDigits_length_le {b : Nat} (hb : 2 ≤ b) (k n : Nat) (hn : n < b ^ (k + 1)) :
    (toDigits b n).length ≤ k + 1 := by
  induction k generalizing n with
  | zero =>
    rw [toDigits]
    have : n < b := by simpa using hn
    simp [this]
  | succ k ih =>
    rw [toDigits]
    split
    · simp
    · have hd : n / b < b ^ (k + 1) := by
        rw [Nat.div_lt_iff_lt_mul (by omega)]
        rwa [Nat.pow_succ] at hn
      have := ih (n / b) hd
      simp only [List.length_append, List.length_singleton]
      omega

/-! ### letter case and leading zeros -/

theorem mixCase_length (m : List Bool) (cs : Str) : (mixCase m cs).length = cs.length := by
  induction cs generalizing m with
  | nil => cases m <;> rfl
  | cons c cs ih =>
    cases m with
    | nil => rfl
    | cons x m => simp [mixCase, ih]

theorem mixCase_ne_nil (m : List Bool) {cs : Str} (h : cs ≠ []) : mixCase m cs ≠ [] := by
  intro e
  have := mixCase_length m cs
  rw [e] at this
  cases cs with
  | nil => exact h rfl
  | cons _ _ => simp at this

theorem mixCase_digStr {b : Nat} (hb36 : b ≤ 36) (m : List Bool) {cs : Str} (h : ∀ c ∈ cs, IsDigCh b c) :
    DigStr b (mixCase m cs) := by
  induction cs generalizing m with
  | nil => cases m <;> (intro c hc; simp [mixCase] at hc)
  | cons c cs ih =>
    obtain ⟨d, hd, rfl⟩ := h c (by simp)
    have hrest : ∀ x ∈ cs, IsDigCh b x := fun x hx => h x (by simp [hx])
    cases m with
    | nil =>
      intro x hx
      simp only [mixCase] at hx
      obtain ⟨e, he, rfl⟩ := h x hx
      exact isDig_digitChar hb36 he
    | cons t m =>
      intro x hx
      simp only [mixCase, List.mem_cons] at hx
      rcases hx with rfl | hx
      · cases t
        · exact isDig_digitChar hb36 hd
        · exact isDig_upper_digitChar hb36 hd
      · exact ih m hrest x hx

theorem valAcc_mixCase {b : Nat} (hb36 : b ≤ 36) (m : List Bool) (acc : Nat) {cs : Str}
    (h : ∀ c ∈ cs, IsDigCh b c) : valAcc b acc (mixCase m cs) = valAcc b acc cs := by
  induction cs generalizing m acc with
  | nil => cases m <;> rfl
  | cons c cs ih =>
    obtain ⟨d, hd, rfl⟩ := h c (by simp)
    have hrest : ∀ x ∈ cs, IsDigCh b x := fun x hx => h x (by simp [hx])
    cases m with
    | nil => rfl
    | cons t m =>
      have : dv (if t = true then upper (digitChar d) else digitChar d) = dv (digitChar d) := by
        cases t
        · rfl
        · simp [dv, digitVal_upper_digitChar d (by omega), digitVal_digitChar d (by omega)]
      simp only [mixCase, valAcc_cons, this]
      exact ih m _ hrest

theorem digStr_zeros {b : Nat} (hb : 0 < b) (z : Nat) : DigStr b (List.replicate z '0') := by
  intro c hc
  rw [List.mem_replicate] at hc
  rw [hc.2]
  exact isDig_zero hb

theorem digStr_append {b : Nat} {xs ys : Str} (hx : DigStr b xs) (hy : DigStr b ys) : DigStr b (xs ++ ys) := by
  intro c hc
  rw [List.mem_append] at hc
  rcases hc with hc | hc
  · exact hx c hc
  · exact hy c hc

/-- The spelling of `n` (leading zeros, any letter case) is a non-empty digit string of value `n`. -/
theorem spelling_spec {b : Nat} (hb : 2 ≤ b) (hb36 : b ≤ 36) (z : Nat) (m : List Bool) (n : Nat) :
    spelling b z m n ≠ [] ∧ DigStr b (spelling b z m n) ∧ valL b (spelling b z m n) = n ∧
    (spelling b z m n).length = z + (toDigits b n).length := by
  have hd := toDigits_digCh hb n
  refine ⟨?_, ?_, ?_, ?_⟩
  · unfold spelling
    intro e
    have := (List.append_eq_nil_iff.mp e).2
    exact mixCase_ne_nil m (toDigits_ne_nil b n) this
  · exact digStr_append (digStr_zeros (by omega) z) (mixCase_digStr hb36 m hd)
  · unfold spelling
    rw [valL_zeros_append, valL, valAcc_mixCase hb36 m 0 hd]
    exact valL_toDigits hb hb36 n
  · simp [spelling, mixCase_length]

/-- Round trip at the `int()` level: every spelling of `n` in base `b` parses back to `n`. -/
theorem pyIntL_spelling {b : Nat} (hb : 2 ≤ b) (hb36 : b ≤ 36) (z : Nat) (m : List Bool) (n : Nat)
    (hlim : isPow2Base b = true ∨ z + (toDigits b n).length ≤ maxStrDigits) :
    pyIntL (spelling b z m n) b = some (n : Int) := by
  obtain ⟨h1, h2, h3, h4⟩ := spelling_spec hb hb36 z m n
  rw [pyIntL_digits hb hb36 h1 h2 (by rw [h4]; exact hlim), h3]

/-- More than 4300 decimal digits: CPython refuses (`ValueError`). -/
theorem pyIntL_digits_limit {b : Nat} {cs : Str} (hb2 : 2 ≤ b) (hb36 : b ≤ 36) (hne : cs ≠ [])
    (h : DigStr b cs) (hp : isPow2Base b = false) (hlen : maxStrDigits < cs.length) :
    pyIntL cs b = none := by
  obtain ⟨c, cs', rfl⟩ := List.exists_cons_of_ne_nil hne
  have hc : IsDig b c := h c (by simp)
  have ac := hc.alnum
  unfold pyIntL
  have hb : ¬ (b < 2 ∨ 36 < b) := by omega
  simp only [hb, if_false]
  have hdw : List.dropWhile isCSpace (c :: cs') = c :: cs' := by
    simp [ac.cspace]
  simp only [hdw, ac.plus, ac.minus, if_false]
  have hdp : dropPrefix b (c :: cs') = c :: cs' := by
    cases cs' with
    | nil => rfl
    | cons l r =>
      have hl : IsDig b l := h l (by simp)
      simp [dropPrefix, hl.not_prefixLetter]
  simp only [hdp]
  have hsw : startsWithChar (c :: cs') '_' = false := by
    simp [startsWithChar, ac.us]
  simp only [hsw, Bool.false_eq_true, if_false]
  have hscan := scanDigits_digits (b := b) (c :: cs') [] 0 0 h
  rw [List.append_nil] at hscan
  rw [hscan]
  simp only [scanDigits, Bool.false_eq_true, if_false]
  have hlen0 : 0 + (c :: cs').length ≠ 0 := by simp
  simp only [hlen0, if_false]
  have hl2 : (!isPow2Base b && decide (maxStrDigits < 0 + (c :: cs').length)) = true := by
    simp only [hp, Bool.not_false, Bool.true_and, decide_eq_true_eq]
    omega
  simp only [hl2, if_true]

/-! ### greedy runs (`takeWhile` / `dropWhile`) -/

theorem span_stop {p : Char → Bool} {l r : Str} (hl : ∀ c ∈ l, p c = true)
    (hr : ∀ c, r.head? = some c → p c = false) :
    (l ++ r).takeWhile p = l ∧ (l ++ r).dropWhile p = r := by
  induction l with
  | nil =>
    cases r with
    | nil => simp
    | cons c r' =>
      have : p c = false := hr c rfl
      simp [this]
  | cons c l ih =>
    have hc : p c = true := hl c (by simp)
    have := ih (fun x hx => hl x (by simp [hx]))
    simp [hc, this.1, this.2]

theorem mem_takeWhile_true {p : Char → Bool} {l : Str} {c : Char} (h : c ∈ l.takeWhile p) : p c = true := by
  induction l with
  | nil => simp at h
  | cons x l ih =>
    by_cases hx : p x = true
    · simp only [List.takeWhile_cons, hx, if_true, List.mem_cons] at h
      rcases h with rfl | h
      · exact hx
      · exact ih h
    · simp [hx] at h

theorem span_all {p : Char → Bool} {l : Str} (hl : ∀ c ∈ l, p c = true) :
    l.takeWhile p = l ∧ l.dropWhile p = [] := by
  have := span_stop (p := p) (l := l) (r := []) hl (by simp)
  simpa using this

theorem head_append_ne {xs ys : Str} {q : Char → Prop} (hx : ∀ c ∈ xs, q c)
    (hy : ∀ c, ys.head? = some c → q c) : ∀ c, (xs ++ ys).head? = some c → q c := by
  intro c hc
  cases xs with
  | nil => exact hy c (by simpa using hc)
  | cons x xs =>
    simp only [List.cons_append, List.head?_cons, Option.some.injEq] at hc
    exact hx c (by simp [hc])

/-! ### the offset pattern -/

/-- The only two facts about the concrete `offsetClass` the proofs use (both hold for `\d` and for
`[0-9a-fA-F]`, so changing the class in the model needs no change here). -/
theorem offsetClass_hex {c : Char} (h : offsetClass c = true) : isHexDigit c = true := by
  unfold offsetClass at h
  first
    | exact h
    | simp [isHexDigit, h]

theorem offsetClass_of_digit {c : Char} (h : isDigit c = true) : offsetClass c = true := by
  unfold offsetClass
  first
    | exact h
    | simp [isHexDigit, h]

theorem isHexDigit_isDig {c : Char} (h : isHexDigit c = true) : IsDig 16 c := by
  simp only [isHexDigit, isDigit, Bool.or_eq_true, Bool.and_eq_true, decide_eq_true_eq] at h
  rcases h with (h | h) | h
  · exact ⟨c.toNat - 48, by simp [digitVal, h.1, h.2], by omega⟩
  · have h1 : ¬ (48 ≤ c.toNat ∧ c.toNat ≤ 57) := by omega
    have h2 : (97 ≤ c.toNat ∧ c.toNat ≤ 122) := by omega
    exact ⟨c.toNat - 87, by simp [digitVal, h1, h2], by omega⟩
  · have h1 : ¬ (48 ≤ c.toNat ∧ c.toNat ≤ 57) := by omega
    have h2 : ¬ (97 ≤ c.toNat ∧ c.toNat ≤ 122) := by omega
    have h3 : (65 ≤ c.toNat ∧ c.toNat ≤ 90) := by omega
    exact ⟨c.toNat - 55, by simp [digitVal, h1, h2, h3], by omega⟩

/-- every base-16 digit character (either case) is in the offset class -/
theorem isDig16_offsetClass {c : Char} (h : IsDig 16 c) : offsetClass c = true := by
  obtain ⟨d, hd, hlt⟩ := h
  unfold digitVal at hd
  simp only at hd
  simp only [offsetClass, isHexDigit, isDigit, Bool.or_eq_true, Bool.and_eq_true, decide_eq_true_eq]
  split at hd
  · left; left; assumption
  · split at hd
    · cases hd; left; right; omega
    · split at hd
      · cases hd; right; omega
      · cases hd

theorem offsetClass_label {c : Char} (h : offsetClass c = true) :
    isLabelChar c = true ∧ isPrefixChar c = false ∧ isReSpace c = false ∧ c ≠ '\n' := by
  have a := (isHexDigit_isDig (offsetClass_hex h)).alnum
  refine ⟨a.label, a.notpre, a.respace, ?_⟩
  intro e
  subst e
  revert h
  decide

theorem isPrefixChar_cases {p : Char} (h : isPrefixChar p = true) : p = '$' ∨ p = '+' ∨ p = '%' := by
  simpa [isPrefixChar, or_assoc] using h

theorem isPrefixChar_not_space {p : Char} (h : isPrefixChar p = true) : isReSpace p = false := by
  rcases isPrefixChar_cases h with rfl | rfl | rfl <;> decide

theorem splitPrefix_spec (r : Str) :
    (splitPrefix r).1 ++ (splitPrefix r).2 = r ∧
    ((splitPrefix r).1 = [] ∨ ∃ p, (splitPrefix r).1 = [p] ∧ isPrefixChar p = true) := by
  cases r with
  | nil => simp [splitPrefix]
  | cons p r =>
    by_cases hp : isPrefixChar p = true
    · simp [splitPrefix, hp]
    · simp [splitPrefix, hp]

theorem matchOffsetTail_some {label off l : Str} {sign sg : Char} {r : Str}
    (h : matchOffsetTail label sign r = some (l, sg, off)) : l = label ∧ sg = sign ∧ OffsetPat off := by
  unfold matchOffsetTail at h
  simp only at h
  split at h
  · cases h
  · rename_i hds
    split at h
    · simp only [Option.some.injEq, Prod.mk.injEq] at h
      obtain ⟨h1, h2, h3⟩ := h
      refine ⟨h1.symm, h2.symm, ?_⟩
      refine ⟨_, _, h3.symm, (splitPrefix_spec _).2, hds, ?_⟩
      intro c hc
      exact mem_takeWhile_true hc
    · cases h

theorem matchOffset_some {s l off : Str} {sg : Char} (h : matchOffset s = some (l, sg, off)) :
    (sg = '+' ∨ sg = '-') ∧ OffsetPat off ∧ l = s.takeWhile isLabelChar := by
  unfold matchOffset at h
  simp only at h
  split at h
  · cases h
  · split at h
    · cases h
    · split at h
      · rename_i hs
        obtain ⟨h1, h2, h3⟩ := matchOffsetTail_some h
        exact ⟨h2 ▸ hs, h3, h1⟩
      · cases h

/-- A string of label characters only (no blank, no sign) does not match the pattern. -/
theorem matchOffset_none_of_label {s : Str} (h : ∀ c ∈ s, isLabelChar c = true) : matchOffset s = none := by
  unfold matchOffset
  simp only [(span_all h).1, (span_all h).2, List.dropWhile_nil]
  split <;> rfl

/-- The pattern on `label blanks sign blanks [prefix] digits [\n]`. -/
theorem matchOffset_compose {l ws1 ws2 pre ds tail : Str} {sign : Char}
    (hl : l ≠ []) (hlc : ∀ c ∈ l, isLabelChar c = true)
    (hw1 : ∀ c ∈ ws1, isReSpace c = true) (hw2 : ∀ c ∈ ws2, isReSpace c = true)
    (hs : sign = '+' ∨ sign = '-')
    (hpre : pre = [] ∨ ∃ p, pre = [p] ∧ isPrefixChar p = true)
    (hds : ds ≠ []) (hdc : ∀ c ∈ ds, offsetClass c = true)
    (htail : tail = [] ∨ tail = ['\n']) :
    matchOffset (l ++ (ws1 ++ sign :: (ws2 ++ (pre ++ (ds ++ tail))))) = some (l, sign, pre ++ ds) := by
  have hsign_nl : isLabelChar sign = false := by rcases hs with rfl | rfl <;> decide
  have hsign_ns : isReSpace sign = false := by rcases hs with rfl | rfl <;> decide
  -- group 1
  have h1 := span_stop (p := isLabelChar) (l := l) (r := ws1 ++ sign :: (ws2 ++ (pre ++ (ds ++ tail)))) hlc
    (head_append_ne (q := fun c => isLabelChar c = false)
      (fun c hc => by simp [isLabelChar, hw1 c hc])
      (fun c hc => by simp only [List.head?_cons, Option.some.injEq] at hc; exact hc ▸ hsign_nl))
  -- blanks before the sign
  have h2 := span_stop (p := isReSpace) (l := ws1) (r := sign :: (ws2 ++ (pre ++ (ds ++ tail)))) hw1
    (fun c hc => by simp only [List.head?_cons, Option.some.injEq] at hc; exact hc ▸ hsign_ns)
  -- digits and tail
  have htl : ∀ c, tail.head? = some c → offsetClass c = false := by
    intro c hc
    rcases htail with rfl | rfl
    · simp at hc
    · simp only [List.head?_cons, Option.some.injEq] at hc; subst hc; decide
  have h4 := span_stop (p := offsetClass) (l := ds) (r := tail) hdc htl
  obtain ⟨d, ds', rfl⟩ := List.exists_cons_of_ne_nil hds
  have hd := offsetClass_label (hdc d (by simp))
  -- blanks after the sign
  have h3 := span_stop (p := isReSpace) (l := ws2) (r := pre ++ (d :: ds' ++ tail)) hw2
    (by
      intro c hc
      rcases hpre with rfl | ⟨p, rfl, hp⟩
      · simp only [List.nil_append, List.cons_append, List.head?_cons, Option.some.injEq] at hc
        exact hc ▸ hd.2.2.1
      · simp only [List.cons_append, List.head?_cons, Option.some.injEq] at hc
        exact hc ▸ isPrefixChar_not_space hp)
  unfold matchOffset
  simp only [h1.1, h1.2, h2.2, hl, if_false, hs, if_true]
  unfold matchOffsetTail
  simp only [h3.2]
  rcases hpre with rfl | ⟨p, rfl, hp⟩
  · have hsp : splitPrefix ([] ++ (d :: ds' ++ tail)) = ([], d :: ds' ++ tail) := by
      simp [splitPrefix, hd.2.1]
    rw [hsp]
    simp only [h4.1, h4.2]
    rcases htail with rfl | rfl <;> simp
  · have hsp : splitPrefix ([p] ++ (d :: ds' ++ tail)) = ([p], d :: ds' ++ tail) := by
      simp [splitPrefix, hp]
    rw [hsp]
    simp only [h4.1, h4.2]
    rcases htail with rfl | rfl <;> simp

/-! ### `number`: unfolding, fuel, bounds, error kinds -/

theorem numberF_succ (P : Parser) (fuel : Nat) (num : Str) :
    numberF P (fuel + 1) num =
      if startsWithChar num '$' then ofInt P (pyIntL (num.drop 1) 16)
      else if startsWithChar num '+' then ofInt P (pyIntL (num.drop 1) 10)
      else if startsWithChar num '%' then ofInt P (pyIntL (num.drop 1) 2)
      else
        match lookup P.labels num with
        | some a => .ok a
        | none =>
          match matchOffset num with
          | some (label, sign, offset) =>
            match lookup P.labels label with
            | none => .key
            | some base =>
              match numberF P fuel offset with
              | .ok off => constrain P (if sign = '+' then base + off else base - off)
              | .key => .key
              | .overflow => .overflow
              | .other => .other
          | none => ofInt P (pyIntL num P.radix) := by
  rfl

theorem noPrefix_of_head {s : Str} (h : ∀ c, s.head? = some c → isPrefixChar c = false) : NoPrefix s := by
  cases s with
  | nil => exact ⟨rfl, rfl, rfl⟩
  | cons c s =>
    have hc := h c rfl
    simp only [isPrefixChar, Bool.or_eq_false_iff, decide_eq_false_iff_not] at hc
    simp [NoPrefix, startsWithChar, hc.1.1, hc.1.2, hc.2]

/-- No recursion happens when the pattern does not match or a prefix decides. -/
theorem numberF_noMatch (P : Parser) (k : Nat) {s : Str} (h : matchOffset s = none) :
    numberF P (k + 1) s = numberF P 1 s := by
  rw [numberF_succ, numberF_succ]
  simp only [h]

theorem numberF_prefix (P : Parser) (k : Nat) {p : Char} (s : Str) (h : isPrefixChar p = true) :
    numberF P (k + 1) (p :: s) = numberF P 1 (p :: s) := by
  rw [numberF_succ, numberF_succ]
  rcases isPrefixChar_cases h with rfl | rfl | rfl <;> simp [startsWithChar]

/-- The string handed to the inner `self.number(offset)` is decided without further recursion. -/
theorem numberF_pat (P : Parser) (k : Nat) {sp : Str} (h : OffsetPat sp) :
    numberF P (k + 1) sp = numberF P 1 sp := by
  obtain ⟨pre, ds, rfl, hpre, hds, hdc⟩ := h
  rcases hpre with rfl | ⟨p, rfl, hp⟩
  · apply numberF_noMatch
    apply matchOffset_none_of_label
    intro c hc
    exact (offsetClass_label (hdc c (by simpa using hc))).1
  · exact numberF_prefix P k _ hp

/-- Recursion depth 2 is never exceeded: more fuel changes nothing. -/
theorem numberF_fuel (P : Parser) (k : Nat) (s : Str) : numberF P (k + 2) s = numberF P 2 s := by
  rw [numberF_succ P (k + 1), numberF_succ P 1]
  cases hm : matchOffset s with
  | none => rfl
  | some t =>
    obtain ⟨l, sg, off⟩ := t
    have hp := (matchOffset_some hm).2.1
    simp only [numberF_pat P k hp]

theorem constrain_ok {P : Parser} {a n : Int} (h : constrain P a = .ok n) :
    n = a ∧ 0 ≤ n ∧ n ≤ P.maxaddr := by
  unfold constrain at h
  split at h
  · cases h
  · rename_i hc
    cases h
    omega

theorem constrain_ne_other (P : Parser) (a : Int) : constrain P a ≠ .other := by
  unfold constrain
  split <;> simp

theorem constrain_in {P : Parser} {a : Int} (h0 : 0 ≤ a) (h1 : a ≤ P.maxaddr) : constrain P a = .ok a := by
  unfold constrain
  have : ¬ (a < 0 ∨ a > P.maxaddr) := by omega
  simp [this]

theorem constrain_out {P : Parser} {a : Int} (h : a < 0 ∨ P.maxaddr < a) : constrain P a = .overflow := by
  unfold constrain
  have : (a < 0 ∨ a > P.maxaddr) := by omega
  simp [this]

theorem ofInt_ok {P : Parser} {o : Option Int} {n : Int} (h : ofInt P o = .ok n) :
    0 ≤ n ∧ n ≤ P.maxaddr := by
  cases o with
  | none => cases h
  | some v => exact (constrain_ok h).2

theorem ofInt_ne_other (P : Parser) (o : Option Int) : ofInt P o ≠ .other := by
  cases o with
  | none => simp [ofInt]
  | some v => exact constrain_ne_other P v

theorem numberF_bounded {P : Parser} (hwf : P.WF) :
    ∀ (k : Nat) (s : Str) (n : Int), numberF P k s = .ok n → 0 ≤ n ∧ n ≤ P.maxaddr := by
  intro k
  induction k with
  | zero => intro s n h; simp [numberF] at h
  | succ k ih =>
    intro s n h
    rw [numberF_succ] at h
    split at h
    · exact ofInt_ok h
    · split at h
      · exact ofInt_ok h
      · split at h
        · exact ofInt_ok h
        · split at h
          · rename_i a ha
            cases h
            exact hwf _ _ ha
          · split at h
            · split at h
              · cases h
              · split at h
                · exact (constrain_ok h).2
                · cases h
                · cases h
                · cases h
            · exact ofInt_ok h

/-- One level of `number` never yields `other` when the inner call does not. -/
theorem numberF_ne_other_step {P : Parser} {k : Nat} (ih : ∀ sp, OffsetPat sp → numberF P k sp ≠ .other)
    (s : Str) : numberF P (k + 1) s ≠ .other := by
  rw [numberF_succ]
  intro h
  split at h
  · exact ofInt_ne_other _ _ h
  · split at h
    · exact ofInt_ne_other _ _ h
    · split at h
      · exact ofInt_ne_other _ _ h
      · split at h
        · cases h
        · split at h
          · rename_i l sg off hm
            split at h
            · cases h
            · split at h
              · exact constrain_ne_other _ _ h
              · cases h
              · cases h
              · rename_i hin
                exact ih off (matchOffset_some hm).2.1 hin
          · exact ofInt_ne_other _ _ h

theorem numberF_one_pat_ne_other (P : Parser) {sp : Str} (h : OffsetPat sp) : numberF P 1 sp ≠ .other := by
  rw [numberF_succ]
  obtain ⟨pre, ds, rfl, hpre, hds, hdc⟩ := h
  rcases hpre with rfl | ⟨p, rfl, hp⟩
  · have hm : matchOffset ([] ++ ds) = none := by
      apply matchOffset_none_of_label
      intro c hc
      exact (offsetClass_label (hdc c (by simpa using hc))).1
    simp only [hm]
    intro h
    split at h
    · exact ofInt_ne_other _ _ h
    · split at h
      · exact ofInt_ne_other _ _ h
      · split at h
        · exact ofInt_ne_other _ _ h
        · split at h
          · cases h
          · exact ofInt_ne_other _ _ h
  · rcases isPrefixChar_cases hp with rfl | rfl | rfl <;>
      simp only [List.cons_append, List.nil_append, startsWithChar, beq_self_eq_true, if_true] <;>
      first
        | exact ofInt_ne_other _ _
        | (intro h; split at h <;> first | exact ofInt_ne_other _ _ h | skip)

theorem numberL_ne_other (P : Parser) (s : Str) : numberL P s ≠ .other :=
  numberF_ne_other_step (k := 1) (fun _ h => numberF_one_pat_ne_other P h) s

theorem numberL_bounded {P : Parser} (hwf : P.WF) {s : Str} {n : Int} (h : numberL P s = .ok n) :
    0 ≤ n ∧ n ≤ P.maxaddr := numberF_bounded hwf 2 s n h

theorem numberL_prefix (P : Parser) (s : Str) :
    numberL P ('$' :: s) = ofInt P (pyIntL s 16) ∧
    numberL P ('+' :: s) = ofInt P (pyIntL s 10) ∧
    numberL P ('%' :: s) = ofInt P (pyIntL s 2) := by
  refine ⟨?_, ?_, ?_⟩ <;> (unfold numberL; rw [numberF_succ]; simp [startsWithChar])

/-- Not a prefix, not a label, pattern does not match: `int(num, radix)`. -/
theorem numberL_bare (P : Parser) {s : Str} (hp : NoPrefix s) (hl : lookup P.labels s = none)
    (hm : matchOffset s = none) : numberL P s = ofInt P (pyIntL s P.radix) := by
  unfold numberL
  rw [numberF_succ]
  simp [hp.1, hp.2.1, hp.2.2, hl, hm]

theorem numberL_label (P : Parser) {s : Str} {a : Int} (hp : NoPrefix s) (hl : lookup P.labels s = some a) :
    numberL P s = .ok a := by
  unfold numberL
  rw [numberF_succ]
  simp [hp.1, hp.2.1, hp.2.2, hl]

/-- label ± offset, when the whole string is not itself a label. -/
theorem numberL_offset (P : Parser) {s l off : Str} {sg : Char} (hp : NoPrefix s)
    (hl : lookup P.labels s = none) (hm : matchOffset s = some (l, sg, off)) :
    numberL P s =
      match lookup P.labels l with
      | none => .key
      | some base =>
        match numberL P off with
        | .ok m => constrain P (if sg = '+' then base + m else base - m)
        | .key => .key
        | .overflow => .overflow
        | .other => .other := by
  have hpat := (matchOffset_some hm).2.1
  have hin : numberL P off = numberF P 1 off := numberF_pat P 1 hpat
  rw [hin]
  unfold numberL
  rw [numberF_succ]
  simp [hp.1, hp.2.1, hp.2.2, hl, hm]

/-! ### ranges -/

theorem isReSpace_not_sep {c : Char} (h : isReSpace c = true) : isSep c = false := by
  have h6 : c ≠ ':' := by rintro rfl; revert h; decide
  have h7 : c ≠ ',' := by rintro rfl; revert h; decide
  simp [isSep, h6, h7]

/-- A string without separators does not match the range pattern. -/
theorem matchRange_none_of_nosep {s : Str} (h : ∀ c ∈ s, isSep c = false) : matchRange s = none := by
  have h' : ∀ c ∈ s, (fun c => !isSep c) c = true := by intro c hc; simp [h c hc]
  unfold matchRange
  simp only [(span_all h').1, (span_all h').2]
  split
  · rfl
  · simp

/-- `x seps blanks y` with `x`, `y` free of separators and `y` starting with a non-blank. -/
theorem matchRange_compose {x seps ws y : Str} (hx : x ≠ []) (hxc : ∀ c ∈ x, isSep c = false)
    (hs : seps ≠ []) (hsc : ∀ c ∈ seps, isSep c = true) (hw : ∀ c ∈ ws, isReSpace c = true)
    (hy : y ≠ []) (hyc : ∀ c ∈ y, isSep c = false) (hy0 : ∀ c, y.head? = some c → isReSpace c = false) :
    matchRange (x ++ (seps ++ (ws ++ y))) = some (x, y) := by
  have hxc' : ∀ c ∈ x, (fun c => !isSep c) c = true := by intro c hc; simp [hxc c hc]
  obtain ⟨s0, seps', rfl⟩ := List.exists_cons_of_ne_nil hs
  have h1 := span_stop (p := fun c => !isSep c) (l := x) (r := (s0 :: seps') ++ (ws ++ y)) hxc'
    (by intro c hc
        simp only [List.cons_append, List.head?_cons, Option.some.injEq] at hc
        subst hc; simp [hsc s0 (by simp)])
  have hwy : ∀ c ∈ ws ++ y, isSep c = false := by
    intro c hc
    rw [List.mem_append] at hc
    rcases hc with hc | hc
    · exact isReSpace_not_sep (hw c hc)
    · exact hyc c hc
  have h2 := span_stop (p := isSep) (l := s0 :: seps') (r := ws ++ y) hsc
    (by intro c hc
        have : c ∈ ws ++ y := by
          cases hwyl : ws ++ y with
          | nil => rw [hwyl] at hc; simp at hc
          | cons a t => rw [hwyl] at hc; simp only [List.head?_cons, Option.some.injEq] at hc; simp [hc]
        exact hwy c this)
  have h3 := span_stop (p := isReSpace) (l := ws) (r := y) hw hy0
  have hany : (ws ++ y).any isSep = false := by
    rw [List.any_eq_false]
    intro c hc
    simp [hwy c hc]
  have hne : ws ++ y ≠ [] := by simp [hy]
  obtain ⟨last, hlast⟩ : ∃ last, (ws ++ y).getLast? = some last := by
    cases hgl : (ws ++ y).getLast? with
    | none => exact absurd (List.getLast?_eq_none_iff.mp hgl) hne
    | some v => exact ⟨v, rfl⟩
  unfold matchRange
  simp only [h1.1, h1.2, h2.1, h2.2, hx, if_false, hany, hlast, h3.2, hy]
  simp

theorem ordered_spec {x y a b : Int} (h : ordered x y = .ok a b) :
    a ≤ b ∧ ((a = x ∧ b = y) ∨ (a = y ∧ b = x)) := by
  unfold ordered at h
  split at h
  · cases h; omega
  · cases h; omega

theorem rangeL_ordered {P : Parser} (hwf : P.WF) {s : Str} {a b : Int} (h : rangeL P s = .ok a b) :
    a ≤ b ∧ 0 ≤ a ∧ b ≤ P.maxaddr := by
  unfold rangeL at h
  split at h
  · split at h
    · rename_i x hx
      split at h
      · rename_i y hy
        have bx := numberL_bounded hwf hx
        have by' := numberL_bounded hwf hy
        have := ordered_spec h
        omega
      · cases h
      · cases h
      · cases h
    · cases h
    · cases h
    · cases h
  · split at h
    · rename_i x hx
      have bx := numberL_bounded hwf hx
      have := ordered_spec h
      omega
    · cases h
    · cases h
    · cases h

theorem rangeL_ne_other (P : Parser) (s : Str) : rangeL P s ≠ .other := by
  unfold rangeL
  intro h
  split at h
  · split at h
    · split at h
      · unfold ordered at h; split at h <;> cases h
      · cases h
      · cases h
      · rename_i hy; exact numberL_ne_other P _ hy
    · cases h
    · cases h
    · rename_i hx; exact numberL_ne_other P _ hx
  · split at h
    · unfold ordered at h; split at h <;> cases h
    · cases h
    · cases h
    · rename_i hx; exact numberL_ne_other P _ hx

/-! ### label tables: `labels[k] = v` and `__init__` keep every value in range -/

theorem lookup_insert (L : Labels) (k : Str) (v : Int) (x : Str) :
    lookup (AddrParser.insert L k v) x = if k = x then some v else lookup L x := by
  induction L with
  | nil => simp [AddrParser.insert, lookup]
  | cons kv rest ih =>
    obtain ⟨k', v'⟩ := kv
    by_cases h : k' = k
    · subst h
      by_cases hx : k' = x
      · simp [AddrParser.insert, lookup, hx]
      · simp [AddrParser.insert, lookup, hx]
    · by_cases hx : k' = x
      · have hkx : ¬ k = x := fun e => h (hx.trans e.symm)
        have hxk : ¬ x = k := fun e => hkx e.symm
        subst hx
        simp [AddrParser.insert, lookup, hxk, hkx]
      · simp [AddrParser.insert, lookup, h, hx, ih]

/-- `labels[k] = number(...)` (the monitor's `add_label`) keeps the table well formed. -/
theorem wf_insert {P : Parser} (hwf : P.WF) (k : Str) (v : Int) (h0 : 0 ≤ v) (h1 : v ≤ P.maxaddr) :
    ({ P with labels := AddrParser.insert P.labels k v } : Parser).WF := by
  intro x w hx
  simp only [lookup_insert] at hx
  show 0 ≤ w ∧ w ≤ P.maxaddr
  split at hx
  · cases hx; exact ⟨h0, h1⟩
  · exact hwf x w hx

/-- A parser built by the constructor has the requested width and radix and a well-formed table. -/
theorem init_wf (w r : Nat) (ls : List (Str × Int)) (P : Parser) (h : Parser.init w r ls = some P) :
    P.WF ∧ P.width = w ∧ P.radix = r := by
  unfold Parser.init at h
  simp only at h
  -- invariant of the fold
  have inv : ∀ (ls : List (Str × Int)) (acc : Option Parser) (P : Parser),
      (∀ Q, acc = some Q → Q.WF ∧ Q.width = w ∧ Q.radix = r) →
      List.foldl (fun acc kv =>
        match acc with
        | none => none
        | some P =>
          match constrain { width := w, radix := r, labels := [] } kv.2 with
          | .ok v => some { P with labels := AddrParser.insert P.labels kv.1 v }
          | _ => none) acc ls = some P →
      P.WF ∧ P.width = w ∧ P.radix = r := by
    intro ls
    induction ls with
    | nil =>
      intro acc P hacc hP
      exact hacc P hP
    | cons kv rest ih =>
      intro acc P hacc hP
      rw [List.foldl_cons] at hP
      refine ih _ P ?_ hP
      intro Q hQ
      cases acc with
      | none => simp at hQ
      | some A =>
        obtain ⟨hA, hAw, hAr⟩ := hacc A rfl
        simp only at hQ
        split at hQ
        · rename_i v hv
          cases hQ
          have hc := constrain_ok hv
          have hmax : ({ width := w, radix := r, labels := [] } : Parser).maxaddr = A.maxaddr := by
            simp [Parser.maxaddr, hAw]
          refine ⟨wf_insert hA kv.1 v hc.2.1 (hmax ▸ hc.2.2), hAw, hAr⟩
        · cases hQ
  refine inv ls _ P ?_ h
  intro Q hQ
  cases hQ
  exact ⟨fun k v hk => by simp [lookup] at hk, rfl, rfl⟩

/-! ### formatting = spelling -/

theorem mixCase_nil (cs : Str) : mixCase [] cs = cs := by cases cs <;> rfl

/-- `"%0<w>x" % n`, `"%0<w>o" % n`, `"{:b}".format(n).rjust(w, '0')`: zero padding is a spelling. -/
theorem rjustL_toDigits (b w n : Nat) :
    rjustL (toDigits b n) w '0' = spelling b (w - (toDigits b n).length) [] n := by
  simp [rjustL, spelling, mixCase_nil]

/-- `zfill` on a digit string (no sign in front) is zero padding on the left. -/
theorem zfillL_toDigits {b : Nat} (hb : 2 ≤ b) (hb36 : b ≤ 36) (w n : Nat) :
    zfillL (toDigits b n) w = spelling b (w - (toDigits b n).length) [] n := by
  obtain ⟨c, cs, hcs⟩ := List.exists_cons_of_ne_nil (toDigits_ne_nil b n)
  have hc : IsDigCh b c := toDigits_digCh hb n c (by rw [hcs]; simp)
  obtain ⟨d, hd, rfl⟩ := hc
  have hne : ∀ d, d < 36 → digitChar d ≠ '+' ∧ digitChar d ≠ '-' := by decide
  have := hne d (by omega)
  simp [zfillL, spelling, mixCase_nil, hcs, this.1, this.2]

/-- Fixed column width: a value that fits in `w` digits is printed with exactly `w` characters. -/
theorem rjustL_toDigits_length {b : Nat} (hb : 2 ≤ b) (w n : Nat) (hn : n < b ^ (w + 1)) :
    (rjustL (toDigits b n) (w + 1) '0').length = w + 1 := by
  have := toDigits_length_le hb w n hn
  simp only [rjustL, List.length_append, List.length_replicate]
  omega

/-! ### example parsers for the non-vacuity examples of Props/C15, C19 -/

/-- 16/24/32 bits, `foo = $c000`, `ten = 10`. -/
def exLabels : Labels := [("foo".toList, 0xc000), ("ten".toList, 10)]
def P16 : Parser := { width := 16, radix := 16, labels := exLabels }
def P24 : Parser := { width := 24, radix := 10, labels := exLabels }
def P32 : Parser := { width := 32, radix := 8, labels := exLabels }

theorem exWF (w r : Nat) (hw : 16 ≤ w) : ({ width := w, radix := r, labels := exLabels } : Parser).WF := by
  intro k v h
  have h65536 : (65536 : Int) ≤ 2 ^ w := by
    have h : (65536 : Nat) ≤ 2 ^ w := Nat.pow_le_pow_right (n := 2) (i := 16) (by decide) hw
    have h2 : ((65536 : Nat) : Int) ≤ ((2 ^ w : Nat) : Int) := Int.ofNat_le.mpr h
    rw [Int.natCast_pow] at h2
    exact h2
  simp only [exLabels, lookup] at h
  unfold Parser.maxaddr
  split at h
  · cases h; simp only; omega
  · split at h
    · cases h; simp only; omega
    · cases h

end Py65.Proofs.Num
