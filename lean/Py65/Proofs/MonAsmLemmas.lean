/-
Helper lemmas for C20a about the hand model `Py65/Model/MonAsm.lean` (the `assemble` command, one-line and
interactive): what the ObservableMemory SLICE store does to the cells (inside the physical size: exactly the
element-wise store; at or above it: NOTHING, the range is clipped away), one iteration of the interactive
loop, and the assembler's top-of-memory bound.  Property statements live in `Py65/Props/C20a.lean`.
-/
import Py65.Model.MonAsm
import Py65.Proofs.MonLemmas
import Py65.Model.Asm

namespace Py65.Proofs.MonAsmLemmas
open Py65 Py65.Model Py65.Model.PyStr Py65.Model.ObsMem Py65.Model.AddrParser Py65.Model.MonMem
open Py65.Model.MonGenRt Py65.Model.MonAsmRt Py65.Model.MonAsm Py65.Spec.ObsMem Py65.Spec.MonMem

/-! ### the slice store -/

theorem setMany_shape (reply : Reply) : ∀ (idx vals : List Int) (m : OM), SameShape m (setMany reply idx vals m) := by
  intro idx
  induction idx with
  | nil => intro vals m; cases vals <;> exact SameShape.refl m
  | cons n ns ih =>
    intro vals m
    cases vals with
    | nil => exact SameShape.refl m
    | cons v vs => exact SameShape.trans (set_sameShape reply m n v) (ih vs _)

/-- the slice store changes cell contents and the call log only -/
theorem sliceStore_shape (reply : Reply) (m : OM) (start : Int) (bytes : List Int) :
    SameShape m (sliceStore reply m start bytes) := setMany_shape reply _ _ m

/-- storing `vs` element-wise at `a, a+1, …` inside the physical memory (write subscribers answer `None`) -/
theorem setMany_contig (reply : Reply) : ∀ (vs : List Int) (a : Int) (m : OM), WF m → WQuiet reply m →
    0 ≤ a → a + (vs.length : Int) ≤ m.physMask + 1 →
    (∀ i : Nat, i < vs.length → (setMany reply (addrRange a (a + (vs.length : Int) - 1)) vs m).subject (a + (i : Int)) = vs.getD i 0) ∧
    (∀ k, (k < a ∨ a + (vs.length : Int) ≤ k) →
      (setMany reply (addrRange a (a + (vs.length : Int) - 1)) vs m).subject k = m.subject k) := by
  intro vs
  induction vs with
  | nil =>
    intro a m _ _ _ _
    refine ⟨fun i hi => absurd hi (by simp), fun k _ => ?_⟩
    rw [addrRange_nil a _ (by simp)]
    rfl
  | cons v vs ih =>
    intro a m hw hq h0 h1
    have hlen : ((v :: vs).length : Int) = (vs.length : Int) + 1 := by simp
    rw [hlen] at h1 ⊢
    have hr : addrRange a (a + ((vs.length : Int) + 1) - 1) = a :: addrRange (a + 1) (a + 1 + (vs.length : Int) - 1) := by
      rw [addrRange_cons a _ (by omega)]
      congr 2; omega
    rw [hr]
    simp only [setMany]
    have hsh := set_sameShape reply m a v
    have hw' := hsh.wf hw
    have hq' := hsh.wquiet hq
    have hpm : (ObsMem.set reply m a v).physMask = m.physMask := hsh.1
    obtain ⟨i1, i2⟩ := ih (a + 1) (ObsMem.set reply m a v) hw' hq' (by omega) (by rw [hpm]; omega)
    have hsub : (ObsMem.set reply m a v).subject = upd m.subject a v := by
      rw [set_subject_quiet hw hq, phys_of_inRange h0 (by omega)]
    refine ⟨fun i hi => ?_, fun k hk => ?_⟩
    · cases i with
      | zero =>
        have := i2 a (Or.inl (by omega))
        simp only [Nat.cast_zero, Int.add_zero, List.getD_cons_zero]
        rw [this, hsub]; simp [upd]
      | succ j =>
        have hj : j < vs.length := by simpa using hi
        have := i1 j hj
        have e : a + ((j + 1 : Nat) : Int) = a + 1 + (j : Int) := by push_cast; omega
        rw [e, this]; simp
    · rw [i2 k (by omega), hsub]
      have : k ≠ a := by omega
      simp [upd, this]

/-- INSIDE the physical memory the slice store is exactly the element-wise store: the cell of
`start + i` holds `bytes[i]`, every other cell is unchanged, nothing else of the memory object changes -/
theorem sliceStore_inRange (reply : Reply) (m : OM) (start : Int) (bytes : List Int) (hw : WF m)
    (hq : WQuiet reply m) (h0 : 0 ≤ start) (h1 : start + (bytes.length : Int) ≤ m.physMask + 1) :
    (∀ i : Nat, i < bytes.length → (sliceStore reply m start bytes).subject (start + (i : Int)) = bytes.getD i 0) ∧
    (∀ k, (k < start ∨ start + (bytes.length : Int) ≤ k) → (sliceStore reply m start bytes).subject k = m.subject k) ∧
    SameShape m (sliceStore reply m start bytes) := by
  have hc1 : clip m start = start := by
    unfold clip clampBound
    have a1 : ¬ (start < 0) := by omega
    have a2 : ¬ (start > m.physMask + 1) := by omega
    simp only [a1, a2, if_false]
  have hc2 : clip m (start + (bytes.length : Int)) = start + (bytes.length : Int) := by
    unfold clip clampBound
    have a1 : ¬ (start + (bytes.length : Int) < 0) := by omega
    have a2 : ¬ (start + (bytes.length : Int) > m.physMask + 1) := by omega
    simp only [a1, a2, if_false]
  have hs : sliceStore reply m start bytes =
      setMany reply (addrRange start (start + (bytes.length : Int) - 1)) bytes m := by
    unfold sliceStore
    rw [hc1, hc2, pyRange_one]
  rw [hs]
  obtain ⟨i1, i2⟩ := setMany_contig reply bytes start m hw hq h0 h1
  exact ⟨i1, i2, setMany_shape reply _ _ m⟩

/-- AT OR ABOVE the physical size the slice store does NOTHING (`slice.indices` clips both bounds to the
size; item access at the same address would alias into the memory): the precondition of
`sliceStore_inRange` is needed -/
theorem sliceStore_above (reply : Reply) (m : OM) (start : Int) (bytes : List Int) (hp : 0 ≤ m.physMask + 1)
    (h : m.physMask + 1 ≤ start) : sliceStore reply m start bytes = m := by
  have hc1 : clip m start = m.physMask + 1 := by
    unfold clip clampBound
    have a1 : ¬ (start < 0) := by omega
    by_cases a2 : start > m.physMask + 1
    · simp only [a1, a2, if_false, if_true]
    · simp only [a1, a2, if_false]; omega
  have hc2 : clip m (start + (bytes.length : Int)) = m.physMask + 1 := by
    unfold clip clampBound
    have a1 : ¬ (start + (bytes.length : Int) < 0) := by omega
    by_cases a2 : start + (bytes.length : Int) > m.physMask + 1
    · simp only [a1, a2, if_false, if_true]
    · simp only [a1, a2, if_false]; omega
  unfold sliceStore
  rw [hc1, hc2, pyRange_one, addrRange_nil _ _ (by omega)]
  cases bytes <;> rfl

/-! ### the assembler refuses code running past the top of memory -/

open Py65.Model.Asm in
theorem finish_ok {d : Asm.Dev} {pc : Int} {bytes bs : List Int} (h : finish d pc bytes = .ok bs) :
    bs = bytes ∧ pc + (bs.length : Int) ≤ (2 : Int) ^ d.addrWidth := by
  unfold finish at h
  split_ifs at h with hc
  · injection h with h; subst h; exact ⟨rfl, by omega⟩

open Py65.Model.Asm in
theorem emit_ok {d : Asm.Dev} {opcode mode : Str} {pc : Int} {groups : List Str} {bs : List Int}
    (h : emit d opcode pc mode groups = some (.ok bs)) :
    pc + (bs.length : Int) ≤ (2 : Int) ^ d.addrWidth ∧ bs ≠ [] := by
  have key : ∀ (op : Nat) (ops : List Int), finish d pc ((op : Int) :: ops) = .ok bs →
      pc + (bs.length : Int) ≤ (2 : Int) ^ d.addrWidth ∧ bs ≠ [] := fun op ops h => by
    obtain ⟨e, hb⟩ := finish_ok h
    exact ⟨hb, by rw [e]; simp⟩
  unfold emit at h
  split_ifs at h
  · split at h
    · cases h
    · split at h
      · cases h
      · split at h
        · cases h
        · split at h
          · cases h
          · split at h
            · injection h with h; exact key _ _ h
            · cases h
  · split at h
    · cases h
    · simp only [] at h
      split at h
      · injection h with h; exact key _ _ h
      · cases h

open Py65.Model.Asm in
theorem tryModes_ok {d : Asm.Dev} {opcode operand : Str} {pc : Int} {bs : List Int} :
    ∀ (l : List (Str × List TItem)), tryModes d opcode operand pc l = .ok bs →
      pc + (bs.length : Int) ≤ (2 : Int) ^ d.addrWidth ∧ bs ≠ [] := by
  intro l
  induction l with
  | nil => intro h; cases h
  | cons x xs ih =>
    obtain ⟨mode, items⟩ := x
    intro h
    unfold tryModes at h
    cases ht : tryMode d opcode operand pc mode items with
    | none => rw [ht] at h; exact ih h
    | some r =>
      rw [ht] at h
      simp only [] at h
      subst h
      unfold tryMode at ht
      split at ht
      · cases ht
      · exact emit_ok ht

open Py65.Model.Asm in
/-- whatever the hand model of the assembler returns as bytes is non-empty and ends inside the address space
(the check `pc + len(bytes) > 2 ** ADDR_WIDTH → OverflowError` of `assemble`) -/
theorem assembleL_ok_top {d : Asm.Dev} {P : Parser} {s : Str} {pc : Int} {bs : List Int}
    (h : assembleL d P s pc = .ok bs) : pc + (bs.length : Int) ≤ (2 : Int) ^ d.addrWidth ∧ bs ≠ [] := by
  unfold assembleL at h
  split at h
  · exact tryModes_ok _ h
  all_goals cases h

end Py65.Proofs.MonAsmLemmas
