import Py65.Proofs.OpsArith
import Py65.Proofs.DecimalKernel
set_option linter.unusedSimpArgs false
namespace Py65.Proofs
open Py65 Py65.Gen Py65.Spec Py Py65.Proofs.Dec Py65.Spec.Decimal

/-- status register with C, Z, V, N replaced by a decimal-mode result -/
def decP (p : Int) (r : Res) : Int :=
  setFlag (setFlag (setFlag (setFlag p 0 r.c) 1 r.z) 6 r.v) 7 r.n

/-- the same, reading C Z V N from another status byte -/
def copyCZVN (p q : Int) : Int :=
  setFlag (setFlag (setFlag (setFlag p 0 (flag q 0)) 1 (flag q 1)) 6 (flag q 6)) 7 (flag q 7)

theorem decP_flagsOf (p : Int) (t : St) : decP p (flagsOf t) = copyCZVN p t.p := by
  simp [decP, copyCZVN, flagsOf, flag, eqB]

theorem k81 : (8 : Int) + 1 = 9 := rfl
theorem k98 : land 9 8 = 8 := by decide
theorem k88 : land 8 8 = 8 := by decide
theorem k91 : land 9 1 = 1 := by decide
theorem k80 : land 8 1 = 0 := by decide
theorem k8ne : ((8 : Int) = 0) = False := by decide
theorem k1ne : ((1 : Int) = 0) = False := by decide
theorem dflag0 (x : Int) : decide (x % 2 = 1) = flag x 0 := by simp [flag, eqB]
theorem dflag1 (x : Int) : decide (x / 2 % 2 = 1) = flag x 1 := by simp [flag, eqB]
theorem dflag6 (x : Int) : decide (x / 64 % 2 = 1) = flag x 6 := by simp [flag, eqB]
theorem dflag7 (x : Int) : decide (x / 128 % 2 = 1) = flag x 7 := by simp [flag, eqB]

set_option maxHeartbeats 3200000 in
theorem opADC_decimal (x : St → Int × St) (mo : Mode) (hx : ModeSem dev6502.cfg x mo)
    (s : St) (hs : WF dev6502.cfg s) (hD : flag s.p bitD = true) :
    core (Mpu6502.opADC dev6502.cfg x s) =
      { core s with
        a := (Mpu6502.opADC dev6502.cfg rd (st s.a (s.mem (ea 8 mo (core s))) (flag s.p bitC))).a,
        p := copyCZVN s.p (Mpu6502.opADC dev6502.cfg rd (st s.a (s.mem (ea 8 mo (core s))) (flag s.p bitC))).p } := by
  obtain ⟨hv, hcore⟩ := hx s hs
  obtain ⟨ha', hxx, hy, hsp, hp', hpc, hmem, hw⟩ := core_fields hcore
  have hm := hs.mem (ea dev6502.cfg.BYTE_WIDTH mo (core s))
  have hp := hs.p
  have ha := hs.a
  have e0 : dev6502.cfg.BYTE_WIDTH = 8 := rfl
  rw [e0] at hv hm
  generalize ea 8 mo (core s) = e at hv hm
  have hd : ¬ (land s.p 8 = 0) := by
    rw [land8_zero]; simp [bitD] at hD; simp [hD]
  have hcases : land s.p 1 = 0 ∨ land s.p 1 = 1 := by
    rw [land_lit_1]; omega
  have e1 : dev6502.cfg.CARRY = 1 := rfl
  have eN : dev6502.cfg.NEGATIVE = 128 := rfl
  have eV : dev6502.cfg.OVERFLOW = 64 := rfl
  have eZ : dev6502.cfg.ZERO = 2 := rfl
  have eD : dev6502.cfg.DECIMAL = 8 := rfl
  have eB : dev6502.cfg.byteMask = 255 := rfl
  have hf : flag s.p bitC = (if land s.p 1 = 0 then false else true) := by
    have := land1_zero s.p
    by_cases h : land s.p 1 = 0 <;> simp_all [bitC]
  rw [hf]
  rcases hcases with h1 | h1 <;>
  · simp +instances only [Mpu6502.opADC, st, rd, copyCZVN, core, ByteAt_val, ByteAt_p, ByteAt_a, ByteAt_mem, ByteAt_x, ByteAt_y, ByteAt_sp,
      ByteAt_pc, ByteAt_waiting, hp', ha', hmem, hv, hxx, hy, hsp, hpc, hw, e1, eN, eV, eZ, eD, eB, h1, Mpu6502.ByteAt, memGet,
      hd, ne_eq, if_true, if_false, not_true_eq_false, not_false_eq_true, one_ne_zero, Int.reduceEq, Int.reduceAdd,
      apply_ite Prod.fst, apply_ite Prod.snd, apply_ite St.a, apply_ite St.x, apply_ite St.y, apply_ite St.sp,
      apply_ite St.p, apply_ite St.pc, apply_ite St.mem, apply_ite St.waiting, ite_self]
    simp +instances only [Bool.false_eq_true, Bool.true_eq_false, if_false, if_true, Int.add_zero, k81, k98, k88, k91, k80,
      not_true_eq_false, not_false_eq_true, ne_eq, reduceCtorEq, k8ne, k1ne]
    simp +instances only [Int.add_zero, pyconst, Int.reduceAdd, Int.reduceEq, not_true_eq_false, not_false_eq_true, ne_eq, if_true, if_false]
    simp only [AState.mk.injEq, true_and, and_true, eq_self]
    try refine ⟨rfl, ?_⟩
    generalize s.mem e = m at hm
    generalize s.a = a at ha
    generalize s.p = p at hp hD h1 hf hd
    split_ifs
    all_goals (try simp only [flagalg])
    all_goals (try simp [flagalg, *])
    all_goals (try flag_close)

set_option maxHeartbeats 3200000 in
theorem opSBC_decimal (x : St → Int × St) (mo : Mode) (hx : ModeSem dev6502.cfg x mo)
    (s : St) (hs : WF dev6502.cfg s) (hD : flag s.p bitD = true) :
    core (Mpu6502.opSBC dev6502.cfg x s) =
      { core s with
        a := (Mpu6502.opSBC dev6502.cfg rd (st s.a (s.mem (ea 8 mo (core s))) (flag s.p bitC))).a,
        p := copyCZVN s.p (Mpu6502.opSBC dev6502.cfg rd (st s.a (s.mem (ea 8 mo (core s))) (flag s.p bitC))).p } := by
  obtain ⟨hv, hcore⟩ := hx s hs
  obtain ⟨ha', hxx, hy, hsp, hp', hpc, hmem, hw⟩ := core_fields hcore
  have hm := hs.mem (ea dev6502.cfg.BYTE_WIDTH mo (core s))
  have hp := hs.p
  have ha := hs.a
  have e0 : dev6502.cfg.BYTE_WIDTH = 8 := rfl
  rw [e0] at hv hm
  generalize ea 8 mo (core s) = e at hv hm
  have hd : ¬ (land s.p 8 = 0) := by
    rw [land8_zero]; simp [bitD] at hD; simp [hD]
  have hcases : land s.p 1 = 0 ∨ land s.p 1 = 1 := by
    rw [land_lit_1]; omega
  have e1 : dev6502.cfg.CARRY = 1 := rfl
  have eN : dev6502.cfg.NEGATIVE = 128 := rfl
  have eV : dev6502.cfg.OVERFLOW = 64 := rfl
  have eZ : dev6502.cfg.ZERO = 2 := rfl
  have eD : dev6502.cfg.DECIMAL = 8 := rfl
  have eB : dev6502.cfg.byteMask = 255 := rfl
  have hf : flag s.p bitC = (if land s.p 1 = 0 then false else true) := by
    have := land1_zero s.p
    by_cases h : land s.p 1 = 0 <;> simp_all [bitC]
  rw [hf]
  rcases hcases with h1 | h1 <;>
  · simp +instances only [Mpu6502.opSBC, st, rd, copyCZVN, core, ByteAt_val, ByteAt_p, ByteAt_a, ByteAt_mem, ByteAt_x, ByteAt_y, ByteAt_sp,
      ByteAt_pc, ByteAt_waiting, hp', ha', hmem, hv, hxx, hy, hsp, hpc, hw, e1, eN, eV, eZ, eD, eB, h1, Mpu6502.ByteAt, memGet,
      hd, ne_eq, if_true, if_false, not_true_eq_false, not_false_eq_true, one_ne_zero, Int.reduceEq, Int.reduceAdd,
      apply_ite Prod.fst, apply_ite Prod.snd, apply_ite St.a, apply_ite St.x, apply_ite St.y, apply_ite St.sp,
      apply_ite St.p, apply_ite St.pc, apply_ite St.mem, apply_ite St.waiting, ite_self]
    simp +instances only [Bool.false_eq_true, Bool.true_eq_false, if_false, if_true, Int.add_zero, k81, k98, k88, k91, k80,
      not_true_eq_false, not_false_eq_true, ne_eq, reduceCtorEq, k8ne, k1ne]
    simp +instances only [Int.add_zero, pyconst, Int.reduceAdd, Int.reduceEq, not_true_eq_false, not_false_eq_true, ne_eq, if_true, if_false]
    simp only [AState.mk.injEq, true_and, and_true, eq_self]
    try refine ⟨rfl, ?_⟩
    generalize s.mem e = m at hm
    generalize s.a = a at ha
    generalize s.p = p at hp hD h1 hf hd
    split_ifs
    all_goals (try simp only [flagalg])
    all_goals (try simp [flagalg, *])
    all_goals (try flag_close)


theorem normP_copyCZVN (p q : Int) : normP (copyCZVN p q) = copyCZVN (normP p) q := by
  simp only [copyCZVN]
  rw [normP_setFlag _ _ _ (by decide), normP_setFlag _ _ _ (by decide), normP_setFlag _ _ _ (by decide),
    normP_setFlag _ _ _ (by decide)]

/-- What a decimal-mode ADC/SBC instruction does to the abstract state, given the (A, M, C) ↦ result
function `f`: A and the C Z V N flags from `f`, every other register, flag and memory cell unchanged,
PC at the next instruction. -/
def decExec (f : Int → Int → Bool → Res) (mo : Mode) (s : AState) : AState :=
  let r := f s.a (s.mem (ea 8 mo s)) (flag s.p bitC)
  { s with a := r.a, p := decP s.p r, pc := nextPc 8 mo s }

theorem adc_decimal_handler (x : St → Int × St) (mo : Mode) (hx : ModeSem dev6502.cfg x mo)
    (s : St) (hs : WF dev6502.cfg s) (hD : flag s.p bitD = true) :
    absH dev6502.cfg (bump (mo.len - 1) (Mpu6502.opADC dev6502.cfg x s)) = decExec pyAdc mo (abs s) := by
  obtain ⟨ha, hxx, hy, hsp, hp, hpc, hmem, hw⟩ := core_eq (opADC_decimal x mo hx s hs hD)
  simp only [decExec, ea_abs, nextPc_abs, pyAdc, decP_flagsOf]
  simp only [absH, abs, bump, core, nextPc, ha, hxx, hy, hsp, hp, hpc, hmem, hw, normP_copyCZVN,
    flag_normP _ _ (by decide : bitC ∈ [0, 1, 2, 3, 6, 7, 14, 15])]
  rfl

theorem sbc_decimal_handler (x : St → Int × St) (mo : Mode) (hx : ModeSem dev6502.cfg x mo)
    (s : St) (hs : WF dev6502.cfg s) (hD : flag s.p bitD = true) :
    absH dev6502.cfg (bump (mo.len - 1) (Mpu6502.opSBC dev6502.cfg x s)) = decExec pySbc mo (abs s) := by
  obtain ⟨ha, hxx, hy, hsp, hp, hpc, hmem, hw⟩ := core_eq (opSBC_decimal x mo hx s hs hD)
  simp only [decExec, ea_abs, nextPc_abs, pySbc, decP_flagsOf]
  simp only [absH, abs, bump, core, nextPc, ha, hxx, hy, hsp, hp, hpc, hmem, hw, normP_copyCZVN,
    flag_normP _ _ (by decide : bitC ∈ [0, 1, 2, 3, 6, 7, 14, 15])]
  rfl
end Py65.Proofs
