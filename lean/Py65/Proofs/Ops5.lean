/-
The 65C02-only helpers and handlers (configuration = the 8-bit configuration).
-/
import Py65.Proofs.Ops4

set_option linter.unusedSimpArgs false

namespace Py65.Proofs
open Py65 Py65.Gen Py65.Spec Py

abbrev c8 : Cfg := dev6502.cfg
theorem hc8 : IsDev c8 := Or.inl rfl

/-- STZ -/
theorem opSTZ_ok (v : Variant) (x : St → Int × St) (mo : Mode) (hx : ModeSem c8 x mo) :
    HandlerOK c8 v (fun s => bump (mo.len - 1) (Mpu65c02.opSTZ c8 x s)) .STZ mo := by
  intro s hs
  obtain ⟨hv, hcore⟩ := hx s hs
  obtain ⟨ha, hxx, hy, hsp, hp, hpc, hmem, hw⟩ := core_fields hcore
  simp only [exec, ea_abs, nextPc_abs]
  generalize ea c8.BYTE_WIDTH mo (core s) = e at hv
  simp only [Mpu65c02.opSTZ, memSet, write]
  proj_simp
  simp only [addrMask_succ hc8]

/-- TSB / TRB: only Z changes; the cell gets `m | a` resp. `m & ~a`. -/
theorem opTSB_ok (v : Variant) (x : St → Int × St) (mo : Mode) (hx : ModeSem c8 x mo) :
    HandlerOK c8 v (fun s => bump (mo.len - 1) (Mpu65c02.opTSB c8 x s)) .TSB mo := by
  intro s hs
  obtain ⟨hv, hcore⟩ := hx s hs
  obtain ⟨ha, hxx, hy, hsp, hp, hpc, hmem, hw⟩ := core_fields hcore
  simp only [exec, ea_abs, nextPc_abs]
  generalize ea c8.BYTE_WIDTH mo (core s) = e at hv
  simp only [Mpu65c02.opTSB, memGet, memSet, write]
  constfold
  simp only [flagalg]
  split_ifs with h <;>
  · simp only [hmem, ha, hv] at h
    proj_simp
    simp only [addrMask_succ hc8, normP, bitB, bitU, bitZ, flagalg, land_comm s.a, h, eqB]
    simp [h, flagalg]
    try rfl

theorem opTRB_ok (v : Variant) (x : St → Int × St) (mo : Mode) (hx : ModeSem c8 x mo) :
    HandlerOK c8 v (fun s => bump (mo.len - 1) (Mpu65c02.opTRB c8 x s)) .TRB mo := by
  intro s hs
  obtain ⟨hv, hcore⟩ := hx s hs
  obtain ⟨ha, hxx, hy, hsp, hp, hpc, hmem, hw⟩ := core_fields hcore
  simp only [exec, ea_abs, nextPc_abs]
  generalize ea c8.BYTE_WIDTH mo (core s) = e at hv
  simp only [Mpu65c02.opTRB, memGet, memSet, write]
  constfold
  simp only [flagalg, land_lnot_right']
  split_ifs with h <;>
  · simp only [hmem, ha, hv] at h
    proj_simp
    simp only [addrMask_succ hc8, normP, bitB, bitU, bitZ, flagalg, land_comm s.a, h, eqB]
    simp [h, flagalg]
    try rfl


/-- RMBn: clear one bit of a zero-page cell (mask = 255 - 2^b). -/
theorem opRMB_ok (v : Variant) (x : St → Int × St) (mo : Mode) (hx : ModeSem c8 x mo) (b : Nat)
    (mask : Int) (hb : (b, mask) ∈ [(0, (254 : Int)), (1, 253), (2, 251), (3, 247), (4, 239), (5, 223), (6, 191), (7, 127)]) :
    HandlerOK c8 v (fun s => bump (mo.len - 1) (Mpu65c02.opRMB c8 x mask s)) (.RMB b) mo := by
  intro s hs
  obtain ⟨hv, hcore⟩ := hx s hs
  obtain ⟨ha, hxx, hy, hsp, hp, hpc, hmem, hw⟩ := core_fields hcore
  have hm := hs.mem (ea c8.BYTE_WIDTH mo (core s))
  simp only [exec, ea_abs, nextPc_abs]
  generalize ea c8.BYTE_WIDTH mo (core s) = e at hv hm
  simp only [Mpu65c02.opRMB, memGet, memSet, write]
  proj_simp
  simp only [addrMask_succ hc8]
  constfold at hm
  generalize s.mem e = m at hm
  simp only [List.mem_cons, List.mem_nil_iff, or_false, Prod.mk.injEq] at hb
  rcases hb with ⟨rfl, rfl⟩ | ⟨rfl, rfl⟩ | ⟨rfl, rfl⟩ | ⟨rfl, rfl⟩ | ⟨rfl, rfl⟩ | ⟨rfl, rfl⟩ | ⟨rfl, rfl⟩ | ⟨rfl, rfl⟩ <;>
  · simp only [pyarith, Int.reducePow]
    congr 1
    funext k
    split_ifs <;> first | rfl | omega

/-- SMBn: set one bit. -/
theorem opSMB_ok (v : Variant) (x : St → Int × St) (mo : Mode) (hx : ModeSem c8 x mo) (b : Nat)
    (mask : Int) (hb : (b, mask) ∈ [(0, (1 : Int)), (1, 2), (2, 4), (3, 8), (4, 16), (5, 32), (6, 64), (7, 128)]) :
    HandlerOK c8 v (fun s => bump (mo.len - 1) (Mpu65c02.opSMB c8 x mask s)) (.SMB b) mo := by
  intro s hs
  obtain ⟨hv, hcore⟩ := hx s hs
  obtain ⟨ha, hxx, hy, hsp, hp, hpc, hmem, hw⟩ := core_fields hcore
  simp only [exec, ea_abs, nextPc_abs]
  generalize ea c8.BYTE_WIDTH mo (core s) = e at hv
  simp only [Mpu65c02.opSMB, memGet, memSet, write]
  proj_simp
  simp only [addrMask_succ hc8]
  generalize s.mem e = m
  simp only [List.mem_cons, List.mem_nil_iff, or_false, Prod.mk.injEq] at hb
  rcases hb with ⟨rfl, rfl⟩ | ⟨rfl, rfl⟩ | ⟨rfl, rfl⟩ | ⟨rfl, rfl⟩ | ⟨rfl, rfl⟩ | ⟨rfl, rfl⟩ | ⟨rfl, rfl⟩ | ⟨rfl, rfl⟩ <;>
  · simp only [pyarith, Int.reducePow]
    congr 1
    funext k
    split_ifs <;> first | rfl | omega

/-- BIT #imm: only Z. -/
theorem h_89 (v : Variant) : HandlerOK c8 v (Mpu65c02.inst_0x89 c8) .BIT .imm := by
  intro s hs
  simp only [Mpu65c02.inst_0x89, Mpu6502.ImmediateByte, Mpu6502.ByteAt, memGet]
  dsimp only [exec, absH, abs, core, ea, nextPc, Mode.len]
  constfold
  simp only [flagalg]
  split_ifs with h <;>
  · simp only [normP, bitB, bitU, flagalg, eqB, h]
    simp [h, AM]

/-- BRA -/
theorem h_80 (v : Variant) : HandlerOK c8 v (Mpu65c02.inst_0x80 c8) .BRA .rel := by
  apply branch_ok c8 hc8 v _ .BRA (fun _ => true)
  · intro s; simp [Mpu65c02.inst_0x80]
  · intro p; rfl
  · intro a; rfl

/-- WAI -/
theorem h_cb (v : Variant) : HandlerOK c8 v (Mpu65c02.inst_0xcb c8) .WAI .imp := by
  intro s hs
  simp only [Mpu65c02.inst_0xcb]
  dsimp only [exec, absH, abs, core, nextPc, Mode.len]
  simp [addrMask_succ hc8]


theorem h_da (v : Variant) : HandlerOK c8 v (Mpu65c02.inst_0xda c8) .PHX .imp := by
  intro s hs
  simp only [Mpu65c02.inst_0xda]
  rw [absH_of_core c8 _ _ (stPush_core c8 hc8 s.x s)]
  dsimp only [exec, abs, core, push, write, nextPc, Mode.len]
  simp only [byte_mod hc8 _ hs.x, addrMask_succ hc8]
  first | rfl | simp

theorem h_5a (v : Variant) : HandlerOK c8 v (Mpu65c02.inst_0x5a c8) .PHY .imp := by
  intro s hs
  simp only [Mpu65c02.inst_0x5a]
  rw [absH_of_core c8 _ _ (stPush_core c8 hc8 s.y s)]
  dsimp only [exec, abs, core, push, write, nextPc, Mode.len]
  simp only [byte_mod hc8 _ hs.y, addrMask_succ hc8]
  first | rfl | simp

theorem h_fa (v : Variant) : HandlerOK c8 v (Mpu65c02.inst_0xfa c8) .PLX .imp := by
  intro s hs
  have hr := pull_val_range s hs
  obtain ⟨ha, hxx, hy, hsp, hp, hpc, hmem, hw⟩ := core_eq (stPop_core c8 hc8 s)
  simp only [Mpu65c02.inst_0xfa]
  dsimp only [exec, absH, abs, core, nextPc, Mode.len]
  rw [FlagsNZ_p c8 _ _ hc8 (by simpa [stPop_val c8 hc8] using hr)]
  simp only [FlagsNZ_a, FlagsNZ_x, FlagsNZ_y, FlagsNZ_sp, FlagsNZ_pc, FlagsNZ_mem, FlagsNZ_waiting,
    stPop_val c8 hc8, ha, hxx, hy, hsp, hp, hpc, hmem, hw, normP_setNZ _ hc8.W, addrMask_succ hc8]
  dsimp only [pull, core]
  first | rfl | simp

theorem h_7a (v : Variant) : HandlerOK c8 v (Mpu65c02.inst_0x7a c8) .PLY .imp := by
  intro s hs
  have hr := pull_val_range s hs
  obtain ⟨ha, hxx, hy, hsp, hp, hpc, hmem, hw⟩ := core_eq (stPop_core c8 hc8 s)
  simp only [Mpu65c02.inst_0x7a]
  dsimp only [exec, absH, abs, core, nextPc, Mode.len]
  rw [FlagsNZ_p c8 _ _ hc8 (by simpa [stPop_val c8 hc8] using hr)]
  simp only [FlagsNZ_a, FlagsNZ_x, FlagsNZ_y, FlagsNZ_sp, FlagsNZ_pc, FlagsNZ_mem, FlagsNZ_waiting,
    stPop_val c8 hc8, ha, hxx, hy, hsp, hp, hpc, hmem, hw, normP_setNZ _ hc8.W, addrMask_succ hc8]
  dsimp only [pull, core]
  first | rfl | simp

/-- JMP (abs) on the 65C02: the pointer is read with a 16-bit increment. -/
theorem h_6c_cmos : HandlerOK c8 .cmos (Mpu65c02.inst_0x6c c8) .JMP .ind := by
  intro s hs
  have hl := hs.mem
  simp only [Mpu65c02.inst_0x6c]
  dsimp only [exec, absH, abs, core, opnd16, opnd1, opnd2, word]
  simp only [WordAt_val c8 hc8, WordAt_a, WordAt_x, WordAt_y, WordAt_sp, WordAt_p, WordAt_mem,
    WordAt_waiting, addrMask_succ hc8]
  generalize hptr : s.mem s.pc + s.mem ((s.pc + 1) % AM c8.BYTE_WIDTH) * BM c8.BYTE_WIDTH = ptr
  have h1 := hl ptr
  have h2 := hl ((ptr + 1) % AM c8.BYTE_WIDTH)
  have : (s.mem ptr + s.mem ((ptr + 1) % AM c8.BYTE_WIDTH) * BM c8.BYTE_WIDTH) % AM c8.BYTE_WIDTH =
      s.mem ptr + s.mem ((ptr + 1) % AM c8.BYTE_WIDTH) * BM c8.BYTE_WIDTH := by
    constfold at h1 h2 ⊢; omega
  rw [this]

/-- JMP (abs,X) -/
theorem h_7c (v : Variant) : HandlerOK c8 v (Mpu65c02.inst_0x7c c8) .JMP .iax := by
  intro s hs
  have hl := hs.mem
  simp only [Mpu65c02.inst_0x7c, Mpu65c02.IndirectAbsXAddr]
  dsimp only [exec, absH, abs, core, opnd16, opnd1, opnd2, word]
  simp only [WordAt_val c8 hc8, WordAt_a, WordAt_x, WordAt_y, WordAt_sp, WordAt_p, WordAt_mem,
    WordAt_waiting, addrMask_succ hc8]
  have e : land (s.mem s.pc + s.mem ((s.pc + 1) % AM c8.BYTE_WIDTH) * BM c8.BYTE_WIDTH + s.x) c8.addrMask =
      (s.mem s.pc + s.mem ((s.pc + 1) % AM c8.BYTE_WIDTH) * BM c8.BYTE_WIDTH + s.x) % AM c8.BYTE_WIDTH := by
    constfold; simp only [pyarith]
  rw [e]
  generalize hptr : (s.mem s.pc + s.mem ((s.pc + 1) % AM c8.BYTE_WIDTH) * BM c8.BYTE_WIDTH + s.x) % AM c8.BYTE_WIDTH = ptr
  have h1 := hl ptr
  have h2 := hl ((ptr + 1) % AM c8.BYTE_WIDTH)
  have : (s.mem ptr + s.mem ((ptr + 1) % AM c8.BYTE_WIDTH) * BM c8.BYTE_WIDTH) % AM c8.BYTE_WIDTH =
      s.mem ptr + s.mem ((ptr + 1) % AM c8.BYTE_WIDTH) * BM c8.BYTE_WIDTH := by
    constfold at h1 h2 ⊢; omega
  rw [this]


/-- BRK on the 65C02: as on the NMOS part, then D is cleared. -/
theorem h_00_cmos : HandlerOK c8 .cmos (Mpu65c02.inst_0x00 c8) .BRK .imp := by
  intro s hs
  have hb := brk_core c8 hc8 s hs
  obtain ⟨ha, hxx, hy, hsp, hp, hpc, hmem, hw⟩ := core_eq hb
  dsimp only at ha hxx hy hsp hp hpc hmem hw
  have hirq : c8.IRQ = 65534 := rfl
  have hv1 := hs.mem 65534
  have hv2 := hs.mem 65535
  simp only [Mpu65c02.inst_0x00]
  dsimp only [exec, absH, abs, core, word, irqVector]
  simp only [WordAt_val c8 hc8, WordAt_a, WordAt_x, WordAt_y, WordAt_sp, WordAt_p, WordAt_mem,
    WordAt_waiting, ha, hxx, hy, hsp, hp, hpc, hmem, hw, hirq, addrMask_succ hc8]
  have e1 : ((65534 : Int) + 1) % AM c8.BYTE_WIDTH = 65535 := by constfold; omega
  rw [e1, vector_untouched c8 hc8 (core s) hs.sp _ _ _ 65534 (by omega),
    vector_untouched c8 hc8 (core s) hs.sp _ _ _ 65535 (by omega)]
  have e2 : (s.mem 65534 + s.mem 65535 * BM c8.BYTE_WIDTH) % AM c8.BYTE_WIDTH =
      s.mem 65534 + s.mem 65535 * BM c8.BYTE_WIDTH := by
    constfold at hv1 hv2 ⊢; omega
  dsimp only [core] at e2 ⊢
  simp only [e2]
  dsimp only [push, write]
  simp only [stPush_p, stPushWord_p, AState.mk.injEq, true_and, and_true]
  refine ⟨?_, rfl⟩
  constfold
  simp only [normP, bitB, bitU, bitI, bitD, flagalg]

end Py65.Proofs
