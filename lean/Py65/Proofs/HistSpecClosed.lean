/-
Closure of the programming model `Spec.Cpu` (width-generic, W = 8 or 16): one `Spec.exec`,
`Spec.step`, `Spec.irq`, `Spec.nmi`, `Spec.reset` of a state whose registers and cells are inside the
byte and whose PC is inside the address space again gives such a state.  Proved once per Spec
operation; the generated devices inherit it through C01/C02/C03 (`abs (step s) = Spec.step (abs s)`).
-/
import Py65.Proofs.CpuBase

set_option linter.unusedSimpArgs false

namespace Py65.Proofs
open Py65 Py65.Spec Py

/-- a value inside the byte of width `W` -/
def InB (W : Nat) (v : Int) : Prop := 0 ≤ v ∧ v < BM W
/-- a value inside the address space -/
def InA (W : Nat) (v : Int) : Prop := 0 ≤ v ∧ v < AM W

/-- Closed abstract state: everything the property C05 bounds. -/
structure AClosed (W : Nat) (s : AState) : Prop where
  a : InB W s.a
  x : InB W s.x
  y : InB W s.y
  sp : InB W s.sp
  p : InB W s.p
  pc : InA W s.pc
  mem : ∀ k, InB W (s.mem k)

section lemmas
variable {W : Nat}

theorem inB_zero (hW : W = 8 ∨ W = 16) : InB W 0 := by
  rcases hW with rfl | rfl <;> simp [InB, BM]

theorem inB_mod (hW : W = 8 ∨ W = 16) (v : Int) : InB W (v % BM W) := by
  rcases hW with rfl | rfl <;> (simp only [InB, BM]; omega)

theorem inA_mod (hW : W = 8 ∨ W = 16) (v : Int) : InA W (v % AM W) := by
  rcases hW with rfl | rfl <;> (simp only [InA, AM]; omega)

theorem inA_word (hW : W = 8 ∨ W = 16) {lo hi : Int} (h1 : InB W lo) (h2 : InB W hi) :
    InA W (lo + hi * BM W) := by
  rcases hW with rfl | rfl <;> (simp only [InA, InB, AM, BM] at *; omega)

theorem inB_of_inA_div (hW : W = 8 ∨ W = 16) {v : Int} (h : InA W v) : InB W (v / BM W) := by
  rcases hW with rfl | rfl <;> (simp only [InA, InB, AM, BM] at *; omega)

theorem inB_ite {c : Prop} [Decidable c] {a b : Int} (ha : InB W a) (hb : InB W b) :
    InB W (if c then a else b) := by split <;> assumption

theorem inA_ite {c : Prop} [Decidable c] {a b : Int} (ha : InA W a) (hb : InA W b) :
    InA W (if c then a else b) := by split <;> assumption

theorem inB_land {x y : Int} (hx : InB W x) (hy : InB W y) : InB W (land x y) :=
  ⟨land_nonneg x y hy.1, Int.lt_of_le_of_lt (land_le_left x y hx.1) hx.2⟩

theorem inB_lor {x y : Int} (hx : InB W x) (hy : InB W y) : InB W (lor x y) :=
  lor_range x y W hx.1 hx.2 hy.1 hy.2

theorem inB_lxor {x y : Int} (hx : InB W x) (hy : InB W y) : InB W (lxor x y) :=
  lxor_range x y W hx.1 hx.2 hy.1 hy.2

/-- Writing one flag bit (any of the ten bit positions a status register of width 8 or 16 uses)
keeps the register inside the byte. -/
theorem inB_setFlag (hW : W = 8 ∨ W = 16) {p : Int} (k : Nat) (b : Bool)
    (hk : k < W ∧ k ∈ [0, 1, 2, 3, 4, 5, 6, 7, 14, 15]) (hp : InB W p) : InB W (setFlag p k b) := by
  obtain ⟨hkW, hk⟩ := hk
  simp only [List.mem_cons, List.mem_nil_iff, or_false] at hk
  rcases hW with rfl | rfl <;>
    rcases hk with rfl | rfl | rfl | rfl | rfl | rfl | rfl | rfl | rfl | rfl <;>
    first
    | (exfalso; omega)
    | (simp only [InB, BM, setFlag] at *; cases b <;> simp <;> omega)

theorem inB_normP (hW : W = 8 ∨ W = 16) {p : Int} (hp : InB W p) : InB W (normP p) := by
  unfold normP
  have h4 : bitB < W ∧ bitB ∈ [0, 1, 2, 3, 4, 5, 6, 7, 14, 15] := by
    rcases hW with rfl | rfl <;> simp [bitB]
  have h5 : bitU < W ∧ bitU ∈ [0, 1, 2, 3, 4, 5, 6, 7, 14, 15] := by
    rcases hW with rfl | rfl <;> simp [bitU]
  exact inB_setFlag hW _ _ h5 (inB_setFlag hW _ _ h4 hp)

theorem bitN_ok (hW : W = 8 ∨ W = 16) : bitN W < W ∧ bitN W ∈ [0, 1, 2, 3, 4, 5, 6, 7, 14, 15] := by
  rcases hW with rfl | rfl <;> simp [bitN]
theorem bitV_ok (hW : W = 8 ∨ W = 16) : bitV W < W ∧ bitV W ∈ [0, 1, 2, 3, 4, 5, 6, 7, 14, 15] := by
  rcases hW with rfl | rfl <;> simp [bitV]
theorem bitC_ok (hW : W = 8 ∨ W = 16) : bitC < W ∧ bitC ∈ [0, 1, 2, 3, 4, 5, 6, 7, 14, 15] := by
  rcases hW with rfl | rfl <;> simp [bitC]
theorem bitZ_ok (hW : W = 8 ∨ W = 16) : bitZ < W ∧ bitZ ∈ [0, 1, 2, 3, 4, 5, 6, 7, 14, 15] := by
  rcases hW with rfl | rfl <;> simp [bitZ]
theorem bitI_ok (hW : W = 8 ∨ W = 16) : bitI < W ∧ bitI ∈ [0, 1, 2, 3, 4, 5, 6, 7, 14, 15] := by
  rcases hW with rfl | rfl <;> simp [bitI]
theorem bitD_ok (hW : W = 8 ∨ W = 16) : bitD < W ∧ bitD ∈ [0, 1, 2, 3, 4, 5, 6, 7, 14, 15] := by
  rcases hW with rfl | rfl <;> simp [bitD]
theorem bitB_ok (hW : W = 8 ∨ W = 16) : bitB < W ∧ bitB ∈ [0, 1, 2, 3, 4, 5, 6, 7, 14, 15] := by
  rcases hW with rfl | rfl <;> simp [bitB]

theorem inB_setNZ (hW : W = 8 ∨ W = 16) {p : Int} (v : Int) (hp : InB W p) : InB W (setNZ W p v) := by
  unfold setNZ
  exact inB_setFlag hW _ _ (bitZ_ok hW) (inB_setFlag hW _ _ (bitN_ok hW) hp)

theorem inB_setCV (hW : W = 8 ∨ W = 16) {p : Int} (c v : Bool) (hp : InB W p) : InB W (setCV W p c v) := by
  unfold setCV
  exact inB_setFlag hW _ _ (bitV_ok hW) (inB_setFlag hW _ _ (bitC_ok hW) hp)

theorem inB_cmpFlags (hW : W = 8 ∨ W = 16) {p : Int} (r m : Int) (hp : InB W p) :
    InB W (cmpFlags W p r m) := by
  unfold cmpFlags
  exact inB_setNZ hW _ (inB_setFlag hW _ _ (bitC_ok hW) hp)

/-- The shift/rotate/inc/dec results stay inside the byte. -/
theorem inB_rmw (hW : W = 8 ∨ W = 16) (mn : Mn) {v : Int} (cin : Bool) (hv : InB W v) :
    InB W (rmw W mn v cin).1 := by
  cases mn <;> simp only [rmw] <;> first
    | exact hv
    | exact inB_mod hW _
    | (rcases hW with rfl | rfl <;> (simp only [InB, BM] at *; cases cin <;> simp <;> omega))

/-- Clearing one bit of an in-range value (RMB, any bit number). -/
theorem inB_clearBit {v : Int} (b : Nat) (hv : InB W v) : InB W (v - (v / 2 ^ b % 2) * 2 ^ b) := by
  obtain ⟨h0, h1⟩ := hv
  have hp : (0 : Int) < 2 ^ b := Int.pow_pos (by decide)
  have hq : 0 ≤ v / 2 ^ b := Int.ediv_nonneg h0 (Int.le_of_lt hp)
  have hm : v / 2 ^ b % 2 ≤ v / 2 ^ b := by omega
  have hm0 : 0 ≤ v / 2 ^ b % 2 := Int.emod_nonneg _ (by omega)
  have h2 : v / 2 ^ b * 2 ^ b ≤ v := Int.ediv_mul_le v (Int.ne_of_gt hp)
  have h3 : v / 2 ^ b % 2 * 2 ^ b ≤ v / 2 ^ b * 2 ^ b := Int.mul_le_mul_of_nonneg_right hm (Int.le_of_lt hp)
  have h4 : 0 ≤ v / 2 ^ b % 2 * 2 ^ b := Int.mul_nonneg hm0 (Int.le_of_lt hp)
  constructor <;> omega

/-- Setting one of the bits 0..7 of an in-range value (SMB). -/
theorem inB_setBit (hW : W = 8 ∨ W = 16) {v : Int} (b : Nat) (hb : b < 8) (hv : InB W v) :
    InB W (v - (v / 2 ^ b % 2) * 2 ^ b + 2 ^ b) := by
  have hb' : b = 0 ∨ b = 1 ∨ b = 2 ∨ b = 3 ∨ b = 4 ∨ b = 5 ∨ b = 6 ∨ b = 7 := by omega
  rcases hW with rfl | rfl <;>
    rcases hb' with rfl | rfl | rfl | rfl | rfl | rfl | rfl | rfl <;>
    (simp only [InB, BM, Int.reducePow] at *; omega)

theorem inB_half {v : Int} (hv : InB W v) : InB W (v / 2) := by
  simp only [InB] at *; omega

theorem inB_ror (hW : W = 8 ∨ W = 16) {v : Int} (cin : Bool) (hv : InB W v) :
    InB W (v / 2 + (if cin = true then 2 ^ (W - 1) else 0)) := by
  rcases hW with rfl | rfl <;> (simp only [InB, BM] at *; cases cin <;> simp <;> omega)

theorem inB_sub_land {m a : Int} (hm : InB W m) (ha : InB W a) : InB W (m - land m a) := by
  have h1 := land_nonneg m a ha.1
  have h2 := land_le_left m a hm.1
  simp only [InB] at *; omega

end lemmas

/-! ### one instruction -/

set_option maxHeartbeats 1600000 in
/-- `Spec.exec` is closed (SMB: the bit number is one of 0..7, as in every row of the tables). -/
theorem exec_closed {W : Nat} (hW : W = 8 ∨ W = 16) (v : Variant) (mn : Mn) (mo : Mode) (s : AState)
    (hs : AClosed W s) (hsmb : ∀ b, mn = .SMB b → b < 8) : AClosed W (exec W v mn mo s) := by
  have ha := hs.a; have hx := hs.x; have hy := hs.y; have hsp := hs.sp; have hp := hs.p
  have hpc := hs.pc; have hm := hs.mem
  have hz := inB_zero hW
  cases mn <;> first
    | exact hs
    | (refine ⟨?_, ?_, ?_, ?_, ?_, ?_, fun k => ?_⟩ <;>
        dsimp +instances only [exec, push, pull, write, word, addBin, subBin, rmw, nextPc, branchTarget, opnd16, opnd1, opnd2] <;>
        (try split) <;>
        try simp +instances (maxDischargeDepth := 8) only [ha, hx, hy, hsp, hp, hpc, hm, hz, inB_mod hW, inA_mod hW, inB_ite, inA_ite, inA_word hW, inB_of_inA_div hW,
          inB_land, inB_lor, inB_lxor, inB_setFlag hW, inB_normP hW, inB_setNZ hW, inB_setCV hW, inB_cmpFlags hW,
          inB_clearBit, inB_half, inB_ror hW, inB_sub_land, bitN_ok hW, bitV_ok hW, bitC_ok hW, bitZ_ok hW,
          bitI_ok hW, bitD_ok hW, bitB_ok hW, and_self])
  all_goals exact inB_setBit hW _ (hsmb _ rfl) (hm _)

/-! ### interrupts and reset -/

theorem interrupt_closed {W : Nat} (hW : W = 8 ∨ W = 16) (vec : Int) (s : AState) (hs : AClosed W s) :
    AClosed W (interrupt W vec s) := by
  have ha := hs.a; have hx := hs.x; have hy := hs.y; have hsp := hs.sp; have hp := hs.p
  have hpc := hs.pc; have hm := hs.mem
  refine ⟨?_, ?_, ?_, ?_, ?_, ?_, fun k => ?_⟩ <;>
    dsimp +instances only [interrupt, push, write, word] <;>
    simp +instances (maxDischargeDepth := 8) only [ha, hx, hy, hsp, hp, hpc, hm, inB_mod hW, inA_mod hW, inB_ite,
      inA_word hW, inB_of_inA_div hW, inB_setFlag hW, bitI_ok hW, bitB_ok hW, and_self]

theorem irq_closed {W : Nat} (hW : W = 8 ∨ W = 16) (s : AState) (hs : AClosed W s) :
    AClosed W (Spec.irq W s) := by
  unfold Spec.irq
  split
  · exact ⟨hs.a, hs.x, hs.y, hs.sp, hs.p, hs.pc, hs.mem⟩
  · exact interrupt_closed hW _ s hs

theorem nmi_closed {W : Nat} (hW : W = 8 ∨ W = 16) (s : AState) (hs : AClosed W s) :
    AClosed W (Spec.nmi W s) := interrupt_closed hW _ s hs

/-- `reset`: closed whenever the configured start address (if one is given) is an address. -/
theorem reset_closed {W : Nat} (hW : W = 8 ∨ W = 16) (a : Option Int) (s : AState) (hs : AClosed W s)
    (ha : ∀ v, a = some v → InA W v) : AClosed W (Spec.reset W a s) := by
  have hm := hs.mem
  have hz := inB_zero hW
  refine ⟨hz, hz, hz, ?_, inB_normP hW hz, ?_, hm⟩
  · rcases hW with rfl | rfl <;> simp [Spec.reset, InB, BM]
  · cases a with
    | none => exact inA_word hW (hm _) (hm _)
    | some v => exact ha v rfl

/-- An undeclared opcode: only PC moves. -/
theorem skip_closed {W : Nat} (hW : W = 8 ∨ W = 16) (s : AState) (hs : AClosed W s) :
    AClosed W { s with pc := (s.pc + 2) % AM W } :=
  ⟨hs.a, hs.x, hs.y, hs.sp, hs.p, inA_mod hW _, hs.mem⟩

end Py65.Proofs
