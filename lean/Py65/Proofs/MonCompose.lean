/-
COMPOSITION of the regenerated monitor commands (C20, builder `honest`).

`Py65.Gen.MonCmdGen.onecmd` (the generated `Monitor.onecmd` + `cmd.Cmd.onecmd`) reaches every `do_*` method
that unit `cmds` does not translate through its parameter `oth`; `Props/C20g.lean` states C20 for it under
two hypotheses about that parameter: `OthModels oth ext` and `ext.Honest`.  Here the parameter is
INSTANTIATED with the commands the other units regenerate

  `do_fill do_load do_save do_mem`                                   (`Gen/MonMemGen.lean`, `Gen/MonFillGen.lean`)
  `do_step do_goto do_return do_add_breakpoint do_delete_breakpoint do_show_breakpoints`   (`Gen/MonRunGen.lean`)
  `do_cycles do_tilde do_disassemble`                                (`Gen/MonShowGen.lean`)
  `do_reset do_mpu`                                                  (`Gen/MonIOGen.lean`)

through the state adapters of `Model/MonComposeRt.lean` (`othG`), the semantics `Ext` of the model is DEFINED
from the same generated commands (`extG`), and the two hypotheses are proved, call by call, from the units'
`GenEq` theorems.  What stays a parameter: `P.unt` = the `do_*` methods nobody translates (`do_help`,
`do_version`, `do_assemble` with `_interactive_assemble`, `do_cd`, `do_pwd`), with the hypothesis `UntModels`.

Part 1: `OthModels` / `Ext.Honest` / `onecmd_sim` of `MonCmdGenEq` / `MonCmdLemmas` in POINTWISE form (at the
one call a line is dispatched to) -- needed because a generated run command may run out of fuel (the model
says nothing then) and because `do_fill` is only tied for a well-formed label table.
Part 2: `othG`, `extG`.  Part 3: the families.  Part 4: the composed simulation.
-/
import Py65.Model.MonComposeRt
import Py65.Proofs.MonCmdGenEq
import Py65.Props.C16g
import Py65.Proofs.MonRunGenEq
import Py65.Proofs.ReprGenEq
import Py65.Proofs.MonIOGenEq

namespace Py65.Proofs.MonCompose
open Py65 Py65.Model Py65.Model.PyStr Py65.Model.AddrParser Py65.Model.MonCmd Py65.Model.MonGenRt
open Py65.Model.MonCmdRt Py65.Model.MonComposeRt Py65.Gen Py65.Proofs.MonCmd Py65.Proofs.MonCmdGenEq

/-! ## Part 1: the pointwise forms -/

section pointwise

variable (oth : Str → Str → CmdSt → Flow CmdSt PyRet) (tb : Exc → Str) (mr : Core → Str)

/-- `MonCmdGenEq.OthModels` at ONE call: the method ends, does to the session core what the model's
`runCommand ext` says, leaves `lastcmd` alone and returns no true value. -/
def ModelsAt (ext : Ext) (cmd : Command) (arg : Str) (σ : CmdSt) : Prop :=
  oth ("do_".toList ++ cmdWord cmd) arg σ ≠ .nofuel ∧
  (stateAfter σ (oth ("do_".toList ++ cmdWord cmd) arg σ)).core = (runCommand ext σ.core cmd arg).core ∧
  (stateAfter σ (oth ("do_".toList ++ cmdWord cmd) arg σ)).lastcmd = σ.lastcmd ∧
  (retOf (oth ("do_".toList ++ cmdWord cmd) arg σ)).truthy = false

/-- The command and argument a PREPROCESSED, non-empty line is dispatched to (if any). -/
def target (l : Str) : Option (Command × Str) :=
  match parseline l with
  | .cmd w a _ =>
    if w = [] then none else
    match commandOf w with
    | some c => some (c, a)
    | none => none
  | _ => none

/-- The command and argument `Monitor.onecmd(line)` ends up calling in state `s` (for a line that is empty
after preprocessing: what the repeated `lastcmd` calls). -/
def dispatched (s : State) (line : Str) : Option (Command × Str) :=
  match parseline (preprocessL line) with
  | .empty => if s.lastcmd = [] then none else target (preprocessL s.lastcmd)
  | _ => target (preprocessL line)

/-- `MonCmdGenEq.call_do_sim` with the hypothesis at this call only. -/
theorem call_do_sim_at (ext : Ext) (cmd : Command) (arg : Str) (σ : CmdSt)
    (hm : translated cmd = false → ModelsAt oth ext cmd arg σ) :
    MonCmdGen.call_do oth tb mr ("do_".toList ++ cmdWord cmd) arg σ ≠ .nofuel ∧
    (stateAfter σ (MonCmdGen.call_do oth tb mr ("do_".toList ++ cmdWord cmd) arg σ)).core =
      (runCommand ext σ.core cmd arg).core ∧
    (stateAfter σ (MonCmdGen.call_do oth tb mr ("do_".toList ++ cmdWord cmd) arg σ)).lastcmd = σ.lastcmd ∧
    (retOf (MonCmdGen.call_do oth tb mr ("do_".toList ++ cmdWord cmd) arg σ)).truthy =
      (runCommand ext σ.core cmd arg).exit := by
  by_cases ht : translated cmd = false
  · have hex : (runCommand ext σ.core cmd arg).exit = false := by
      cases cmd <;> first | rfl | (simp [translated] at ht)
    rw [call_do_oth oth tb mr cmd arg σ ht, hex]
    exact hm ht
  · -- a translated command: `oth` is not consulted
    have ht' : translated cmd = true := by simpa using ht
    cases cmd <;> simp only [translated, reduceCtorEq] at ht'
    case quit => rw [call_do_quit]; simp [do_quit_eq, stateAfter, retOf, PyRet.truthy, runCommand]
    case radix => rw [call_do_radix]; simp [do_radix_eq, stateAfter, retOf, PyRet.truthy, runCommand, Res.plain]
    case width => rw [call_do_width]; simp [do_width_eq, stateAfter, retOf, PyRet.truthy, runCommand, Res.plain]
    case registers =>
      rw [call_do_registers, do_registers_eq]
      exact cmdEnd_facts σ _ none _ (by simp)
    case add_label =>
      rw [call_do_add_label, do_add_label_eq]
      refine cmdEnd_facts σ _ _ _ ?_
      intro hx
      apply doAddLabel_rejected
      cases hv : (doAddLabel σ.core arg).1 with
      | rejected why => rfl
      | ok => exact absurd ((addLabel_ok_iff σ.core arg).mp hv).1 hx
    case show_labels =>
      rw [call_do_show_labels, do_show_labels_eq]
      exact cmdEnd_facts σ _ none _ (by simp)
    case delete_label =>
      rw [call_do_delete_label, do_delete_label_eq]
      exact cmdEnd_facts σ _ none _ (by simp)

/-- `MonCmdGenEq.dispatch_sim` with the hypothesis at the call the line is dispatched to. -/
theorem dispatch_sim_at (ext : Ext) (self_onecmd : Str → CmdSt → Flow CmdSt PyRet) (l : Str) (σ : CmdSt)
    (hne : parseline l ≠ .empty)
    (hm : ∀ cmd a, target l = some (cmd, a) → translated cmd = false →
      ∀ σ1 : CmdSt, σ1.core = σ.core → ModelsAt oth ext cmd a σ1) :
    Sim ((cmdOnecmd ext { core := σ.core, lastcmd := σ.lastcmd } l).1,
         { core := (cmdOnecmd ext { core := σ.core, lastcmd := σ.lastcmd } l).1.core,
           lastcmd := (cmdOnecmd ext { core := σ.core, lastcmd := σ.lastcmd } l).2 })
      (finish tb mr l (dispatch oth tb mr self_onecmd (parseline l) σ)) := by
  unfold cmdOnecmd Sim
  unfold target at hm
  cases hp : parseline l with
  | empty => exact absurd hp hne
  | noCmd x =>
    simp only [dispatch, unknownSyntax, finish]
    exact ⟨_, _, rfl, (status_core mr l _).1, (status_core mr l _).2, rfl⟩
  | cmd w a x =>
    simp only [dispatch]
    by_cases hw : w = []
    · simp only [hw, if_true, unknownSyntax, finish]
      exact ⟨_, _, rfl, (status_core mr l _).1, (status_core mr l _).2, rfl⟩
    · simp only [hw, if_false]
      cases hc : commandOf w with
      | none =>
        simp only [unknownSyntax, finish]
        exact ⟨_, _, rfl, (status_core mr l _).1, (status_core mr l _).2, rfl⟩
      | some cmd =>
        have hword := commandOf_word hc
        subst hword
        simp only
        have hm' := hm cmd a (by simp only [hp, hw, if_false, hc])
        obtain ⟨h1, h2, h3, h4⟩ := call_do_sim_at oth tb mr ext cmd a
          { σ with lastcmd := if x = "EOF".toList then [] else x } (fun ht => hm' ht _ rfl)
        obtain ⟨s', e1, e2, e3⟩ := finish_sim tb mr l { σ with lastcmd := if x = "EOF".toList then [] else x } _ h1
        exact ⟨_, s', e1, e2.trans h2, e3.trans h3, h4⟩

/-- `MonCmdGenEq.onecmd_sim` with the hypothesis about `oth` at the ONE call the line is dispatched to:
with enough fuel and outside `Loops`, the generated `onecmd` returns with the model's session core and
`lastcmd`, and a true value exactly when the model requests exit. -/
theorem onecmd_sim_at (ext : Ext) (fuel : Nat) (line : Str) (σ : CmdSt)
    (hf : fuel > (preprocessL line).length + (preprocessL σ.lastcmd).length + 6) (hnl : ¬ Loops σ line)
    (hm : ∀ cmd a, dispatched { core := σ.core, lastcmd := σ.lastcmd } line = some (cmd, a) →
      translated cmd = false → ∀ σ1 : CmdSt, σ1.core = σ.core → ModelsAt oth ext cmd a σ1) :
    Sim (onecmdL ext { core := σ.core, lastcmd := σ.lastcmd } line) (MonCmdGen.onecmd oth tb mr fuel line σ) := by
  obtain ⟨n, rfl⟩ : ∃ n, fuel = n + 1 := ⟨fuel - 1, by omega⟩
  unfold dispatched at hm
  by_cases he : parseline (preprocessL line) = .empty
  · rw [onecmd_eq_empty oth tb mr n line σ he]
    simp only [dispatch]
    by_cases hl : σ.lastcmd = []
    · rw [onecmdL_empty_nil ext { core := σ.core, lastcmd := σ.lastcmd } line he hl]
      simp only [hl, ne_eq, not_true_eq_false, if_false, finish, Sim]
      exact ⟨_, _, rfl, (status_core mr _ _).1, by rw [(status_core mr _ _).2, hl], rfl⟩
    · have he2 : parseline (preprocessL σ.lastcmd) ≠ .empty := fun h => hnl ⟨he, hl, h⟩
      rw [onecmdL_empty_repeat ext { core := σ.core, lastcmd := σ.lastcmd } line he hl he2]
      simp only [hl, ne_eq, not_false_eq_true, if_true]
      obtain ⟨m, rfl⟩ : ∃ m, n = m + 1 := ⟨n - 1, by omega⟩
      rw [onecmd_eq oth tb mr m σ.lastcmd σ (by omega)]
      simp only [he, hl, if_false] at hm
      obtain ⟨v, s', e1, e2, e3, e4⟩ := dispatch_sim_at oth tb mr ext (MonCmdGen.onecmd oth tb mr m)
        (preprocessL σ.lastcmd) σ he2 hm
      rw [e1]
      exact ⟨v, _, rfl, (status_core mr _ _).1.trans e2, (status_core mr _ _).2.trans e3, e4⟩
  · rw [onecmd_eq oth tb mr n line σ (by omega), onecmdL_nonempty ext { core := σ.core, lastcmd := σ.lastcmd } line he]
    have hm' : ∀ cmd a, target (preprocessL line) = some (cmd, a) → translated cmd = false →
        ∀ σ1 : CmdSt, σ1.core = σ.core → ModelsAt oth ext cmd a σ1 := by
      intro cmd a ht
      apply hm cmd a
      cases hp : parseline (preprocessL line) with
      | empty => exact absurd hp he
      | noCmd x => simpa only [hp] using ht
      | cmd w a' x => simpa only [hp] using ht
    exact dispatch_sim_at oth tb mr ext _ (preprocessL line) σ he hm'

end pointwise

/-! ### the model side: what a line is dispatched to, and "refused ⇒ unchanged" at one core -/

theorem cmdOnecmd_target (ext : Ext) (s : State) (l : Str) :
    match target l with
    | some (cmd, a) => (cmdOnecmd ext s l).1 = runCommand ext s.core cmd a
    | none => (cmdOnecmd ext s l).1.core = s.core ∧ (cmdOnecmd ext s l).1.exit = false := by
  unfold target cmdOnecmd
  cases hp : parseline l with
  | empty => exact ⟨rfl, rfl⟩
  | noCmd x => exact ⟨rfl, rfl⟩
  | cmd w a x =>
    by_cases hw : w = []
    · simp only [hw, if_true]; exact ⟨rfl, rfl⟩
    · simp only [hw, if_false]
      cases hc : commandOf w with
      | none => exact ⟨rfl, rfl⟩
      | some cmd => rfl

theorem onecmdL_loops (ext : Ext) (s : State) (line : Str) (he : parseline (preprocessL line) = .empty)
    (hl : s.lastcmd ≠ []) (he2 : parseline (preprocessL s.lastcmd) = .empty) :
    onecmdL ext s line = (Res.plain (.rejected .raised) s.core, s) := by
  unfold onecmdL
  simp only [he, hl, if_false, he2]

theorem dispatched_nonempty (s : State) (line : Str) (he : parseline (preprocessL line) ≠ .empty) :
    dispatched s line = target (preprocessL line) := by
  unfold dispatched
  cases hp : parseline (preprocessL line) with
  | empty => exact absurd hp he
  | noCmd x => rfl
  | cmd w a x => rfl

/-- The result of the model's `onecmdL` is the result of the command the line is dispatched to; a line that
is dispatched to no command leaves the core alone and does not request exit. -/
theorem onecmdL_dispatched (ext : Ext) (s : State) (line : Str) :
    match dispatched s line with
    | some (cmd, a) => (onecmdL ext s line).1 = runCommand ext s.core cmd a
    | none => (onecmdL ext s line).2.core = s.core ∧ (onecmdL ext s line).1.exit = false := by
  by_cases he : parseline (preprocessL line) = .empty
  · by_cases hl : s.lastcmd = []
    · have hd : dispatched s line = none := by simp only [dispatched, he, hl, if_true]
      rw [hd, onecmdL_empty_nil ext s line he hl]
      exact ⟨rfl, rfl⟩
    · have hd : dispatched s line = target (preprocessL s.lastcmd) := by simp only [dispatched, he, hl, if_false]
      rw [hd]
      by_cases he2 : parseline (preprocessL s.lastcmd) = .empty
      · have : target (preprocessL s.lastcmd) = none := by simp only [target, he2]
        rw [this, onecmdL_loops ext s line he hl he2]
        exact ⟨rfl, rfl⟩
      · rw [onecmdL_empty_repeat ext s line he hl he2]
        exact cmdOnecmd_target ext s _
  · rw [dispatched_nonempty s line he, onecmdL_nonempty ext s line he]
    exact cmdOnecmd_target ext s _

/-- The core of the state after `onecmdL` is the core of its result. -/
theorem onecmdL_core (ext : Ext) (s : State) (line : Str) : (onecmdL ext s line).2.core = (onecmdL ext s line).1.core := by
  by_cases he : parseline (preprocessL line) = .empty
  · by_cases hl : s.lastcmd = []
    · rw [onecmdL_empty_nil ext s line he hl]; rfl
    · by_cases he2 : parseline (preprocessL s.lastcmd) = .empty
      · rw [onecmdL_loops ext s line he hl he2]; rfl
      · rw [onecmdL_empty_repeat ext s line he hl he2]
  · rw [onecmdL_nonempty ext s line he]

/-- `Ext.Honest` at ONE core. -/
def HonestAt (ext : Ext) (c : Core) : Prop :=
  ∀ k arg, (ext.run k c arg).1.isRejected = true → (ext.run k c arg).2.1 = c.regs ∧ (ext.run k c arg).2.2 = c.mem

/-- `MonCmdLemmas.runCommand_rejected` with honesty at this core only. -/
theorem runCommand_rejected_at (ext : Ext) (c : Core) (hext : HonestAt ext c) (cmd : Command) (arg : Str)
    (h : (runCommand ext c cmd arg).verdict.isRejected = true) : (runCommand ext c cmd arg).core = c := by
  have key : ∀ k, (runExt ext k c arg).verdict.isRejected = true → (runExt ext k c arg).core = c := by
    intro k hk
    simp only [runExt] at hk ⊢
    obtain ⟨e1, e2⟩ := hext k arg hk
    rw [e1, e2]
  cases cmd
  case registers =>
    simp only [runCommand] at h ⊢
    rw [doRegisters_rejected c.dev c.parser c.regs arg h]
  case reset => simp [runCommand, Res.plain, Verdict.isRejected] at h
  case quit => rfl
  case mpu => exact doMpu_rejected c arg h
  case radix => exact doRadix_rejected c arg h
  case width => exact doWidth_rejected c arg h
  case add_label => exact doAddLabel_rejected c arg h
  case delete_label => exact doDeleteLabel_rejected c arg h
  case add_breakpoint => exact doAddBreakpoint_rejected c arg h
  case delete_breakpoint => exact doDeleteBreakpoint_rejected c arg h
  case assemble => exact key .assemble h
  case fill => exact key .fill h
  case load => exact key .load h
  case goto => exact key .goto h
  case step => exact key .step h
  case ret => exact key .ret h
  all_goals rfl

/-- `MonCmdLemmas.onecmd_rejected` with honesty at the session's core only. -/
theorem onecmd_rejected_at (ext : Ext) (s : State) (hext : HonestAt ext s.core) (line : Str)
    (h : (onecmdL ext s line).1.verdict.isRejected = true) : (onecmdL ext s line).2.core = s.core := by
  have hd := onecmdL_dispatched ext s line
  cases hdp : dispatched s line with
  | none => rw [hdp] at hd; exact hd.1
  | some p =>
    obtain ⟨cmd, a⟩ := p
    rw [hdp] at hd
    simp only at hd
    have hcore := onecmdL_core ext s line
    rw [hcore, hd]
    rw [hd] at h
    exact runCommand_rejected_at ext s.core hext cmd a h

/-! ## Part 2: the composed `oth` and the `Ext` it defines -/

open Py65.Model.MonMemRt Py65.Model.ShowRt

/-- Everything the composition is parametrised by: the glue (`Model/MonComposeRt.lean`), the parameters of the
generated units (the OS `w`, the device step, the uninterpreted printers / formatters of the display unit,
the environment of unit `io`), the fuels of the three fuel-bounded loops, and -- the only SEMANTIC parameters --
the methods nobody translates: `unt name arg` (`do_help`, `do_version`, `do_assemble`, `do_cd`, `do_pwd`) with
`asm` = what `assemble` does to registers and memory according to the model (`Ext.run .assemble`). -/
structure Params where
  G : Glue
  w : World
  step : MonCmd.Dev → St → St
  dis : Core → Str → St → List Str
  itoa : Int → Int → Except Exc Str
  mpurepr : Core → St → Except Exc Str
  iat : Core → St → Int → Except Exc (Int × Str)
  fmtdis : Core → St → Int → Int → Str → Except Exc Str
  E : MonIORt.Env
  fuelFill : Nat
  fuelRun : Nat
  fuelDis : Nat
  unt : Str → Str → CmdSt → Flow CmdSt PyRet
  asm : Core → Str → Verdict × Regs × (Int → Int)

variable (P : Params)

/-! the generated commands on the unit state built from a session core -/

def fillC (arg : Str) (c : Core) : MFlow MemSt Unit :=
  MonMemGen.do_fill P.w P.G.reply (memDev c.dev) c.parser P.fuelFill arg (memStOf P.G c)
def loadC (arg : Str) (c : Core) : MFlow MemSt Unit :=
  MonMemGen.do_load P.w P.G.reply (memDev c.dev) c.parser P.fuelFill arg (memStOf P.G c)
def saveC (arg : Str) (c : Core) : MFlow MemSt Unit :=
  MonMemGen.do_save P.w P.G.reply (memDev c.dev) c.parser arg (memStOf P.G c)
def memC (arg : Str) (c : Core) : MFlow MemSt Unit :=
  MonMemGen.do_mem P.w P.G.reply (memDev c.dev) c.parser arg (memStOf P.G c)
def stepC (arg : Str) (c : Core) : Flow RunSt Unit :=
  MonRunGen.do_step (P.step c.dev) (P.dis c) (memDev c.dev) c.parser arg (runStOf c)
def retC (arg : Str) (c : Core) : Flow RunSt Unit :=
  MonRunGen.do_return (P.step c.dev) (P.dis c) (memDev c.dev) c.parser P.fuelRun arg (runStOf c)
def gotoC (arg : Str) (c : Core) : Flow RunSt Unit :=
  MonRunGen.do_goto (P.step c.dev) (P.dis c) (memDev c.dev) c.parser P.fuelRun arg (runStOf c)
def addBpC (arg : Str) (c : Core) : Flow RunSt Unit :=
  MonRunGen.do_add_breakpoint (P.step c.dev) (P.dis c) (memDev c.dev) c.parser arg (runStOf c)
def delBpC (arg : Str) (c : Core) : Flow RunSt Unit :=
  MonRunGen.do_delete_breakpoint (P.step c.dev) (P.dis c) (memDev c.dev) c.parser arg (runStOf c)
def showBpC (arg : Str) (c : Core) : Flow RunSt Unit :=
  MonRunGen.do_show_breakpoints (P.step c.dev) (P.dis c) (memDev c.dev) c.parser arg (runStOf c)
def cyclesC (arg : Str) (c : Core) : Flow ShowSt Unit :=
  MonShowGen.do_cycles P.itoa (P.mpurepr c) (P.iat c) (P.fmtdis c) (memDev c.dev) c.parser arg (showStOf c)
def tildeC (arg : Str) (c : Core) : Flow ShowSt Unit :=
  MonShowGen.do_tilde P.itoa (P.mpurepr c) (P.iat c) (P.fmtdis c) (memDev c.dev) c.parser arg (showStOf c)
def disC (arg : Str) (c : Core) : Flow ShowSt Unit :=
  MonShowGen.do_disassemble P.itoa (P.mpurepr c) (P.iat c) (P.fmtdis c) (memDev c.dev) c.parser P.fuelDis arg (showStOf c)
def resetC (arg : Str) (c : Core) : MonIORt.Flow MonIORt.IoSt Unit := MonIOGen.do_reset P.E arg (ioStOf P.G c)
def mpuC (arg : Str) (c : Core) : MonIORt.Flow MonIORt.IoSt Unit := MonIOGen.do_mpu P.E arg (ioStOf P.G c)

/-- `do_<cmd>(arg)` for a command that unit `cmds` does not translate: the generated method of the unit
that does, through the adapters; `P.unt` for the five nobody translates (the seven commands of unit `cmds`
never get here: `call_do` calls them directly). -/
def othCmd (cmd : Command) (name arg : Str) (σ : CmdSt) : Flow CmdSt PyRet :=
  match cmd with
  | .fill => liftMem σ.core σ (fillC P arg σ.core)
  | .load => liftMem σ.core σ (loadC P arg σ.core)
  | .save => liftMem σ.core σ (saveC P arg σ.core)
  | .mem => liftMem σ.core σ (memC P arg σ.core)
  | .step => liftRun σ.core σ (stepC P arg σ.core)
  | .ret => liftRun σ.core σ (retC P arg σ.core)
  | .goto => liftRun σ.core σ (gotoC P arg σ.core)
  | .add_breakpoint => liftRun σ.core σ (addBpC P arg σ.core)
  | .delete_breakpoint => liftRun σ.core σ (delBpC P arg σ.core)
  | .show_breakpoints => liftRun σ.core σ (showBpC P arg σ.core)
  | .cycles => liftShow σ.core σ (cyclesC P arg σ.core)
  | .tilde => liftShow σ.core σ (tildeC P arg σ.core)
  | .disassemble => liftShow σ.core σ (disC P arg σ.core)
  | .reset => liftIo σ.core σ (resetC P arg σ.core)
  | .mpu => liftIo σ.core σ (mpuC P arg σ.core)
  | _ => P.unt name arg σ

/-- The command an attribute name `do_<word>` denotes. -/
def cmdOfName (name : Str) : Option Command :=
  match commandTable.find? (fun kv => "do_".toList ++ kv.1 = name) with
  | some kv => some kv.2
  | none => none

/-- The parameter `oth` of the generated dispatcher, COMPOSED from the generated commands. -/
def othG : Str → Str → CmdSt → Flow CmdSt PyRet := fun name arg σ =>
  match cmdOfName name with
  | some cmd => othCmd P cmd name arg σ
  | none => P.unt name arg σ

theorem cmdOfName_word (cmd : Command) : cmdOfName ("do_".toList ++ cmdWord cmd) = some cmd := by
  cases cmd <;> decide

theorem othG_word (cmd : Command) (arg : Str) (σ : CmdSt) :
    othG P ("do_".toList ++ cmdWord cmd) arg σ = othCmd P cmd ("do_".toList ++ cmdWord cmd) arg σ := by
  unfold othG
  rw [cmdOfName_word]

/-- The model's `Ext` DEFINED from the generated commands: verdict (`MonComposeRt.fillVerdict` …: what
"refused" means), registers and cells afterwards.  `assemble` is the parameter `P.asm`. -/
def extG : Ext :=
  { run := fun k c arg =>
      match k with
      | .assemble => P.asm c arg
      | .fill => (fillVerdict (fillC P arg c), memAfter c (fillC P arg c))
      | .load => (fillVerdict (loadC P arg c), memAfter c (loadC P arg c))
      | .goto => (gotoVerdict arg (gotoC P arg c), runAfter c (gotoC P arg c))
      | .step => (runVerdict (stepC P arg c), runAfter c (stepC P arg c))
      | .ret => (runVerdict (retC P arg c), runAfter c (retC P arg c)) }

/-- The commands nobody translates. -/
def untranslated : Command → Bool
  | .help | .version | .assemble | .cd | .pwd => true
  | _ => false

/-- The hypothesis about the commands nobody translates, spelled out: for `help`, `version`, `cd`, `pwd`,
`assemble`, any argument and any state: the method ends (returns or raises, not `nofuel`); afterwards the
session core is what the model says -- UNCHANGED for `help`, `version`, `cd`, `pwd`; for `assemble` the
registers and cells `P.asm` gives, everything else unchanged --; `lastcmd` is untouched; the value returned
is not true. -/
def UntModels : Prop :=
  ∀ cmd, untranslated cmd = true → ∀ arg σ, ModelsAt P.unt (extG P) cmd arg σ

/-- ... and `assemble` honours "refused ⇒ registers and memory unchanged" itself (C07). -/
def AsmHonest : Prop :=
  ∀ c arg, (P.asm c arg).1.isRejected = true → (P.asm c arg).2.1 = c.regs ∧ (P.asm c arg).2.2 = c.mem

/-! ## Part 3: the families

### 3a. the commands behind `Ext`: `fill load goto step return` (and `assemble` = parameter) -/

open Py65.Model.MonMem Py65.Proofs.MonMemGenEq Py65.Proofs.MonFillGenEq
open Py65.Proofs.MonRunGenEq hiding stateAfter pyGetItem_nat

theorem liftMem_facts (c : Core) (σ : CmdSt) (r : MFlow MemSt Unit) (h : r ≠ .nofuel) :
    liftMem c σ r ≠ .nofuel ∧
    (stateAfter σ (liftMem c σ r)).core = { c with regs := (memAfter c r).1, mem := (memAfter c r).2 } ∧
    (stateAfter σ (liftMem c σ r)).lastcmd = σ.lastcmd ∧ (retOf (liftMem c σ r)).truthy = false := by
  cases r with
  | nofuel => exact absurd rfl h
  | ok v s => exact ⟨by simp [liftMem], rfl, rfl, rfl⟩
  | raise e s => exact ⟨by simp [liftMem], rfl, rfl, rfl⟩

/-- The command left `self._breakpoints` as it found it. -/
def KeepsBps (c : Core) : Flow RunSt Unit → Prop
  | .ok _ s => s.breakpoints = c.breakpoints
  | .raise _ s => s.breakpoints = c.breakpoints
  | .nofuel => True

theorem liftRun_facts (c : Core) (σ : CmdSt) (r : Flow RunSt Unit) (h : r ≠ .nofuel) (hb : KeepsBps c r) :
    liftRun c σ r ≠ .nofuel ∧
    (stateAfter σ (liftRun c σ r)).core = { c with regs := (runAfter c r).1, mem := (runAfter c r).2 } ∧
    (stateAfter σ (liftRun c σ r)).lastcmd = σ.lastcmd ∧ (retOf (liftRun c σ r)).truthy = false := by
  cases r with
  | nofuel => exact absurd rfl h
  | ok v s =>
    refine ⟨by simp [liftRun], ?_, rfl, rfl⟩
    simp only [KeepsBps] at hb
    simp only [liftRun, stateAfter, coreOfRun, runAfter, hb]
  | raise e s =>
    refine ⟨by simp [liftRun], ?_, rfl, rfl⟩
    simp only [KeepsBps] at hb
    simp only [liftRun, stateAfter, coreOfRun, runAfter, hb]

theorem runFlow_keeps (c : Core) (o : Option MonRun.RunRes) : KeepsBps c (runFlow (runStOf c) o) := by
  cases o <;> simp [runFlow, KeepsBps, runStOf]

theorem gotoC_eq (arg : Str) (c : Core) :
    gotoC P arg c =
      if arg = [] then .ok () { mpu := stOf c, breakpoints := c.breakpoints, out := helpGoto }
      else match numberL c.parser arg with
        | .ok a => runFlow (runStOf c) (MonRun.goto (P.step c.dev) c.breakpoints P.fuelRun a (stOf c))
        | r => .raise (numberExc r) (runStOf c) := by
  unfold gotoC
  rw [do_goto_eq]
  rfl

theorem gotoC_keeps (arg : Str) (c : Core) : KeepsBps c (gotoC P arg c) := by
  rw [gotoC_eq]
  by_cases h : arg = []
  · simp [h, KeepsBps]
  · simp only [h, if_false]
    cases numberL c.parser arg with
    | ok a => exact runFlow_keeps c _
    | key => simp [KeepsBps, runStOf]
    | overflow => simp [KeepsBps, runStOf]
    | other => simp [KeepsBps, runStOf]

theorem retC_eq (arg : Str) (c : Core) :
    retC P arg c = runFlow (runStOf c) (MonRun.ret (P.step c.dev) c.breakpoints P.fuelRun (stOf c)) := by
  unfold retC
  rw [do_return_eq]
  rfl

theorem stepC_eq (arg : Str) (c : Core) :
    ∃ s : RunSt, stepC P arg c = .ok () s ∧ s.breakpoints = c.breakpoints := ⟨_, rfl, rfl⟩

/-- `fill`: the composed command does what the model's `runCommand (extG P)` says (by construction: `extG`
is read off the same generated run), provided it ended. -/
theorem models_fill (arg : Str) (σ : CmdSt) (h : fillC P arg σ.core ≠ .nofuel) :
    ModelsAt (othG P) (extG P) .fill arg σ := by
  unfold ModelsAt
  rw [othG_word]
  exact liftMem_facts σ.core σ _ h

theorem models_load (arg : Str) (σ : CmdSt) (h : loadC P arg σ.core ≠ .nofuel) :
    ModelsAt (othG P) (extG P) .load arg σ := by
  unfold ModelsAt
  rw [othG_word]
  exact liftMem_facts σ.core σ _ h

theorem models_goto (arg : Str) (σ : CmdSt) (h : gotoC P arg σ.core ≠ .nofuel) :
    ModelsAt (othG P) (extG P) .goto arg σ := by
  unfold ModelsAt
  rw [othG_word]
  exact liftRun_facts σ.core σ _ h (gotoC_keeps P arg σ.core)

theorem models_ret (arg : Str) (σ : CmdSt) (h : retC P arg σ.core ≠ .nofuel) :
    ModelsAt (othG P) (extG P) .ret arg σ := by
  unfold ModelsAt
  rw [othG_word]
  refine liftRun_facts σ.core σ _ h ?_
  rw [retC_eq]
  exact runFlow_keeps _ _

theorem models_step (arg : Str) (σ : CmdSt) : ModelsAt (othG P) (extG P) .step arg σ := by
  unfold ModelsAt
  rw [othG_word]
  obtain ⟨s, e, hb⟩ := stepC_eq P arg σ.core
  refine liftRun_facts σ.core σ (stepC P arg σ.core) (by rw [e]; simp) ?_
  rw [e]; exact hb

/-! "refused ⇒ registers and cells unchanged" for the generated commands -/

theorem isWrote_wroteLine (d : MonMem.Dev) (c s e : Int) : isWrote (wroteLine d c s e) = true := by
  have : ∀ rest : Str, startsWith ("Wrote +".toList ++ rest) "Wrote +".toList = true := by
    intro rest
    simp [startsWith]
  unfold isWrote wroteLine
  simp only [List.append_assoc]
  exact this _

theorem not_wrote_of_endsWrote (d : MonMem.Dev) (out : List Str) (h : endsWrote out = false) :
    ∀ c s e, out ≠ [] ++ [wroteLine d c s e] := by
  intro c s e heq
  rw [heq] at h
  simp [endsWrote, isWrote_wroteLine] at h

theorem parser_maxaddr (c : Core) : c.parser.maxaddr = (memDev c.dev).addrMask := by
  cases hd : c.dev <;> simp [Core.parser, Parser.maxaddr, hd, memDev, MonMem.Dev.addrMask, MonMem.dev8, MonMem.dev16,
    MonCmd.Dev.addrWidth, MonCmd.Dev.byteWidth]

theorem memDev_BW (d : MonCmd.Dev) : 8 ≤ (memDev d).BW := by cases d <;> decide

/-- The hypothesis of `do_fill_eq` about the fuel of `_fill`'s loop: above the size of the address space of
the session's device. -/
def FillFuel (c : Core) : Prop := ((memDev c.dev).addrMask + 1).toNat < P.fuelFill

/-- The hypothesis of `do_load_eq` about the fuel: above the length of every file the OS can deliver. -/
def LoadFuel : Prop := ∀ name file, loadSource P.w name = .ok file → file.length < P.fuelFill

/-- `fill` refused (the generated `do_fill` raised, or the last line it printed is not "Wrote +…") ⇒ the
cells are as they were: `C16g.fill_rejects` through the adapter. -/
theorem fill_honest (hG : GlueOK P.G) (c : Core) (hwf : c.parser.WF) (hfuel : FillFuel P c) (arg : Str)
    (h : (fillVerdict (fillC P arg c)).isRejected = true) : (memAfter c (fillC P arg c)).2 = c.mem := by
  have key := (Py65.Props.C16g.fill_rejects P.w P.G.reply (memDev c.dev) c.parser P.fuelFill (memStOf P.G c) hwf
    (parser_maxaddr c) hfuel).1 arg
  have hfc : fillC P arg c = MonMemGen.do_fill P.w P.G.reply (memDev c.dev) c.parser P.fuelFill arg (memStOf P.G c) := rfl
  rw [← hfc] at key
  cases hr : fillC P arg c with
  | nofuel => rw [hr] at h; simp [fillVerdict, Verdict.isRejected] at h
  | ok v s =>
    rw [hr] at h key
    have hw : endsWrote s.out = false := by
      by_contra hc
      simp only [Bool.not_eq_false] at hc
      simp [fillVerdict, hc, Verdict.isRejected] at h
    have := key s (Or.inl rfl) (not_wrote_of_endsWrote _ _ hw)
    simp only [memAfter, this, memStOf]
    exact hG c
  | raise e s =>
    rw [hr] at key
    have := key s (Or.inr ⟨e, rfl⟩) ?_
    · simp only [memAfter, this, memStOf]
      exact hG c
    · -- a raise of `do_fill` prints nothing: read it off `do_fill_eq`
      intro c' s' e' heq
      rw [hfc, do_fill_eq P.w P.G.reply (memDev c.dev) c.parser P.fuelFill arg (memStOf P.G c) hwf (parser_maxaddr c) hfuel]
        at hr
      cases hs : MonCmd.shlexSplit arg with
      | none =>
        simp only [hs] at hr
        cases hr
        simp [memStOf] at heq
      | some split =>
        simp only [hs] at hr
        cases ho : doFill P.G.reply (memDev c.dev) c.parser split (memStOf P.G c).memory with
        | mk o m' =>
          rw [ho] at hr
          cases o with
          | wrote a b c'' => simp [fillEnd] at hr
          | help => simp [fillEnd] at hr
          | indexError =>
            simp only [fillEnd] at hr
            cases hr
            simp [memStOf] at heq
          | syntaxError | key | overflow | other | saved _ _ | lines _ =>
            simp only [fillEnd] at hr
            cases hx : fillExc P.w (memDev c.dev) c.parser split with
            | none => rw [hx] at hr; cases hr
            | some x =>
              rw [hx] at hr
              cases x <;> simp only [fillCaught] at hr <;> cases hr <;> simp [memStOf] at heq

theorem memAfter_fst (c : Core) (r : MFlow MemSt Unit) : (memAfter c r).1 = c.regs := by cases r <;> rfl

/-- The ends of a `memcmd` command that matter for "refused ⇒ unchanged": same memory object, or the report. -/
theorem mem_honest_core (c : Core) (d : MonMem.Dev) (r : MFlow MemSt Unit) (σ0 : MemSt) (hsub : σ0.memory.subject = c.mem)
    (hout : σ0.out = [])
    (hcase : (∃ out, r = .ok () { σ0 with out := out }) ∨ (∃ e, r = .raise e σ0) ∨
      (∃ m' c' s' e', r = .ok () { σ0 with memory := m', out := σ0.out ++ [wroteLine d c' s' e'] }) ∨ r = .nofuel)
    (h : (fillVerdict r).isRejected = true) : (memAfter c r).2 = c.mem := by
  rcases hcase with ⟨out, rfl⟩ | ⟨e, rfl⟩ | ⟨m', c', s', e', rfl⟩ | rfl
  · exact hsub
  · exact hsub
  · simp [fillVerdict, hout, endsWrote, isWrote_wroteLine, Verdict.isRejected] at h
  · simp [fillVerdict, Verdict.isRejected] at h

/-- `load` refused ⇒ the cells are as they were (`do_load_eq`; the only end with another memory object is the
report "Wrote +…"; the `IndexError` of an empty data list is raised before the first store). -/
theorem load_honest (hG : GlueOK P.G) (c : Core) (hload : LoadFuel P) (arg : Str)
    (h : (fillVerdict (loadC P arg c)).isRejected = true) : (memAfter c (loadC P arg c)).2 = c.mem := by
  refine mem_honest_core c (memDev c.dev) _ (memStOf P.G c) (hG c) rfl ?_ h
  unfold loadC
  rw [do_load_eq P.w P.G.reply (memDev c.dev) c.parser P.fuelFill arg (memStOf P.G c) (memDev_BW c.dev)
    (fun name rest file _ hsrc => hload name file hsrc)]
  cases hs : MonCmd.shlexSplit arg with
  | none => exact Or.inr (Or.inl ⟨_, rfl⟩)
  | some split =>
    match split with
    | [] => exact Or.inl ⟨_, rfl⟩
    | name :: rest =>
      simp only
      by_cases h2 : 2 ≤ rest.length
      · simp only [h2, if_true]; exact Or.inl ⟨_, rfl⟩
      · simp only [h2, if_false]
        cases hsrc : loadSource P.w name with
        | error x => exact Or.inl ⟨_, rfl⟩
        | ok file =>
          simp only
          cases ho : doLoad P.G.reply (memDev c.dev) c.parser file rest (memStOf P.G c).pc (memStOf P.G c).memory with
          | mk o m' =>
            cases o with
            | wrote a b e => exact Or.inr (Or.inr (Or.inl ⟨m', a, b, e, rfl⟩))
            | indexError =>
              have hm : m' = (memStOf P.G c).memory := by
                unfold doLoad at ho
                cases hst : loadStart (memDev c.dev) c.parser file rest (memStOf P.G c).pc with
                | inl e => rw [hst] at ho; simp only at ho; cases ho; rfl
                | inr start =>
                  rw [hst] at ho
                  simp only [Prod.mk.injEq] at ho
                  rw [← ho.2]
                  exact fill_not_wrote _ _ _ _ _ _ (by rw [ho.1]; intro a b e; simp)
              simp only [loadEnd, hm]
              exact Or.inr (Or.inl ⟨_, rfl⟩)
            | help | syntaxError | key | overflow | other | saved _ _ | lines _ =>
              exact Or.inr (Or.inl ⟨_, rfl⟩)

/-- `goto` refused (the address parser's exception left the method, or the argument was empty: usage text) ⇒
registers and cells are as they were (`do_goto_eq`). -/
theorem goto_honest (c : Core) (arg : Str) (h : (gotoVerdict arg (gotoC P arg c)).isRejected = true) :
    runAfter c (gotoC P arg c) = (c.regs, c.mem) := by
  rw [gotoC_eq] at h ⊢
  by_cases ha : arg = []
  · simp only [ha, if_true]; rfl
  · simp only [ha, if_false] at h ⊢
    cases hn : numberL c.parser arg with
    | ok a =>
      simp only [hn] at h
      cases hr : MonRun.goto (P.step c.dev) c.breakpoints P.fuelRun a (stOf c) with
      | none => simp only [hr, runFlow]; rfl
      | some r => rw [hr] at h; simp [runFlow, gotoVerdict, ha, Verdict.isRejected] at h
    | key => rfl
    | overflow => rfl
    | other => rfl

theorem step_never_rejected (c : Core) (arg : Str) : (runVerdict (stepC P arg c)).isRejected = false := rfl

theorem ret_never_rejected (c : Core) (arg : Str) : (runVerdict (retC P arg c)).isRejected = false := by
  rw [retC_eq]
  cases MonRun.ret (P.step c.dev) c.breakpoints P.fuelRun (stOf c) <;> rfl

/-- `Ext.Honest` for the `Ext` defined from the generated commands, at a core with a well-formed label
table: PROVED for `fill`, `load`, `goto`, `step`, `return`; `assemble` is the hypothesis `AsmHonest`. -/
theorem extG_honest_at (hG : GlueOK P.G) (ha : AsmHonest P) (hload : LoadFuel P) (c : Core) (hwf : c.parser.WF)
    (hfuel : FillFuel P c) : HonestAt (extG P) c := by
  intro k arg h
  cases k with
  | assemble => exact ha c arg h
  | fill => exact ⟨memAfter_fst c _, fill_honest P hG c hwf hfuel arg h⟩
  | load => exact ⟨memAfter_fst c _, load_honest P hG c hload arg h⟩
  | goto =>
    have := goto_honest P c arg h
    exact ⟨congrArg Prod.fst this, congrArg Prod.snd this⟩
  | step => rw [show ((extG P).run .step c arg).1 = runVerdict (stepC P arg c) from rfl, step_never_rejected] at h; cases h
  | ret => rw [show ((extG P).run .ret c arg).1 = runVerdict (retC P arg c) from rfl, ret_never_rejected] at h; cases h

/-! ### 3b. the breakpoint commands: the generated methods do to `self._breakpoints` what the session model
(`MonCmd.doAddBreakpoint / doDeleteBreakpoint`) says, for ALL argument strings -/

/-- The command ended and left the device object as it was. -/
def MpuKept (c : Core) : Flow RunSt Unit → Prop
  | .ok _ s => s.mpu = stOf c
  | .raise _ s => s.mpu = stOf c
  | .nofuel => False

/-- `self._breakpoints` after the command. -/
def bpsOf (c : Core) : Flow RunSt Unit → List (Option Int)
  | .ok _ s => s.breakpoints
  | .raise _ s => s.breakpoints
  | .nofuel => c.breakpoints

theorem liftRun_bp_facts (c : Core) (σ : CmdSt) (r : Flow RunSt Unit) (hk : MpuKept c r) :
    liftRun c σ r ≠ .nofuel ∧
    (stateAfter σ (liftRun c σ r)).core = { c with breakpoints := bpsOf c r } ∧
    (stateAfter σ (liftRun c σ r)).lastcmd = σ.lastcmd ∧ (retOf (liftRun c σ r)).truthy = false := by
  cases r with
  | nofuel => exact absurd hk (by simp [MpuKept])
  | ok v s =>
    simp only [MpuKept] at hk
    refine ⟨by simp [liftRun], ?_, rfl, rfl⟩
    simp only [liftRun, stateAfter, coreOfRun, bpsOf, hk]
    rfl
  | raise e s =>
    simp only [MpuKept] at hk
    refine ⟨by simp [liftRun], ?_, rfl, rfl⟩
    simp only [liftRun, stateAfter, coreOfRun, bpsOf, hk]
    rfl

theorem bpFlow_facts (c : Core) (r : MonRun.BpOut × List (Option Int)) :
    MpuKept c (bpFlow (runStOf c) r) ∧ bpsOf c (bpFlow (runStOf c) r) = r.2 := by
  unfold bpFlow
  cases bpText r.1 <;> exact ⟨rfl, rfl⟩

/-- `do_add_breakpoint`: for every argument string the generated method ends with the device untouched and
the breakpoint list of the session model. -/
theorem addBp_model (arg : Str) (c : Core) :
    MpuKept c (addBpC P arg c) ∧ (doAddBreakpoint c arg).2 = { c with breakpoints := bpsOf c (addBpC P arg c) } := by
  unfold addBpC
  rw [do_add_breakpoint_eq]
  unfold doAddBreakpoint
  cases hs : shlexSplit arg with
  | none => exact ⟨rfl, rfl⟩
  | some toks =>
    match toks with
    | [] => exact ⟨rfl, rfl⟩
    | [tok] =>
      simp only
      cases hn : numberL c.parser tok with
      | ok a =>
        simp only
        obtain ⟨h1, h2⟩ := bpFlow_facts c (MonRun.addBp c.breakpoints a)
        have hb : (runStOf c).breakpoints = c.breakpoints := rfl
        rw [hb]
        refine ⟨h1, ?_⟩
        rw [h2]
        unfold MonRun.addBp
        by_cases hc : c.breakpoints.contains (some a) = true
        · have hm : some a ∈ c.breakpoints := by simpa using hc
          simp only [hc, hm, if_true]
        · have hm : ¬ some a ∈ c.breakpoints := by simpa using hc
          simp only [hc, hm, if_false, Bool.false_eq_true]
      | key => exact ⟨rfl, rfl⟩
      | overflow => exact ⟨rfl, rfl⟩
      | other => exact ⟨rfl, rfl⟩
    | _ :: _ :: _ => exact ⟨rfl, rfl⟩

theorem set_none_of_getElem? (l : List (Option Int)) (i : Nat) (h : l[i]? = some none) : l.set i none = l := by
  obtain ⟨hi, he⟩ := List.getElem?_eq_some_iff.mp h
  have := List.set_getElem_self (as := l) hi
  rw [he] at this
  exact this

/-- `do_delete_breakpoint`: likewise (a number `< 0` or `≥ len` raises -- `TypeError` of the two-argument
`_output`, `IndexError` for `number == len` -- and leaves the list alone; a slot already deleted stays). -/
theorem delBp_model (arg : Str) (c : Core) :
    MpuKept c (delBpC P arg c) ∧ (doDeleteBreakpoint c arg).2 = { c with breakpoints := bpsOf c (delBpC P arg c) } := by
  unfold delBpC
  rw [do_delete_breakpoint_eq]
  unfold doDeleteBreakpoint
  cases hs : shlexSplit arg with
  | none => exact ⟨rfl, rfl⟩
  | some toks =>
    match toks with
    | [] => exact ⟨rfl, rfl⟩
    | [tok] =>
      simp only
      cases hn : pyIntL tok 10 with
      | none => exact ⟨rfl, rfl⟩
      | some n =>
        simp only
        obtain ⟨h1, h2⟩ := bpFlow_facts c (MonRun.delBp c.breakpoints n)
        have hb : (runStOf c).breakpoints = c.breakpoints := rfl
        rw [hb]
        refine ⟨h1, ?_⟩
        rw [h2]
        unfold MonRun.delBp
        by_cases hbad : n < 0 ∨ n > (c.breakpoints.length : Int)
        · have hbad' : n < 0 ∨ n ≥ (c.breakpoints.length : Int) := by omega
          simp only [hbad, hbad', if_true]
        · simp only [hbad, if_false]
          by_cases heq : n = (c.breakpoints.length : Int)
          · have hbad' : n < 0 ∨ n ≥ (c.breakpoints.length : Int) := by omega
            have hget : c.breakpoints[n.toNat]? = none := by
              rw [List.getElem?_eq_none]; omega
            simp only [hbad', if_true, hget]
          · have hbad' : ¬ (n < 0 ∨ n ≥ (c.breakpoints.length : Int)) := by omega
            simp only [hbad', if_false]
            cases hget : c.breakpoints[n.toNat]? with
            | none =>
              exfalso
              rw [List.getElem?_eq_none_iff] at hget
              omega
            | some slot =>
              cases slot with
              | none => simp only [set_none_of_getElem? _ _ hget]
              | some v => rfl
    | _ :: _ :: _ => exact ⟨rfl, rfl⟩

theorem showBp_kept (arg : Str) (c : Core) : MpuKept c (showBpC P arg c) ∧ bpsOf c (showBpC P arg c) = c.breakpoints := by
  unfold showBpC
  rw [do_show_breakpoints_eq]
  exact ⟨rfl, rfl⟩

theorem models_add_breakpoint (arg : Str) (σ : CmdSt) : ModelsAt (othG P) (extG P) .add_breakpoint arg σ := by
  unfold ModelsAt
  rw [othG_word]
  obtain ⟨h1, h2⟩ := addBp_model P arg σ.core
  obtain ⟨f1, f2, f3, f4⟩ := liftRun_bp_facts σ.core σ (addBpC P arg σ.core) h1
  exact ⟨f1, f2.trans h2.symm, f3, f4⟩

theorem models_delete_breakpoint (arg : Str) (σ : CmdSt) : ModelsAt (othG P) (extG P) .delete_breakpoint arg σ := by
  unfold ModelsAt
  rw [othG_word]
  obtain ⟨h1, h2⟩ := delBp_model P arg σ.core
  obtain ⟨f1, f2, f3, f4⟩ := liftRun_bp_facts σ.core σ (delBpC P arg σ.core) h1
  exact ⟨f1, f2.trans h2.symm, f3, f4⟩

theorem models_show_breakpoints (arg : Str) (σ : CmdSt) : ModelsAt (othG P) (extG P) .show_breakpoints arg σ := by
  unfold ModelsAt
  rw [othG_word]
  obtain ⟨h1, h2⟩ := showBp_kept P arg σ.core
  obtain ⟨f1, f2, f3, f4⟩ := liftRun_bp_facts σ.core σ (showBpC P arg σ.core) h1
  refine ⟨f1, f2.trans ?_, f3, f4⟩
  rw [h2]
  rfl

/-! ### 3c. `save`, `mem`: they read cells (the memory object's call log may grow), they store nothing -/

/-- The command ended with the CELLS of the memory object as they were. -/
def CellsKept (c : Core) : MFlow MemSt Unit → Prop
  | .ok _ s => s.memory.subject = c.mem
  | .raise _ s => s.memory.subject = c.mem
  | .nofuel => False

theorem liftMem_same (c : Core) (σ : CmdSt) (r : MFlow MemSt Unit) (hk : CellsKept c r) :
    liftMem c σ r ≠ .nofuel ∧ (stateAfter σ (liftMem c σ r)).core = c ∧
    (stateAfter σ (liftMem c σ r)).lastcmd = σ.lastcmd ∧ (retOf (liftMem c σ r)).truthy = false := by
  cases r with
  | nofuel => exact absurd hk (by simp [CellsKept])
  | ok v s =>
    simp only [CellsKept] at hk
    refine ⟨by simp [liftMem], ?_, rfl, rfl⟩
    simp only [liftMem, stateAfter, coreOfMem, hk]
  | raise e s =>
    simp only [CellsKept] at hk
    refine ⟨by simp [liftMem], ?_, rfl, rfl⟩
    simp only [liftMem, stateAfter, coreOfMem, hk]

theorem doSave_subject (reply : ObsMem.Reply) (d : MonMem.Dev) (Pp : Parser) (args : List Str) (m : ObsMem.OM) :
    (doSave reply d Pp args m).2.subject = m.subject := by
  unfold doSave
  split
  · split
    · split
      · exact getMany_subject _ _ _
      · rfl
    · rfl
  · rfl

theorem doMem_subject (reply : ObsMem.Reply) (d : MonMem.Dev) (Pp : Parser) (width : Nat) (split : List Str) (m : ObsMem.OM) :
    (doMem reply d Pp width split m).2.subject = m.subject := by
  unfold doMem
  split
  · split
    · exact getMany_subject _ _ _
    · rfl
    · rfl
    · rfl
  · rfl

theorem save_kept (hG : GlueOK P.G) (arg : Str) (c : Core) : CellsKept c (saveC P arg c) := by
  unfold saveC
  rw [do_save_eq]
  have h0 : (memStOf P.G c).memory.subject = c.mem := hG c
  cases hs : shlexSplit arg with
  | none => exact h0
  | some toks =>
    match toks with
    | [] => exact h0
    | [_] => exact h0
    | [_, _] => exact h0
    | [name, s, e] =>
      simp only
      have hsub := doSave_subject P.G.reply (memDev c.dev) c.parser [s, e] (memStOf P.G c).memory
      cases ho : doSave P.G.reply (memDev c.dev) c.parser [s, e] (memStOf P.G c).memory with
      | mk o m' =>
        rw [ho] at hsub
        simp only at hsub
        cases o with
        | saved n file =>
          simp only [saveEnd]
          cases P.w.openW name <;> exact hsub.trans h0
        | help | syntaxError | key | overflow | other | indexError | wrote _ _ _ | lines _ => exact h0
    | _ :: _ :: _ :: _ :: _ => exact h0

theorem mem_kept (hG : GlueOK P.G) (arg : Str) (c : Core) (hw : 0 ≤ c.width) : CellsKept c (memC P arg c) := by
  unfold memC
  rw [do_mem_eq _ _ _ _ _ _ hw]
  have h0 : (memStOf P.G c).memory.subject = c.mem := hG c
  cases hs : shlexSplit arg with
  | none => exact h0
  | some split =>
    simp only
    have hsub := doMem_subject P.G.reply (memDev c.dev) c.parser (memStOf P.G c).width.toNat split (memStOf P.G c).memory
    cases ho : doMem P.G.reply (memDev c.dev) c.parser (memStOf P.G c).width.toNat split (memStOf P.G c).memory with
    | mk o m' =>
      rw [ho] at hsub
      simp only at hsub
      cases o with
      | lines ls => exact hsub.trans h0
      | help | syntaxError | key | overflow | other | indexError | wrote _ _ _ | saved _ _ => exact h0

theorem models_save (hG : GlueOK P.G) (arg : Str) (σ : CmdSt) : ModelsAt (othG P) (extG P) .save arg σ := by
  unfold ModelsAt
  rw [othG_word]
  exact liftMem_same σ.core σ _ (save_kept P hG arg σ.core)

theorem models_mem (hG : GlueOK P.G) (arg : Str) (σ : CmdSt) (hw : 0 ≤ σ.core.width) :
    ModelsAt (othG P) (extG P) .mem arg σ := by
  unfold ModelsAt
  rw [othG_word]
  exact liftMem_same σ.core σ _ (mem_kept P hG arg σ.core hw)

/-! ### 3d. `cycles`, `tilde`, `disassemble`: display only -/

/-- If the command ended, the device object is as it was. -/
def ShowKept (c : Core) : Flow ShowSt Unit → Prop
  | .ok _ s => s.mpu = stOf c
  | .raise _ s => s.mpu = stOf c
  | .nofuel => True

theorem liftShow_same (c : Core) (σ : CmdSt) (r : Flow ShowSt Unit) (h : r ≠ .nofuel) (hk : ShowKept c r) :
    liftShow c σ r ≠ .nofuel ∧ (stateAfter σ (liftShow c σ r)).core = c ∧
    (stateAfter σ (liftShow c σ r)).lastcmd = σ.lastcmd ∧ (retOf (liftShow c σ r)).truthy = false := by
  cases r with
  | nofuel => exact absurd rfl h
  | ok v s =>
    simp only [ShowKept] at hk
    refine ⟨by simp [liftShow], ?_, rfl, rfl⟩
    simp only [liftShow, stateAfter, coreOfShow, hk]
    rfl
  | raise e s =>
    simp only [ShowKept] at hk
    refine ⟨by simp [liftShow], ?_, rfl, rfl⟩
    simp only [liftShow, stateAfter, coreOfShow, hk]
    rfl

theorem cycles_kept (arg : Str) (c : Core) : cyclesC P arg c ≠ .nofuel ∧ ShowKept c (cyclesC P arg c) := by
  unfold cyclesC
  rw [ReprGenEq.do_cycles_eq _ _ _ _ _ _ _ _ (show (0 : Int) ≤ (showStOf c).mpu.cycles from le_refl 0)]
  exact ⟨by simp, rfl⟩

theorem tilde_kept (hit : ReprGenEq.ItoaBinInt P.itoa) (arg : Str) (c : Core) :
    tildeC P arg c ≠ .nofuel ∧ ShowKept c (tildeC P arg c) := by
  unfold tildeC
  rw [ReprGenEq.do_tilde_eq _ hit]
  cases Show.doTilde (memDev c.dev).byteFmtW c.parser arg with
  | lines l => exact ⟨by simp [ReprGenEq.tildeFlow], rfl⟩
  | raised r => exact ⟨by simp [ReprGenEq.tildeFlow], rfl⟩

theorem dis_kept (arg : Str) (c : Core) : ShowKept c (disC P arg c) := by
  unfold disC
  rw [ReprGenEq.do_disassemble_eq]
  cases Show.doDisassemble (P.iat c (showStOf c).mpu) (P.fmtdis c (showStOf c).mpu) (memDev c.dev).AW c.parser
      P.fuelDis arg with
  | help => rfl
  | shlexError => rfl
  | refused r => rfl
  | walked lines e =>
    cases e with
    | done => rfl
    | raised x => rfl
    | nofuel => trivial

theorem models_cycles (arg : Str) (σ : CmdSt) : ModelsAt (othG P) (extG P) .cycles arg σ := by
  unfold ModelsAt
  rw [othG_word]
  exact liftShow_same σ.core σ _ (cycles_kept P arg σ.core).1 (cycles_kept P arg σ.core).2

theorem models_tilde (hit : ReprGenEq.ItoaBinInt P.itoa) (arg : Str) (σ : CmdSt) :
    ModelsAt (othG P) (extG P) .tilde arg σ := by
  unfold ModelsAt
  rw [othG_word]
  exact liftShow_same σ.core σ _ (tilde_kept P hit arg σ.core).1 (tilde_kept P hit arg σ.core).2

theorem models_disassemble (arg : Str) (σ : CmdSt) (h : disC P arg σ.core ≠ .nofuel) :
    ModelsAt (othG P) (extG P) .disassemble arg σ := by
  unfold ModelsAt
  rw [othG_word]
  exact liftShow_same σ.core σ _ h (dis_kept P arg σ.core)

/-! ### 3e. `reset`, `mpu`: a new device, a new memory, a new address parser (unit `io`) -/

open Py65.Model.MonIORt (IoSt MpuCls) in
theorem devOfCls_clsOf (d : MonCmd.Dev) : devOfCls (clsOf d) = d := by cases d <;> rfl

theorem get_mpu_dev (E : MonIORt.Env) (name : Str) : MonIOGen._get_mpu E name = (devOfName name).map clsOf := by
  rw [MonIOGenEq.get_mpu_spec]
  unfold devOfName
  have hl : MonIORt.pyLower name = name.map lower := rfl
  rw [hl]
  have e1 : "6502".toList = ['6', '5', '0', '2'] := rfl
  have e2 : "65c02".toList = ['6', '5', 'c', '0', '2'] := rfl
  have e3 : "65org16".toList = ['6', '5', 'o', 'r', 'g', '1', '6'] := rfl
  simp only [e1, e2, e3]
  split_ifs <;> rfl

/-- The session core read back from the state `_reset(cls, …)` leaves (`MonIOGenEq.resetSt`) is the model's
`resetCore`: new device of that class with reset registers, zeroed cells (`Monitor(memory=None)`), no labels,
radix 16; breakpoints and width stay. -/
theorem coreOfIo_resetSt (c : Core) (cls : MonIORt.MpuCls) (b : Bool) (out : List Str) :
    coreOfIo c { MonIOGenEq.resetSt cls b (ioStOf P.G c) with out := out } = resetCore c (devOfCls cls) := by
  have hmem : cellsOfMemObj ({ MonIOGenEq.resetSt cls b (ioStOf P.G c) with out := out }._mpu.memory) = fun _ => 0 := by
    simp only [MonIOGenEq.resetSt, ioStOf, MonIOGenEq.cellsOf, Option.getD_none]
    cases b <;> cases P.G.getc <;> cases P.G.putc <;> rfl
  unfold coreOfIo
  rw [hmem]
  simp [MonIOGenEq.resetSt, ioStOf, resetCore]

theorem coreOfIo_same (hG : GlueOK P.G) (c : Core) (out : List Str) :
    coreOfIo c { ioStOf P.G c with out := out } = c := by
  unfold coreOfIo
  simp only [ioStOf, devOfCls_clsOf, if_true, cellsOfMemObj, hG c]

theorem liftIo_ok (c : Core) (σ : CmdSt) (s : MonIORt.IoSt) :
    liftIo c σ (.ok () s) ≠ .nofuel ∧ (stateAfter σ (liftIo c σ (.ok () s))).core = coreOfIo c s ∧
    (stateAfter σ (liftIo c σ (.ok () s))).lastcmd = σ.lastcmd ∧ (retOf (liftIo c σ (.ok () s))).truthy = false :=
  ⟨by simp [liftIo], rfl, rfl, rfl⟩

theorem models_reset (arg : Str) (σ : CmdSt) : ModelsAt (othG P) (extG P) .reset arg σ := by
  unfold ModelsAt
  rw [othG_word]
  have he : othCmd P .reset ("do_".toList ++ cmdWord .reset) arg σ =
      liftIo σ.core σ (.ok () (MonIOGenEq.resetSt (ioStOf P.G σ.core)._mpu.cls (MonIOGenEq.both (ioStOf P.G σ.core))
        (ioStOf P.G σ.core))) := by
    simp only [othCmd, resetC, MonIOGenEq.do_reset_eq]
  rw [he]
  obtain ⟨f1, f2, f3, f4⟩ := liftIo_ok σ.core σ (MonIOGenEq.resetSt (ioStOf P.G σ.core)._mpu.cls
    (MonIOGenEq.both (ioStOf P.G σ.core)) (ioStOf P.G σ.core))
  refine ⟨f1, f2.trans ?_, f3, f4⟩
  have := coreOfIo_resetSt P σ.core (ioStOf P.G σ.core)._mpu.cls (MonIOGenEq.both (ioStOf P.G σ.core)) []
  have hcls : devOfCls (ioStOf P.G σ.core)._mpu.cls = σ.core.dev := devOfCls_clsOf σ.core.dev
  rw [hcls] at this
  exact this

theorem models_mpu (hG : GlueOK P.G) (arg : Str) (σ : CmdSt) : ModelsAt (othG P) (extG P) .mpu arg σ := by
  unfold ModelsAt
  rw [othG_word]
  have hrun : (runCommand (extG P) σ.core .mpu arg).core = (doMpu σ.core arg).2 := rfl
  rw [hrun]
  have he : othCmd P .mpu ("do_".toList ++ cmdWord .mpu) arg σ = liftIo σ.core σ (mpuC P arg σ.core) := rfl
  rw [he]
  unfold mpuC
  rw [MonIOGenEq.do_mpu_eq, get_mpu_dev]
  unfold doMpu
  by_cases ha : arg = []
  · simp only [ha, if_true]
    obtain ⟨f1, f2, f3, f4⟩ := liftIo_ok σ.core σ
      { ioStOf P.G σ.core with out := (ioStOf P.G σ.core).out ++
          ["Current MPU is ".toList ++ (ioStOf P.G σ.core)._mpu.cls.name, MonIOGenEq.availLine] }
    exact ⟨f1, f2.trans (coreOfIo_same P hG σ.core _), f3, f4⟩
  · simp only [ha, if_false]
    cases hd : devOfName arg with
    | none =>
      simp only [Option.map_none]
      obtain ⟨f1, f2, f3, f4⟩ := liftIo_ok σ.core σ
        { ioStOf P.G σ.core with out := (ioStOf P.G σ.core).out ++ ["Unknown MPU: ".toList ++ arg, MonIOGenEq.availLine] }
      exact ⟨f1, f2.trans (coreOfIo_same P hG σ.core _), f3, f4⟩
    | some d =>
      simp only [Option.map_some]
      obtain ⟨f1, f2, f3, f4⟩ := liftIo_ok σ.core σ
        { MonIOGenEq.resetSt (clsOf d) (MonIOGenEq.both (ioStOf P.G σ.core)) (ioStOf P.G σ.core) with
          out := (ioStOf P.G σ.core).out ++ ["Reset with new MPU ".toList ++ (clsOf d).name] }
      refine ⟨f1, f2.trans ?_, f3, f4⟩
      rw [coreOfIo_resetSt, devOfCls_clsOf]

/-! ## Part 4: the composed simulation -/

/-- What ONE call needs so that the generated command agrees with the model's `runCommand (extG P)`:
the commands with a fuel-bounded loop (`_fill` under `fill` / `load`, `_run` under `goto` / `return`, the walk
of `disassemble`) ended within their fuel; `mem` is tied for `self._width ≥ 0`; `tilde` for an `itoa` that
prints base 2 (true of the generated `itoa`: `C19g.itoaG_binInt`).  Nothing for the other commands. -/
def CallOK (cmd : Command) (arg : Str) (c : Core) : Prop :=
  match cmd with
  | .fill => fillC P arg c ≠ .nofuel
  | .load => loadC P arg c ≠ .nofuel
  | .goto => gotoC P arg c ≠ .nofuel
  | .ret => retC P arg c ≠ .nofuel
  | .disassemble => disC P arg c ≠ .nofuel
  | .mem => 0 ≤ c.width
  | .tilde => ReprGenEq.ItoaBinInt P.itoa
  | _ => True

theorem models_unt (hu : UntModels P) (cmd : Command) (hc : untranslated cmd = true) (arg : Str) (σ : CmdSt) :
    ModelsAt (othG P) (extG P) cmd arg σ := by
  have h := hu cmd hc arg σ
  unfold ModelsAt at h ⊢
  rw [othG_word]
  cases cmd <;> first | exact h | (simp [untranslated] at hc)

/-- `OthModels (othG P) (extG P)` call by call: every command that unit `cmds` does not translate, through the
composed `oth`, does to the session core what the model says -- PROVED for the fifteen commands the other units
regenerate, assumed (`UntModels`) for `help version assemble cd pwd`. -/
theorem models_at (hG : GlueOK P.G) (hu : UntModels P) (cmd : Command) (arg : Str) (σ : CmdSt)
    (ht : translated cmd = false) (hok : CallOK P cmd arg σ.core) : ModelsAt (othG P) (extG P) cmd arg σ := by
  cases cmd
  case help => exact models_unt P hu .help rfl arg σ
  case version => exact models_unt P hu .version rfl arg σ
  case assemble => exact models_unt P hu .assemble rfl arg σ
  case cd => exact models_unt P hu .cd rfl arg σ
  case pwd => exact models_unt P hu .pwd rfl arg σ
  case reset => exact models_reset P arg σ
  case mpu => exact models_mpu P hG arg σ
  case disassemble => exact models_disassemble P arg σ hok
  case step => exact models_step P arg σ
  case ret => exact models_ret P arg σ hok
  case goto => exact models_goto P arg σ hok
  case cycles => exact models_cycles P arg σ
  case tilde => exact models_tilde P hok arg σ
  case load => exact models_load P arg σ hok
  case save => exact models_save P hG arg σ
  case fill => exact models_fill P arg σ hok
  case mem => exact models_mem P hG arg σ hok
  case add_breakpoint => exact models_add_breakpoint P arg σ
  case delete_breakpoint => exact models_delete_breakpoint P arg σ
  case show_breakpoints => exact models_show_breakpoints P arg σ
  all_goals exact absurd ht (by decide)

/-- A call the model REFUSES needs nothing more: a refused `fill` / `load` / `goto` has ended by definition of
the verdict, the other commands of `CallOK` are never refused. -/
theorem callOK_of_rejected (cmd : Command) (arg : Str) (c : Core)
    (h : (runCommand (extG P) c cmd arg).verdict.isRejected = true) : CallOK P cmd arg c := by
  cases cmd <;> try trivial
  -- (`disassemble`, `tilde`, `mem` are never refused: closed by `trivial` from `h : false = true`)
  case ret =>
    intro hn
    have : (runCommand (extG P) c .ret arg).verdict = runVerdict (retC P arg c) := rfl
    rw [this, hn] at h
    cases h
  case goto =>
    intro hn
    have : (runCommand (extG P) c .goto arg).verdict = gotoVerdict arg (gotoC P arg c) := rfl
    rw [this, hn] at h
    cases h
  case load =>
    intro hn
    have : (runCommand (extG P) c .load arg).verdict = fillVerdict (loadC P arg c) := rfl
    rw [this, hn] at h
    cases h
  case fill =>
    intro hn
    have : (runCommand (extG P) c .fill arg).verdict = fillVerdict (fillC P arg c) := rfl
    rw [this, hn] at h
    cases h

section composed
variable (tb : Exc → Str) (mr : Core → Str)

/-- `GenEq` for the whole of `Monitor.onecmd` WITH THE GENERATED COMMANDS PLUGGED IN: with enough fuel for
the dispatcher, outside `Loops`, and `CallOK` for the one command the line is dispatched to, the generated
`onecmd` returns with the session core and `lastcmd` of the model `onecmdL (extG P)` and a true value exactly
when the model requests exit. -/
theorem onecmd_sim_composed (hG : GlueOK P.G) (hu : UntModels P) (fuel : Nat) (line : Str) (σ : CmdSt)
    (hf : fuel > (preprocessL line).length + (preprocessL σ.lastcmd).length + 6) (hnl : ¬ Loops σ line)
    (hok : ∀ cmd a, dispatched { core := σ.core, lastcmd := σ.lastcmd } line = some (cmd, a) → CallOK P cmd a σ.core) :
    Sim (onecmdL (extG P) { core := σ.core, lastcmd := σ.lastcmd } line)
      (MonCmdGen.onecmd (othG P) tb mr fuel line σ) := by
  refine onecmd_sim_at (othG P) tb mr (extG P) fuel line σ hf hnl ?_
  intro cmd a hd ht σ1 hσ1
  refine models_at P hG hu cmd a σ1 ht ?_
  rw [hσ1]
  exact hok cmd a hd

/-- A line the model refuses: the generated `onecmd` with the generated commands returns and the session core
is as it was. -/
theorem onecmd_rejected_composed (hG : GlueOK P.G) (hu : UntModels P) (ha : AsmHonest P) (hload : LoadFuel P)
    (fuel : Nat) (line : Str) (σ : CmdSt) (hwf : σ.core.parser.WF) (hfill : FillFuel P σ.core)
    (hf : fuel > (preprocessL line).length + (preprocessL σ.lastcmd).length + 6) (hnl : ¬ Loops σ line)
    (h : (onecmdL (extG P) { core := σ.core, lastcmd := σ.lastcmd } line).1.verdict.isRejected = true) :
    ∃ v σ', MonCmdGen.onecmd (othG P) tb mr fuel line σ = .ok v σ' ∧ σ'.core = σ.core := by
  have hok : ∀ cmd a, dispatched { core := σ.core, lastcmd := σ.lastcmd } line = some (cmd, a) →
      CallOK P cmd a σ.core := by
    intro cmd a hd
    have hdp := onecmdL_dispatched (extG P) { core := σ.core, lastcmd := σ.lastcmd } line
    rw [hd] at hdp
    simp only at hdp
    rw [hdp] at h
    exact callOK_of_rejected P cmd a σ.core h
  obtain ⟨v, s', e1, e2, -, -⟩ := onecmd_sim_composed P tb mr hG hu fuel line σ hf hnl hok
  refine ⟨v, s', e1, e2.trans ?_⟩
  exact onecmd_rejected_at (extG P) { core := σ.core, lastcmd := σ.lastcmd }
    (extG_honest_at P hG ha hload σ.core hwf hfill) line h

end composed

end Py65.Proofs.MonCompose
