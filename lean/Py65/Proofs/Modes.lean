/-
Fetch helpers and addressing-mode helpers of the generated model meet the specification's
operand / effective-address definitions (aspect *sem*), at both byte widths.  Statements
mention only the returned value and the `core` of the resulting state: how the helper logs
its reads or counts extra cycles is irrelevant here (aspects *log* and *cyc*).
-/
import Py65.Proofs.CpuBase

set_option linter.unusedSimpArgs false

namespace Py65.Proofs
open Py65 Py65.Gen Py65.Spec Py

theorem ByteAt_val (c : Cfg) (a : Int) (s : St) : (Mpu6502.ByteAt c a s).1 = s.mem a := rfl
theorem ByteAt_core (c : Cfg) (a : Int) (s : St) : core (Mpu6502.ByteAt c a s).2 = core s := rfl

theorem WordAt_val (c : Cfg) (hc : IsDev c) (a : Int) (s : St) :
    (Mpu6502.WordAt c a s).1 = s.mem a + s.mem ((a + 1) % AM c.BYTE_WIDTH) * BM c.BYTE_WIDTH := by
  rcases hc with rfl | rfl <;>
    simp [Mpu6502.WordAt, Mpu6502.ByteAt, memGet, AM, BM, pyarith]
theorem WordAt_core (c : Cfg) (a : Int) (s : St) : core (Mpu6502.WordAt c a s).2 = core s := rfl

/-- `WrapAt a`: low byte at `a`, high byte at the next address *within the same page*. -/
theorem WrapAt_val (c : Cfg) (hc : IsDev c) (a : Int) (s : St) (ha : 0 ≤ a ∧ a ≤ c.addrMask) :
    (Mpu6502.WrapAt c a s).1 =
      s.mem a + s.mem (a - a % BM c.BYTE_WIDTH + (a + 1) % BM c.BYTE_WIDTH) * BM c.BYTE_WIDTH := by
  rcases hc with rfl | rfl <;>
  · simp [Mpu6502.WrapAt, Mpu6502.ByteAt, memGet, BM, pyarith] at ha ⊢
    pyclose
theorem WrapAt_core (c : Cfg) (a : Int) (s : St) : core (Mpu6502.WrapAt c a s).2 = core s := rfl

/-! ### the fetch helpers change only the log -/
@[simp] theorem ByteAt_a (c : Cfg) (a : Int) (s : St) : (Mpu6502.ByteAt c a s).2.a = s.a := rfl
@[simp] theorem ByteAt_x (c : Cfg) (a : Int) (s : St) : (Mpu6502.ByteAt c a s).2.x = s.x := rfl
@[simp] theorem ByteAt_y (c : Cfg) (a : Int) (s : St) : (Mpu6502.ByteAt c a s).2.y = s.y := rfl
@[simp] theorem ByteAt_sp (c : Cfg) (a : Int) (s : St) : (Mpu6502.ByteAt c a s).2.sp = s.sp := rfl
@[simp] theorem ByteAt_p (c : Cfg) (a : Int) (s : St) : (Mpu6502.ByteAt c a s).2.p = s.p := rfl
@[simp] theorem ByteAt_pc (c : Cfg) (a : Int) (s : St) : (Mpu6502.ByteAt c a s).2.pc = s.pc := rfl
@[simp] theorem ByteAt_mem (c : Cfg) (a : Int) (s : St) : (Mpu6502.ByteAt c a s).2.mem = s.mem := rfl
@[simp] theorem ByteAt_waiting (c : Cfg) (a : Int) (s : St) : (Mpu6502.ByteAt c a s).2.waiting = s.waiting := rfl
@[simp] theorem ByteAt_cycles (c : Cfg) (a : Int) (s : St) : (Mpu6502.ByteAt c a s).2.cycles = s.cycles := rfl
@[simp] theorem ByteAt_addcycles (c : Cfg) (a : Int) (s : St) : (Mpu6502.ByteAt c a s).2.addcycles = s.addcycles := rfl
@[simp] theorem ByteAt_excycles (c : Cfg) (a : Int) (s : St) : (Mpu6502.ByteAt c a s).2.excycles = s.excycles := rfl
@[simp] theorem WordAt_a (c : Cfg) (a : Int) (s : St) : (Mpu6502.WordAt c a s).2.a = s.a := rfl
@[simp] theorem WordAt_x (c : Cfg) (a : Int) (s : St) : (Mpu6502.WordAt c a s).2.x = s.x := rfl
@[simp] theorem WordAt_y (c : Cfg) (a : Int) (s : St) : (Mpu6502.WordAt c a s).2.y = s.y := rfl
@[simp] theorem WordAt_sp (c : Cfg) (a : Int) (s : St) : (Mpu6502.WordAt c a s).2.sp = s.sp := rfl
@[simp] theorem WordAt_p (c : Cfg) (a : Int) (s : St) : (Mpu6502.WordAt c a s).2.p = s.p := rfl
@[simp] theorem WordAt_pc (c : Cfg) (a : Int) (s : St) : (Mpu6502.WordAt c a s).2.pc = s.pc := rfl
@[simp] theorem WordAt_mem (c : Cfg) (a : Int) (s : St) : (Mpu6502.WordAt c a s).2.mem = s.mem := rfl
@[simp] theorem WordAt_waiting (c : Cfg) (a : Int) (s : St) : (Mpu6502.WordAt c a s).2.waiting = s.waiting := rfl
@[simp] theorem WordAt_cycles (c : Cfg) (a : Int) (s : St) : (Mpu6502.WordAt c a s).2.cycles = s.cycles := rfl
@[simp] theorem WordAt_addcycles (c : Cfg) (a : Int) (s : St) : (Mpu6502.WordAt c a s).2.addcycles = s.addcycles := rfl
@[simp] theorem WordAt_excycles (c : Cfg) (a : Int) (s : St) : (Mpu6502.WordAt c a s).2.excycles = s.excycles := rfl
@[simp] theorem WrapAt_a (c : Cfg) (a : Int) (s : St) : (Mpu6502.WrapAt c a s).2.a = s.a := rfl
@[simp] theorem WrapAt_x (c : Cfg) (a : Int) (s : St) : (Mpu6502.WrapAt c a s).2.x = s.x := rfl
@[simp] theorem WrapAt_y (c : Cfg) (a : Int) (s : St) : (Mpu6502.WrapAt c a s).2.y = s.y := rfl
@[simp] theorem WrapAt_sp (c : Cfg) (a : Int) (s : St) : (Mpu6502.WrapAt c a s).2.sp = s.sp := rfl
@[simp] theorem WrapAt_p (c : Cfg) (a : Int) (s : St) : (Mpu6502.WrapAt c a s).2.p = s.p := rfl
@[simp] theorem WrapAt_pc (c : Cfg) (a : Int) (s : St) : (Mpu6502.WrapAt c a s).2.pc = s.pc := rfl
@[simp] theorem WrapAt_mem (c : Cfg) (a : Int) (s : St) : (Mpu6502.WrapAt c a s).2.mem = s.mem := rfl
@[simp] theorem WrapAt_waiting (c : Cfg) (a : Int) (s : St) : (Mpu6502.WrapAt c a s).2.waiting = s.waiting := rfl
@[simp] theorem WrapAt_cycles (c : Cfg) (a : Int) (s : St) : (Mpu6502.WrapAt c a s).2.cycles = s.cycles := rfl
@[simp] theorem WrapAt_addcycles (c : Cfg) (a : Int) (s : St) : (Mpu6502.WrapAt c a s).2.addcycles = s.addcycles := rfl
@[simp] theorem WrapAt_excycles (c : Cfg) (a : Int) (s : St) : (Mpu6502.WrapAt c a s).2.excycles = s.excycles := rfl

/-! ### modes -/

theorem ProgramCounter_sem (c : Cfg) : ModeSem c (Mpu6502.ProgramCounter c) .imm := by
  intro s _; exact ⟨rfl, rfl⟩

theorem ZeroPageAddr_sem (c : Cfg) : ModeSem c (Mpu6502.ZeroPageAddr c) .zpg := by
  intro s _; exact ⟨rfl, rfl⟩

theorem ZeroPageXAddr_sem (c : Cfg) (hc : IsDev c) : ModeSem c (Mpu6502.ZeroPageXAddr c) .zpx := by
  intro s _; refine ⟨?_, rfl⟩
  rcases hc with rfl | rfl <;>
  · simp [Mpu6502.ZeroPageXAddr, Mpu6502.ByteAt, memGet, core, ea, opnd1, BM, pyarith]; omega

theorem ZeroPageYAddr_sem (c : Cfg) (hc : IsDev c) : ModeSem c (Mpu6502.ZeroPageYAddr c) .zpy := by
  intro s _; refine ⟨?_, rfl⟩
  rcases hc with rfl | rfl <;>
  · simp [Mpu6502.ZeroPageYAddr, Mpu6502.ByteAt, memGet, core, ea, opnd1, BM, pyarith]; omega

theorem AbsoluteAddr_sem (c : Cfg) (hc : IsDev c) : ModeSem c (Mpu6502.AbsoluteAddr c) .abs := by
  intro s _; refine ⟨?_, rfl⟩
  simp only [Mpu6502.AbsoluteAddr, WordAt_val c hc]; rfl


theorem IndirectXAddr_sem (c : Cfg) (hc : IsDev c) : ModeSem c (Mpu6502.IndirectXAddr c) .inx := by
  intro s hs; refine ⟨?_, rfl⟩
  have h1 := hs.mem s.pc; have hx := hs.x
  have hw : 0 ≤ land c.byteMask (s.mem s.pc + s.x) ∧ land c.byteMask (s.mem s.pc + s.x) ≤ c.addrMask := by
    rcases hc with rfl | rfl <;> (simp [pyarith] at h1 hx ⊢; omega)
  simp only [Mpu6502.IndirectXAddr, ByteAt_val, ByteAt_x]
  rw [WrapAt_val c hc _ _ hw]
  rcases hc with rfl | rfl <;>
  · simp [core, ea, opnd1, zpPtr, word, BM, pyarith] at h1 hx ⊢
    pyclose

theorem AbsoluteXAddr_sem (c : Cfg) (hc : IsDev c) : ModeSem c (Mpu6502.AbsoluteXAddr c) .abx := by
  intro s hs
  simp only [Mpu6502.AbsoluteXAddr]
  split <;> (try split) <;> refine ⟨?_, rfl⟩ <;>
  · simp only [WordAt_val c hc, WordAt_x]
    rcases hc with rfl | rfl <;>
      simp [core, ea, opnd1, opnd2, opnd16, AM, BM, pyarith]

theorem AbsoluteYAddr_sem (c : Cfg) (hc : IsDev c) : ModeSem c (Mpu6502.AbsoluteYAddr c) .aby := by
  intro s hs
  simp only [Mpu6502.AbsoluteYAddr]
  split <;> (try split) <;> refine ⟨?_, rfl⟩ <;>
  · simp only [WordAt_val c hc, WordAt_y]
    rcases hc with rfl | rfl <;>
      simp [core, ea, opnd1, opnd2, opnd16, AM, BM, pyarith]

theorem IndirectYAddr_sem (c : Cfg) (hc : IsDev c) : ModeSem c (Mpu6502.IndirectYAddr c) .iny := by
  intro s hs
  have h1 := hs.mem s.pc
  have hw : 0 ≤ s.mem s.pc ∧ s.mem s.pc ≤ c.addrMask := by
    rcases hc with rfl | rfl <;> (simp [pyarith] at h1 ⊢; omega)
  simp only [Mpu6502.IndirectYAddr]
  split <;> (try split) <;> refine ⟨?_, rfl⟩ <;>
  · simp only [ByteAt_val, WrapAt_y, ByteAt_y, ByteAt_mem]
    rw [WrapAt_val c hc _ _ hw]
    rcases hc with rfl | rfl <;>
    · simp [core, ea, opnd1, zpPtr, word, AM, BM, pyarith] at h1 ⊢
      pyclose

theorem ZeroPageIndirectAddr_sem (c : Cfg) (hc : c = dev6502.cfg) :
    ModeSem c (Mpu65c02.ZeroPageIndirectAddr c) .zpi := by
  subst hc
  intro s hs; refine ⟨?_, rfl⟩
  have h1 := hs.mem s.pc
  have hw : 0 ≤ land 255 (s.mem s.pc) ∧ land 255 (s.mem s.pc) ≤ dev6502.cfg.addrMask := by
    simp [pyarith] at h1 ⊢; omega
  simp only [Mpu65c02.ZeroPageIndirectAddr, ByteAt_val]
  rw [WrapAt_val _ (Or.inl rfl) _ _ hw]
  simp [core, ea, opnd1, zpPtr, word, BM, pyarith] at h1 ⊢
  pyclose

end Py65.Proofs
