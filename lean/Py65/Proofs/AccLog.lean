import Py65.Proofs.Cycles
import Py65.Spec.AccessAll
set_option linter.unusedSimpArgs false
namespace Py65.Proofs
open Py65 Py65.Gen Py65.Spec Py

def accOf : MemEv → Acc
  | .r a => .r a
  | .w a _ => .w a

/-- Abstract access log of a model state (newest first), write values erased. -/
def acl (s : St) : List Acc := s.log.map accOf

/-- What an addressing-mode helper reads, in order: operand bytes, then pointer bytes.  In
immediate mode the helper reads nothing (the operation reads the operand byte itself). -/
def modeTrace (W : Nat) (mo : Mode) (s : AState) : List Acc :=
  match mo with
  | .imm => []
  | _ => (operandAddrs W mo s).map Acc.r ++ pointerReads W mo s

def ModeAcc (c : Cfg) (x : St → Int × St) (mo : Mode) : Prop :=
  ∀ s, WF c s → acl (x s).2 = (modeTrace c.BYTE_WIDTH mo (core s)).reverse ++ acl s

set_option hygiene false in
macro "mode_unfold" : tactic =>
  `(tactic| (
    dsimp +instances only [Mpu6502.ProgramCounter, Mpu6502.ZeroPageAddr, Mpu6502.ZeroPageXAddr, Mpu6502.ZeroPageYAddr,
      Mpu6502.AbsoluteAddr, Mpu6502.AbsoluteXAddr, Mpu6502.AbsoluteYAddr, Mpu6502.IndirectXAddr,
      Mpu6502.IndirectYAddr, Mpu65c02.ZeroPageIndirectAddr, Mpu65c02.IndirectAbsXAddr,
      Mpu6502.WordAt, Mpu6502.WrapAt, Mpu6502.ByteAt, memGet, acl]
    simp +instances only [apply_ite Prod.snd, apply_ite Prod.fst, apply_ite St.log, ite_self,
      List.map_cons, accOf, modeTrace, operandAddrs, pointerReads, Mode.len, core, opnd1]))

theorem ProgramCounter_acc (c : Cfg) : ModeAcc c (Mpu6502.ProgramCounter c) .imm := by
  intro s _; rfl
theorem ZeroPageAddr_acc (c : Cfg) : ModeAcc c (Mpu6502.ZeroPageAddr c) .zpg := by
  intro s _; rfl
theorem ZeroPageXAddr_acc (c : Cfg) : ModeAcc c (Mpu6502.ZeroPageXAddr c) .zpx := by
  intro s _; rfl
theorem ZeroPageYAddr_acc (c : Cfg) : ModeAcc c (Mpu6502.ZeroPageYAddr c) .zpy := by
  intro s _; rfl
theorem AbsoluteAddr_acc (c : Cfg) (hc : IsDev c) : ModeAcc c (Mpu6502.AbsoluteAddr c) .abs := by
  intro s hs
  mode_unfold
  rcases hc with rfl | rfl <;> simp [AM, pyarith]

theorem AbsoluteXAddr_acc (c : Cfg) (hc : IsDev c) : ModeAcc c (Mpu6502.AbsoluteXAddr c) .abx := by
  intro s hs
  mode_unfold
  rcases hc with rfl | rfl <;> simp [AM, pyarith]
theorem AbsoluteYAddr_acc (c : Cfg) (hc : IsDev c) : ModeAcc c (Mpu6502.AbsoluteYAddr c) .aby := by
  intro s hs
  mode_unfold
  rcases hc with rfl | rfl <;> simp [AM, pyarith]
theorem IndirectAbsXAddr_acc (c : Cfg) (hc : IsDev c) : ModeAcc c (Mpu65c02.IndirectAbsXAddr c) .iax := by
  intro s hs
  mode_unfold
  rcases hc with rfl | rfl <;> simp [AM, pyarith]
theorem IndirectXAddr_acc (c : Cfg) (hc : IsDev c) : ModeAcc c (Mpu6502.IndirectXAddr c) .inx := by
  intro s hs
  have h1 := hs.mem s.pc; have hx := hs.x
  mode_unfold
  rcases hc with rfl | rfl
  · simp [AM, BM, pyarith] at h1 hx ⊢; omega
  · simp [AM, BM, pyarith] at h1 hx ⊢; omega
theorem IndirectYAddr_acc (c : Cfg) (hc : IsDev c) : ModeAcc c (Mpu6502.IndirectYAddr c) .iny := by
  intro s hs
  have h1 := hs.mem s.pc
  mode_unfold
  rcases hc with rfl | rfl
  · simp [AM, BM, pyarith] at h1 ⊢; omega
  · simp [AM, BM, pyarith] at h1 ⊢; omega
theorem ZeroPageIndirectAddr_acc (c : Cfg) (hc : c = dev6502.cfg) :
    ModeAcc c (Mpu65c02.ZeroPageIndirectAddr c) .zpi := by
  subst hc
  intro s hs
  have h1 := hs.mem s.pc
  mode_unfold
  simp [AM, BM, pyarith] at h1 ⊢; omega
end Py65.Proofs
