/-
irq(), nmi(), reset() and the waiting `step()` of the generated model meet `Spec.irq / nmi /
reset / step` (aspect *sem*) and count the documented cycles (aspect *cyc*).
-/
import Py65.Proofs.Ops5
import Py65.Proofs.Step

set_option linter.unusedSimpArgs false

namespace Py65.Proofs
open Py65 Py65.Gen Py65.Spec Py

/-- The shared interrupt entry sequence through the vector at `vec` (= `c.IRQ` or `c.NMI`). -/
def entry (c : Cfg) (vec : Int) (s : St) : St :=
  let s1 := Mpu6502.stPushWord c s.pc s
  let s2 : St := { s1 with p := land s1.p (lnot c.BREAK) }
  let s3 := Mpu6502.stPush c (lor s2.p c.UNUSED) s2
  let s4 : St := { s3 with p := lor s3.p c.INTERRUPT }
  let r := Mpu6502.WordAt c vec s4
  { r.2 with pc := r.1, cycles := r.2.cycles + 7 }

theorem nmi_eq_entry (c : Cfg) (s : St) : Mpu6502.nmi c s = entry c c.NMI s := rfl
theorem irq_eq_entry (c : Cfg) (s : St) :
    Mpu6502.irq c s = if land s.p c.INTERRUPT ≠ 0 then s else entry c c.IRQ s := rfl

theorem entry_sem (c : Cfg) (hc : IsDev c) (vec : Int) (hvec : 65530 ≤ vec ∧ vec ≤ 65534) (s : St)
    (hs : WF c s) :
    abs (entry c vec s) = { interrupt c.BYTE_WIDTH vec (abs s) with waiting := s.waiting } := by
  have hpcr := hs.pc
  have hpr := hs.p
  have hv1 := hs.mem vec
  have hv2 := hs.mem (vec + 1)
  have hpush := stPushWord_core c hc s.pc s
  obtain ⟨ha, hxx, hy, hsp, hp, hpc, hmem, hw⟩ := core_eq hpush
  have e1 : ∀ r : Int, lor (land r (lnot c.BREAK)) c.UNUSED = setFlag (setFlag r bitB false) bitU true := by
    intro r; rcases hc with rfl | rfl <;> (constfold; simp only [flagalg])
  have e2 : ∀ r : Int, lor (land r (lnot c.BREAK)) c.INTERRUPT = setFlag (setFlag r bitB false) bitI true := by
    intro r; rcases hc with rfl | rfl <;> (constfold; simp only [flagalg])
  have hpv : 0 ≤ setFlag (setFlag s.p bitB false) bitU true ∧
      setFlag (setFlag s.p bitB false) bitU true ≤ c.byteMask := by
    rcases hc with rfl | rfl <;>
    · constfold at hpr ⊢
      simp only [setFlag]; simp; omega
  simp only [entry, stPushWord_p, e1, e2]
  have h4 := stPush_core c hc (setFlag (setFlag s.p bitB false) bitU true)
    { (Mpu6502.stPushWord c s.pc s) with p := land s.p (lnot c.BREAK) }
  obtain ⟨ha4, hx4, hy4, hsp4, hp4, hpc4, hmem4, hw4⟩ := core_eq h4
  dsimp only [abs, core, interrupt, word]
  simp only [WordAt_val c hc, WordAt_a, WordAt_x, WordAt_y, WordAt_sp, WordAt_p, WordAt_mem,
    WordAt_waiting, WordAt_cycles, stPush_p, ha4, hx4, hy4, hsp4, hpc4, hmem4, hw4]
  dsimp only [push, write, core] at ha hxx hy hsp hp hpc hmem hw ⊢
  simp only [ha, hxx, hy, hsp, hp, hpc, hmem, hw, byte_mod hc _ hpv]
  rw [e2]
  have hpp : normP (setFlag (setFlag s.p bitB false) bitI true) = setFlag (normP s.p) bitI true := by
    simp only [normP, bitB, bitU, bitI, flagalg]
  have hpb : setFlag (normP s.p) bitB false = setFlag (setFlag s.p bitB false) bitU true := by
    simp only [normP, bitB, bitU, flagalg]
  rw [hpp, hpb]
  have hspr := hs.sp
  rcases hc with rfl | rfl <;>
  · constfold at hpcr hv1 hv2 hspr ⊢
    have hm1 : (vec + 1) % 65536 = vec + 1 := by omega
    have hm2 : (vec + 1) % 4294967296 = vec + 1 := by omega
    simp only [hm1, hm2]
    congr 1
    · split_ifs <;> first | omega | rfl
    · funext k
      split_ifs <;> first | rfl | omega


theorem entry_cycles (c : Cfg) (vec : Int) (s : St) : (entry c vec s).cycles = s.cycles + 7 := rfl

theorem vec_IRQ {c : Cfg} (hc : IsDev c) : c.IRQ = irqVector := by rcases hc with rfl | rfl <;> rfl
theorem vec_NMI {c : Cfg} (hc : IsDev c) : c.NMI = nmiVector := by rcases hc with rfl | rfl <;> rfl
theorem vec_RESET {c : Cfg} (hc : IsDev c) : c.RESET = resetVector := by rcases hc with rfl | rfl <;> rfl

/-- `nmi()` on a device that is not waiting (6502, 65Org16; the 65C02 wrapper clears the flag first). -/
theorem nmi_sem (c : Cfg) (hc : IsDev c) (s : St) (hs : WF c s) (hw : s.waiting = false) :
    abs (Mpu6502.nmi c s) = Spec.nmi c.BYTE_WIDTH (abs s) := by
  rw [nmi_eq_entry, entry_sem c hc _ (by rw [vec_NMI hc]; decide) s hs, vec_NMI hc, hw]; rfl

theorem irq_test {c : Cfg} (hc : IsDev c) (p : Int) : (land p c.INTERRUPT ≠ 0) = (flag p bitI = true) := by
  rcases hc with rfl | rfl <;>
  · constfold; simp only [flagalg]; split <;> simp_all

/-- `irq()`: nothing at all while I is set; otherwise the entry sequence through the IRQ vector. -/
theorem irq_sem (c : Cfg) (hc : IsDev c) (s : St) (hs : WF c s) (hw : s.waiting = false) :
    abs (Mpu6502.irq c s) = Spec.irq c.BYTE_WIDTH (abs s) := by
  rw [irq_eq_entry]
  have e : flag (abs s).p bitI = flag s.p bitI := flag_normP _ _ (by decide)
  simp only [irq_test hc, Spec.irq, e]
  cases h : flag s.p bitI
  · simp only [Bool.false_eq_true, if_false]
    rw [entry_sem c hc _ (by rw [vec_IRQ hc]; decide) s hs, vec_IRQ hc, hw]; rfl
  · simp only [if_true, abs, core, hw]

/-- A masked `irq()` changes nothing: registers, flags, memory, cycle counter, access log. -/
theorem irq_masked (c : Cfg) (hc : IsDev c) (s : St) (hI : flag s.p bitI = true) :
    Mpu6502.irq c s = s := by
  rw [irq_eq_entry]; simp only [irq_test hc, hI, if_true]

theorem irq_cycles (c : Cfg) (hc : IsDev c) (s : St) :
    (Mpu6502.irq c s).cycles = s.cycles + irqCycles (abs s) := by
  rw [irq_eq_entry]
  have e : flag (abs s).p bitI = flag s.p bitI := flag_normP _ _ (by decide)
  simp only [irq_test hc, irqCycles, e]
  cases h : flag s.p bitI <;> simp [entry_cycles]

theorem nmi_cycles (c : Cfg) (s : St) : (Mpu6502.nmi c s).cycles = s.cycles + nmiCycles := rfl

/-! ### reset -/

theorem reset_at_sem (c : Cfg) (hc : IsDev c) (a : Int) (s : St) (hw : s.waiting = false) :
    abs (Mpu6502.reset_at c a s) = Spec.reset c.BYTE_WIDTH (some a) (abs s) := by
  have e : lor c.BREAK c.UNUSED = normP 0 := by rcases hc with rfl | rfl <;> decide
  have eb : c.byteMask = BM c.BYTE_WIDTH - 1 := by rcases hc with rfl | rfl <;> rfl
  simp only [Mpu6502.reset_at, Spec.reset, abs, core, e, eb, hw, normP_idem]

theorem reset_vec_sem (c : Cfg) (hc : IsDev c) (s : St) (hw : s.waiting = false) :
    abs (Mpu6502.reset_vec c s) = Spec.reset c.BYTE_WIDTH none (abs s) := by
  have e : lor c.BREAK c.UNUSED = normP 0 := by rcases hc with rfl | rfl <;> decide
  have eb : c.byteMask = BM c.BYTE_WIDTH - 1 := by rcases hc with rfl | rfl <;> rfl
  have ev : (resetVector + 1) % AM c.BYTE_WIDTH = resetVector + 1 := by
    rcases hc with rfl | rfl <;> decide
  simp only [Mpu6502.reset_vec, WordAt_val c hc, WordAt_a, WordAt_x, WordAt_y, WordAt_sp, WordAt_p,
    WordAt_mem, WordAt_waiting, Spec.reset, abs, core, word, e, eb, hw, normP_idem, vec_RESET hc, ev]

theorem reset_cycles (c : Cfg) (a : Int) (s : St) :
    (Mpu6502.reset_at c a s).cycles = 0 ∧ (Mpu6502.reset_vec c s).cycles = 0 := ⟨rfl, rfl⟩

/-! ### the 65C02 wrappers: WAI -/

/-- A waiting 65C02 executes nothing: `step()` changes only the cycle counter, by one. -/
theorem wai_halts (c : Cfg) (t : Tbl) (s : St) (hw : s.waiting = true) :
    Mpu65c02.step c t s = { s with cycles := s.cycles + 1 } := by
  simp [Mpu65c02.step, hw]

theorem wai_halts_spec (W : Nat) (v : Variant) (a : AState) (hw : a.waiting = true) :
    Spec.step W v a = a := by simp [Spec.step, hw]

/-- irq(), nmi() and reset() end the wait (also a masked irq). -/
theorem wai_resumes (c : Cfg) (s : St) (a : Int) :
    (Mpu65c02.irq c s).waiting = false ∧ (Mpu65c02.nmi c s).waiting = false ∧
    (Mpu65c02.reset_at c a s).waiting = false ∧ (Mpu65c02.reset_vec c s).waiting = false := by
  refine ⟨?_, rfl, rfl, rfl⟩
  simp only [Mpu65c02.irq, irq_eq_entry]
  split <;> rfl

theorem irq65c02_sem (s : St) (hs : WF c8 s) :
    abs (Mpu65c02.irq c8 s) = Spec.irq 8 (abs s) := by
  have h := irq_sem c8 hc8 { s with waiting := false } ⟨hs.a, hs.x, hs.y, hs.sp, hs.p, hs.pc, hs.mem⟩ rfl
  simp only [Mpu65c02.irq]
  rw [h]
  simp only [Spec.irq, Spec.interrupt, abs, core, push, write]
  by_cases hI : flag (normP s.p) bitI = true
  · simp only [hI, if_true]
  · simp only [hI, if_false]; rfl

theorem nmi65c02_sem (s : St) (hs : WF c8 s) :
    abs (Mpu65c02.nmi c8 s) = Spec.nmi 8 (abs s) := by
  have h := nmi_sem c8 hc8 { s with waiting := false } ⟨hs.a, hs.x, hs.y, hs.sp, hs.p, hs.pc, hs.mem⟩ rfl
  simp only [Mpu65c02.nmi]
  rw [h]; rfl

end Py65.Proofs
