/-
The access log of the generated model, WITH the values written (C12's `acl` erases them): every event
a handler appends has an address inside the address space, and every write a value that fits the byte
(`LogOK`).  Infrastructure, addressing-mode helpers, operation helpers.  Used by C05h.
-/
import Py65.Proofs.HistArith
import Py65.Proofs.Ops5

set_option linter.unusedSimpArgs false

namespace Py65.Proofs
open Py65 Py65.Gen Py65.Spec Py

/-- One logged access is fine: the address is an address; a written value fits the byte. -/
def EvOK (W : Nat) : MemEv → Prop
  | .r a => InA W a
  | .w a v => InA W a ∧ InB W v

/-- Every access in the log is fine. -/
def LogOK (W : Nat) (l : List MemEv) : Prop := ∀ ev ∈ l, EvOK W ev

theorem LogOK_nil (W : Nat) : LogOK W [] := fun _ h => by cases h

theorem LogOK_cons {W : Nat} {ev : MemEv} {l : List MemEv} :
    LogOK W (ev :: l) ↔ EvOK W ev ∧ LogOK W l := by
  simp [LogOK]

theorem LogOK_append {W : Nat} {l₁ l₂ : List MemEv} :
    LogOK W (l₁ ++ l₂) ↔ LogOK W l₁ ∧ LogOK W l₂ := by
  simp only [LogOK, List.mem_append]
  constructor
  · intro h; exact ⟨fun ev he => h ev (Or.inl he), fun ev he => h ev (Or.inr he)⟩
  · rintro ⟨h1, h2⟩ ev (he | he)
    · exact h1 ev he
    · exact h2 ev he

theorem LogOK_ite {W : Nat} {b : Prop} [Decidable b] {l₁ l₂ : List MemEv}
    (h1 : LogOK W l₁) (h2 : LogOK W l₂) : LogOK W (if b then l₁ else l₂) := by
  split <;> assumption

theorem EvOK_r {W : Nat} {a : Int} : EvOK W (.r a) ↔ InA W a := Iff.rfl
theorem EvOK_w {W : Nat} {a v : Int} : EvOK W (.w a v) ↔ InA W a ∧ InB W v := Iff.rfl

/-! ### addresses -/

section addr
variable {c : Cfg}

theorem inA_of_inB {W : Nat} (hW : W = 8 ∨ W = 16) {v : Int} (h : InB W v) : InA W v := by
  rcases hW with rfl | rfl <;> (simp only [InA, InB, AM, BM] at *; omega)

theorem inA_land_addrMask (hc : IsDev c) (v : Int) : InA c.BYTE_WIDTH (land v c.addrMask) := by
  rw [inA_iff hc]
  have h1 : 0 ≤ c.addrMask := by rcases hc with rfl | rfl <;> decide
  exact ⟨land_nonneg _ _ h1, land_le_right _ _ h1⟩

theorem inB_land_byteMask (hc : IsDev c) (v : Int) : InB c.BYTE_WIDTH (land v c.byteMask) :=
  inB_land_right _ (inB_consts hc).2.2.2.2.2.2.2.2

theorem inB_byteMask_land (hc : IsDev c) (v : Int) : InB c.BYTE_WIDTH (land c.byteMask v) := by
  rw [land_comm]; exact inB_land_byteMask hc v

theorem inB_255_land (hc : IsDev c) (v : Int) : InB c.BYTE_WIDTH (land 255 v) := by
  rw [land_comm]
  refine inB_land_right _ ?_
  rcases hc with rfl | rfl <;> (simp only [InB, BM]; constfold; decide)

/-- the two addresses `WrapAt` reads -/
theorem inA_wrap (hc : IsDev c) {z : Int} (hz : InA c.BYTE_WIDTH z) :
    InA c.BYTE_WIDTH (land z c.addrHighMask + land (z + 1) c.byteMask) := by
  rcases hc with rfl | rfl <;>
  · simp only [InA, AM] at *
    constfold at hz ⊢
    simp only [pyarith]
    omega

theorem inA_wordval (hc : IsDev c) {lo hi : Int} (h1 : InB c.BYTE_WIDTH lo) (h2 : InB c.BYTE_WIDTH hi) :
    InA c.BYTE_WIDTH (lo + shl hi c.BYTE_WIDTH) := by
  have := inA_word hc.W h1 h2
  simpa [shl, BM] using this

theorem inA_stack (hc : IsDev c) {sp : Int} (h : InB c.BYTE_WIDTH sp) : InA c.BYTE_WIDTH (sp + c.spBase) := by
  rcases hc with rfl | rfl <;> (simp only [InA, InB, AM, BM] at *; constfold at h ⊢; omega)

end addr

/-! ### contracts -/

/-- An addressing-mode helper: leaves the observable state alone, returns an address, appends only fine
events. -/
def ModeLog (c : Cfg) (x : St → Int × St) : Prop :=
  ∀ s, WF c s → core (x s).2 = core s ∧ InA c.BYTE_WIDTH (x s).1 ∧
    (LogOK c.BYTE_WIDTH s.log → LogOK c.BYTE_WIDTH (x s).2.log)

/-- A handler (or any state transformer run on a well-formed state): appends only fine events. -/
def HandlerLog (c : Cfg) (h : St → St) : Prop :=
  ∀ s, WF c s → LogOK c.BYTE_WIDTH s.log → LogOK c.BYTE_WIDTH (h s).log

/-- closing tactic for the side goals: ranges of addresses and values -/
macro "inrange" "[" ls:Lean.Parser.Tactic.simpLemma,* "]" : tactic =>
  `(tactic| simp +instances (maxDischargeDepth := 12) only [$ls,*, LogOK_cons, EvOK_r, EvOK_w, LogOK_ite,
      inB_ite, inA_ite, inB_lor, inB_land_left, inB_land_right, inB_lxor, inB_half, and_self, and_true, true_and])

set_option hygiene false in
macro "mode_log" : tactic =>
  `(tactic| (
    intro s hs
    have hr := hs.toWFr hc
    have hpc := (inA_iff hc s.pc).2 hs.pc
    have hm := hr.mem
    have hW := hc.W
    refine ⟨?_, ?_, fun hl => ?_⟩
    · first | rfl | (dsimp only [Mpu6502.AbsoluteXAddr, Mpu6502.AbsoluteYAddr, Mpu6502.IndirectYAddr]; split <;> (try split) <;> rfl)
    · dsimp +instances only [Mpu6502.ProgramCounter, Mpu6502.ZeroPageAddr, Mpu6502.ZeroPageXAddr, Mpu6502.ZeroPageYAddr,
        Mpu6502.AbsoluteAddr, Mpu6502.AbsoluteXAddr, Mpu6502.AbsoluteYAddr, Mpu6502.IndirectXAddr,
        Mpu6502.IndirectYAddr, Mpu65c02.ZeroPageIndirectAddr, Mpu65c02.IndirectAbsXAddr,
        Mpu6502.WordAt, Mpu6502.WrapAt, Mpu6502.ByteAt, memGet]
      try simp +instances only [apply_ite Prod.snd, apply_ite Prod.fst, ite_self]
      inrange [hpc, hm, hr.x, hr.y, inA_land_addrMask hc, inB_land_byteMask hc, inB_byteMask_land hc,
        inB_255_land hc, inA_wrap hc, inA_wordval hc, inA_of_inB hW]
    · dsimp +instances only [Mpu6502.ProgramCounter, Mpu6502.ZeroPageAddr, Mpu6502.ZeroPageXAddr, Mpu6502.ZeroPageYAddr,
        Mpu6502.AbsoluteAddr, Mpu6502.AbsoluteXAddr, Mpu6502.AbsoluteYAddr, Mpu6502.IndirectXAddr,
        Mpu6502.IndirectYAddr, Mpu65c02.ZeroPageIndirectAddr, Mpu65c02.IndirectAbsXAddr,
        Mpu6502.WordAt, Mpu6502.WrapAt, Mpu6502.ByteAt, memGet]
      try simp +instances only [apply_ite Prod.snd, apply_ite Prod.fst, apply_ite St.log, ite_self]
      inrange [hl, hpc, hm, hr.x, hr.y, inA_land_addrMask hc, inB_land_byteMask hc, inB_byteMask_land hc,
        inB_255_land hc, inA_wrap hc, inA_wordval hc, inA_of_inB hW]))

theorem ProgramCounter_log (c : Cfg) (hc : IsDev c) : ModeLog c (Mpu6502.ProgramCounter c) := by mode_log
theorem ZeroPageAddr_log (c : Cfg) (hc : IsDev c) : ModeLog c (Mpu6502.ZeroPageAddr c) := by mode_log
theorem ZeroPageXAddr_log (c : Cfg) (hc : IsDev c) : ModeLog c (Mpu6502.ZeroPageXAddr c) := by mode_log
theorem ZeroPageYAddr_log (c : Cfg) (hc : IsDev c) : ModeLog c (Mpu6502.ZeroPageYAddr c) := by mode_log
theorem AbsoluteAddr_log (c : Cfg) (hc : IsDev c) : ModeLog c (Mpu6502.AbsoluteAddr c) := by mode_log
theorem AbsoluteXAddr_log (c : Cfg) (hc : IsDev c) : ModeLog c (Mpu6502.AbsoluteXAddr c) := by mode_log
theorem AbsoluteYAddr_log (c : Cfg) (hc : IsDev c) : ModeLog c (Mpu6502.AbsoluteYAddr c) := by mode_log
theorem IndirectXAddr_log (c : Cfg) (hc : IsDev c) : ModeLog c (Mpu6502.IndirectXAddr c) := by mode_log
theorem IndirectYAddr_log (c : Cfg) (hc : IsDev c) : ModeLog c (Mpu6502.IndirectYAddr c) := by mode_log
theorem ZeroPageIndirectAddr_log (c : Cfg) (hc : IsDev c) : ModeLog c (Mpu65c02.ZeroPageIndirectAddr c) := by mode_log
theorem IndirectAbsXAddr_log (c : Cfg) (hc : IsDev c) : ModeLog c (Mpu65c02.IndirectAbsXAddr c) := by mode_log


/-! ### whole handlers, by unfolding -/

theorem inB_shr1 {W : Nat} {v : Int} (h : InB W v) : InB W (shr v 1) := by
  simp only [InB, shr] at *; omega

theorem inB_small {W : Nat} (hW : W = 8 ∨ W = 16) (v : Int) (h0 : 0 ≤ v) (h1 : v ≤ 255) : InB W v := by
  rcases hW with rfl | rfl <;> (simp only [InB, BM]; omega)

theorem inA_vectors {c : Cfg} (hc : IsDev c) :
    InA c.BYTE_WIDTH c.IRQ ∧ InA c.BYTE_WIDTH c.NMI ∧ InA c.BYTE_WIDTH c.RESET := by
  rcases hc with rfl | rfl <;> (simp only [InA, AM]; constfold; decide)

/- `handler_log`: `HandlerLog` of a generated handler (or irq / nmi / reset): unfold it down to
`memGet` / `memSet`, project the log, and check every appended event. -/
set_option hygiene false in
macro "handler_log" "[" ls:Lean.Parser.Tactic.simpLemma,* "]" : tactic =>
  `(tactic| (
    intro s hs hl
    have hr := hs.toWFr hc
    have hpc := (inA_iff hc s.pc).2 hs.pc
    have hm := hr.mem
    have hW := hc.W
    obtain ⟨kC, kZ, kI, kD, kB, kU, kV, kN, kM⟩ := inB_consts hc
    obtain ⟨vI, vN, vR⟩ := inA_vectors hc
    dsimp +instances only [$ls,*, Mpu6502.opORA, Mpu6502.opAND, Mpu6502.opEOR, Mpu6502.opADC, Mpu6502.opSBC,
      Mpu6502.opLDA, Mpu6502.opLDX, Mpu6502.opLDY, Mpu6502.opBIT, Mpu6502.opCMPR, Mpu6502.opSTA, Mpu6502.opSTX,
      Mpu6502.opSTY, Mpu65c02.opSTZ, Mpu6502.opASL_mem, Mpu6502.opLSR_mem, Mpu6502.opROL_mem, Mpu6502.opROR_mem,
      Mpu6502.opINCR_mem, Mpu6502.opDECR_mem, Mpu65c02.opTSB, Mpu65c02.opTRB, Mpu65c02.opRMB, Mpu65c02.opSMB,
      Mpu6502.opASL_acc, Mpu6502.opLSR_acc, Mpu6502.opROL_acc, Mpu6502.opROR_acc, Mpu6502.opINCR_acc,
      Mpu6502.opDECR_acc, Mpu6502.opSET, Mpu6502.opCLR, Mpu6502.opBST, Mpu6502.opBCL, Mpu6502.BranchRelAddr,
      Mpu6502.ImmediateByte, Mpu6502.FlagsNZ, Mpu6502.stPush, Mpu6502.stPushWord, Mpu6502.stPop, Mpu6502.stPopWord,
      Mpu6502.ProgramCounter, Mpu6502.ZeroPageAddr, Mpu6502.ZeroPageXAddr, Mpu6502.ZeroPageYAddr,
      Mpu6502.AbsoluteAddr, Mpu6502.AbsoluteXAddr, Mpu6502.AbsoluteYAddr, Mpu6502.IndirectXAddr,
      Mpu6502.IndirectYAddr, Mpu65c02.ZeroPageIndirectAddr, Mpu65c02.IndirectAbsXAddr,
      Mpu6502.WordAt, Mpu6502.WrapAt, Mpu6502.ByteAt, Mpu6502.inst_not_implemented, memGet, memSet]
    try simp +instances only [apply_ite Prod.snd, apply_ite Prod.fst, apply_ite St.log, apply_ite St.sp, apply_ite St.mem,
      apply_ite St.a, apply_ite St.x, apply_ite St.y, apply_ite St.p, apply_ite St.pc, ite_self]
    first
    | exact hl
    | inrange [hl, hpc, hm, hr.a, hr.x, hr.y, hr.sp, hr.p, kC, kZ, kI, kD, kB, kU, kV, kN, kM, vI, vN, vR,
        inA_land_addrMask hc, inB_land_byteMask hc, inB_byteMask_land hc,
        inB_255_land hc, inA_wrap hc, inA_wordval hc, inA_stack hc, inB_shr1, inB_zero hW, inA_of_inB hW,
        inB_small hW 1 (by decide) (by decide), inB_small hW 2 (by decide) (by decide),
        inB_small hW 4 (by decide) (by decide), inB_small hW 8 (by decide) (by decide),
        inB_small hW 16 (by decide) (by decide), inB_small hW 32 (by decide) (by decide),
        inB_small hW 64 (by decide) (by decide), inB_small hW 128 (by decide) (by decide)]))

/-- `step()`: the opcode fetch, then the dispatched handler. -/
theorem step_log_case (c : Cfg) (hc : IsDev c) (t : Tbl) (s : St) (hs : WF c s)
    (hl : LogOK c.BYTE_WIDTH s.log) (h : St → St) (hinst : t.instruct (s.mem s.pc) = h)
    (hh : HandlerLog c h) : LogOK c.BYTE_WIDTH (Mpu6502.step c t s).log := by
  subst hinst
  have e : (Mpu6502.step c t s).log = (t.instruct (s.mem s.pc) (afterFetch c t s)).log := rfl
  rw [e]
  refine hh _ (afterFetch_WF c hc t s hs) ?_
  show LogOK c.BYTE_WIDTH (MemEv.r s.pc :: s.log)
  exact LogOK_cons.2 ⟨(inA_iff hc s.pc).2 hs.pc, hl⟩

theorem irq_log (c : Cfg) (hc : IsDev c) : HandlerLog c (Mpu6502.irq c) := by
  handler_log [Mpu6502.irq]
theorem nmi_log (c : Cfg) (hc : IsDev c) : HandlerLog c (Mpu6502.nmi c) := by
  handler_log [Mpu6502.nmi]
theorem reset_vec_log (c : Cfg) (hc : IsDev c) : HandlerLog c (Mpu6502.reset_vec c) := by
  handler_log [Mpu6502.reset_vec]
theorem reset_at_log (c : Cfg) (a : Int) : HandlerLog c (Mpu6502.reset_at c a) := fun _ _ hl => hl

end Py65.Proofs
