/-
Nat-level bit facts that core/Mathlib do not state in the form needed:
`a ||| b + a &&& b = a + b`, `a ^^^ b + 2 * (a &&& b) = a + b`, the single-bit form of `&&&`,
sub-mask subtraction, disjoint-mask splitting.
-/
import Mathlib.Data.Nat.Bitwise

namespace Py65.NatBits

theorem or_add_and (a b : Nat) : (a ||| b) + (a &&& b) = a + b := by
  induction a using Nat.binaryRec generalizing b with
  | zero => simp
  | bit x a ih =>
    induction b using Nat.binaryRec with
    | zero => simp
    | bit y b _ =>
      rw [Nat.lor_bit, Nat.land_bit]
      simp only [Nat.bit_val]
      have := ih b
      cases x <;> cases y <;> simp <;> omega

theorem xor_add_two_and (a b : Nat) : (a ^^^ b) + 2 * (a &&& b) = a + b := by
  induction a using Nat.binaryRec generalizing b with
  | zero => simp
  | bit x a ih =>
    induction b using Nat.binaryRec with
    | zero => simp
    | bit y b _ =>
      rw [Nat.xor_bit, Nat.land_bit]
      simp only [Nat.bit_val]
      have := ih b
      cases x <;> cases y <;> simp <;> omega

theorem and_two_pow' (a k : Nat) : a &&& 2 ^ k = (a / 2 ^ k % 2) * 2 ^ k := by
  rw [Nat.and_two_pow, Nat.testBit_eq_decide_div_mod_eq]
  rcases Nat.mod_two_eq_zero_or_one (a / 2 ^ k) with h | h <;> simp [h]

/-- sub-mask subtraction: bits of `v` not in `u`. -/
theorem testBit_sub_and (v u i : Nat) :
    (v - (v &&& u)).testBit i = (v.testBit i && !u.testBit i) := by
  have h : v - (v &&& u) = v ^^^ (v &&& u) := by
    have h1 := xor_add_two_and v (v &&& u)
    have h2 : v &&& (v &&& u) = v &&& u := by
      apply Nat.eq_of_testBit_eq; intro j; simp
    rw [h2] at h1
    have : v &&& u ≤ v := Nat.and_le_left
    omega
  rw [h]; simp
  cases v.testBit i <;> cases u.testBit i <;> rfl

end Py65.NatBits
