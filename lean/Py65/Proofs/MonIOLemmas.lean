/-
Helper lemmas for C18 (`Py65/Props/C18.lean`): one access of the monitor's I/O model
(`Py65/Model/MonIO.lean`) is the Spec's step (`Py65/Spec/MonIO.lean`).  The two facts about the
`ObservableMemory` accesses are C10's theorems `get_calls` and `set_chain`, instantiated at the
history `installOps` (the two subscriptions `_install_mpu_observers` makes).
-/
import Py65.Props.C10
import Py65.Model.MonIO
import Py65.Spec.MonIO

namespace Py65.Proofs.MonIO
open Py65 Py65.Model.ObsMem Py65.Model.MonIO Py65.Spec.ObsMem

/-- The physical mask `ObservableMemory(addrWidth=w)` chooses. -/
def maskOf (w : Int) : Int := if w > 16 then 0x3ffff else 0xffff

/-- The two subscriptions, spelled out. -/
def hist (I O : Int) : List Op := [.subW [O] putcId, .subR [I] getcId]

theorem installOps_eq {s : Sess} {I O : Int} (ho : s.observed = true) (hI : s.getcAddr = some I)
    (hO : s.putcAddr = some O) : installOps s = hist I O := by
  simp [installOps, hist, ho, hI, hO]

theorem subs_read (mask I O p : Int) :
    subscribers .read mask (hist I O) p = if p = phys mask I then [getcId] else [] := by
  unfold subscribers hist
  by_cases h : p = phys mask I
  · simp [registered, keepFirst, h]
  · simp [registered, keepFirst, h]

theorem subs_write (mask I O p : Int) :
    subscribers .write mask (hist I O) p = if p = phys mask O then [putcId] else [] := by
  unfold subscribers hist
  by_cases h : p = phys mask O
  · simp [registered, keepFirst, h]
  · simp [registered, keepFirst, h]

theorem run_hist_log (reply : Reply) (w : Int) (cells : Int → Int) (I O : Int) :
    (run reply (init w cells) (hist I O)).log = [] := rfl

theorem run_hist_subject (reply : Reply) (w : Int) (cells : Int → Int) (I O : Int) :
    (run reply (init w cells) (hist I O)).subject = cells := rfl

theorem run_hist_mask (reply : Reply) (w : Int) (cells : Int → Int) (I O : Int) :
    (run reply (init w cells) (hist I O)).physMask = maskOf w := rfl

theorem getchByte_eq (b : Int) : getchByte b = Py65.Spec.MonIO.deliver b := rfl

/-- A load through the installed observers. -/
theorem get_installed (io : IO) (w : Int) (cells : Int → Int) (I O a : Int) :
    let m := run (replyOf io) (init w cells) (hist I O)
    let r := get (replyOf io) m a
    let p := phys (maskOf w) a
    r.2.subject = cells ∧
    (p = phys (maskOf w) I → r.1 = getcVal io ∧ r.2.log = [⟨getcId, p, none⟩]) ∧
    (p ≠ phys (maskOf w) I → r.1 = cells p ∧ r.2.log = []) := by
  intro m r p
  have h := Py65.Props.C10.get_calls (replyOf io) w cells (hist I O) a
  dsimp only at h
  obtain ⟨-, hlog, hval, hsubj, -⟩ := h
  rw [run_hist_mask] at hlog hval
  rw [run_hist_log] at hlog hval
  rw [run_hist_subject] at hval hsubj
  rw [subs_read] at hlog hval
  refine ⟨hsubj, ?_, ?_⟩
  · intro hp
    have hp' : phys (maskOf w) a = phys (maskOf w) I := hp
    rw [if_pos hp'] at hlog hval
    constructor
    · show (get (replyOf io) m a).1 = _
      rw [hval]
      simp [readReplies, lastSome, replyOf]
    · show (get (replyOf io) m a).2.log = _
      rw [hlog]; rfl
  · intro hp
    have hp' : ¬ phys (maskOf w) a = phys (maskOf w) I := hp
    rw [if_neg hp'] at hlog hval
    constructor
    · show (get (replyOf io) m a).1 = _
      rw [hval]
      simp [readReplies, lastSome]
      rfl
    · show (get (replyOf io) m a).2.log = _
      rw [hlog]; rfl

/-- A store through the installed observers. -/
theorem set_installed (io : IO) (w : Int) (cells : Int → Int) (I O a v : Int) :
    let m := run (replyOf io) (init w cells) (hist I O)
    let m' := set (replyOf io) m a v
    let p := phys (maskOf w) a
    m'.subject = upd cells p v ∧
    (p = phys (maskOf w) O → m'.log = [⟨putcId, p, some v⟩]) ∧
    (p ≠ phys (maskOf w) O → m'.log = []) := by
  intro m m' p
  have h := Py65.Props.C10.set_chain (replyOf io) w cells (hist I O) a v
  dsimp only at h
  obtain ⟨-, hlog, hsubj, -⟩ := h
  rw [run_hist_mask] at hlog hsubj
  rw [run_hist_log] at hlog hsubj
  rw [run_hist_subject] at hsubj
  rw [subs_write] at hlog hsubj
  by_cases hp : phys (maskOf w) a = phys (maskOf w) O
  · rw [if_pos hp] at hlog hsubj
    refine ⟨?_, ?_, fun hne => absurd hp hne⟩
    · show (set (replyOf io) m a v).subject = _
      rw [hsubj]
      simp [seen, replyOf, putcId, getcId]
      rfl
    · intro _
      show (set (replyOf io) m a v).log = _
      rw [hlog]
      simp [seen]
      rfl
  · rw [if_neg hp] at hlog hsubj
    refine ⟨?_, fun he => absurd he hp, ?_⟩
    · show (set (replyOf io) m a v).subject = _
      rw [hsubj]
      simp [seen]
      rfl
    · intro _
      show (set (replyOf io) m a v).log = _
      rw [hlog]
      simp

open Py65.Spec.MonIO (SState deliver storesTo loadsFrom)

/-- The Spec's view of a model state. -/
def toSpec (st : MState) : SState := { cells := st.cells, pending := st.io.pending, output := st.io.output }

/-- Physical size of the session's memory: 64 K, or 256 K for a device with more than 16 address bits. -/
def physSize (s : Sess) : Int := maskOf s.addrWidth + 1

/-- One access through the installed observers is the Spec's step. -/
theorem io_step (s : Sess) (I O : Int) (ho : s.observed = true) (hI : s.getcAddr = some I)
    (hO : s.putcAddr = some O) (st : MState) (e : MemEv) :
    (access s st e).1 = (Py65.Spec.MonIO.step (physSize s) I O (toSpec st) e).1 ∧
    toSpec (access s st e).2 = (Py65.Spec.MonIO.step (physSize s) I O (toSpec st) e).2 := by
  have hops := installOps_eq ho hI hO
  cases e with
  | r a =>
    have h := get_installed st.io s.addrWidth st.cells I O a
    dsimp only at h
    obtain ⟨hsubj, hyes, hno⟩ := h
    simp only [access, ho, if_true, memOf, hops, Py65.Spec.MonIO.step, toSpec, physSize]
    have hph : ∀ x, phys (maskOf s.addrWidth) x = x % (maskOf s.addrWidth + 1) := fun _ => rfl
    by_cases hp : a % (maskOf s.addrWidth + 1) = I % (maskOf s.addrWidth + 1)
    · obtain ⟨hv, hl⟩ := hyes (by rw [hph, hph]; exact hp)
      simp only [if_pos hp, hv, hl, hsubj]
      cases hpend : st.io.pending with
      | nil => simp [getcVal, hpend, absorb, getcId, hp]
      | cons b rest => simp [getcVal, hpend, absorb, getcId, getchByte_eq, hp]
    · obtain ⟨hv, hl⟩ := hno (by rw [hph, hph]; exact hp)
      simp only [if_neg hp, hv, hl, hsubj]
      simp [absorb, hph, hp]
  | w a v =>
    have h := set_installed st.io s.addrWidth st.cells I O a v
    dsimp only at h
    obtain ⟨hsubj, hyes, hno⟩ := h
    simp only [access, ho, if_true, memOf, hops, Py65.Spec.MonIO.step, toSpec, physSize]
    have hph : ∀ x, phys (maskOf s.addrWidth) x = x % (maskOf s.addrWidth + 1) := fun _ => rfl
    by_cases hp : a % (maskOf s.addrWidth + 1) = O % (maskOf s.addrWidth + 1)
    · have hl := hyes (by rw [hph, hph]; exact hp)
      simp only [if_pos hp, hl, hsubj]
      simp [absorb, getcId, putcId, hph, hp]
    · have hl := hno (by rw [hph, hph]; exact hp)
      simp only [if_neg hp, hl, hsubj]
      simp [absorb, hph, hp]

/-- Closed form of the Spec's replay: what is printed and what is consumed. -/
theorem spec_closed (size I O : Int) (sp : SState) (evs : List MemEv) :
    (Py65.Spec.MonIO.replay size I O sp evs).2.output = sp.output ++ storesTo size O evs ∧
    (Py65.Spec.MonIO.replay size I O sp evs).2.pending = sp.pending.drop (loadsFrom size I evs) := by
  induction evs generalizing sp with
  | nil => simp [Py65.Spec.MonIO.replay, storesTo, loadsFrom]
  | cons e es ih =>
    obtain ⟨ih1, ih2⟩ := ih (Py65.Spec.MonIO.step size I O sp e).2
    simp only [Py65.Spec.MonIO.replay]
    rw [ih1, ih2]
    cases e with
    | r a =>
      by_cases hp : a % size = I % size
      · cases hpend : sp.pending with
        | nil => simp [Py65.Spec.MonIO.step, hp, hpend, storesTo, loadsFrom]
        | cons b rest => simp [Py65.Spec.MonIO.step, hp, hpend, storesTo, loadsFrom, List.countP_cons]
      · simp [Py65.Spec.MonIO.step, hp, storesTo, loadsFrom, List.countP_cons]
    | w a v =>
      by_cases hp : a % size = O % size
      · simp [Py65.Spec.MonIO.step, hp, storesTo, loadsFrom, List.countP_cons]
      · simp [Py65.Spec.MonIO.step, hp, storesTo, loadsFrom, List.countP_cons]

/-- The address the constructor ends up with: the keyword argument, overridden by the option text
parsed as hexadecimal (`int(value, 16)`). -/
def chosen (kw : Option Int) (opt : Option Py65.Model.PyStr.Str) : Option Int :=
  match opt with
  | none => kw
  | some t => Py65.Model.PyStr.pyIntL t 16

end Py65.Proofs.MonIO
