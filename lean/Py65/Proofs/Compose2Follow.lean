/-
Vocabulary and the core induction of `Props/C09h.lean` ("the listing follows the execution"):
`Listing` (what `disassemble start:end` lists, with the GENERATED `instruction_at`), `Straight` (a declared
opcode that falls through), `Running`, and `follow_core`: as long as the listed instructions - all but the
last - are straight-line and their opcode cells still hold what the listing saw, the `k`-th listed address
is the PC of the generated device after `k` steps.
-/
import Py65.Proofs.Compose2Dis
import Py65.Proofs.Compose2Walk

namespace Py65.Proofs.Compose2
open Py65 Py65.Gen Py65.Spec Py65.Proofs Py65.Proofs.Hist
open Py65.Model.PyStr Py65.Model.AddrParser Py65.Model.Show Py65.Model.GenRt
open Py65.Proofs.DisasmGenEq Py65.Gen.DisasmGen
open Py65.Props.C09 (isControl)

/-- A straight-line opcode byte of the device: declared, not a control transfer (branch, JMP, JSR, RTS,
RTI, BRK) and not WAI (65C02: the device stops executing). -/
def Straight (d : Dev) (op : Int) : Prop :=
  ∃ mn mo, decode d.variant op = some (mn, mo) ∧ isControl mn = false ∧ mn ≠ .WAI

/-- `Straight` as a computed check. -/
def straightB (d : Dev) (op : Int) : Bool :=
  match decode d.variant op with
  | some (mn, _) => !(isControl mn) && notWai mn
  | none => false

theorem straight_of_check {d : Dev} {op : Int} (h : straightB d op = true) : Straight d op := by
  unfold straightB at h
  cases hd : decode d.variant op with
  | none => rw [hd] at h; cases h
  | some r =>
    obtain ⟨mn, mo⟩ := r
    rw [hd] at h
    simp only [Bool.and_eq_true, Bool.not_eq_true'] at h
    refine ⟨mn, mo, hd, h.1, ?_⟩
    rintro rfl
    exact Bool.noConfusion h.2

/-- The highest address: `2 ** ADDR_WIDTH - 1` (`max_address` of `do_disassemble`). -/
def topAddr (d : Dev) : Int := 2 ^ (2 * d.W) - 1

theorem topAddr_succ (d : Dev) : topAddr d + 1 = AM d.W := by simp [topAddr, AM]

/-- The GENERATED `Disassembler.instruction_at` of the device class, parser `P`, over the memory `m`. -/
def iat (d : Dev) (P : Parser) (m : Int → Int) : Int → Except PyErr (Int × Str) :=
  (disOf (asmDev d) P m).instruction_at

/-- `disassemble start:end` over the memory `m` lists exactly `vs = [(address, length, text), ...]`
(the walk of `do_disassemble`, `Model.Show.Visits`, with the generated `instruction_at`). -/
def Listing (d : Dev) (P : Parser) (m : Int → Int) (start end_ : Int) (vs : List (Int × Int × Str)) : Prop :=
  Visits (iat d P m) (topAddr d) start end_ start (decide (start > end_)) vs

/-- `Listing` from the computed walk. -/
theorem listing_of_check {d : Dev} {P : Parser} {m : Int → Int} {start end_ : Int} {vs : List (Int × Int × Str)}
    (fuel : Nat)
    (h : visitList (iat d P m) (topAddr d) start end_ fuel start (decide (start > end_)) = some vs) :
    Listing d P m start end_ vs := visitList_sound _ _ _ _ fuel _ _ _ h

/-- A well-formed generated device that is executing instructions (not halted by WAI). -/
def Running (d : Dev) (s : St) : Prop := Inv d s ∧ s.waiting = false

theorem Running.pc_range {d : Dev} {s : St} (h : Running d s) : 0 ≤ s.pc ∧ s.pc ≤ topAddr d := by
  have := h.1.1.pc
  rw [addrMask_eq] at this
  exact this

/-- One listed straight-line instruction whose opcode cell still holds what the listing saw: a step from
its address ends at address + listed length (modulo the address space), still running. -/
theorem at_listed (d : Dev) (P : Parser) (m0 : Int → Int) (a len : Int) (text : Str) (s : St)
    (hr : Running d s) (hpc : s.pc = a) (hi : iat d P m0 a = .ok (len, text))
    (hst : Straight d (m0 a)) (hfx : s.mem a = m0 a) :
    1 ≤ len ∧ len ≤ 3 ∧ (d.step s).pc = (a + len) % (topAddr d + 1) ∧ Running d (d.step s) := by
  obtain ⟨mn, mo, hdec, hnc, hnw⟩ := hst
  have hrange := hr.pc_range
  rw [hpc] at hrange
  have hlen : len = mo.len :=
    listed_len (isDevice d) P m0 a hrange.1 (by have := hrange.2; simp only [topAddr] at this; omega) hi hdec
  have hdec' : decode d.variant (s.mem s.pc) = some (mn, mo) := by rw [hpc, hfx]; exact hdec
  obtain ⟨h1, h2⟩ := step_straight d s hr.1 hr.2 mn mo hdec' hnc
  have hop := decode_range hdec'
  refine ⟨by rw [hlen]; exact (len_range mo).1, by rw [hlen]; exact (len_range mo).2, ?_, ?_, h2 hnw⟩
  · rw [h1, hpc, hlen, topAddr_succ]
  · exact apply_inv d .step s hr.1 (fun _ => hop.2)

/-- The listed addresses of a listing of straight-line instructions that starts inside the address space lie
in the range `start:end` (`InRange`: `start … end`, or `start … top, 0 … end` for a wrapping range). -/
theorem listing_in_range (d : Dev) (P : Parser) (m : Int → Int) (start end_ : Int) (vs : List (Int × Int × Str))
    (h0 : 0 ≤ start) (h1 : start ≤ topAddr d) (he : end_ ≤ topAddr d) (hv : Listing d P m start end_ vs)
    (hst : ∀ v ∈ vs, Straight d (m v.1)) : ∀ v ∈ vs, InRange start end_ v.1 := by
  have hnn := Py65.Proofs.Show.visits_nonneg (iat d P m) (topAddr d) start end_ vs start _ h0 hv
  have hle := Py65.Proofs.Show.visits_le (iat d P m) (topAddr d) start end_ he vs start _
    (fun hw => ⟨hw, h1⟩) hv
  have hlen : ∀ v ∈ vs, v.2.1 ≤ topAddr d + 1 := by
    intro v hvm
    obtain ⟨mn, mo, hdec, _, _⟩ := hst v hvm
    have hi := visits_mem _ _ _ _ vs _ _ hv v hvm
    have := listed_len (isDevice d) P m v.1 (hnn v hvm).1
      (by have := hle v hvm; simp only [topAddr] at this; omega) hi hdec
    rw [this]
    have h3 := (len_range mo).2
    have : (3 : Int) ≤ topAddr d + 1 := by
      rw [topAddr_succ]; rcases d.hW with h | h <;> (rw [h]; simp only [AM]; omega)
    omega
  exact visits_in_range (iat d P m) (topAddr d) start end_ he vs start _ hv h0 h1 (fun h => by simp [h])
    (fun _ => Int.le_refl _) (fun _ => Int.le_refl _) hlen

/-- **Core induction.**  The listing of `start:end` over the memory of `s0`, the device at `pc = start`;
every listed instruction except possibly the LAST is straight-line, and when the device gets to it its
opcode cell still holds the listed opcode.  Then the `k`-th listed address is the PC after `k` steps
(and the device is well-formed and running there), for every `k` below the number of listed instructions. -/
theorem follow_core (d : Dev) (P : Parser) (s0 : St) (start end_ : Int) (vs : List (Int × Int × Str))
    (hr : Running d s0) (hpc : s0.pc = start) (he : end_ ≤ topAddr d)
    (hv : Listing d P s0.mem start end_ vs)
    (hst : ∀ k (hk : k + 1 < vs.length), Straight d (s0.mem (vs[k]).1))
    (hfx : ∀ k (hk : k + 1 < vs.length), (d.step^[k] s0).mem (vs[k]).1 = s0.mem (vs[k]).1) :
    ∀ k (hk : k < vs.length), (d.step^[k] s0).pc = (vs[k]).1 ∧ Running d (d.step^[k] s0) := by
  have hrange := hr.pc_range
  rw [hpc] at hrange
  refine visits_follow (iat d P s0.mem) (topAddr d) start end_ he d.step St.pc (Running d) vs start _ s0 hv
    hrange.1 hrange.2 (fun h => by simp [h]) hpc hr ?_
  intro k hk hp hg
  have hmem : vs[k] ∈ vs := List.getElem_mem _
  have hi := visits_mem _ _ _ _ vs _ _ hv _ hmem
  obtain ⟨l1, l2, l3, l4⟩ := at_listed d P s0.mem _ _ _ _ hg hp hi (hst k hk) (hfx k hk)
  rw [Function.iterate_succ_apply']
  refine ⟨l1, ?_, l3, l4⟩
  have : (3 : Int) ≤ topAddr d + 1 := by
    rw [topAddr_succ]; rcases d.hW with h | h <;> (rw [h]; simp only [AM]; omega)
  omega

end Py65.Proofs.Compose2
