import Py65.Proofs.AccOps
set_option linter.unusedSimpArgs false
namespace Py65.Proofs
open Py65 Py65.Gen Py65.Spec Py

set_option hygiene false in
/-- unfold a whole handler down to record updates and push `acl` through -/
macro "inst_acl" "[" ls:Lean.Parser.Tactic.simpLemma,* "]" : tactic =>
  `(tactic| (
    dsimp +instances only [$ls,*, Mpu6502.FlagsNZ, Mpu6502.ByteAt, Mpu6502.WordAt, Mpu6502.WrapAt,
      Mpu6502.stPush, Mpu6502.stPushWord, Mpu6502.stPop, Mpu6502.stPopWord, Mpu6502.opSET, Mpu6502.opCLR,
      Mpu6502.ImmediateByte, Mpu6502.BranchRelAddr, memGet, memSet, acl]
    try simp +instances only [apply_ite Prod.snd, apply_ite Prod.fst, apply_ite St.log, ite_self,
      List.map_cons, accOf]))

/-! ### implied / accumulator instructions: nothing but the opcode fetch -/
section
variable (c : Cfg) (v : Variant)
theorem a_18 : HandlerAcc c v (Mpu6502.inst_0x18 c) .CLC .imp := none_acc c v _ _ _ (by intro s; inst_acl [Mpu6502.inst_0x18]) (fun _ => rfl)
theorem a_38 : HandlerAcc c v (Mpu6502.inst_0x38 c) .SEC .imp := none_acc c v _ _ _ (by intro s; inst_acl [Mpu6502.inst_0x38]) (fun _ => rfl)
theorem a_58 : HandlerAcc c v (Mpu6502.inst_0x58 c) .CLI .imp := none_acc c v _ _ _ (by intro s; inst_acl [Mpu6502.inst_0x58]) (fun _ => rfl)
theorem a_78 : HandlerAcc c v (Mpu6502.inst_0x78 c) .SEI .imp := none_acc c v _ _ _ (by intro s; inst_acl [Mpu6502.inst_0x78]) (fun _ => rfl)
theorem a_b8 : HandlerAcc c v (Mpu6502.inst_0xb8 c) .CLV .imp := none_acc c v _ _ _ (by intro s; inst_acl [Mpu6502.inst_0xb8]) (fun _ => rfl)
theorem a_d8 : HandlerAcc c v (Mpu6502.inst_0xd8 c) .CLD .imp := none_acc c v _ _ _ (by intro s; inst_acl [Mpu6502.inst_0xd8]) (fun _ => rfl)
theorem a_f8 : HandlerAcc c v (Mpu6502.inst_0xf8 c) .SED .imp := none_acc c v _ _ _ (by intro s; inst_acl [Mpu6502.inst_0xf8]) (fun _ => rfl)
theorem a_aa : HandlerAcc c v (Mpu6502.inst_0xaa c) .TAX .imp := none_acc c v _ _ _ (by intro s; inst_acl [Mpu6502.inst_0xaa]) (fun _ => rfl)
theorem a_a8 : HandlerAcc c v (Mpu6502.inst_0xa8 c) .TAY .imp := none_acc c v _ _ _ (by intro s; inst_acl [Mpu6502.inst_0xa8]) (fun _ => rfl)
theorem a_8a : HandlerAcc c v (Mpu6502.inst_0x8a c) .TXA .imp := none_acc c v _ _ _ (by intro s; inst_acl [Mpu6502.inst_0x8a]) (fun _ => rfl)
theorem a_98 : HandlerAcc c v (Mpu6502.inst_0x98 c) .TYA .imp := none_acc c v _ _ _ (by intro s; inst_acl [Mpu6502.inst_0x98]) (fun _ => rfl)
theorem a_ba : HandlerAcc c v (Mpu6502.inst_0xba c) .TSX .imp := none_acc c v _ _ _ (by intro s; inst_acl [Mpu6502.inst_0xba]) (fun _ => rfl)
theorem a_9a : HandlerAcc c v (Mpu6502.inst_0x9a c) .TXS .imp := none_acc c v _ _ _ (by intro s; inst_acl [Mpu6502.inst_0x9a]) (fun _ => rfl)
theorem a_e8 : HandlerAcc c v (Mpu6502.inst_0xe8 c) .INX .imp := none_acc c v _ _ _ (by intro s; inst_acl [Mpu6502.inst_0xe8]) (fun _ => rfl)
theorem a_c8 : HandlerAcc c v (Mpu6502.inst_0xc8 c) .INY .imp := none_acc c v _ _ _ (by intro s; inst_acl [Mpu6502.inst_0xc8]) (fun _ => rfl)
theorem a_ca : HandlerAcc c v (Mpu6502.inst_0xca c) .DEX .imp := none_acc c v _ _ _ (by intro s; inst_acl [Mpu6502.inst_0xca]) (fun _ => rfl)
theorem a_88 : HandlerAcc c v (Mpu6502.inst_0x88 c) .DEY .imp := none_acc c v _ _ _ (by intro s; inst_acl [Mpu6502.inst_0x88]) (fun _ => rfl)
theorem a_ea : HandlerAcc c v (Mpu6502.inst_0xea c) .NOP .imp := none_acc c v _ _ _ (fun _ => rfl) (fun _ => rfl)
theorem a_0a : HandlerAcc c v (Mpu6502.inst_0x0a c) .ASL .acc := none_acc c v _ _ _ (opASL_acc_acl c) (fun _ => rfl)
theorem a_4a : HandlerAcc c v (Mpu6502.inst_0x4a c) .LSR .acc := none_acc c v _ _ _ (opLSR_acc_acl c) (fun _ => rfl)
theorem a_2a : HandlerAcc c v (Mpu6502.inst_0x2a c) .ROL .acc := none_acc c v _ _ _ (opROL_acc_acl c) (fun _ => rfl)
theorem a_6a : HandlerAcc c v (Mpu6502.inst_0x6a c) .ROR .acc := none_acc c v _ _ _ (opROR_acc_acl c) (fun _ => rfl)
end

/-! ### branches: the displacement is fetched only when the branch is taken -/

theorem branch_acc (c : Cfg) (v : Variant) (f : St → St) (mn : Mn) (taken : Int → Bool)
    (hf : ∀ s, f s = if taken s.p then Mpu6502.BranchRelAddr c s else { s with pc := s.pc + 1 })
    (hcond : ∀ p, branchCond c.BYTE_WIDTH mn p = taken p)
    (hdata : ∀ s, dataAccesses c.BYTE_WIDTH v mn .rel s = []) :
    HandlerAcc c v f mn .rel := by
  intro s _
  refine ⟨if taken s.p then [Acc.r s.pc] else [], ?_, ?_⟩
  · rw [hf]
    cases h : taken s.p
    · simp [acl]
    · simp only [if_true]
      inst_acl [Mpu6502.BranchRelAddr]
      simp
  · simp only [instrAccesses, fetched, hcond, hdata, core, List.append_nil]
    cases h : taken s.p <;> simp

theorem opBCL_acc (c : Cfg) (v : Variant) (x : Int) (k : Nat) (mn : Mn)
    (hx : ∀ p : Int, (land p x ≠ 0) = (flag p k = true))
    (hcond : ∀ p, branchCond c.BYTE_WIDTH mn p = !flag p k)
    (hdata : ∀ s, dataAccesses c.BYTE_WIDTH v mn .rel s = []) :
    HandlerAcc c v (Mpu6502.opBCL c x) mn .rel := by
  apply branch_acc c v _ mn (fun p => !flag p k) _ hcond hdata
  intro s
  simp only [Mpu6502.opBCL, hx]
  cases h : flag s.p k <;> simp

theorem opBST_acc (c : Cfg) (v : Variant) (x : Int) (k : Nat) (mn : Mn)
    (hx : ∀ p : Int, (land p x ≠ 0) = (flag p k = true))
    (hcond : ∀ p, branchCond c.BYTE_WIDTH mn p = flag p k)
    (hdata : ∀ s, dataAccesses c.BYTE_WIDTH v mn .rel s = []) :
    HandlerAcc c v (Mpu6502.opBST c x) mn .rel := by
  apply branch_acc c v _ mn (fun p => flag p k) _ hcond hdata
  intro s
  simp only [Mpu6502.opBST, hx]

theorem a_10 (c : Cfg) (hc : IsDev c) (v : Variant) : HandlerAcc c v (Mpu6502.inst_0x10 c) .BPL .rel := by
  rcases hc with rfl | rfl
  · exact opBCL_acc _ v _ 7 .BPL (fun p => (land_test p).2.2.2.1) (fun p => rfl) (fun _ => rfl)
  · exact opBCL_acc _ v _ 15 .BPL (fun p => (land_test p).2.2.2.2.2) (fun p => rfl) (fun _ => rfl)
theorem a_30 (c : Cfg) (hc : IsDev c) (v : Variant) : HandlerAcc c v (Mpu6502.inst_0x30 c) .BMI .rel := by
  rcases hc with rfl | rfl
  · exact opBST_acc _ v _ 7 .BMI (fun p => (land_test p).2.2.2.1) (fun p => rfl) (fun _ => rfl)
  · exact opBST_acc _ v _ 15 .BMI (fun p => (land_test p).2.2.2.2.2) (fun p => rfl) (fun _ => rfl)
theorem a_50 (c : Cfg) (hc : IsDev c) (v : Variant) : HandlerAcc c v (Mpu6502.inst_0x50 c) .BVC .rel := by
  rcases hc with rfl | rfl
  · exact opBCL_acc _ v _ 6 .BVC (fun p => (land_test p).2.2.1) (fun p => rfl) (fun _ => rfl)
  · exact opBCL_acc _ v _ 14 .BVC (fun p => (land_test p).2.2.2.2.1) (fun p => rfl) (fun _ => rfl)
theorem a_70 (c : Cfg) (hc : IsDev c) (v : Variant) : HandlerAcc c v (Mpu6502.inst_0x70 c) .BVS .rel := by
  rcases hc with rfl | rfl
  · exact opBST_acc _ v _ 6 .BVS (fun p => (land_test p).2.2.1) (fun p => rfl) (fun _ => rfl)
  · exact opBST_acc _ v _ 14 .BVS (fun p => (land_test p).2.2.2.2.1) (fun p => rfl) (fun _ => rfl)
theorem a_90 (c : Cfg) (hc : IsDev c) (v : Variant) : HandlerAcc c v (Mpu6502.inst_0x90 c) .BCC .rel := by
  rcases hc with rfl | rfl
  · exact opBCL_acc _ v _ 0 .BCC (fun p => (land_test p).1) (fun p => rfl) (fun _ => rfl)
  · exact opBCL_acc _ v _ 0 .BCC (fun p => (land_test p).1) (fun p => rfl) (fun _ => rfl)
theorem a_b0 (c : Cfg) (hc : IsDev c) (v : Variant) : HandlerAcc c v (Mpu6502.inst_0xb0 c) .BCS .rel := by
  rcases hc with rfl | rfl
  · exact opBST_acc _ v _ 0 .BCS (fun p => (land_test p).1) (fun p => rfl) (fun _ => rfl)
  · exact opBST_acc _ v _ 0 .BCS (fun p => (land_test p).1) (fun p => rfl) (fun _ => rfl)
theorem a_d0 (c : Cfg) (hc : IsDev c) (v : Variant) : HandlerAcc c v (Mpu6502.inst_0xd0 c) .BNE .rel := by
  rcases hc with rfl | rfl
  · exact opBCL_acc _ v _ 1 .BNE (fun p => (land_test p).2.1) (fun p => rfl) (fun _ => rfl)
  · exact opBCL_acc _ v _ 1 .BNE (fun p => (land_test p).2.1) (fun p => rfl) (fun _ => rfl)
theorem a_f0 (c : Cfg) (hc : IsDev c) (v : Variant) : HandlerAcc c v (Mpu6502.inst_0xf0 c) .BEQ .rel := by
  rcases hc with rfl | rfl
  · exact opBST_acc _ v _ 1 .BEQ (fun p => (land_test p).2.1) (fun p => rfl) (fun _ => rfl)
  · exact opBST_acc _ v _ 1 .BEQ (fun p => (land_test p).2.1) (fun p => rfl) (fun _ => rfl)

end Py65.Proofs
