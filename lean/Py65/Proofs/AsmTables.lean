/-
The three device records of `Model.Asm` satisfy `DevOK`: their GENERATED tables (live
`disassemble` class attributes), widths and formats are the documented ones.  Evaluation by the
kernel (`decide +kernel`); a change of a device table, width or format makes this file fail, and with
it every theorem of C07 / C08 / C09.
-/
import Py65.Proofs.AsmText

namespace Py65.Proofs.Asm
open Py65.Model Py65.Model.PyStr Py65.Model.Asm
open Py65.Spec (Mode Mn Variant decode)
open Py65.Spec.Asm (opcodeOf mnText)

theorem table6502 : dev6502.table = specRows .nmos := by decide +kernel
theorem table65c02 : dev65c02.table = specRows .cmos := by decide +kernel
theorem table65org16 : dev65org16.table = specRows .nmos := by decide +kernel

theorem ok6502 : DevOK dev6502 .nmos 8 :=
  ⟨table6502, rfl, rfl, fun _ => rfl, fun _ => rfl, Or.inl rfl⟩
theorem ok65c02 : DevOK dev65c02 .cmos 8 :=
  ⟨table65c02, rfl, rfl, fun _ => rfl, fun _ => rfl, Or.inl rfl⟩
theorem ok65org16 : DevOK dev65org16 .nmos 16 :=
  ⟨table65org16, rfl, rfl, fun _ => rfl, fun _ => rfl, Or.inr rfl⟩

def isMnemB : Str → Bool
  | [a, b, c] => isAz a && isAz b && isAz c
  | [a, b, c, e] => isAz a && isAz b && isAz c && isOct e
  | _ => false

theorem isMnemB_sound {M : Str} (h : isMnemB M = true) : IsMnem M := by
  rcases M with _ | ⟨a, _ | ⟨b, _ | ⟨c, _ | ⟨e, _ | ⟨f, r⟩⟩⟩⟩⟩ <;> simp [isMnemB] at h
  · exact ⟨a, b, c, [], rfl, h.1.1, h.1.2, h.2, Or.inl rfl⟩
  · exact ⟨a, b, c, [e], rfl, h.1.1.1, h.1.1.2, h.1.2, Or.inr ⟨e, rfl, h.2⟩⟩

/-- The facts about one row of the documented table that the round trip needs. -/
def rowFacts (v : Variant) (n : Nat) : Bool :=
  match decode v (n : Int) with
  | none => true
  | some (mn, mo) =>
    decide (opcodeOf v (mnText mn) mo = some n) &&
    isMnemB (mnText mn) && decide (upperS (mnText mn) = mnText mn) &&
    (mo != .rel || (decide (opcodeOf v (mnText mn) .zpg = none) && decide (opcodeOf v (mnText mn) .abs = none))) &&
    (mo != .ind || decide (opcodeOf v (mnText mn) .zpi = none)) &&
    (mo != .iax || decide (opcodeOf v (mnText mn) .inx = none))

theorem rowFacts_nmos : (List.range 256).all (rowFacts .nmos) = true := by decide +kernel
theorem rowFacts_cmos : (List.range 256).all (rowFacts .cmos) = true := by decide +kernel


/-- The three devices with their variant and byte width. -/
inductive IsDevice : Dev → Py65.Spec.Variant → Nat → Prop
  | d6502 : IsDevice dev6502 .nmos 8
  | d65c02 : IsDevice dev65c02 .cmos 8
  | d65org16 : IsDevice dev65org16 .nmos 16

theorem IsDevice.ok {d : Dev} {v : Py65.Spec.Variant} {W : Nat} (h : IsDevice d v W) : DevOK d v W := by
  cases h
  · exact ok6502
  · exact ok65c02
  · exact ok65org16

end Py65.Proofs.Asm
