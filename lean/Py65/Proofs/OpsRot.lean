import Py65.Proofs.Ops4
set_option linter.unusedSimpArgs false
namespace Py65.Proofs
open Py65 Py65.Gen Py65.Spec Py

theorem land1_zero (p : Int) : (land p 1 = 0) = (flag p 0 = false) := by
  have := (land_test p).1
  simp only [ne_eq] at this
  by_cases h : land p 1 = 0 <;> simp_all
theorem land128_zero (p : Int) : (land p 128 = 0) = (flag p 7 = false) := by
  have := (land_test p).2.2.2.1
  simp only [ne_eq] at this
  by_cases h : land p 128 = 0 <;> simp_all
theorem land32768_zero (p : Int) : (land p 32768 = 0) = (flag p 15 = false) := by
  have := (land_test p).2.2.2.2.2
  simp only [ne_eq] at this
  by_cases h : land p 32768 = 0 <;> simp_all

set_option hygiene false in
macro "rot_close" : tactic =>
  `(tactic| (
      try simp only [flagalg, h1, h2]
      try simp only [pyarith, Int.reducePow, Int.reduceMul]
      split_ifs <;> (try simp [core, flagalg, *])
      all_goals (try (refine ⟨by omega, ?_⟩))
      all_goals (try (refine ⟨?_, ?_⟩))
      all_goals (try (funext k; split <;> first | rfl | omega))
      all_goals (try flag_close)))

theorem opROL_acc_core (c : Cfg) (hc : IsDev c) (s : St) (hs : WF c s) :
    core (Mpu6502.opROL_acc c s) =
      { core s with a := rmwV c.BYTE_WIDTH .ROL s.a (flag s.p bitC),
                    p := rmwP c.BYTE_WIDTH .ROL s.p s.a (flag s.p bitC) } := by
  have ha := hs.a
  have hp := hs.p
  by_cases h1 : land s.p c.CARRY = 0 <;> by_cases h2 : land s.a c.NEGATIVE = 0 <;>
  · simp +instances only [Mpu6502.opROL_acc, h1, h2, ne_eq, if_true, if_false, not_true_eq_false, not_false_eq_true, Mpu6502.FlagsNZ]
    generalize s.a = m at ha h2
    generalize s.p = p at hp h1
    rcases hc with rfl | rfl
    · constfold [rmwP, rmwV, rmw, setNZ] at ha hp h1 h2 ⊢
      rw [land1_zero] at h1; rw [land128_zero] at h2
      try simp only [Bool.not_eq_false] at h1
      try simp only [Bool.not_eq_false] at h2
      have hg : geB m 128 = flag m 7 := by bool_omega
      try simp only [bitC, hg, h1, h2, Bool.false_eq_true, if_true, if_false]
      rot_close
    · constfold [rmwP, rmwV, rmw, setNZ] at ha hp h1 h2 ⊢
      rw [land1_zero] at h1; rw [land32768_zero] at h2
      try simp only [Bool.not_eq_false] at h1
      try simp only [Bool.not_eq_false] at h2
      have hg : geB m 32768 = flag m 15 := by bool_omega
      try simp only [bitC, hg, h1, h2, Bool.false_eq_true, if_true, if_false]
      rot_close

theorem opROL_mem_core (c : Cfg) (hc : IsDev c) (x : St → Int × St) (mo : Mode) (hx : ModeSem c x mo)
    (s : St) (hs : WF c s) :
    core (Mpu6502.opROL_mem c x s) =
      { core s with
        p := rmwP c.BYTE_WIDTH .ROL s.p (s.mem (ea c.BYTE_WIDTH mo (core s))) (flag s.p bitC),
        mem := fun k => if k = ea c.BYTE_WIDTH mo (core s)
                 then rmwV c.BYTE_WIDTH .ROL (s.mem (ea c.BYTE_WIDTH mo (core s))) (flag s.p bitC)
                 else s.mem k } := by
  obtain ⟨hv, hcore⟩ := hx s hs
  obtain ⟨ha', hxx, hy, hsp, hp', hpc, hmem, hw⟩ := core_fields hcore
  have ha := hs.mem (ea c.BYTE_WIDTH mo (core s))
  have hp := hs.p
  generalize ea c.BYTE_WIDTH mo (core s) = e at hv ha
  by_cases h1 : land s.p c.CARRY = 0 <;> by_cases h2 : land (s.mem e) c.NEGATIVE = 0 <;>
  · simp +instances only [Mpu6502.opROL_mem, Mpu6502.FlagsNZ, ByteAt_val, ByteAt_p, ByteAt_a, ByteAt_mem, hp', ha', hmem, hv,
      memSet, h1, h2, ne_eq, if_true, if_false, not_true_eq_false, not_false_eq_true]
    generalize s.mem e = m at ha h2
    generalize s.p = p at hp h1
    rcases hc with rfl | rfl
    · constfold [rmwP, rmwV, rmw, setNZ] at ha hp h1 h2 ⊢
      rw [land1_zero] at h1; rw [land128_zero] at h2
      try simp only [Bool.not_eq_false] at h1
      try simp only [Bool.not_eq_false] at h2
      have hg : geB m 128 = flag m 7 := by bool_omega
      try simp only [bitC, hg, h1, h2, Bool.false_eq_true, if_true, if_false]
      rot_close
    · constfold [rmwP, rmwV, rmw, setNZ] at ha hp h1 h2 ⊢
      rw [land1_zero] at h1; rw [land32768_zero] at h2
      try simp only [Bool.not_eq_false] at h1
      try simp only [Bool.not_eq_false] at h2
      have hg : geB m 32768 = flag m 15 := by bool_omega
      try simp only [bitC, hg, h1, h2, Bool.false_eq_true, if_true, if_false]
      rot_close

theorem opROR_acc_core (c : Cfg) (hc : IsDev c) (s : St) (hs : WF c s) :
    core (Mpu6502.opROR_acc c s) =
      { core s with a := rmwV c.BYTE_WIDTH .ROR s.a (flag s.p bitC),
                    p := rmwP c.BYTE_WIDTH .ROR s.p s.a (flag s.p bitC) } := by
  have ha := hs.a
  have hp := hs.p
  by_cases h1 : land s.p c.CARRY = 0 <;> by_cases h2 : land s.a 1 = 0 <;>
  · simp +instances only [Mpu6502.opROR_acc, h1, h2, ne_eq, if_true, if_false, not_true_eq_false, not_false_eq_true, Mpu6502.FlagsNZ]
    generalize s.a = m at ha h2
    generalize s.p = p at hp h1
    have hl : eqB (m % 2) 1 = flag m 0 := by simp [flag]
    rcases hc with rfl | rfl <;>
    · constfold [rmwP, rmwV, rmw, setNZ] at ha hp h1 h2 ⊢
      rw [land1_zero] at h1 h2
      try simp only [Bool.not_eq_false] at h1
      try simp only [Bool.not_eq_false] at h2
      try simp only [bitC, hl, h1, h2, Bool.false_eq_true, if_true, if_false]
      rot_close

theorem opROR_mem_core (c : Cfg) (hc : IsDev c) (x : St → Int × St) (mo : Mode) (hx : ModeSem c x mo)
    (s : St) (hs : WF c s) :
    core (Mpu6502.opROR_mem c x s) =
      { core s with
        p := rmwP c.BYTE_WIDTH .ROR s.p (s.mem (ea c.BYTE_WIDTH mo (core s))) (flag s.p bitC),
        mem := fun k => if k = ea c.BYTE_WIDTH mo (core s)
                 then rmwV c.BYTE_WIDTH .ROR (s.mem (ea c.BYTE_WIDTH mo (core s))) (flag s.p bitC)
                 else s.mem k } := by
  obtain ⟨hv, hcore⟩ := hx s hs
  obtain ⟨ha', hxx, hy, hsp, hp', hpc, hmem, hw⟩ := core_fields hcore
  have ha := hs.mem (ea c.BYTE_WIDTH mo (core s))
  have hp := hs.p
  generalize ea c.BYTE_WIDTH mo (core s) = e at hv ha
  by_cases h1 : land s.p c.CARRY = 0 <;> by_cases h2 : land (s.mem e) 1 = 0 <;>
  · simp +instances only [Mpu6502.opROR_mem, Mpu6502.FlagsNZ, ByteAt_val, ByteAt_p, ByteAt_a, ByteAt_mem, hp', ha', hmem, hv,
      memSet, h1, h2, ne_eq, if_true, if_false, not_true_eq_false, not_false_eq_true]
    generalize s.mem e = m at ha h2
    generalize s.p = p at hp h1
    have hl : eqB (m % 2) 1 = flag m 0 := by simp [flag]
    rcases hc with rfl | rfl <;>
    · constfold [rmwP, rmwV, rmw, setNZ] at ha hp h1 h2 ⊢
      rw [land1_zero] at h1 h2
      try simp only [Bool.not_eq_false] at h1
      try simp only [Bool.not_eq_false] at h2
      try simp only [bitC, hl, h1, h2, Bool.false_eq_true, if_true, if_false]
      rot_close
end Py65.Proofs
