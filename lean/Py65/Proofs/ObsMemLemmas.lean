/-
Helper lemmas for C10 / C11 / C18 about the `ObservableMemory` model (`Py65/Model/ObsMem.lean`)
and its Spec (`Py65/Spec/ObsMem.lean`).  Property statements live in `Py65/Props/C10.lean`,
`Py65/Props/C11.lean`.
-/
import Py65.Spec.ObsMem
import Py65.Proofs.PyIntLemmas
import Mathlib.Data.List.Nodup
import Mathlib.Tactic.Linarith
import Mathlib.Tactic.SplitIfs

namespace Py65.Model.ObsMem
open Py65.Spec.ObsMem

/-! ### physical addresses -/

theorem land_physMask {m : OM} (h : WF m) (a : Int) : Py.land a m.physMask = phys m.physMask a := by
  unfold phys
  rcases h.1 with h1 | h1 <;> rw [h1]
  · have := Py.land_mask a 16; norm_num at this ⊢; exact this
  · have := Py.land_mask a 18; norm_num at this ⊢; exact this

theorem phys_nonneg {m : OM} (h : WF m) (a : Int) : 0 ≤ phys m.physMask a := by
  unfold phys
  rcases h.1 with h1 | h1 <;> rw [h1] <;> omega

theorem phys_le {m : OM} (h : WF m) (a : Int) : phys m.physMask a ≤ m.physMask := by
  unfold phys
  rcases h.1 with h1 | h1 <;> rw [h1] <;> omega

theorem phys_of_inRange {mask a : Int} (h0 : 0 ≤ a) (h1 : a ≤ mask) : phys mask a = a := by
  unfold phys
  exact Int.emod_eq_of_lt h0 (by omega)

theorem phys_phys {m : OM} (h : WF m) (a : Int) : phys m.physMask (phys m.physMask a) = phys m.physMask a :=
  phys_of_inRange (phys_nonneg h a) (phys_le h a)

theorem land_of_inRange {m : OM} (h : WF m) {a : Int} (h0 : 0 ≤ a) (h1 : a ≤ m.physMask) :
    Py.land a m.physMask = a := by
  rw [land_physMask h, phys_of_inRange h0 h1]

/-! ### the read loop -/

theorem readReplies_nil (reply : Reply) (n : Nat) (a : Int) : readReplies reply [] n a = [] := rfl

theorem readReplies_cons (reply : Reply) (cb : Nat) (rest : List Nat) (n : Nat) (a : Int) :
    readReplies reply (cb :: rest) n a = reply cb n a none :: readReplies reply rest (n + 1) a := by
  unfold readReplies
  rw [List.length_cons, List.range_succ_eq_map, List.map_cons, List.map_map]
  simp only [List.getD_cons_zero, Nat.add_zero, List.cons.injEq, true_and]
  apply List.map_congr_left
  intro i _
  simp only [Function.comp, List.getD_cons_succ]
  congr 1; omega

theorem readLoop_log (reply : Reply) (a : Int) (subs : List Nat) (fin : Option Int) (log : List Ev) :
    (readLoop reply a subs fin log).2 = log ++ subs.map (fun cb => { cb := cb, addr := a, val := none }) := by
  induction subs generalizing fin log with
  | nil => simp [readLoop]
  | cons cb rest ih => simp [readLoop, ih]

theorem readLoop_val (reply : Reply) (a : Int) (subs : List Nat) (fin : Option Int) (log : List Ev) :
    (readLoop reply a subs fin log).1 =
      match lastSome (readReplies reply subs log.length a) with
      | some v => some v
      | none => fin := by
  induction subs generalizing fin log with
  | nil => simp [readLoop, readReplies_nil, lastSome]
  | cons cb rest ih =>
    rw [readLoop, ih, readReplies_cons]
    simp only [List.length_append, List.length_cons, List.length_nil, Nat.zero_add, lastSome]
    cases lastSome (readReplies reply rest (log.length + 1) a) <;> cases reply cb log.length a none <;> rfl

theorem readLoop_quiet (reply : Reply) (a : Int) (subs : List Nat) (fin : Option Int) (log : List Ev)
    (hq : ∀ cb ∈ subs, ∀ i, reply cb i a none = none) :
    (readLoop reply a subs fin log).1 = fin := by
  induction subs generalizing fin log with
  | nil => rfl
  | cons cb rest ih =>
    rw [readLoop, ih _ _ (fun c hc => hq c (List.mem_cons_of_mem _ hc)),
      hq cb List.mem_cons_self]

/-! ### the write loop -/

theorem seen_cons (reply : Reply) (cb : Nat) (rest : List Nat) (n : Nat) (a v : Int) (i : Nat) :
    seen reply (cb :: rest) n a v (i + 1) =
      seen reply rest (n + 1) a (match reply cb n a (some v) with | some r => r | none => v) i := by
  induction i with
  | zero =>
    simp only [seen, List.getD_cons_zero, Nat.add_zero]
    cases reply cb n a (some v) <;> rfl
  | succ i ih =>
    rw [seen, ih]
    conv_rhs => rw [seen]
    simp only [List.getD_cons_succ]
    have : n + (i + 1) = n + 1 + i := by omega
    rw [this]

theorem writeLoop_eq (reply : Reply) (a : Int) (subs : List Nat) (v : Int) (log : List Ev) :
    writeLoop reply a subs v log =
      (seen reply subs log.length a v subs.length,
       log ++ (List.range subs.length).map fun i =>
         { cb := subs.getD i 0, addr := a, val := some (seen reply subs log.length a v i) }) := by
  induction subs generalizing v log with
  | nil => simp [writeLoop, seen]
  | cons cb rest ih =>
    rw [writeLoop, ih]
    simp only [List.length_append, List.length_cons, List.length_nil, Nat.zero_add]
    rw [List.range_succ_eq_map, List.map_cons, List.map_map, seen_cons]
    have h0 : seen reply (cb :: rest) log.length a v 0 = v := rfl
    simp only [h0, List.getD_cons_zero, List.append_assoc, List.cons_append, List.nil_append]
    congr 3
    apply List.map_congr_left
    intro i _
    simp only [Function.comp, Nat.succ_eq_add_one, seen_cons, List.getD_cons_succ]
    rfl

theorem writeLoop_quiet (reply : Reply) (a : Int) (subs : List Nat) (v : Int) (log : List Ev)
    (hq : ∀ cb ∈ subs, ∀ i x, reply cb i a x = none) :
    (writeLoop reply a subs v log).1 = v := by
  induction subs generalizing v log with
  | nil => rfl
  | cons cb rest ih =>
    rw [writeLoop, ih _ _ (fun c hc => hq c (List.mem_cons_of_mem _ hc)),
      hq cb List.mem_cons_self]

theorem writeLoop_quiet_log (reply : Reply) (a : Int) (subs : List Nat) (v : Int) (log : List Ev)
    (hq : ∀ cb ∈ subs, ∀ i x, reply cb i a x = none) :
    (writeLoop reply a subs v log).2 = log ++ subs.map (fun cb => { cb := cb, addr := a, val := some v }) := by
  induction subs generalizing v log with
  | nil => simp [writeLoop]
  | cons cb rest ih =>
    rw [writeLoop, hq cb List.mem_cons_self, ih _ _ (fun c hc => hq c (List.mem_cons_of_mem _ hc))]
    simp

/-! ### fields that item access leaves alone -/

@[simp] theorem get_physMask (reply : Reply) (m : OM) (a : Int) : (get reply m a).2.physMask = m.physMask := rfl
@[simp] theorem get_subject (reply : Reply) (m : OM) (a : Int) : (get reply m a).2.subject = m.subject := rfl
@[simp] theorem get_subjLen (reply : Reply) (m : OM) (a : Int) : (get reply m a).2.subjLen = m.subjLen := rfl
@[simp] theorem get_rsubs (reply : Reply) (m : OM) (a : Int) : (get reply m a).2.rsubs = m.rsubs := rfl
@[simp] theorem get_wsubs (reply : Reply) (m : OM) (a : Int) : (get reply m a).2.wsubs = m.wsubs := rfl
@[simp] theorem set_physMask (reply : Reply) (m : OM) (a v : Int) : (set reply m a v).physMask = m.physMask := rfl
@[simp] theorem set_subjLen (reply : Reply) (m : OM) (a v : Int) : (set reply m a v).subjLen = m.subjLen := rfl
@[simp] theorem set_rsubs (reply : Reply) (m : OM) (a v : Int) : (set reply m a v).rsubs = m.rsubs := rfl
@[simp] theorem set_wsubs (reply : Reply) (m : OM) (a v : Int) : (set reply m a v).wsubs = m.wsubs := rfl

theorem get_log (reply : Reply) (m : OM) (a : Int) :
    (get reply m a).2.log = m.log ++
      (m.rsubs.of (Py.land a m.physMask)).map (fun cb => { cb := cb, addr := Py.land a m.physMask, val := none }) := by
  simp [get, readLoop_log]

theorem get_val (reply : Reply) (m : OM) (a : Int) :
    (get reply m a).1 =
      (lastSome (readReplies reply (m.rsubs.of (Py.land a m.physMask)) m.log.length (Py.land a m.physMask))).getD
        (m.subject (Py.land a m.physMask)) := by
  simp only [get, readLoop_val]
  cases lastSome (readReplies reply (m.rsubs.of (Py.land a m.physMask)) m.log.length (Py.land a m.physMask)) <;> rfl

theorem set_log (reply : Reply) (m : OM) (a v : Int) :
    (set reply m a v).log = m.log ++
      (List.range (m.wsubs.of (Py.land a m.physMask)).length).map fun i =>
        { cb := (m.wsubs.of (Py.land a m.physMask)).getD i 0, addr := Py.land a m.physMask,
          val := some (seen reply (m.wsubs.of (Py.land a m.physMask)) m.log.length (Py.land a m.physMask) v i) } := by
  simp [set, writeLoop_eq]

theorem set_subject (reply : Reply) (m : OM) (a v : Int) :
    (set reply m a v).subject =
      upd m.subject (Py.land a m.physMask)
        (seen reply (m.wsubs.of (Py.land a m.physMask)) m.log.length (Py.land a m.physMask) v
          (m.wsubs.of (Py.land a m.physMask)).length) := by
  simp only [set, writeLoop_eq]
  rfl

/-! ### subscription -/

/-- "append unless present": what registering `cb` does to one callback list. -/
def addCb (l : List Nat) (cb : Nat) : List Nat := if cb ∈ l then l else l ++ [cb]

theorem subOne_of (mask : Int) (cb : Nat) (subs : Subs) (x a : Int) :
    (subOne mask cb subs x).of a = if a = Py.land x mask then addCb (subs.of a) cb else subs.of a := by
  unfold subOne addCb
  by_cases hm : cb ∈ subs.of (Py.land x mask)
  · simp only [hm, if_true]
    by_cases ha : a = Py.land x mask
    · subst ha; simp [hm]
    · simp [ha]
  · simp only [hm, if_false]
    by_cases ha : a = Py.land x mask
    · subst ha; simp [hm]
    · simp [ha]

theorem addCb_addCb (l : List Nat) (cb : Nat) : addCb (addCb l cb) cb = addCb l cb := by
  unfold addCb
  by_cases h : cb ∈ l <;> simp [h]

theorem mem_addCb (l : List Nat) (cb : Nat) : cb ∈ addCb l cb := by
  unfold addCb
  by_cases h : cb ∈ l <;> simp [h]

theorem foldl_subOne_of (mask : Int) (cb : Nat) (addrs : List Int) (subs : Subs) (a : Int) :
    (addrs.foldl (subOne mask cb) subs).of a =
      if a ∈ addrs.map (fun x => Py.land x mask) then addCb (subs.of a) cb else subs.of a := by
  induction addrs generalizing subs with
  | nil => simp
  | cons x xs ih =>
    rw [List.foldl_cons, ih, subOne_of]
    by_cases ha : a = Py.land x mask <;> by_cases hx : a ∈ xs.map (fun x => Py.land x mask) <;>
      simp [ha, hx, addCb_addCb]

/-- Subscribing where `cb` already is leaves the dictionary untouched (as an object). -/
theorem foldl_subOne_same (mask : Int) (cb : Nat) (addrs : List Int) (subs : Subs)
    (h : ∀ x ∈ addrs, cb ∈ subs.of (Py.land x mask)) :
    addrs.foldl (subOne mask cb) subs = subs := by
  induction addrs with
  | nil => rfl
  | cons x xs ih =>
    rw [List.foldl_cons]
    have hx : subOne mask cb subs x = subs := by
      unfold subOne
      simp [h x List.mem_cons_self]
    rw [hx]
    exact ih (fun y hy => h y (List.mem_cons_of_mem _ hy))

/-! ### `keepFirst` -/

/-- The registration loop seen on one address: fold of "append unless present". -/
def extend (acc : List Nat) (l : List Nat) : List Nat := l.foldl addCb acc

theorem extend_eq (acc l : List Nat) :
    extend acc l = acc ++ (keepFirst l).filter (fun y => decide (y ∉ acc)) := by
  induction l generalizing acc with
  | nil => simp [extend, keepFirst]
  | cons x xs ih =>
    unfold extend at ih ⊢
    rw [List.foldl_cons, ih, keepFirst]
    unfold addCb
    by_cases hx : x ∈ acc
    · simp only [hx, if_true, List.filter_cons, not_true_eq_false, decide_false, Bool.false_eq_true,
        if_false, List.filter_filter]
      congr 1
      apply List.filter_congr
      intro y _
      by_cases hy : y ∈ acc
      · simp [hy]
      · have : y ≠ x := fun e => hy (e ▸ hx)
        simp [hy, this]
    · simp only [hx, if_false, List.filter_cons, not_false_eq_true, decide_true, if_true,
        List.filter_filter, List.append_assoc, List.singleton_append]
      congr 2
      apply List.filter_congr
      intro y _
      by_cases hy : y ∈ acc
      · have : y ≠ x := fun e => hx (e ▸ hy)
        simp [hy, this]
      · by_cases hyx : y = x
        · simp [hyx, hx]
        · simp [hy, hyx]

theorem extend_nil (l : List Nat) : extend [] l = keepFirst l := by
  rw [extend_eq]; simp

theorem mem_keepFirst (l : List Nat) (x : Nat) : x ∈ keepFirst l ↔ x ∈ l := by
  induction l with
  | nil => simp [keepFirst]
  | cons y ys ih =>
    simp only [keepFirst, List.mem_cons, List.mem_filter, ih]
    by_cases h : x = y <;> simp [h]

theorem keepFirst_nodup (l : List Nat) : (keepFirst l).Nodup := by
  induction l with
  | nil => simp [keepFirst]
  | cons y ys ih =>
    rw [keepFirst, List.nodup_cons]
    refine ⟨by simp, ih.filter _⟩

theorem keepFirst_eq_nil (l : List Nat) : keepFirst l = [] ↔ l = [] := by
  cases l <;> simp [keepFirst]

/-- Registering again something already registered changes nothing. -/
theorem keepFirst_append_of_mem (l : List Nat) (x : Nat) (h : x ∈ l) : keepFirst (l ++ [x]) = keepFirst l := by
  have h1 := extend_eq [] (l ++ [x])
  unfold extend at h1
  rw [List.foldl_append] at h1
  have h2 := extend_eq [] l
  unfold extend at h2
  simp only [List.foldl_cons, List.foldl_nil, List.nil_append, List.not_mem_nil, not_false_eq_true,
    decide_true, List.filter_true] at h1 h2
  rw [← h1, h2]
  unfold addCb
  simp [(mem_keepFirst l x).2 h]

/-! ### one operation, one history -/

theorem getMany_fields (reply : Reply) (idx : List Int) (m : OM) :
    (getMany reply idx m).2.physMask = m.physMask ∧ (getMany reply idx m).2.subject = m.subject ∧
    (getMany reply idx m).2.subjLen = m.subjLen ∧ (getMany reply idx m).2.rsubs = m.rsubs ∧
    (getMany reply idx m).2.wsubs = m.wsubs := by
  induction idx generalizing m with
  | nil => simp [getMany]
  | cons n ns ih =>
    simp only [getMany]
    have := ih (get reply m n).2
    simpa using this

theorem setMany_fields (reply : Reply) (idx vals : List Int) (m : OM) :
    (setMany reply idx vals m).physMask = m.physMask ∧
    (setMany reply idx vals m).subjLen = m.subjLen ∧ (setMany reply idx vals m).rsubs = m.rsubs ∧
    (setMany reply idx vals m).wsubs = m.wsubs := by
  induction idx generalizing vals m with
  | nil => simp [setMany]
  | cons n ns ih =>
    cases vals with
    | nil => simp [setMany]
    | cons v vs =>
      simp only [setMany]
      have := ih vs (set reply m n v)
      simpa using this

theorem apply_physMask (reply : Reply) (m : OM) (op : Op) : (apply reply m op).2.physMask = m.physMask := by
  cases op with
  | subR addrs cb => rfl
  | subW addrs cb => rfl
  | get a => rfl
  | set a v => rfl
  | getSlice s e st =>
    simp only [apply, getSlice]
    cases sliceIndices (m.physMask + 1) s e st with
    | none => rfl
    | some idx => exact (getMany_fields reply idx m).1
  | setSlice s e st vs =>
    simp only [apply, setSlice]
    cases sliceIndices (m.physMask + 1) s e st with
    | none => rfl
    | some idx => exact (setMany_fields reply idx vs m).1
  | write s bs => rfl

theorem apply_subjLen_le (reply : Reply) (m : OM) (op : Op) : m.subjLen ≤ (apply reply m op).2.subjLen := by
  cases op with
  | subR addrs cb => exact Int.le_refl _
  | subW addrs cb => exact Int.le_refl _
  | get a => exact Int.le_refl _
  | set a v => exact Int.le_refl _
  | getSlice s e st =>
    simp only [apply, getSlice]
    cases sliceIndices (m.physMask + 1) s e st with
    | none => exact Int.le_refl _
    | some idx => exact Int.le_of_eq (getMany_fields reply idx m).2.2.1.symm
  | setSlice s e st vs =>
    simp only [apply, setSlice]
    cases sliceIndices (m.physMask + 1) s e st with
    | none => exact Int.le_refl _
    | some idx => exact Int.le_of_eq (setMany_fields reply idx vs m).2.1.symm
  | write s bs =>
    simp only [apply, write]
    split_ifs <;> omega

theorem apply_WF (reply : Reply) (m : OM) (op : Op) (h : WF m) : WF (apply reply m op).2 := by
  refine ⟨?_, ?_⟩
  · rw [apply_physMask]; exact h.1
  · rw [apply_physMask]; exact Int.le_trans h.2 (apply_subjLen_le reply m op)

theorem run_cons (reply : Reply) (m : OM) (op : Op) (rest : List Op) :
    run reply m (op :: rest) = run reply (apply reply m op).2 rest := rfl

theorem run_append (reply : Reply) (m : OM) (h1 h2 : List Op) :
    run reply m (h1 ++ h2) = run reply (run reply m h1) h2 := by
  unfold run; rw [List.foldl_append]

theorem run_physMask (reply : Reply) (m : OM) (hist : List Op) : (run reply m hist).physMask = m.physMask := by
  induction hist generalizing m with
  | nil => rfl
  | cons op rest ih => rw [run_cons, ih, apply_physMask]

theorem run_WF (reply : Reply) (m : OM) (hist : List Op) (h : WF m) : WF (run reply m hist) := by
  induction hist generalizing m with
  | nil => exact h
  | cons op rest ih => rw [run_cons]; exact ih _ (apply_WF reply m op h)

theorem init_WF (w : Int) (cells : Int → Int) : WF (init w cells) := by
  unfold WF init
  by_cases h : w > 16 <;> simp [h]

theorem mem_map_land_iff {m : OM} (h : WF m) (addrs : List Int) (a : Int) :
    a ∈ addrs.map (fun x => Py.land x m.physMask) ↔ a ∈ addrs.map (phys m.physMask) := by
  have : (fun x => Py.land x m.physMask) = phys m.physMask := funext (land_physMask h)
  rw [this]

/-- Effect of one operation on the read subscribers of an address, in Spec terms. -/
theorem apply_rsubs (reply : Reply) (m : OM) (op : Op) (h : WF m) (a : Int) :
    (apply reply m op).2.rsubs.of a =
      match registered .read m.physMask a op with
      | some cb => addCb (m.rsubs.of a) cb
      | none => m.rsubs.of a := by
  cases op with
  | subR addrs cb =>
    simp only [apply, subscribeRead, registered, foldl_subOne_of, mem_map_land_iff h, true_and]
    split_ifs <;> rfl
  | subW addrs cb => simp [apply, subscribeWrite, registered]
  | get a => rfl
  | set a v => rfl
  | getSlice s e st =>
    simp only [apply, getSlice, registered]
    cases sliceIndices (m.physMask + 1) s e st with
    | none => rfl
    | some idx => simp only [Option.map_some]; rw [(getMany_fields reply idx m).2.2.2.1]
  | setSlice s e st vs =>
    simp only [apply, setSlice, registered]
    cases sliceIndices (m.physMask + 1) s e st with
    | none => rfl
    | some idx => simp only [Option.map_some]; rw [(setMany_fields reply idx vs m).2.2.1]
  | write s bs => rfl

theorem apply_wsubs (reply : Reply) (m : OM) (op : Op) (h : WF m) (a : Int) :
    (apply reply m op).2.wsubs.of a =
      match registered .write m.physMask a op with
      | some cb => addCb (m.wsubs.of a) cb
      | none => m.wsubs.of a := by
  cases op with
  | subR addrs cb => simp [apply, subscribeRead, registered]
  | subW addrs cb =>
    simp only [apply, subscribeWrite, registered, foldl_subOne_of, mem_map_land_iff h, true_and]
    split_ifs <;> rfl
  | get a => rfl
  | set a v => rfl
  | getSlice s e st =>
    simp only [apply, getSlice, registered]
    cases sliceIndices (m.physMask + 1) s e st with
    | none => rfl
    | some idx => simp only [Option.map_some]; rw [(getMany_fields reply idx m).2.2.2.2]
  | setSlice s e st vs =>
    simp only [apply, setSlice, registered]
    cases sliceIndices (m.physMask + 1) s e st with
    | none => rfl
    | some idx => simp only [Option.map_some]; rw [(setMany_fields reply idx vs m).2.2.2]
  | write s bs => rfl

theorem run_rsubs (reply : Reply) (m : OM) (hist : List Op) (h : WF m) (a : Int) :
    (run reply m hist).rsubs.of a =
      extend (m.rsubs.of a) (hist.filterMap (registered .read m.physMask a)) := by
  induction hist generalizing m with
  | nil => rfl
  | cons op rest ih =>
    rw [run_cons, ih _ (apply_WF reply m op h), apply_physMask, apply_rsubs reply m op h, List.filterMap_cons]
    cases registered .read m.physMask a op <;> rfl

theorem run_wsubs (reply : Reply) (m : OM) (hist : List Op) (h : WF m) (a : Int) :
    (run reply m hist).wsubs.of a =
      extend (m.wsubs.of a) (hist.filterMap (registered .write m.physMask a)) := by
  induction hist generalizing m with
  | nil => rfl
  | cons op rest ih =>
    rw [run_cons, ih _ (apply_WF reply m op h), apply_physMask, apply_wsubs reply m op h, List.filterMap_cons]
    cases registered .write m.physMask a op <;> rfl

/-! ### slices -/

theorem getMany_foldl_aux (reply : Reply) (idx : List Int) (pre : List Int) (m : OM) :
    idx.foldl (fun (acc : List Int × OM) n => (acc.1 ++ [(get reply acc.2 n).1], (get reply acc.2 n).2)) (pre, m)
      = (pre ++ (getMany reply idx m).1, (getMany reply idx m).2) := by
  induction idx generalizing pre m with
  | nil => simp [getMany]
  | cons n ns ih => rw [List.foldl_cons, ih]; simp [getMany]

theorem getMany_eq_foldl (reply : Reply) (idx : List Int) (m : OM) :
    getMany reply idx m =
      idx.foldl (fun (acc : List Int × OM) n => (acc.1 ++ [(get reply acc.2 n).1], (get reply acc.2 n).2)) ([], m) := by
  rw [getMany_foldl_aux]; simp

theorem setMany_eq_foldl (reply : Reply) (idx vals : List Int) (m : OM) :
    setMany reply idx vals m = (idx.zip vals).foldl (fun m p => set reply m p.1 p.2) m := by
  induction idx generalizing vals m with
  | nil => simp [setMany]
  | cons n ns ih =>
    cases vals with
    | nil => simp [setMany]
    | cons v vs => simp [setMany, ih]

theorem getMany_length (reply : Reply) (idx : List Int) (m : OM) : (getMany reply idx m).1.length = idx.length := by
  induction idx generalizing m with
  | nil => rfl
  | cons n ns ih => simp [getMany, ih]

theorem clampBound_range (L lower upper x : Int) (h1 : lower ≤ 0) (h2 : lower ≤ upper) (h3 : L - 1 ≤ upper) :
    lower ≤ clampBound L lower upper x ∧ clampBound L lower upper x ≤ upper := by
  unfold clampBound
  split_ifs <;> omega

theorem sliceTriple_bounds (L : Int) (hL : 0 ≤ L) (s e st : Option Int) (t : Int × Int × Int)
    (h : sliceTriple L s e st = some t) :
    t.2.2 ≠ 0 ∧ (0 < t.2.2 → 0 ≤ t.1 ∧ t.2.1 ≤ L) ∧ (t.2.2 < 0 → t.1 ≤ L - 1 ∧ -1 ≤ t.2.1) := by
  unfold sliceTriple at h
  simp only at h
  by_cases h0 : st.getD 1 = 0
  · simp [h0] at h
  · simp only [h0, if_false] at h
    by_cases hneg : st.getD 1 < 0
    · simp only [hneg, if_true, Option.some.injEq] at h
      subst h
      dsimp only
      refine ⟨h0, fun hp => by omega, fun _ => ⟨?_, ?_⟩⟩
      · cases s with
        | none => exact Int.le_refl _
        | some x => exact (clampBound_range L (-1) (L - 1) x (by omega) (by omega) (by omega)).2
      · cases e with
        | none => exact Int.le_refl _
        | some x => exact (clampBound_range L (-1) (L - 1) x (by omega) (by omega) (by omega)).1
    · simp only [hneg, if_false, Option.some.injEq] at h
      subst h
      dsimp only
      refine ⟨h0, fun _ => ⟨?_, ?_⟩, fun hn => by omega⟩
      · cases s with
        | none => exact Int.le_refl _
        | some x => exact (clampBound_range L 0 L x (by omega) hL (by omega)).1
      · cases e with
        | none => exact Int.le_refl _
        | some x => exact (clampBound_range L 0 L x (by omega) hL (by omega)).2

theorem mem_pyRange (a b c i : Int) (h : i ∈ pyRange a b c) :
    (0 < c → a ≤ i ∧ i < b) ∧ (c < 0 → b < i ∧ i ≤ a) := by
  unfold pyRange at h
  simp only [List.mem_map, List.mem_range] at h
  obtain ⟨k, hk, rfl⟩ := h
  unfold rangeLen at hk
  constructor
  · intro hc
    simp only [gt_iff_lt, hc, if_true] at hk
    split_ifs at hk with hab
    · have hq : 0 ≤ (b - a - 1) / c := Int.ediv_nonneg (by omega) (by omega)
      have hk' : (k : Int) ≤ (b - a - 1) / c := by omega
      have h1 : (b - a - 1) / c * c ≤ b - a - 1 := Int.ediv_mul_le _ (by omega)
      have h2 : (k : Int) * c ≤ (b - a - 1) / c * c := Int.mul_le_mul_of_nonneg_right hk' (by omega)
      have h3 : 0 ≤ (k : Int) * c := Int.mul_nonneg (by omega) (by omega)
      constructor <;> omega
    · omega
  · intro hc
    have hc' : ¬ (0 < c) := by omega
    simp only [gt_iff_lt, hc', if_false] at hk
    split_ifs at hk with hab
    · have hq : 0 ≤ (a - b - 1) / (-c) := Int.ediv_nonneg (by omega) (by omega)
      have hk' : (k : Int) ≤ (a - b - 1) / (-c) := by omega
      have h1 : (a - b - 1) / (-c) * (-c) ≤ a - b - 1 := Int.ediv_mul_le _ (by omega)
      have h2 : (k : Int) * (-c) ≤ (a - b - 1) / (-c) * (-c) := Int.mul_le_mul_of_nonneg_right hk' (by omega)
      have h3 : 0 ≤ (k : Int) * (-c) := Int.mul_nonneg (by omega) (by omega)
      have h4 : (k : Int) * (-c) = -((k : Int) * c) := Int.mul_neg _ _
      constructor <;> omega
    · omega

/-- Every index a slice produces is a physical address. -/
theorem sliceIndices_inRange (L : Int) (hL : 0 ≤ L) (s e st : Option Int) (idx : List Int)
    (h : sliceIndices L s e st = some idx) : ∀ i ∈ idx, 0 ≤ i ∧ i < L := by
  unfold sliceIndices at h
  cases ht : sliceTriple L s e st with
  | none => rw [ht] at h; simp at h
  | some t =>
    rw [ht] at h
    simp only [Option.map_some, Option.some.injEq] at h
    subst h
    intro i hi
    obtain ⟨h0, hp, hn⟩ := sliceTriple_bounds L hL s e st t ht
    have hm := mem_pyRange _ _ _ _ hi
    rcases Int.lt_or_gt_of_ne h0 with hc | hc
    · have := hm.2 hc; have := hn hc; omega
    · have := hm.1 hc; have := hp hc; omega

theorem sliceIndices_none_iff (L : Int) (s e st : Option Int) :
    sliceIndices L s e st = none ↔ st = some 0 := by
  unfold sliceIndices sliceTriple
  cases st with
  | none => simp
  | some x =>
    by_cases hx : x = 0
    · simp [hx]
    · simp [hx]

/-- The everyday slice `mem[s:e]` with `0 ≤ s ≤ e ≤ length` is `s, s+1, …, e-1`. -/
theorem sliceIndices_contig (L s e : Int) (h0 : 0 ≤ s) (h1 : s ≤ e) (h2 : e ≤ L) :
    sliceIndices L (some s) (some e) none = some ((List.range (e - s).toNat).map fun (i : Nat) => s + (i : Int)) := by
  unfold sliceIndices sliceTriple clampBound pyRange rangeLen
  have hs : ¬ (s < 0) := by omega
  have he : ¬ (e < 0) := by omega
  have hs2 : ¬ (s > L) := by omega
  have he2 : ¬ (e > L) := by omega
  simp only [Option.getD_none, one_ne_zero, if_false, hs, he, hs2, he2, Option.map_some,
    gt_iff_lt, zero_lt_one, if_true, Int.ediv_one, mul_one, Option.some.injEq,
    show ¬ ((1 : Int) < 0) by omega]
  by_cases hse : s < e
  · simp only [hse, if_true]
    have : (e - s - 1 + 1).toNat = (e - s).toNat := by congr 1; omega
    rw [this]
  · have : e - s = 0 := by omega
    simp [hse, this]

end Py65.Model.ObsMem
