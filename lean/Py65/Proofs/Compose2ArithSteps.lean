/-
Dispatch of `Proofs/Compose2Arith.lean` over the ADC / SBC opcodes of the three generated devices (static
file written once from the case list of `Proofs/HistArithSteps.lean`; the proofs are checked by the
kernel): a `step()` at an ADC / SBC opcode, binary or decimal mode, ends with PC one instruction length
further on (modulo the address space) and with the memory it started with.
-/
import Py65.Proofs.Compose2Arith
import Py65.Gen.Tables

namespace Py65.Proofs.Compose2
open Py65 Py65.Gen Py65.Spec Py65.Proofs

def isAdcSbc : Mn → Bool
  | .ADC | .SBC => true
  | _ => false

/-- the opcodes of ADC and SBC -/
def adcSbcOps (v : Variant) : List Int :=
  match v with
  | .nmos => [97, 101, 105, 109, 113, 117, 121, 125, 225, 229, 233, 237, 241, 245, 249, 253]
  | .cmos => [114, 242, 97, 101, 105, 109, 113, 117, 121, 125, 225, 229, 233, 237, 241, 245, 249, 253]

theorem adcsbc_rows_nmos : ∀ r ∈ nmosTable, isAdcSbc r.2.1 = true → r.1 ∈ adcSbcOps .nmos := by decide +kernel
theorem adcsbc_rows_cmos : ∀ r ∈ cmosExtTable ++ nmosTable, isAdcSbc r.2.1 = true → r.1 ∈ adcSbcOps .cmos := by
  decide +kernel

theorem decode_adcsbc {v : Variant} {op : Int} {mn : Mn} {mo : Mode} (hd : decode v op = some (mn, mo))
    (ha : isAdcSbc mn = true) : op ∈ adcSbcOps v := by
  cases v with
  | nmos => exact adcsbc_rows_nmos _ (lookup_mem hd) ha
  | cmos => exact adcsbc_rows_cmos _ (Hist.decode_mem hd) ha

/-- the instruction length of a decoded opcode, as a function of the opcode (evaluated by `decide`) -/
theorem len_of_decode {v : Variant} {op : Int} {mn : Mn} {mo : Mode} (hd : decode v op = some (mn, mo)) :
    mo.len = ((decode v op).map (fun r => r.2.len)).getD 0 := by rw [hd]; rfl


theorem adcsbc_step_dev6502 (s : St) (hs : WF dev6502.cfg s) (mn : Mn) (mo : Mode)
    (hd : decode .nmos (s.mem s.pc) = some (mn, mo)) (ha : isAdcSbc mn = true) :
    (Mpu6502.step dev6502.cfg dev6502.tbl s).pc = (s.pc + mo.len) % AM dev6502.cfg.BYTE_WIDTH ∧
      (Mpu6502.step dev6502.cfg dev6502.tbl s).mem = s.mem := by
  have hc : IsDev dev6502.cfg := Or.inl rfl
  have hop := decode_adcsbc hd ha
  generalize hopv : s.mem s.pc = op at hop hd
  simp only [adcSbcOps, List.mem_cons, List.mem_nil_iff, or_false] at hop
  rcases hop with rfl | rfl | rfl | rfl | rfl | rfl | rfl | rfl | rfl | rfl | rfl | rfl | rfl | rfl | rfl | rfl
  · rw [show mo.len = 1 + 1 from (len_of_decode hd).trans (by decide)]
    exact step_adv _ hc _ s hs (Mpu6502.inst_0x61 _) 1 (by rw [hopv]; exact dev6502.instruct_61) (adc_adv _ _ (fun s hs => (IndirectXAddr_sem _ hc s hs).2) 1)
  · rw [show mo.len = 1 + 1 from (len_of_decode hd).trans (by decide)]
    exact step_adv _ hc _ s hs (Mpu6502.inst_0x65 _) 1 (by rw [hopv]; exact dev6502.instruct_65) (adc_adv _ _ (fun s hs => (ZeroPageAddr_sem _ s hs).2) 1)
  · rw [show mo.len = 1 + 1 from (len_of_decode hd).trans (by decide)]
    exact step_adv _ hc _ s hs (Mpu6502.inst_0x69 _) 1 (by rw [hopv]; exact dev6502.instruct_69) (adc_adv _ _ (fun s hs => (ProgramCounter_sem _ s hs).2) 1)
  · rw [show mo.len = 2 + 1 from (len_of_decode hd).trans (by decide)]
    exact step_adv _ hc _ s hs (Mpu6502.inst_0x6d _) 2 (by rw [hopv]; exact dev6502.instruct_6d) (adc_adv _ _ (fun s hs => (AbsoluteAddr_sem _ hc s hs).2) 2)
  · rw [show mo.len = 1 + 1 from (len_of_decode hd).trans (by decide)]
    exact step_adv _ hc _ s hs (Mpu6502.inst_0x71 _) 1 (by rw [hopv]; exact dev6502.instruct_71) (adc_adv _ _ (fun s hs => (IndirectYAddr_sem _ hc s hs).2) 1)
  · rw [show mo.len = 1 + 1 from (len_of_decode hd).trans (by decide)]
    exact step_adv _ hc _ s hs (Mpu6502.inst_0x75 _) 1 (by rw [hopv]; exact dev6502.instruct_75) (adc_adv _ _ (fun s hs => (ZeroPageXAddr_sem _ hc s hs).2) 1)
  · rw [show mo.len = 2 + 1 from (len_of_decode hd).trans (by decide)]
    exact step_adv _ hc _ s hs (Mpu6502.inst_0x79 _) 2 (by rw [hopv]; exact dev6502.instruct_79) (adc_adv _ _ (fun s hs => (AbsoluteYAddr_sem _ hc s hs).2) 2)
  · rw [show mo.len = 2 + 1 from (len_of_decode hd).trans (by decide)]
    exact step_adv _ hc _ s hs (Mpu6502.inst_0x7d _) 2 (by rw [hopv]; exact dev6502.instruct_7d) (adc_adv _ _ (fun s hs => (AbsoluteXAddr_sem _ hc s hs).2) 2)
  · rw [show mo.len = 1 + 1 from (len_of_decode hd).trans (by decide)]
    exact step_adv _ hc _ s hs (Mpu6502.inst_0xe1 _) 1 (by rw [hopv]; exact dev6502.instruct_e1) (sbc_adv _ _ (fun s hs => (IndirectXAddr_sem _ hc s hs).2) 1)
  · rw [show mo.len = 1 + 1 from (len_of_decode hd).trans (by decide)]
    exact step_adv _ hc _ s hs (Mpu6502.inst_0xe5 _) 1 (by rw [hopv]; exact dev6502.instruct_e5) (sbc_adv _ _ (fun s hs => (ZeroPageAddr_sem _ s hs).2) 1)
  · rw [show mo.len = 1 + 1 from (len_of_decode hd).trans (by decide)]
    exact step_adv _ hc _ s hs (Mpu6502.inst_0xe9 _) 1 (by rw [hopv]; exact dev6502.instruct_e9) (sbc_adv _ _ (fun s hs => (ProgramCounter_sem _ s hs).2) 1)
  · rw [show mo.len = 2 + 1 from (len_of_decode hd).trans (by decide)]
    exact step_adv _ hc _ s hs (Mpu6502.inst_0xed _) 2 (by rw [hopv]; exact dev6502.instruct_ed) (sbc_adv _ _ (fun s hs => (AbsoluteAddr_sem _ hc s hs).2) 2)
  · rw [show mo.len = 1 + 1 from (len_of_decode hd).trans (by decide)]
    exact step_adv _ hc _ s hs (Mpu6502.inst_0xf1 _) 1 (by rw [hopv]; exact dev6502.instruct_f1) (sbc_adv _ _ (fun s hs => (IndirectYAddr_sem _ hc s hs).2) 1)
  · rw [show mo.len = 1 + 1 from (len_of_decode hd).trans (by decide)]
    exact step_adv _ hc _ s hs (Mpu6502.inst_0xf5 _) 1 (by rw [hopv]; exact dev6502.instruct_f5) (sbc_adv _ _ (fun s hs => (ZeroPageXAddr_sem _ hc s hs).2) 1)
  · rw [show mo.len = 2 + 1 from (len_of_decode hd).trans (by decide)]
    exact step_adv _ hc _ s hs (Mpu6502.inst_0xf9 _) 2 (by rw [hopv]; exact dev6502.instruct_f9) (sbc_adv _ _ (fun s hs => (AbsoluteYAddr_sem _ hc s hs).2) 2)
  · rw [show mo.len = 2 + 1 from (len_of_decode hd).trans (by decide)]
    exact step_adv _ hc _ s hs (Mpu6502.inst_0xfd _) 2 (by rw [hopv]; exact dev6502.instruct_fd) (sbc_adv _ _ (fun s hs => (AbsoluteXAddr_sem _ hc s hs).2) 2)

theorem adcsbc_step_dev65org16 (s : St) (hs : WF dev65org16.cfg s) (mn : Mn) (mo : Mode)
    (hd : decode .nmos (s.mem s.pc) = some (mn, mo)) (ha : isAdcSbc mn = true) :
    (Mpu6502.step dev65org16.cfg dev65org16.tbl s).pc = (s.pc + mo.len) % AM dev65org16.cfg.BYTE_WIDTH ∧
      (Mpu6502.step dev65org16.cfg dev65org16.tbl s).mem = s.mem := by
  have hc : IsDev dev65org16.cfg := Or.inr rfl
  have hop := decode_adcsbc hd ha
  generalize hopv : s.mem s.pc = op at hop hd
  simp only [adcSbcOps, List.mem_cons, List.mem_nil_iff, or_false] at hop
  rcases hop with rfl | rfl | rfl | rfl | rfl | rfl | rfl | rfl | rfl | rfl | rfl | rfl | rfl | rfl | rfl | rfl
  · rw [show mo.len = 1 + 1 from (len_of_decode hd).trans (by decide)]
    exact step_adv _ hc _ s hs (Mpu6502.inst_0x61 _) 1 (by rw [hopv]; exact dev65org16.instruct_61) (adc_adv _ _ (fun s hs => (IndirectXAddr_sem _ hc s hs).2) 1)
  · rw [show mo.len = 1 + 1 from (len_of_decode hd).trans (by decide)]
    exact step_adv _ hc _ s hs (Mpu6502.inst_0x65 _) 1 (by rw [hopv]; exact dev65org16.instruct_65) (adc_adv _ _ (fun s hs => (ZeroPageAddr_sem _ s hs).2) 1)
  · rw [show mo.len = 1 + 1 from (len_of_decode hd).trans (by decide)]
    exact step_adv _ hc _ s hs (Mpu6502.inst_0x69 _) 1 (by rw [hopv]; exact dev65org16.instruct_69) (adc_adv _ _ (fun s hs => (ProgramCounter_sem _ s hs).2) 1)
  · rw [show mo.len = 2 + 1 from (len_of_decode hd).trans (by decide)]
    exact step_adv _ hc _ s hs (Mpu6502.inst_0x6d _) 2 (by rw [hopv]; exact dev65org16.instruct_6d) (adc_adv _ _ (fun s hs => (AbsoluteAddr_sem _ hc s hs).2) 2)
  · rw [show mo.len = 1 + 1 from (len_of_decode hd).trans (by decide)]
    exact step_adv _ hc _ s hs (Mpu6502.inst_0x71 _) 1 (by rw [hopv]; exact dev65org16.instruct_71) (adc_adv _ _ (fun s hs => (IndirectYAddr_sem _ hc s hs).2) 1)
  · rw [show mo.len = 1 + 1 from (len_of_decode hd).trans (by decide)]
    exact step_adv _ hc _ s hs (Mpu6502.inst_0x75 _) 1 (by rw [hopv]; exact dev65org16.instruct_75) (adc_adv _ _ (fun s hs => (ZeroPageXAddr_sem _ hc s hs).2) 1)
  · rw [show mo.len = 2 + 1 from (len_of_decode hd).trans (by decide)]
    exact step_adv _ hc _ s hs (Mpu6502.inst_0x79 _) 2 (by rw [hopv]; exact dev65org16.instruct_79) (adc_adv _ _ (fun s hs => (AbsoluteYAddr_sem _ hc s hs).2) 2)
  · rw [show mo.len = 2 + 1 from (len_of_decode hd).trans (by decide)]
    exact step_adv _ hc _ s hs (Mpu6502.inst_0x7d _) 2 (by rw [hopv]; exact dev65org16.instruct_7d) (adc_adv _ _ (fun s hs => (AbsoluteXAddr_sem _ hc s hs).2) 2)
  · rw [show mo.len = 1 + 1 from (len_of_decode hd).trans (by decide)]
    exact step_adv _ hc _ s hs (Mpu6502.inst_0xe1 _) 1 (by rw [hopv]; exact dev65org16.instruct_e1) (sbc_adv _ _ (fun s hs => (IndirectXAddr_sem _ hc s hs).2) 1)
  · rw [show mo.len = 1 + 1 from (len_of_decode hd).trans (by decide)]
    exact step_adv _ hc _ s hs (Mpu6502.inst_0xe5 _) 1 (by rw [hopv]; exact dev65org16.instruct_e5) (sbc_adv _ _ (fun s hs => (ZeroPageAddr_sem _ s hs).2) 1)
  · rw [show mo.len = 1 + 1 from (len_of_decode hd).trans (by decide)]
    exact step_adv _ hc _ s hs (Mpu6502.inst_0xe9 _) 1 (by rw [hopv]; exact dev65org16.instruct_e9) (sbc_adv _ _ (fun s hs => (ProgramCounter_sem _ s hs).2) 1)
  · rw [show mo.len = 2 + 1 from (len_of_decode hd).trans (by decide)]
    exact step_adv _ hc _ s hs (Mpu6502.inst_0xed _) 2 (by rw [hopv]; exact dev65org16.instruct_ed) (sbc_adv _ _ (fun s hs => (AbsoluteAddr_sem _ hc s hs).2) 2)
  · rw [show mo.len = 1 + 1 from (len_of_decode hd).trans (by decide)]
    exact step_adv _ hc _ s hs (Mpu6502.inst_0xf1 _) 1 (by rw [hopv]; exact dev65org16.instruct_f1) (sbc_adv _ _ (fun s hs => (IndirectYAddr_sem _ hc s hs).2) 1)
  · rw [show mo.len = 1 + 1 from (len_of_decode hd).trans (by decide)]
    exact step_adv _ hc _ s hs (Mpu6502.inst_0xf5 _) 1 (by rw [hopv]; exact dev65org16.instruct_f5) (sbc_adv _ _ (fun s hs => (ZeroPageXAddr_sem _ hc s hs).2) 1)
  · rw [show mo.len = 2 + 1 from (len_of_decode hd).trans (by decide)]
    exact step_adv _ hc _ s hs (Mpu6502.inst_0xf9 _) 2 (by rw [hopv]; exact dev65org16.instruct_f9) (sbc_adv _ _ (fun s hs => (AbsoluteYAddr_sem _ hc s hs).2) 2)
  · rw [show mo.len = 2 + 1 from (len_of_decode hd).trans (by decide)]
    exact step_adv _ hc _ s hs (Mpu6502.inst_0xfd _) 2 (by rw [hopv]; exact dev65org16.instruct_fd) (sbc_adv _ _ (fun s hs => (AbsoluteXAddr_sem _ hc s hs).2) 2)

theorem adcsbc_step_dev65c02 (s : St) (hs : WF dev65c02.cfg s) (mn : Mn) (mo : Mode)
    (hd : decode .cmos (s.mem s.pc) = some (mn, mo)) (ha : isAdcSbc mn = true) :
    (Mpu6502.step dev65c02.cfg dev65c02.tbl s).pc = (s.pc + mo.len) % AM dev65c02.cfg.BYTE_WIDTH ∧
      (Mpu6502.step dev65c02.cfg dev65c02.tbl s).mem = s.mem := by
  have hc : IsDev dev65c02.cfg := Or.inl rfl
  have hop := decode_adcsbc hd ha
  generalize hopv : s.mem s.pc = op at hop hd
  simp only [adcSbcOps, List.mem_cons, List.mem_nil_iff, or_false] at hop
  rcases hop with rfl | rfl | rfl | rfl | rfl | rfl | rfl | rfl | rfl | rfl | rfl | rfl | rfl | rfl | rfl | rfl | rfl | rfl
  · rw [show mo.len = 1 + 1 from (len_of_decode hd).trans (by decide)]
    exact step_adv _ hc _ s hs (Mpu65c02.inst_0x72 _) 1 (by rw [hopv]; exact dev65c02.instruct_72) (adc_adv _ _ (fun s hs => (ZeroPageIndirectAddr_sem _ rfl s hs).2) 1)
  · rw [show mo.len = 1 + 1 from (len_of_decode hd).trans (by decide)]
    exact step_adv _ hc _ s hs (Mpu65c02.inst_0xf2 _) 1 (by rw [hopv]; exact dev65c02.instruct_f2) (sbc_adv _ _ (fun s hs => (ZeroPageIndirectAddr_sem _ rfl s hs).2) 1)
  · rw [show mo.len = 1 + 1 from (len_of_decode hd).trans (by decide)]
    exact step_adv _ hc _ s hs (Mpu6502.inst_0x61 _) 1 (by rw [hopv]; exact dev65c02.instruct_61) (adc_adv _ _ (fun s hs => (IndirectXAddr_sem _ hc s hs).2) 1)
  · rw [show mo.len = 1 + 1 from (len_of_decode hd).trans (by decide)]
    exact step_adv _ hc _ s hs (Mpu6502.inst_0x65 _) 1 (by rw [hopv]; exact dev65c02.instruct_65) (adc_adv _ _ (fun s hs => (ZeroPageAddr_sem _ s hs).2) 1)
  · rw [show mo.len = 1 + 1 from (len_of_decode hd).trans (by decide)]
    exact step_adv _ hc _ s hs (Mpu6502.inst_0x69 _) 1 (by rw [hopv]; exact dev65c02.instruct_69) (adc_adv _ _ (fun s hs => (ProgramCounter_sem _ s hs).2) 1)
  · rw [show mo.len = 2 + 1 from (len_of_decode hd).trans (by decide)]
    exact step_adv _ hc _ s hs (Mpu6502.inst_0x6d _) 2 (by rw [hopv]; exact dev65c02.instruct_6d) (adc_adv _ _ (fun s hs => (AbsoluteAddr_sem _ hc s hs).2) 2)
  · rw [show mo.len = 1 + 1 from (len_of_decode hd).trans (by decide)]
    exact step_adv _ hc _ s hs (Mpu6502.inst_0x71 _) 1 (by rw [hopv]; exact dev65c02.instruct_71) (adc_adv _ _ (fun s hs => (IndirectYAddr_sem _ hc s hs).2) 1)
  · rw [show mo.len = 1 + 1 from (len_of_decode hd).trans (by decide)]
    exact step_adv _ hc _ s hs (Mpu6502.inst_0x75 _) 1 (by rw [hopv]; exact dev65c02.instruct_75) (adc_adv _ _ (fun s hs => (ZeroPageXAddr_sem _ hc s hs).2) 1)
  · rw [show mo.len = 2 + 1 from (len_of_decode hd).trans (by decide)]
    exact step_adv _ hc _ s hs (Mpu6502.inst_0x79 _) 2 (by rw [hopv]; exact dev65c02.instruct_79) (adc_adv _ _ (fun s hs => (AbsoluteYAddr_sem _ hc s hs).2) 2)
  · rw [show mo.len = 2 + 1 from (len_of_decode hd).trans (by decide)]
    exact step_adv _ hc _ s hs (Mpu6502.inst_0x7d _) 2 (by rw [hopv]; exact dev65c02.instruct_7d) (adc_adv _ _ (fun s hs => (AbsoluteXAddr_sem _ hc s hs).2) 2)
  · rw [show mo.len = 1 + 1 from (len_of_decode hd).trans (by decide)]
    exact step_adv _ hc _ s hs (Mpu6502.inst_0xe1 _) 1 (by rw [hopv]; exact dev65c02.instruct_e1) (sbc_adv _ _ (fun s hs => (IndirectXAddr_sem _ hc s hs).2) 1)
  · rw [show mo.len = 1 + 1 from (len_of_decode hd).trans (by decide)]
    exact step_adv _ hc _ s hs (Mpu6502.inst_0xe5 _) 1 (by rw [hopv]; exact dev65c02.instruct_e5) (sbc_adv _ _ (fun s hs => (ZeroPageAddr_sem _ s hs).2) 1)
  · rw [show mo.len = 1 + 1 from (len_of_decode hd).trans (by decide)]
    exact step_adv _ hc _ s hs (Mpu6502.inst_0xe9 _) 1 (by rw [hopv]; exact dev65c02.instruct_e9) (sbc_adv _ _ (fun s hs => (ProgramCounter_sem _ s hs).2) 1)
  · rw [show mo.len = 2 + 1 from (len_of_decode hd).trans (by decide)]
    exact step_adv _ hc _ s hs (Mpu6502.inst_0xed _) 2 (by rw [hopv]; exact dev65c02.instruct_ed) (sbc_adv _ _ (fun s hs => (AbsoluteAddr_sem _ hc s hs).2) 2)
  · rw [show mo.len = 1 + 1 from (len_of_decode hd).trans (by decide)]
    exact step_adv _ hc _ s hs (Mpu6502.inst_0xf1 _) 1 (by rw [hopv]; exact dev65c02.instruct_f1) (sbc_adv _ _ (fun s hs => (IndirectYAddr_sem _ hc s hs).2) 1)
  · rw [show mo.len = 1 + 1 from (len_of_decode hd).trans (by decide)]
    exact step_adv _ hc _ s hs (Mpu6502.inst_0xf5 _) 1 (by rw [hopv]; exact dev65c02.instruct_f5) (sbc_adv _ _ (fun s hs => (ZeroPageXAddr_sem _ hc s hs).2) 1)
  · rw [show mo.len = 2 + 1 from (len_of_decode hd).trans (by decide)]
    exact step_adv _ hc _ s hs (Mpu6502.inst_0xf9 _) 2 (by rw [hopv]; exact dev65c02.instruct_f9) (sbc_adv _ _ (fun s hs => (AbsoluteYAddr_sem _ hc s hs).2) 2)
  · rw [show mo.len = 2 + 1 from (len_of_decode hd).trans (by decide)]
    exact step_adv _ hc _ s hs (Mpu6502.inst_0xfd _) 2 (by rw [hopv]; exact dev65c02.instruct_fd) (sbc_adv _ _ (fun s hs => (AbsoluteXAddr_sem _ hc s hs).2) 2)

end Py65.Proofs.Compose2
