/-
Disassembler-side helper lemmas for `Props/C09h.lean`: what the GENERATED `Disassembler.instruction_at`
returns depends on the memory only through the (at most) three cells of the instruction; the reported
length is a function of the opcode cell alone.
-/
import Py65.Props.C09g
import Py65.Proofs.Compose2Step

namespace Py65.Proofs.Compose2
open Py65 Py65.Spec Py65.Proofs.Hist
open Py65.Model.PyStr Py65.Model.AddrParser Py65.Model.Asm Py65.Model.Disasm
open Py65.Proofs.Asm Py65.Proofs.DisasmGenEq Py65.Gen.DisasmGen

/-- opcodes in the documented tables are bytes -/
theorem table_ops_bytes : ∀ r ∈ cmosExtTable ++ nmosTable, 0 ≤ r.1 ∧ r.1 < 256 := by decide +kernel

theorem decode_range {v : Variant} {op : Int} {mn : Mn} {mo : Mode} (hd : decode v op = some (mn, mo)) :
    0 ≤ op ∧ op < 256 := table_ops_bytes _ (decode_mem hd)

theorem len_range (mo : Mode) : 1 ≤ mo.len ∧ mo.len ≤ 3 := by cases mo <;> decide

section
variable {dA : Py65.Model.Asm.Dev} {v : Variant} {W : Nat}

theorem addrMask_asm (h : DevOK dA v W) : dA.addrMask = 2 ^ (2 * W) - 1 := by
  unfold Dev.addrMask; rw [h.aw]; simp only [Py.shl, Int.one_mul]

theorem land_addr (h : DevOK dA v W) (a : Int) : Py.land a dA.addrMask = a % 2 ^ (2 * W) := by
  rw [addrMask_asm h, Py.land_mask]

/-- `ByteAt(a)` at an address inside the address space is the cell itself. -/
theorem byteAt_in (h : DevOK dA v W) (m : Int → Int) (a : Int) (h0 : 0 ≤ a) (h1 : a < 2 ^ (2 * W)) :
    byteAt dA m a = m a := by
  unfold byteAt; rw [land_addr h, Int.emod_eq_of_lt h0 h1]

/-- `ByteAt(a)` reads the cell `a mod 2^ADDR_WIDTH`. -/
theorem byteAt_mod (h : DevOK dA v W) (m : Int → Int) (a : Int) : byteAt dA m a = m (a % 2 ^ (2 * W)) := by
  unfold byteAt; rw [land_addr h]

/-- The generated `instruction_at(pc)` reads the memory only at `pc`, `pc + 1`, `pc + 2` (modulo the
address space): two memories that agree there give the same result. -/
theorem dis_congr (hd : IsDevice dA v W) (P : Parser) (m m' : Int → Int) (pc : Int)
    (hop : 0 ≤ m (pc % 2 ^ (2 * W)) ∧ m (pc % 2 ^ (2 * W)) < 256)
    (h0 : m (pc % 2 ^ (2 * W)) = m' (pc % 2 ^ (2 * W)))
    (h1 : m ((pc + 1) % 2 ^ (2 * W)) = m' ((pc + 1) % 2 ^ (2 * W)))
    (h2 : m ((pc + 2) % 2 ^ (2 * W)) = m' ((pc + 2) % 2 ^ (2 * W))) :
    (disOf dA P m).instruction_at pc = (disOf dA P m').instruction_at pc := by
  have h := hd.ok
  have e0 : byteAt dA m pc = byteAt dA m' pc := by rw [byteAt_mod h, byteAt_mod h, h0]
  have e1 : byteAt dA m (pc + 1) = byteAt dA m' (pc + 1) := by rw [byteAt_mod h, byteAt_mod h, h1]
  have e2 : wordAt dA m (pc + 1) = wordAt dA m' (pc + 1) := by
    have e : (pc + 1 + 1) % 2 ^ (2 * W) % 2 ^ (2 * W) = (pc + 2) % 2 ^ (2 * W) := by
      rw [Int.emod_emod_of_dvd _ (dvd_refl _)]; congr 1; omega
    have e3 : byteAt dA m (Py.land (pc + 1 + 1) dA.addrMask) = byteAt dA m' (Py.land (pc + 1 + 1) dA.addrMask) := by
      rw [byteAt_mod h m, byteAt_mod h m', land_addr h, e, h2]
    unfold wordAt
    rw [e1, e3]
  have hop1 : 0 ≤ byteAt dA m pc ∧ byteAt dA m pc < 256 := by rw [byteAt_mod h]; exact hop
  have hop2 : 0 ≤ byteAt dA m' pc ∧ byteAt dA m' pc < 256 := by rw [← e0]; exact hop1
  have s1 := dis_spec h P m pc hop1
  have s2 := dis_spec h P m' pc hop2
  rw [← e0, ← e1, ← e2] at s2
  cases hdec : decode v (byteAt dA m pc) with
  | none =>
    rw [hdec] at s1 s2
    rw [gen_of_model (.of_devOK h) s1, gen_of_model (.of_devOK h) s2]
  | some r =>
    obtain ⟨mn, mo⟩ := r
    rw [hdec] at s1 s2
    rw [gen_of_model (.of_devOK h) s1, gen_of_model (.of_devOK h) s2]

/-- The length the generated `instruction_at` reports at an address inside the address space is the
documented length of the opcode in that cell. -/
theorem listed_len (hd : IsDevice dA v W) (P : Parser) (m : Int → Int) (a : Int) (h0 : 0 ≤ a)
    (h1 : a < 2 ^ (2 * W)) {len : Int} {text : Str} (hi : (disOf dA P m).instruction_at a = .ok (len, text))
    {mn : Mn} {mo : Mode} (hdec : decode v (m a) = some (mn, mo)) : len = mo.len := by
  have hb := byteAt_in hd.ok m a h0 h1
  have hop : 0 ≤ byteAt dA m a ∧ byteAt dA m a < 256 := by rw [hb]; exact decode_range hdec
  obtain ⟨t, ht⟩ := Py65.Props.C09g.dis_len hd P m a hop mn mo (by rw [hb]; exact hdec)
  rw [hi] at ht
  simp only [Except.ok.injEq, Prod.mk.injEq] at ht
  exact ht.1

end

end Py65.Proofs.Compose2
