/-
BIT and the read-modify-write group (ASL LSR ROL ROR INC DEC, accumulator and memory forms).
-/
import Py65.Proofs.Ops

set_option linter.unusedSimpArgs false

namespace Py65.Proofs
open Py65 Py65.Gen Py65.Spec Py

/-- The status register after BIT (non-immediate). -/
def bitFlags (W : Nat) (p a m : Int) : Int :=
  setFlag (setFlag (setFlag p bitZ (eqB (Py.land a m) 0)) (bitN W) (flag m (bitN W))) (bitV W)
    (flag m (bitV W))

theorem opBIT_core (c : Cfg) (hc : IsDev c) (x : St → Int × St) (mo : Mode) (hx : ModeSem c x mo)
    (s : St) (hs : WF c s) :
    core (Mpu6502.opBIT c x s) =
      { core s with p := bitFlags c.BYTE_WIDTH s.p s.a (s.mem (ea c.BYTE_WIDTH mo (core s))) } := by
  obtain ⟨hv, hcore⟩ := hx s hs
  obtain ⟨ha, hxx, hy, hsp, hp, hpc, hmem, hw⟩ := core_fields hcore
  have hm := hs.mem (ea c.BYTE_WIDTH mo (core s))
  generalize ea c.BYTE_WIDTH mo (core s) = e at hv hm
  simp only [Mpu6502.opBIT, ByteAt_val, ByteAt_p, ByteAt_a, hp, ha, hmem, hv]
  generalize s.mem e = m at hm
  rcases hc with rfl | rfl <;>
  · constfold [bitFlags] at hm ⊢
    simp only [flagalg]
    split_ifs <;> simp [core, flagalg, *] <;> flag_close

theorem normP_bitFlags (W : Nat) (hW : W = 8 ∨ W = 16) (p a m : Int) :
    normP (bitFlags W p a m) = bitFlags W (normP p) a m := by
  rcases hW with rfl | rfl <;>
  · simp only [bitFlags, bitN, bitV, bitZ, Nat.reduceSub]
    rw [normP_setFlag _ _ _ (by decide), normP_setFlag _ _ _ (by decide), normP_setFlag _ _ _ (by decide)]

theorem opBIT_ok (c : Cfg) (hc : IsDev c) (v : Variant) (x : St → Int × St) (mo : Mode)
    (hx : ModeSem c x mo) (hmo : mo ≠ .imm) :
    HandlerOK c v (fun s => bump (mo.len - 1) (Mpu6502.opBIT c x s)) .BIT mo := by
  intro s hs
  have h := opBIT_core c hc x mo hx s hs
  obtain ⟨ha, hxx, hy, hsp, hp, hpc, hmem, hw⟩ := core_eq h
  have e1 : exec c.BYTE_WIDTH v .BIT mo (abs s) =
      { abs s with p := bitFlags c.BYTE_WIDTH (abs s).p (abs s).a ((abs s).mem (ea c.BYTE_WIDTH mo (abs s))),
                   pc := nextPc c.BYTE_WIDTH mo (abs s) } := by
    cases mo <;> first | (exact absurd rfl hmo) | rfl
  rw [e1]
  simp only [ea_abs, nextPc_abs]
  simp only [absH, abs, bump, core, nextPc, ha, hxx, hy, hsp, hp, hpc, hmem, hw, addrMask_succ hc,
    normP_bitFlags _ hc.W]


/-! ### read-modify-write group -/

def rmwV (W : Nat) (mn : Mn) (v : Int) (cin : Bool) : Int := (rmw W mn v cin).1
def rmwP (W : Nat) (mn : Mn) (p v : Int) (cin : Bool) : Int :=
  setNZ W (match (rmw W mn v cin).2 with | some c => setFlag p bitC c | none => p) (rmw W mn v cin).1

theorem normP_rmwP (W : Nat) (hW : W = 8 ∨ W = 16) (mn : Mn) (p v : Int) (cin : Bool) :
    normP (rmwP W mn p v cin) = rmwP W mn (normP p) v cin := by
  simp only [rmwP, normP_setNZ _ hW]
  cases (rmw W mn v cin).2 <;> simp only [bitC]
  rw [normP_setFlag _ _ _ (by decide)]

/-- The six mnemonics of the group. -/
def IsRmw (mn : Mn) : Prop := mn = .ASL ∨ mn = .LSR ∨ mn = .ROL ∨ mn = .ROR ∨ mn = .INC ∨ mn = .DEC

theorem exec_rmw_mem (W : Nat) (v : Variant) (mn : Mn) (hmn : IsRmw mn) (mo : Mode) (hmo : mo ≠ .acc)
    (s : AState) :
    exec W v mn mo s =
      { write s (ea W mo s) (rmwV W mn (s.mem (ea W mo s)) (flag s.p bitC)) with
        p := rmwP W mn s.p (s.mem (ea W mo s)) (flag s.p bitC), pc := nextPc W mo s } := by
  rcases hmn with rfl | rfl | rfl | rfl | rfl | rfl <;> cases mo <;>
    first | (exact absurd rfl hmo) | rfl

theorem exec_rmw_acc (W : Nat) (v : Variant) (mn : Mn) (hmn : IsRmw mn) (s : AState) :
    exec W v mn .acc s =
      { s with a := rmwV W mn s.a (flag s.p bitC), p := rmwP W mn s.p s.a (flag s.p bitC),
               pc := nextPc W .acc s } := by
  rcases hmn with rfl | rfl | rfl | rfl | rfl | rfl <;> rfl

-- Shared proof of the memory forms: flags by `flagalg`, data by `pyarith`.
set_option hygiene false in
macro "rmw_mem_core" f:ident : tactic =>
  `(tactic| (
    obtain ⟨hv, hcore⟩ := hx s hs
    obtain ⟨ha, hxx, hy, hsp, hp, hpc, hmem, hw⟩ := core_fields hcore
    have hm := hs.mem (ea c.BYTE_WIDTH mo (core s))
    generalize ea c.BYTE_WIDTH mo (core s) = e at hv hm
    simp only [$f:ident, Mpu6502.FlagsNZ, ByteAt_val, ByteAt_p, ByteAt_a, ByteAt_mem, hp, ha, hmem, hv, memSet]
    generalize s.mem e = m at hm
    rcases hc with rfl | rfl <;>
    · constfold [rmwP, rmwV, rmw, setNZ] at hm ⊢
      have hg8 : ∀ z : Int, 0 ≤ z ∧ z ≤ 255 → geB z 128 = flag z 7 := by intro z hz; bool_omega
      have hg16 : ∀ z : Int, 0 ≤ z ∧ z ≤ 65535 → geB z 32768 = flag z 15 := by intro z hz; bool_omega
      have hl : ∀ z : Int, eqB (z % 2) 1 = flag z 0 := by intro z; simp [flag]
      try rw [hg8 m hm]
      try rw [hg16 m hm]
      try rw [hl m]
      simp only [flagalg]
      simp only [pyarith, Int.reducePow, Int.reduceMul]
      split_ifs <;> simp [core, flagalg, *]
      all_goals flag_close))

theorem opASL_mem_core (c : Cfg) (hc : IsDev c) (x : St → Int × St) (mo : Mode) (hx : ModeSem c x mo)
    (s : St) (hs : WF c s) :
    core (Mpu6502.opASL_mem c x s) =
      { core s with
        p := rmwP c.BYTE_WIDTH .ASL s.p (s.mem (ea c.BYTE_WIDTH mo (core s))) (flag s.p bitC),
        mem := fun k => if k = ea c.BYTE_WIDTH mo (core s)
                 then rmwV c.BYTE_WIDTH .ASL (s.mem (ea c.BYTE_WIDTH mo (core s))) (flag s.p bitC)
                 else s.mem k } := by
  rmw_mem_core Mpu6502.opASL_mem


theorem opLSR_mem_core (c : Cfg) (hc : IsDev c) (x : St → Int × St) (mo : Mode) (hx : ModeSem c x mo)
    (s : St) (hs : WF c s) :
    core (Mpu6502.opLSR_mem c x s) =
      { core s with
        p := rmwP c.BYTE_WIDTH .LSR s.p (s.mem (ea c.BYTE_WIDTH mo (core s))) (flag s.p bitC),
        mem := fun k => if k = ea c.BYTE_WIDTH mo (core s)
                 then rmwV c.BYTE_WIDTH .LSR (s.mem (ea c.BYTE_WIDTH mo (core s))) (flag s.p bitC)
                 else s.mem k } := by
  rmw_mem_core Mpu6502.opLSR_mem



theorem opDECR_mem_core (c : Cfg) (hc : IsDev c) (x : St → Int × St) (mo : Mode) (hx : ModeSem c x mo)
    (s : St) (hs : WF c s) :
    core (Mpu6502.opDECR_mem c x s) =
      { core s with
        p := rmwP c.BYTE_WIDTH .DEC s.p (s.mem (ea c.BYTE_WIDTH mo (core s))) (flag s.p bitC),
        mem := fun k => if k = ea c.BYTE_WIDTH mo (core s)
                 then rmwV c.BYTE_WIDTH .DEC (s.mem (ea c.BYTE_WIDTH mo (core s))) (flag s.p bitC)
                 else s.mem k } := by
  rmw_mem_core Mpu6502.opDECR_mem

theorem opINCR_mem_core (c : Cfg) (hc : IsDev c) (x : St → Int × St) (mo : Mode) (hx : ModeSem c x mo)
    (s : St) (hs : WF c s) :
    core (Mpu6502.opINCR_mem c x s) =
      { core s with
        p := rmwP c.BYTE_WIDTH .INC s.p (s.mem (ea c.BYTE_WIDTH mo (core s))) (flag s.p bitC),
        mem := fun k => if k = ea c.BYTE_WIDTH mo (core s)
                 then rmwV c.BYTE_WIDTH .INC (s.mem (ea c.BYTE_WIDTH mo (core s))) (flag s.p bitC)
                 else s.mem k } := by
  rmw_mem_core Mpu6502.opINCR_mem

set_option hygiene false in
macro "rmw_acc_core" f:ident : tactic =>
  `(tactic| (
    have ha := hs.a
    simp only [$f:ident, Mpu6502.FlagsNZ]
    generalize s.a = m at ha
    rcases hc with rfl | rfl <;>
    · constfold [rmwP, rmwV, rmw, setNZ] at ha ⊢
      have hg8 : ∀ z : Int, 0 ≤ z ∧ z ≤ 255 → geB z 128 = flag z 7 := by intro z hz; bool_omega
      have hg16 : ∀ z : Int, 0 ≤ z ∧ z ≤ 65535 → geB z 32768 = flag z 15 := by intro z hz; bool_omega
      have hl : ∀ z : Int, eqB (z % 2) 1 = flag z 0 := by intro z; simp [flag]
      try rw [hg8 m ha]
      try rw [hg16 m ha]
      try rw [hl m]
      simp only [flagalg]
      simp only [pyarith, Int.reducePow, Int.reduceMul]
      split_ifs <;> simp [core, flagalg, *]
      all_goals flag_close))

theorem opASL_acc_core (c : Cfg) (hc : IsDev c) (s : St) (hs : WF c s) :
    core (Mpu6502.opASL_acc c s) =
      { core s with a := rmwV c.BYTE_WIDTH .ASL s.a (flag s.p bitC),
                    p := rmwP c.BYTE_WIDTH .ASL s.p s.a (flag s.p bitC) } := by
  rmw_acc_core Mpu6502.opASL_acc

theorem opLSR_acc_core (c : Cfg) (hc : IsDev c) (s : St) (hs : WF c s) :
    core (Mpu6502.opLSR_acc c s) =
      { core s with a := rmwV c.BYTE_WIDTH .LSR s.a (flag s.p bitC),
                    p := rmwP c.BYTE_WIDTH .LSR s.p s.a (flag s.p bitC) } := by
  rmw_acc_core Mpu6502.opLSR_acc



theorem opDECR_acc_core (c : Cfg) (hc : IsDev c) (s : St) (hs : WF c s) :
    core (Mpu6502.opDECR_acc c s) =
      { core s with a := rmwV c.BYTE_WIDTH .DEC s.a (flag s.p bitC),
                    p := rmwP c.BYTE_WIDTH .DEC s.p s.a (flag s.p bitC) } := by
  rmw_acc_core Mpu6502.opDECR_acc

theorem opINCR_acc_core (c : Cfg) (hc : IsDev c) (s : St) (hs : WF c s) :
    core (Mpu6502.opINCR_acc c s) =
      { core s with a := rmwV c.BYTE_WIDTH .INC s.a (flag s.p bitC),
                    p := rmwP c.BYTE_WIDTH .INC s.p s.a (flag s.p bitC) } := by
  rmw_acc_core Mpu6502.opINCR_acc






/-- From a `core` equation of a memory-form helper to the handler contract. -/
theorem rmw_mem_ok (c : Cfg) (hc : IsDev c) (v : Variant) (f : St → St) (mn : Mn) (hmn : IsRmw mn)
    (mo : Mode) (hmo : mo ≠ .acc)
    (hcore : ∀ s, WF c s → core (f s) =
      { core s with
        p := rmwP c.BYTE_WIDTH mn s.p (s.mem (ea c.BYTE_WIDTH mo (core s))) (flag s.p bitC),
        mem := fun k => if k = ea c.BYTE_WIDTH mo (core s)
                 then rmwV c.BYTE_WIDTH mn (s.mem (ea c.BYTE_WIDTH mo (core s))) (flag s.p bitC)
                 else s.mem k }) :
    HandlerOK c v (fun s => bump (mo.len - 1) (f s)) mn mo := by
  intro s hs
  obtain ⟨ha, hxx, hy, hsp, hp, hpc, hmem, hw⟩ := core_eq (hcore s hs)
  rw [exec_rmw_mem _ _ _ hmn _ hmo]
  simp only [ea_abs, nextPc_abs]
  simp only [absH, abs, bump, core, write, nextPc, ha, hxx, hy, hsp, hp, hpc, hmem, hw,
    addrMask_succ hc, normP_rmwP _ hc.W, flag_normP _ _ (by decide : bitC ∈ [0, 1, 2, 3, 6, 7, 14, 15])]
  rfl

theorem rmw_acc_ok (c : Cfg) (hc : IsDev c) (v : Variant) (f : St → St) (mn : Mn) (hmn : IsRmw mn)
    (hcore : ∀ s, WF c s → core (f s) =
      { core s with a := rmwV c.BYTE_WIDTH mn s.a (flag s.p bitC),
                    p := rmwP c.BYTE_WIDTH mn s.p s.a (flag s.p bitC) }) :
    HandlerOK c v f mn .acc := by
  intro s hs
  obtain ⟨ha, hxx, hy, hsp, hp, hpc, hmem, hw⟩ := core_eq (hcore s hs)
  rw [exec_rmw_acc _ _ _ hmn]
  simp only [absH, abs, core, nextPc, Mode.len, ha, hxx, hy, hsp, hp, hpc, hmem, hw,
    addrMask_succ hc, normP_rmwP _ hc.W, flag_normP _ _ (by decide : bitC ∈ [0, 1, 2, 3, 6, 7, 14, 15])]
  simp

end Py65.Proofs
