/-
Register closure of the generated ADC / SBC helpers and of JSR, proved DIRECTLY on the generated
code for both configurations, BOTH arithmetic modes (binary and decimal) and without any side
condition: the cases C01-C03 exclude by hypothesis (decimal mode; a JSR whose pushes hit its own
operand bytes) are covered here, so that closure (C05h) needs no such hypothesis.
-/
import Py65.Proofs.HistSpecClosed
import Py65.Proofs.Ops4
import Py65.Proofs.Step

set_option linter.unusedSimpArgs false

namespace Py65.Proofs
open Py65 Py65.Gen Py65.Spec Py

/-- `WF` without the PC component (a handler leaves PC unreduced; `step()` masks it afterwards). -/
structure WFr (c : Cfg) (s : St) : Prop where
  a : InB c.BYTE_WIDTH s.a
  x : InB c.BYTE_WIDTH s.x
  y : InB c.BYTE_WIDTH s.y
  sp : InB c.BYTE_WIDTH s.sp
  p : InB c.BYTE_WIDTH s.p
  mem : ∀ k, InB c.BYTE_WIDTH (s.mem k)

theorem inB_iff {c : Cfg} (hc : IsDev c) (v : Int) :
    InB c.BYTE_WIDTH v ↔ (0 ≤ v ∧ v ≤ c.byteMask) := by
  rcases hc with rfl | rfl <;> (simp only [InB, BM]; constfold; omega)

theorem inA_iff {c : Cfg} (hc : IsDev c) (v : Int) :
    InA c.BYTE_WIDTH v ↔ (0 ≤ v ∧ v ≤ c.addrMask) := by
  rcases hc with rfl | rfl <;> (simp only [InA, AM]; constfold; omega)

theorem WF.toWFr {c : Cfg} (hc : IsDev c) {s : St} (hs : WF c s) : WFr c s :=
  ⟨(inB_iff hc _).2 hs.a, (inB_iff hc _).2 hs.x, (inB_iff hc _).2 hs.y, (inB_iff hc _).2 hs.sp,
   (inB_iff hc _).2 hs.p, fun k => (inB_iff hc _).2 (hs.mem k)⟩

theorem WFr.toWF {c : Cfg} (hc : IsDev c) {s : St} (hs : WFr c s) (hpc : 0 ≤ s.pc ∧ s.pc ≤ c.addrMask) :
    WF c s :=
  ⟨(inB_iff hc _).1 hs.a, (inB_iff hc _).1 hs.x, (inB_iff hc _).1 hs.y, (inB_iff hc _).1 hs.sp,
   (inB_iff hc _).1 hs.p, hpc, fun k => (inB_iff hc _).1 (hs.mem k)⟩

/-- The flag constants are inside the byte. -/
theorem inB_consts {c : Cfg} (hc : IsDev c) :
    InB c.BYTE_WIDTH c.CARRY ∧ InB c.BYTE_WIDTH c.ZERO ∧ InB c.BYTE_WIDTH c.INTERRUPT ∧
    InB c.BYTE_WIDTH c.DECIMAL ∧ InB c.BYTE_WIDTH c.BREAK ∧ InB c.BYTE_WIDTH c.UNUSED ∧
    InB c.BYTE_WIDTH c.OVERFLOW ∧ InB c.BYTE_WIDTH c.NEGATIVE ∧ InB c.BYTE_WIDTH c.byteMask := by
  rcases hc with rfl | rfl <;> (simp only [InB, BM]; constfold; decide)

theorem inB_land_left {W : Nat} {x : Int} (y : Int) (hx : InB W x) : InB W (land x y) := by
  refine ⟨?_, Int.lt_of_le_of_lt (land_le_left x y hx.1) hx.2⟩
  rw [land_comm]; exact land_nonneg y x hx.1

theorem inB_land_right {W : Nat} (x : Int) {y : Int} (hy : InB W y) : InB W (land x y) :=
  ⟨land_nonneg x y hy.1, Int.lt_of_le_of_lt (land_le_right x y hy.1) hy.2⟩

/-- the decimal-mode accumulator: two nibbles -/
theorem inB_nibbles {W : Nat} (hW : W = 8 ∨ W = 16) (u w : Int) : InB W (shl (land u 15) 4 + land w 15) := by
  have h1 := land_nonneg u 15 (by decide); have h2 := land_le_right u 15 (by decide)
  have h3 := land_nonneg w 15 (by decide); have h4 := land_le_right w 15 (by decide)
  rcases hW with rfl | rfl <;> (simp only [InB, BM, shl]; omega)

/-- the binary-mode ADC accumulator -/
theorem inB_adc_bin {c : Cfg} (hc : IsDev c) {d a : Int} (q : Prop) [Decidable q]
    (hd : InB c.BYTE_WIDTH d) (ha : InB c.BYTE_WIDTH a) :
    InB c.BYTE_WIDTH (if d + a + (if q then 1 else 0) > c.byteMask
      then land (d + a + (if q then 1 else 0)) c.byteMask else d + a + (if q then 1 else 0)) := by
  have ht : (0 : Int) ≤ (if q then 1 else 0) := by split <;> decide
  generalize (if q then 1 else 0 : Int) = t at ht
  by_cases h : d + a + t > c.byteMask
  · rw [if_pos h]; exact inB_land_right _ (inB_consts hc).2.2.2.2.2.2.2.2
  · rw [if_neg h, inB_iff hc]
    have := hd.1; have := ha.1
    omega


set_option maxHeartbeats 1600000 in
theorem opADC_wfr (c : Cfg) (hc : IsDev c) (x : St → Int × St)
    (hx : ∀ s, WF c s → core (x s).2 = core s) (s : St) (hs : WF c s) :
    WFr c (Mpu6502.opADC c x s) ∧ (Mpu6502.opADC c x s).waiting = s.waiting := by
  obtain ⟨ha', hxx, hy', hsp', hp', hpc', hmem', hw'⟩ := core_fields (hx s hs)
  have hr := hs.toWFr hc
  have ha := hr.a; have hx' := hr.x; have hy := hr.y; have hsp := hr.sp; have hp := hr.p; have hm := hr.mem
  obtain ⟨kC, kZ, kI, kD, kB, kU, kV, kN, kM⟩ := inB_consts hc
  have hW := hc.W
  refine ⟨⟨?_, ?_, ?_, ?_, ?_, fun k => ?_⟩, ?_⟩ <;>
    simp +instances only [Mpu6502.opADC, Mpu6502.ByteAt, memGet, apply_ite Prod.fst, apply_ite Prod.snd,
      apply_ite St.a, apply_ite St.x, apply_ite St.y, apply_ite St.sp, apply_ite St.p, apply_ite St.mem,
      apply_ite St.waiting, ite_self, ha', hxx, hy', hsp', hp', hmem', hw']
  all_goals
    simp +instances (maxDischargeDepth := 12) only [ha, hx', hy, hsp, hp, hm, kC, kZ, kI, kD, kB, kU, kV, kN, kM,
      inB_ite, inB_lor, inB_land_left, inB_land_right, inB_nibbles hW, inB_adc_bin hc]

set_option maxHeartbeats 1600000 in
theorem opSBC_wfr (c : Cfg) (hc : IsDev c) (x : St → Int × St)
    (hx : ∀ s, WF c s → core (x s).2 = core s) (s : St) (hs : WF c s) :
    WFr c (Mpu6502.opSBC c x s) ∧ (Mpu6502.opSBC c x s).waiting = s.waiting := by
  obtain ⟨ha', hxx, hy', hsp', hp', hpc', hmem', hw'⟩ := core_fields (hx s hs)
  have hr := hs.toWFr hc
  have ha := hr.a; have hx' := hr.x; have hy := hr.y; have hsp := hr.sp; have hp := hr.p; have hm := hr.mem
  obtain ⟨kC, kZ, kI, kD, kB, kU, kV, kN, kM⟩ := inB_consts hc
  have hW := hc.W
  refine ⟨⟨?_, ?_, ?_, ?_, ?_, fun k => ?_⟩, ?_⟩ <;>
    simp +instances only [Mpu6502.opSBC, Mpu6502.ByteAt, memGet, apply_ite Prod.fst, apply_ite Prod.snd,
      apply_ite St.a, apply_ite St.x, apply_ite St.y, apply_ite St.sp, apply_ite St.p, apply_ite St.mem,
      apply_ite St.waiting, ite_self, ha', hxx, hy', hsp', hp', hmem', hw']
  all_goals
    simp +instances (maxDischargeDepth := 12) only [ha, hx', hy, hsp, hp, hm, kC, kZ, kI, kD, kB, kU, kV, kN, kM,
      inB_ite, inB_lor, inB_land_left, inB_land_right, inB_nibbles hW, inB_adc_bin hc]


/-- JSR, with no condition on where the stack is: registers stay, SP moves down by two (mod the
page), two in-range bytes are written. -/
theorem jsr_wfr (c : Cfg) (hc : IsDev c) (s : St) (hs : WF c s) :
    WFr c (Mpu6502.inst_0x20 c s) ∧ (Mpu6502.inst_0x20 c s).waiting = s.waiting := by
  have hr := hs.toWFr hc
  have hW := hc.W
  have hpush := stPushWord_core c hc (land (s.pc + 1) c.addrMask) s
  obtain ⟨ha, hxx, hy, hsp, hp, hpc, hmem, hw⟩ := core_eq hpush
  simp only [Mpu6502.inst_0x20]
  refine ⟨⟨?_, ?_, ?_, ?_, ?_, fun k => ?_⟩, ?_⟩ <;>
    simp only [WordAt_a, WordAt_x, WordAt_y, WordAt_sp, WordAt_p, WordAt_mem, WordAt_waiting,
      ha, hxx, hy, hsp, hp, hmem, hw]
  · exact hr.a
  · exact hr.x
  · exact hr.y
  · exact inB_mod hW _
  · exact hr.p
  · dsimp +instances only [push, write, core]
    simp +instances (maxDischargeDepth := 6) only [inB_ite, inB_mod hW, hr.mem]
  · rfl

/-- From the handler's registers to the state `step()` returns (final PC mask included). -/
theorem step_WF_of_handler (c : Cfg) (hc : IsDev c) (t : Tbl) (s : St)
    (h : WFr c (t.instruct (s.mem s.pc) (afterFetch c t s))) : WF c (Mpu6502.step c t s) := by
  rw [step_unfold]
  refine WFr.toWF hc ⟨h.a, h.x, h.y, h.sp, h.p, h.mem⟩ ?_
  rcases hc with rfl | rfl <;> (constfold; simp only [pyarith]; omega)

theorem adc_inst (c : Cfg) (hc : IsDev c) (x : St → Int × St)
    (hx : ∀ s, WF c s → core (x s).2 = core s) (k : Int) (s : St) (hs : WF c s) :
    WFr c (bump k (Mpu6502.opADC c x s)) ∧ (bump k (Mpu6502.opADC c x s)).waiting = s.waiting := by
  obtain ⟨h1, h2⟩ := opADC_wfr c hc x hx s hs
  exact ⟨⟨h1.a, h1.x, h1.y, h1.sp, h1.p, h1.mem⟩, h2⟩

theorem sbc_inst (c : Cfg) (hc : IsDev c) (x : St → Int × St)
    (hx : ∀ s, WF c s → core (x s).2 = core s) (k : Int) (s : St) (hs : WF c s) :
    WFr c (bump k (Mpu6502.opSBC c x s)) ∧ (bump k (Mpu6502.opSBC c x s)).waiting = s.waiting := by
  obtain ⟨h1, h2⟩ := opSBC_wfr c hc x hx s hs
  exact ⟨⟨h1.a, h1.x, h1.y, h1.sp, h1.p, h1.mem⟩, h2⟩

/-- `step()` for one dispatched opcode, given the register closure of its handler. -/
theorem step_arith (c : Cfg) (hc : IsDev c) (t : Tbl) (s : St) (h : St → St)
    (hinst : t.instruct (s.mem s.pc) = h)
    (hh : WFr c (h (afterFetch c t s)) ∧ (h (afterFetch c t s)).waiting = (afterFetch c t s).waiting) :
    WF c (Mpu6502.step c t s) ∧ (Mpu6502.step c t s).waiting = s.waiting := by
  subst hinst
  exact ⟨step_WF_of_handler c hc t s hh.1, hh.2⟩

theorem step_waiting_of_handler (c : Cfg) (t : Tbl) (s : St) :
    (Mpu6502.step c t s).waiting = (t.instruct (s.mem s.pc) (afterFetch c t s)).waiting := rfl

end Py65.Proofs
