/-
Machine state and device configuration shared by all generated device modules
(`Py65/Gen/*.lean`, produced by `harness/py2lean.py` from /repo on every run).

`St` is what a py65 `MPU` instance *is*, functionally: its register attributes, the three
bookkeeping attributes of `step()`, and its memory object seen as a total function plus the
ordered list of item accesses (`memory[e]` reads, `memory[e] = v` writes) performed so far —
the events an `ObservableMemory` subscriber or a recording memory would see.
No Mathlib import: linked into the driver executable.
-/
import Py65.PyInt

namespace Py65

/-- One item access on the memory object. -/
inductive MemEv where
  | r (addr : Int)
  | w (addr : Int) (val : Int)
  deriving Repr, DecidableEq, Inhabited

structure St where
  a : Int
  x : Int
  y : Int
  sp : Int
  p : Int
  pc : Int
  excycles : Int
  addcycles : Int
  cycles : Int            -- `processorCycles`
  waiting : Bool
  mem : Int → Int
  log : List MemEv        -- newest event first

instance : Inhabited St :=
  ⟨{ a := 0, x := 0, y := 0, sp := 0, p := 0, pc := 0, excycles := 0, addcycles := 0,
     cycles := 0, waiting := false, mem := fun _ => 0, log := [] }⟩

/-- `self.memory[e]` : the value and a read event. -/
@[inline] def memGet (e : Int) (s : St) : Int × St :=
  (s.mem e, { s with log := MemEv.r e :: s.log })

/-- `self.memory[e] = v` : function update and a write event. -/
@[inline] def memSet (e v : Int) (s : St) : St :=
  { s with mem := fun k => if k = e then v else s.mem k, log := MemEv.w e v :: s.log }

/-- Per-instance configuration read from a live instance of the device class (so inheritance
and `__init__` effects are whatever Python actually computed). -/
structure Cfg where
  BYTE_WIDTH : Nat
  ADDR_WIDTH : Nat
  byteMask : Int
  addrMask : Int
  addrHighMask : Int
  spBase : Int
  RESET : Int
  NMI : Int
  IRQ : Int
  NEGATIVE : Int
  OVERFLOW : Int
  UNUSED : Int
  BREAK : Int
  DECIMAL : Int
  INTERRUPT : Int
  ZERO : Int
  CARRY : Int
  deriving DecidableEq

/-- The three class tables `step()` consults (`instruct`, `cycletime`, `extracycles`). -/
structure Tbl where
  instruct : Int → St → St
  cycletime : Int → Int
  extracycles : Int → Int

end Py65
