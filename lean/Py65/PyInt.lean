/-
Python integer semantics used by the py65 device code, on Lean's `Int`.

Python ints are unbounded two's-complement integers; `& | ^` act on the infinite
two's-complement representation, `~x = -x-1`, `<<`/`>>` by a non-negative count are
`* 2^k` and floor-`/ 2^k`.  Lean core provides `~~~ <<< >>>` on `Int`, but no `&&& ||| ^^^`,
so those three are defined here by the four sign cases over core `Nat` bit operations.
These definitions are characterised by theorems in `Py65/Proofs/PyIntLemmas.lean`
(bit-wise: `bit (land x y) i = (bit x i && bit y i)` …) and differentially tested against
CPython by the harness (`pyint` protocol line), so they are not part of the trusted base
beyond that.

No Mathlib import: this file is linked into the driver executable.
-/

namespace Py

/-- `a ∧ ¬b` on naturals. -/
def natDiff (m n : Nat) : Nat := Nat.bitwise (fun a b => a && !b) m n

/-- Python `x & y`. -/
def land : Int → Int → Int
  | .ofNat m, .ofNat n => .ofNat (m &&& n)
  | .ofNat m, .negSucc n => .ofNat (natDiff m n)
  | .negSucc m, .ofNat n => .ofNat (natDiff n m)
  | .negSucc m, .negSucc n => .negSucc (m ||| n)

/-- Python `x | y`. -/
def lor : Int → Int → Int
  | .ofNat m, .ofNat n => .ofNat (m ||| n)
  | .ofNat m, .negSucc n => .negSucc (natDiff n m)
  | .negSucc m, .ofNat n => .negSucc (natDiff m n)
  | .negSucc m, .negSucc n => .negSucc (m &&& n)

/-- Python `x ^ y`. -/
def lxor : Int → Int → Int
  | .ofNat m, .ofNat n => .ofNat (m ^^^ n)
  | .ofNat m, .negSucc n => .negSucc (m ^^^ n)
  | .negSucc m, .ofNat n => .negSucc (m ^^^ n)
  | .negSucc m, .negSucc n => .ofNat (m ^^^ n)

/-- Python `~x`. -/
def lnot (x : Int) : Int := -x - 1

/-- Python `x << k` for a literal/natural count. -/
def shl (x : Int) (k : Nat) : Int := x * 2 ^ k

/-- Python `x >> k` (floor division by `2^k`). -/
def shr (x : Int) (k : Nat) : Int := x / 2 ^ k

/-- Bit `i` of the infinite two's-complement representation. -/
def bit (x : Int) (i : Nat) : Bool := decide (x / 2 ^ i % 2 = 1)

end Py
