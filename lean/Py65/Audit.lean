/-
`#audit_ns NS` — for every theorem whose name has prefix `NS`, print one JSON line with the
axioms it depends on (transitively), as computed by `Lean.collectAxioms`.
-/
import Lean
open Lean Elab Command

elab "#audit_ns " ns:ident : command => do
  let env ← getEnv
  let pre := ns.getId
  let mut names : Array Name := #[]
  for (n, ci) in env.constants.toList do
    if pre.isPrefixOf n && !n.isInternal then
      match ci with
      | .thmInfo _ => names := names.push n
      | _ => pure ()
  let sorted := names.qsort (fun a b => a.toString < b.toString)
  for n in sorted do
    let axs ← liftCoreM <| collectAxioms n
    let axl := ", ".intercalate (axs.toList.map fun a => "\"" ++ a.toString ++ "\"")
    IO.println ("{\"thm\": \"" ++ n.toString ++ "\", \"axioms\": [" ++ axl ++ "]}")
