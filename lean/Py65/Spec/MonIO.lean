/-
Spec side of C18: what "character I/O at the configured addresses, once per access" *means*,
written from the property text, not from `monitor.py` / `memory.py`.

The machine is a plain memory of `size` cells (addresses alias modulo `size`), a queue of pending
input bytes and the text written so far.  One access:

* a store of `v` to an address congruent to `O` appends `v` to the output, exactly once; every store
  also lands in the cell;
* a load from an address congruent to `I` returns the next pending byte (LF delivered as CR) and
  removes it from the queue, or returns 0 when the queue is empty; any other load returns the cell
  and touches nothing.

No Mathlib import.
-/
import Py65.Machine
import Py65.Spec.ObsMem

namespace Py65.Spec.MonIO
open Py65

/-- LF is delivered as CR, every other byte as itself. -/
def deliver (b : Int) : Int := if b = 10 then 13 else b

structure SState where
  cells : Int → Int
  pending : List Int
  output : List Int

/-- One access, from the property text. -/
def step (size I O : Int) (s : SState) : MemEv → Option Int × SState
  | .r a =>
    if a % size = I % size then
      match s.pending with
      | b :: rest => (some (deliver b), { s with pending := rest })
      | [] => (some 0, s)
    else (some (s.cells (a % size)), s)
  | .w a v =>
    (none, { s with cells := Py65.Spec.ObsMem.upd s.cells (a % size) v,
                    output := if a % size = O % size then s.output ++ [v] else s.output })

/-- Values read (`none` for stores), in order, and the final state. -/
def replay (size I O : Int) : SState → List MemEv → List (Option Int) × SState
  | s, [] => ([], s)
  | s, e :: es =>
    let r := step size I O s e
    let r2 := replay size I O r.2 es
    (r.1 :: r2.1, r2.2)

/-- The values stored to addresses congruent to `O`, in program order. -/
def storesTo (size O : Int) (evs : List MemEv) : List Int :=
  evs.filterMap fun e => match e with
    | .w a v => if a % size = O % size then some v else none
    | .r _ => none

/-- The number of loads from addresses congruent to `I`. -/
def loadsFrom (size I : Int) (evs : List MemEv) : Nat :=
  evs.countP fun e => match e with
    | .r a => a % size = I % size
    | .w _ _ => false

end Py65.Spec.MonIO
