/-
Spec.Asm — the documented assembler syntax and instruction encoding of the 6502 family, written
from the instruction tables of `Spec/Isa.lean` (MOS programming manual, W65C02S data sheet) and
the standard MOS assembler notation -- NOT from py65's assembler.  Oracle of C07 / C08.

Abstract statement: `(mnemonic, operand shape, value)` with the operand shapes

    none        NOP            acc   ASL A        imm    LDA #v
    dir   LDA v / BNE v        dirX  LDA v,X      dirY   LDA v,Y
    ind   JMP (v) / LDA (v)    indX  LDA (v,X)    indY   LDA (v),Y

`encode v W stmt pc`: the opcode byte of the first candidate addressing mode of the shape that
the variant declares for the mnemonic and whose operand field the value fits (zero-page form
before the absolute form), followed by the operand: one byte, or low byte then high byte, or --
for a relative branch -- the displacement `d` with `pc + 2 + d ≡ value (mod 2^(2W))` and
`-2^(W-1) ≤ d < 2^(W-1)`, as a `W`-bit two's-complement byte.  Everything else is refused:

    overflow   the value is outside the address space (outside the byte for `#v`), the branch
               target is out of reach, or the code would run past the top of memory
    syntax     the variant declares no addressing mode of that shape for the mnemonic that the
               value fits (unknown mnemonic included)
    key        (string level only) the operand names no value: unknown label, malformed number

C07 accepts any of the three refusal classes wherever a refusal is due; the class computed here is
informative.  Where a value below one page has both a zero-page and an absolute form, the
absolute form (`encodeAbs`) counts as documented too (`Documented`).

The second half is the concrete syntax: the tokeniser ("delimiters `( ) ,` and maximal
non-delimiter runs, white space dropped") and the token sequences of the nine shapes.  Two points
were corrected when the full soundness theorem `asm_sound` (Props/C07) was proved:
  * white space is every ASCII character `str.split()` splits at (space, \t \n \v \f \r,
    \x1c..\x1f), not only space and tab: `"LDA\n$10"` is `LDA $10`;
  * a character literal is ONE token: in a word that so far reads `#'` or `#"` the next character
    is taken as it stands even when it is a delimiter (`LDA #'('` is `LDA #$28`); white space still
    ends the word (`#' '` denotes nothing).

`W` is the byte width (8; 16 on the 65Org16), the address width is `2 W`.   No Mathlib.
-/
import Py65.Spec.Isa

namespace Py65.Spec.Asm
open Py65.Spec

abbrev Str := List Char

/-! ### mnemonics as they are spelled in the data sheets -/

def mnText : Mn → Str
  | .ADC => ['A', 'D', 'C']
  | .AND => ['A', 'N', 'D']
  | .ASL => ['A', 'S', 'L']
  | .BCC => ['B', 'C', 'C']
  | .BCS => ['B', 'C', 'S']
  | .BEQ => ['B', 'E', 'Q']
  | .BIT => ['B', 'I', 'T']
  | .BMI => ['B', 'M', 'I']
  | .BNE => ['B', 'N', 'E']
  | .BPL => ['B', 'P', 'L']
  | .BRK => ['B', 'R', 'K']
  | .BVC => ['B', 'V', 'C']
  | .BVS => ['B', 'V', 'S']
  | .CLC => ['C', 'L', 'C']
  | .CLD => ['C', 'L', 'D']
  | .CLI => ['C', 'L', 'I']
  | .CLV => ['C', 'L', 'V']
  | .CMP => ['C', 'M', 'P']
  | .CPX => ['C', 'P', 'X']
  | .CPY => ['C', 'P', 'Y']
  | .DEC => ['D', 'E', 'C']
  | .DEX => ['D', 'E', 'X']
  | .DEY => ['D', 'E', 'Y']
  | .EOR => ['E', 'O', 'R']
  | .INC => ['I', 'N', 'C']
  | .INX => ['I', 'N', 'X']
  | .INY => ['I', 'N', 'Y']
  | .JMP => ['J', 'M', 'P']
  | .JSR => ['J', 'S', 'R']
  | .LDA => ['L', 'D', 'A']
  | .LDX => ['L', 'D', 'X']
  | .LDY => ['L', 'D', 'Y']
  | .LSR => ['L', 'S', 'R']
  | .NOP => ['N', 'O', 'P']
  | .ORA => ['O', 'R', 'A']
  | .PHA => ['P', 'H', 'A']
  | .PHP => ['P', 'H', 'P']
  | .PLA => ['P', 'L', 'A']
  | .PLP => ['P', 'L', 'P']
  | .ROL => ['R', 'O', 'L']
  | .ROR => ['R', 'O', 'R']
  | .RTI => ['R', 'T', 'I']
  | .RTS => ['R', 'T', 'S']
  | .SBC => ['S', 'B', 'C']
  | .SEC => ['S', 'E', 'C']
  | .SED => ['S', 'E', 'D']
  | .SEI => ['S', 'E', 'I']
  | .STA => ['S', 'T', 'A']
  | .STX => ['S', 'T', 'X']
  | .STY => ['S', 'T', 'Y']
  | .TAX => ['T', 'A', 'X']
  | .TAY => ['T', 'A', 'Y']
  | .TSX => ['T', 'S', 'X']
  | .TXA => ['T', 'X', 'A']
  | .TXS => ['T', 'X', 'S']
  | .TYA => ['T', 'Y', 'A']
  | .BRA => ['B', 'R', 'A']
  | .PHX => ['P', 'H', 'X']
  | .PHY => ['P', 'H', 'Y']
  | .PLX => ['P', 'L', 'X']
  | .PLY => ['P', 'L', 'Y']
  | .STZ => ['S', 'T', 'Z']
  | .TRB => ['T', 'R', 'B']
  | .TSB => ['T', 'S', 'B']
  | .WAI => ['W', 'A', 'I']
  | .RMB n => ['R', 'M', 'B', Char.ofNat (48 + n)]      -- RMB0 … RMB7
  | .SMB n => ['S', 'M', 'B', Char.ofNat (48 + n)]      -- SMB0 … SMB7

/-- The opcode byte of `(mnemonic, mode)` on a variant: the first byte `0 … 255` that the
documented table decodes to an instruction spelled `m` with addressing mode `mo`. -/
def isRow (m : Str) (mo : Mode) : Option (Mn × Mode) → Bool
  | some (mn, mo') => mnText mn = m && mo' = mo
  | none => false

def rowIs (v : Variant) (m : Str) (mo : Mode) (n : Nat) : Bool := isRow m mo (decode v (n : Int))

def opcodeOf (v : Variant) (m : Str) (mo : Mode) : Option Nat :=
  let i := (List.range 256).findIdx (rowIs v m mo)      -- position in 0 … 255 = the byte itself
  if i < 256 then some i else none

/-! ### abstract statements -/

inductive Shape | none | acc | imm | dir | dirX | dirY | ind | indX | indY
  deriving DecidableEq, Repr, Inhabited

structure Stmt where
  mn : Str          -- the mnemonic, upper case
  shape : Shape
  val : Int         -- the operand value (ignored for `none` and `acc`)
  deriving DecidableEq, Repr

inductive Refusal | syntax | overflow | key
  deriving DecidableEq, Repr

inductive Outcome
  | ok (bytes : List Int)
  | refuse (r : Refusal)
  deriving DecidableEq, Repr

/-- The addressing modes an operand shape can denote, shortest encoding first. -/
def Shape.modes : Shape → List Mode
  | .none => [.imp, .acc]         -- `ASL` alone is `ASL A`
  | .acc => [.acc]
  | .imm => [.imm]
  | .dir => [.zpg, .abs, .rel]
  | .dirX => [.zpx, .abx]
  | .dirY => [.zpy, .aby]
  | .ind => [.zpi, .ind]
  | .indX => [.inx, .iax]
  | .indY => [.iny]

/-- Modes whose operand is a single zero-page address byte. -/
def isZp : Mode → Bool
  | .zpg | .zpx | .zpy | .inx | .iny | .zpi => true
  | _ => false

/-- The operand value is within what the shape can express at all: a byte for `#v`, an address
of the `2W`-bit address space otherwise. -/
def Shape.inRange (W : Nat) : Shape → Int → Bool
  | .none, _ | .acc, _ => true
  | .imm, x => decide (0 ≤ x ∧ x < 2 ^ W)
  | _, x => decide (0 ≤ x ∧ x < 2 ^ (2 * W))

/-- The value fits the operand field of the mode (given `inRange`). -/
def fits (W : Nat) (mo : Mode) (x : Int) : Bool :=
  if isZp mo then decide (x < 2 ^ W) else true

/-- Branch displacement: the representative of `target - (pc + 2)` modulo the address space in
`[-2^(2W-1), 2^(2W-1))`. -/
def disp (W : Nat) (target pc : Int) : Int :=
  let r := (target - (pc + 2)) % 2 ^ (2 * W)
  if r < 2 ^ (2 * W - 1) then r else r - 2 ^ (2 * W)

/-- Operand bytes of a mode (`none`: the branch target is out of reach). -/
def operandBytes (W : Nat) (mo : Mode) (x pc : Int) : Option (List Int) :=
  match mo with
  | .imp | .acc => some []
  | .imm | .zpg | .zpx | .zpy | .inx | .iny | .zpi => some [x]
  | .abs | .abx | .aby | .ind | .iax => some [x % 2 ^ W, x / 2 ^ W]
  | .rel =>
    let d := disp W x pc
    if -(2 ^ (W - 1)) ≤ d ∧ d < 2 ^ (W - 1) then some [d % 2 ^ W] else none

/-- Encode with the first usable mode of the list. -/
def encodeIn (v : Variant) (W : Nat) (m : Str) (x pc : Int) : List Mode → Outcome
  | [] => .refuse .syntax
  | mo :: rest =>
    match opcodeOf v m mo with
    | none => encodeIn v W m x pc rest
    | some op =>
      if fits W mo x then
        match operandBytes W mo x pc with
        | none => .refuse .overflow
        | some bs =>
          if pc + mo.len > 2 ^ (2 * W) then .refuse .overflow else .ok ((op : Int) :: bs)
      else encodeIn v W m x pc rest

/-- The documented encoding (zero-page form preferred) or the refusal. -/
def encode (v : Variant) (W : Nat) (s : Stmt) (pc : Int) : Outcome :=
  if s.shape.inRange W s.val then encodeIn v W s.mn s.val pc s.shape.modes
  else .refuse .overflow

/-- The same with the zero-page forms left out: the absolute twin. -/
def encodeAbs (v : Variant) (W : Nat) (s : Stmt) (pc : Int) : Outcome :=
  if s.shape.inRange W s.val then
    encodeIn v W s.mn s.val pc (s.shape.modes.filter fun mo => !isZp mo)
  else .refuse .overflow

/-- `bytes` is a documented encoding of the statement at `pc`. -/
def Documented (v : Variant) (W : Nat) (s : Stmt) (pc : Int) (bytes : List Int) : Prop :=
  encode v W s pc = .ok bytes ∨ encodeAbs v W s pc = .ok bytes

instance (v : Variant) (W : Nat) (s : Stmt) (pc : Int) (bytes : List Int) :
    Decidable (Documented v W s pc bytes) := by unfold Documented; infer_instance

/-- Some encoding exists. -/
def Encodable (v : Variant) (W : Nat) (s : Stmt) (pc : Int) : Prop :=
  ∃ bytes, encode v W s pc = .ok bytes

/-! ### decoding (for C08): the statement a byte sequence denotes -/

def shapeOf : Mode → Shape
  | .imp => .none | .acc => .acc | .imm => .imm
  | .zpg | .abs | .rel => .dir
  | .zpx | .abx => .dirX
  | .zpy | .aby => .dirY
  | .zpi | .ind => .ind
  | .inx | .iax => .indX
  | .iny => .indY

/-- Two's-complement reading of a `W`-bit value. -/
def signed (W : Nat) (b : Int) : Int := if b < 2 ^ (W - 1) then b else b - 2 ^ W

/-- The operand value denoted by the operand bytes `b1 b2` of an instruction at `pc`. -/
def operandValue (W : Nat) (mo : Mode) (pc b1 b2 : Int) : Int :=
  match mo with
  | .imp | .acc => 0
  | .imm | .zpg | .zpx | .zpy | .inx | .iny | .zpi => b1
  | .abs | .abx | .aby | .ind | .iax => b1 + b2 * 2 ^ W
  | .rel => (pc + 2 + signed W b1) % 2 ^ (2 * W)

/-- The statement denoted by the bytes `op b1 b2` at `pc` (`none`: undeclared opcode). -/
def decodeStmt (v : Variant) (W : Nat) (pc op b1 b2 : Int) : Option Stmt :=
  match decode v op with
  | some (mn, mo) => some { mn := mnText mn, shape := shapeOf mo, val := operandValue W mo pc b1 b2 }
  | none => none

/-- The first `len` bytes of `op b1 b2`. -/
def instrBytes (mo : Mode) (op b1 b2 : Int) : List Int :=
  (([op, b1, b2] : List Int).take mo.len.toNat)

/-! ### concrete syntax -/

inductive Tok
  | lparen | rparen | comma
  | word (s : Str)
  deriving DecidableEq, Repr

/-- White space between tokens: what `str.split()` / `\s` accept in ASCII -- space, \t \n \v \f \r
and the separators \x1c..\x1f. -/
def isBlank (c : Char) : Bool :=
  (c.toNat = 32 || (9 ≤ c.toNat && c.toNat ≤ 13)) || (28 ≤ c.toNat && c.toNat ≤ 31)
def isDelim (c : Char) : Bool := c = '(' || c = ')' || c = ','

/-- The word read so far (reversed) is `#'` or `#"`: the next character is the character of a
character literal. -/
def litOpen (cur : Str) : Bool := cur = ['\'', '#'] || cur = ['"', '#']

/-- ASCII upper-casing. -/
def upperC (c : Char) : Char :=
  if 97 ≤ c.toNat ∧ c.toNat ≤ 122 then Char.ofNat (c.toNat - 32) else c
def upperS (s : Str) : Str := s.map upperC

/-- Tokeniser: `( ) ,` are tokens, white space separates and is dropped, every maximal run of
other characters is one word; the character after `#'` / `#"` belongs to the word whatever it is
(white space excepted).  `cur` is the word being read, reversed. -/
def tokensAux : Str → Str → List Tok
  | [], cur => if cur = [] then [] else [.word cur.reverse]
  | c :: cs, cur =>
    let flush : List Tok := if cur = [] then [] else [.word cur.reverse]
    if isBlank c then flush ++ tokensAux cs []
    else if litOpen cur then tokensAux cs (c :: cur)
    else if c = '(' then flush ++ .lparen :: tokensAux cs []
    else if c = ')' then flush ++ .rparen :: tokensAux cs []
    else if c = ',' then flush ++ .comma :: tokensAux cs []
    else tokensAux cs (c :: cur)

def tokens (s : Str) : List Tok := tokensAux s []

def isX (w : Str) : Bool := w = ['X'] || w = ['x']
def isY (w : Str) : Bool := w = ['Y'] || w = ['y']
def isA (w : Str) : Bool := w = ['A'] || w = ['a']

/-- The operand shape and operand word denoted by the tokens after the mnemonic. -/
def parseOperand : List Tok → Option (Shape × Str)
  | [] => some (.none, [])
  | [.word w] =>
    if isA w then some (.acc, [])
    else match w with
      | '#' :: r => some (.imm, r)
      | _ => some (.dir, w)
  | [.word w, .comma, .word r] =>
    if isX r then some (.dirX, w) else if isY r then some (.dirY, w) else none
  | [.lparen, .word w, .rparen] => some (.ind, w)
  | [.lparen, .word w, .comma, .word r, .rparen] => if isX r then some (.indX, w) else none
  | [.lparen, .word w, .rparen, .comma, .word r] => if isY r then some (.indY, w) else none
  | _ => none

/-- The character a character-literal operand word denotes: `'c'`, `"c"`; the closing quote may be
missing (`'c`: py65 accepts it, the "either" zone of the property). -/
def charLit (w : Str) : Option Char :=
  match w with
  | q :: c :: r => if (q = '\'' ∨ q = '"') ∧ (r = [] ∨ r = [q]) then some c else none
  | _ => none

/-- A statement text denotes `(mnemonic upper-cased, shape, operand word)`. -/
def parse (s : Str) : Option (Str × Shape × Str) :=
  match tokens s with
  | .word m :: rest =>
    match parseOperand rest with
    | some (sh, w) => some (upperS m, sh, w)
    | none => none
  | _ => none

end Py65.Spec.Asm
