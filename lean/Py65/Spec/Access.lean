/-
Spec.Access — the data-memory accesses each instruction's definition implies (C12), as an
ordered list (the property compares multisets).  Same conventions as `Spec.Cpu.exec`:
`s.pc` is the address of the first operand byte.  Opcode/operand-stream fetches are *not*
in this list; they are described by `operandAddrs`.   No Mathlib.
-/
import Py65.Spec.Cpu

namespace Py65.Spec

inductive Acc where
  | r (addr : Int)
  | w (addr : Int)
  deriving DecidableEq, Repr, Inhabited

/-- Which mnemonics read their operand cell and only read it. -/
def Mn.isRead : Mn → Bool
  | .LDA | .LDX | .LDY | .AND | .ORA | .EOR | .BIT | .ADC | .SBC | .CMP | .CPX | .CPY => true
  | _ => false

def Mn.isStore : Mn → Bool
  | .STA | .STX | .STY | .STZ => true
  | _ => false

/-- read-modify-write on memory (when the mode is not `acc`) -/
def Mn.isRmw : Mn → Bool
  | .ASL | .LSR | .ROL | .ROR | .INC | .DEC | .TSB | .TRB | .RMB _ | .SMB _ => true
  | _ => false

/-- Pointer bytes read while forming the effective address. -/
def pointerReads (W : Nat) (mo : Mode) (s : AState) : List Acc :=
  match mo with
  | .inx => let z := (opnd1 s + s.x) % BM W; [.r z, .r ((z + 1) % BM W)]
  | .iny | .zpi => let z := opnd1 s; [.r z, .r ((z + 1) % BM W)]
  | _ => []

def stackAddr (W : Nat) (sp : Int) : Int := BM W + sp

def dataAccesses (W : Nat) (v : Variant) (mn : Mn) (mo : Mode) (s : AState) : List Acc :=
  let e := ea W mo s
  let up (k : Int) := stackAddr W ((s.sp + k) % BM W)      -- cells pulled
  let dn (k : Int) := stackAddr W ((s.sp - k) % BM W)      -- cells pushed
  match mn with
  | .PHA | .PHX | .PHY | .PHP => [.w (dn 0)]
  | .PLA | .PLX | .PLY | .PLP => [.r (up 1)]
  | .JSR => [.w (dn 0), .w (dn 1)]
  | .RTS => [.r (up 1), .r (up 2)]
  | .RTI => [.r (up 1), .r (up 2), .r (up 3)]
  | .BRK => [.w (dn 0), .w (dn 1), .w (dn 2), .r irqVector, .r (irqVector + 1)]
  | .JMP =>
    match mo with
    | .ind =>
      let ptr := opnd16 W s
      let hi := match v with
        | .nmos => ptr - ptr % BM W + (ptr + 1) % BM W
        | .cmos => (ptr + 1) % AM W
      [.r ptr, .r hi]
    | .iax => let ptr := (opnd16 W s + s.x) % AM W; [.r ptr, .r ((ptr + 1) % AM W)]
    | _ => []
  | _ =>
    match mo with
    | .imm | .imp | .acc | .rel => []
    | _ =>
      pointerReads W mo s ++
        (if mn.isRead then [.r e]
         else if mn.isStore then [.w e]
         else if mn.isRmw then [.r e, .w e]
         else [])

/-- Addresses of the operand bytes following the opcode (each may be fetched at most once). -/
def operandAddrs (W : Nat) (mo : Mode) (s : AState) : List Int :=
  if mo.len = 2 then [s.pc] else if mo.len = 3 then [s.pc, (s.pc + 1) % AM W] else []

def interruptAccesses (W : Nat) (vector : Int) (s : AState) : List Acc :=
  [.w (stackAddr W s.sp), .w (stackAddr W ((s.sp - 1) % BM W)), .w (stackAddr W ((s.sp - 2) % BM W)),
   .r vector, .r (vector + 1)]

end Py65.Spec
