/-
Spec.Cycles — documented cycle counts (MOS programming manual appendix; W65C02S data sheet
table 5-1/6-4 for the CMOS additions), by mnemonic and addressing mode, plus the two
documented variable terms:
  +1 when an *indexed read* (abs,X / abs,Y / (zp),Y) crosses a page;
  +1 for a taken branch, +1 more when the branch lands in another page than the next instruction.
The property's formula is taken literally: the W65C02S's extra decimal-mode cycle is not in it.
`s.pc` = address of the first operand byte, as in `Spec.Cpu.exec`.   No Mathlib.
-/
import Py65.Spec.Access

namespace Py65.Spec

def baseCycles (v : Variant) (mn : Mn) (mo : Mode) : Int :=
  match mn with
  | .BRK => 7
  | .JSR | .RTS | .RTI => 6
  | .PHA | .PHP | .PHX | .PHY => 3
  | .PLA | .PLP | .PLX | .PLY => 4
  | .WAI => 3
  | .JMP => (match mo with | .abs => 3 | .ind => (match v with | .nmos => 5 | .cmos => 6) | _ => 6)
  | .BCC | .BCS | .BEQ | .BNE | .BMI | .BPL | .BVC | .BVS => 2
  | .BRA => 3
  | .STA | .STX | .STY | .STZ =>
    (match mo with
     | .zpg => 3 | .zpx | .zpy | .abs => 4 | .abx | .aby => 5 | .inx | .iny => 6 | .zpi => 5 | _ => 2)
  | .ASL | .LSR | .ROL | .ROR | .INC | .DEC =>
    (match mo with | .acc => 2 | .zpg => 5 | .zpx | .abs => 6 | .abx => 7 | _ => 2)
  | .TSB | .TRB => (match mo with | .zpg => 5 | _ => 6)
  | .RMB _ | .SMB _ => 5
  | _ =>
    if mn.isRead then
      (match mo with
       | .imm => 2 | .zpg => 3 | .zpx | .zpy | .abs | .abx | .aby => 4 | .inx => 6
       | .iny | .zpi => 5 | _ => 2)
    else 2      -- implied one-byte register/flag operations, NOP

/-- Page of an address. -/
def page (W : Nat) (a : Int) : Int := a / BM W

/-- Does forming the effective address of an indexed read cross a page? -/
def readCrosses (W : Nat) (mo : Mode) (s : AState) : Bool :=
  match mo with
  | .abx => decide (page W (opnd16 W s) ≠ page W ((opnd16 W s + s.x) % AM W))
  | .aby => decide (page W (opnd16 W s) ≠ page W ((opnd16 W s + s.y) % AM W))
  | .iny => decide (page W (zpPtr W s (opnd1 s)) ≠ page W ((zpPtr W s (opnd1 s) + s.y) % AM W))
  | _ => false

def isBranch : Mn → Bool
  | .BCC | .BCS | .BEQ | .BNE | .BMI | .BPL | .BVC | .BVS | .BRA => true
  | _ => false

/-- Cycles of one instruction (state after the opcode fetch). -/
def instrCycles (W : Nat) (v : Variant) (mn : Mn) (mo : Mode) (s : AState) : Int :=
  baseCycles v mn mo
  + (if mn.isRead ∧ readCrosses W mo s then 1 else 0)
  + (if isBranch mn ∧ branchCond W mn s.p then
       (if mn = .BRA then 0 else 1)        -- BRA's base count already is the taken count
       + (if page W (branchTarget W s) ≠ page W (nextPc W mo s) then 1 else 0)
     else 0)

def stepCycles (W : Nat) (v : Variant) (s : AState) : Int :=
  if s.waiting then 1 else
  match decode v (s.mem s.pc) with
  | some (mn, mo) => instrCycles W v mn mo { s with pc := (s.pc + 1) % AM W }
  | none => 0

def irqCycles (s : AState) : Int := if flag s.p bitI then 0 else 7
def nmiCycles : Int := 7

end Py65.Spec
