/-
Spec side of C16: the vocabulary the property statements of `Py65/Props/C16.lean` use, written from
the property text ("exactly the addressed cells", "a one-address range extends to the length of
the list", "parsed back"), plus the memory object the monitor really builds.  No Mathlib import
(the driver uses `monReply` / `monMem`).
-/
import Py65.Model.MonMem
import Py65.Spec.ObsMem

namespace Py65.Spec.MonMem
open Py65.Model.PyStr Py65.Model.AddrParser Py65.Model.ObsMem Py65.Model.MonMem Py65.Spec.ObsMem

/-! ### the monitor's memory object -/

/-- What the monitor's two callbacks answer: putc (callback 1, subscribed to writes of `$F001`)
returns nothing; getc (callback 2, subscribed to reads of `$F004`) returns the pending input byte
or 0 -- here: no input pending. -/
def monReply : Reply := fun cb _ _ _ => if cb = 2 then some 0 else none

/-- `_install_mpu_observers`: `ObservableMemory(addrWidth=…)` with putc on `$F001`, getc on `$F004`. -/
def monMem (AW : Nat) (cells : Int → Int) : OM :=
  subscribeRead (subscribeWrite (init AW cells) [0xF001] 1) [0xF004] 2

/-! ### hypotheses about the memory -/

/-- Every write subscriber of the memory always answers `None` (the monitor's only write
subscriber is putc, which returns nothing): a write stores the value it is given. -/
def WQuiet (reply : Reply) (m : OM) : Prop :=
  ∀ a, ∀ cb ∈ m.wsubs.of a, ∀ i x v, reply cb i x v = none

/-- No read subscriber at the physical cells of the addresses `a … b` (true of every range that
avoids the getc register): a read returns the cell. -/
def NoReadSubs (m : OM) (a b : Int) : Prop :=
  ∀ x, a ≤ x → x ≤ b → m.rsubs.of (phys m.physMask x) = []

/-- `m'` is `m` up to cell contents and call log. -/
def SameShape (m m' : OM) : Prop :=
  m'.physMask = m.physMask ∧ m'.subjLen = m.subjLen ∧ m'.rsubs = m.rsubs ∧ m'.wsubs = m.wsubs

/-! ### ranges and data -/

/-- The end address `_fill` works with: a one-address range extends to the length of the data,
clipped at the top of the address space; any other range is taken as it is. -/
def fillStop (d : Dev) (start stop : Int) (n : Nat) : Int :=
  if start = stop then (if start + (n : Int) - 1 > d.addrMask then d.addrMask else start + (n : Int) - 1)
  else stop

/-- The data tokens `pieces` spell the values `data`, none wider than a byte of the device. -/
def PiecesOk (d : Dev) (P : Parser) : List Str → List Int → Prop
  | [], [] => True
  | piece :: ps, v :: vs => numberL P piece = .ok v ∧ v ≤ d.byteMask ∧ PiecesOk d P ps vs
  | _, _ => False

/-- The addresses `a, a+1, …, b` (`list(range(a, b + 1))`). -/
def addrRange (a b : Int) : List Int := (List.range (b + 1 - a).toNat).map fun (i : Nat) => a + (i : Int)

/-! ### `mem` output -/

/-- The text of one printed line holding `bytes` from `addr` on: `addrFmt % addr + ":"` followed by
`"  " + byteFmt % b` for every byte. -/
def mkLine (d : Dev) (addr : Int) (bytes : List Int) : Str :=
  fmtHexInt d.addrFmtW addr ++ [':'] ++ bytes.flatMap fun b => ' ' :: ' ' :: fmtHexInt d.byteFmtW b

/-- The groups read back from a `mem` output are labelled consecutively from `a`: every line's
address is the address of its first byte (an address-only line is labelled with the address of the
byte that follows). -/
def GroupsFrom : Int → List (Int × List Int) → Prop
  | _, [] => True
  | a, (addr, bytes) :: rest => addr = a ∧ GroupsFrom (a + bytes.length) rest

end Py65.Spec.MonMem
