/-
Spec.Isa — the documented instruction sets, transcribed from the MOS 6502 programming manual
(151 opcodes) and the WDC W65C02S data sheet (the CMOS extensions py65 implements), by opcode.
Written independently of py65's tables; `Props/C14.lean` proves the generated tables equal it.
The 65Org16 has exactly the NMOS set.   No Mathlib.
-/
namespace Py65.Spec

inductive Variant | nmos | cmos
  deriving DecidableEq, Repr, Inhabited

inductive Mode | imp | acc | imm | zpg | zpx | zpy | abs | abx | aby | ind | inx | iny | rel | zpi | iax
  deriving DecidableEq, Repr, Inhabited

inductive Mn
  | ADC | AND | ASL | BCC | BCS | BEQ | BIT | BMI | BNE | BPL | BRK | BVC | BVS | CLC | CLD | CLI
  | CLV | CMP | CPX | CPY | DEC | DEX | DEY | EOR | INC | INX | INY | JMP | JSR | LDA | LDX | LDY
  | LSR | NOP | ORA | PHA | PHP | PLA | PLP | ROL | ROR | RTI | RTS | SBC | SEC | SED | SEI | STA
  | STX | STY | TAX | TAY | TSX | TXA | TXS | TYA
  -- W65C02S
  | BRA | PHX | PHY | PLX | PLY | STZ | TRB | TSB | WAI | RMB (bit : Nat) | SMB (bit : Nat)
  deriving DecidableEq, Repr, Inhabited

def nmosTable : List (Int × Mn × Mode) := [
  (0x00, .BRK, .imp), (0x01, .ORA, .inx), (0x05, .ORA, .zpg), (0x06, .ASL, .zpg),
  (0x08, .PHP, .imp), (0x09, .ORA, .imm), (0x0a, .ASL, .acc), (0x0d, .ORA, .abs),
  (0x0e, .ASL, .abs), (0x10, .BPL, .rel), (0x11, .ORA, .iny), (0x15, .ORA, .zpx),
  (0x16, .ASL, .zpx), (0x18, .CLC, .imp), (0x19, .ORA, .aby), (0x1d, .ORA, .abx),
  (0x1e, .ASL, .abx), (0x20, .JSR, .abs), (0x21, .AND, .inx), (0x24, .BIT, .zpg),
  (0x25, .AND, .zpg), (0x26, .ROL, .zpg), (0x28, .PLP, .imp), (0x29, .AND, .imm),
  (0x2a, .ROL, .acc), (0x2c, .BIT, .abs), (0x2d, .AND, .abs), (0x2e, .ROL, .abs),
  (0x30, .BMI, .rel), (0x31, .AND, .iny), (0x35, .AND, .zpx), (0x36, .ROL, .zpx),
  (0x38, .SEC, .imp), (0x39, .AND, .aby), (0x3d, .AND, .abx), (0x3e, .ROL, .abx),
  (0x40, .RTI, .imp), (0x41, .EOR, .inx), (0x45, .EOR, .zpg), (0x46, .LSR, .zpg),
  (0x48, .PHA, .imp), (0x49, .EOR, .imm), (0x4a, .LSR, .acc), (0x4c, .JMP, .abs),
  (0x4d, .EOR, .abs), (0x4e, .LSR, .abs), (0x50, .BVC, .rel), (0x51, .EOR, .iny),
  (0x55, .EOR, .zpx), (0x56, .LSR, .zpx), (0x58, .CLI, .imp), (0x59, .EOR, .aby),
  (0x5d, .EOR, .abx), (0x5e, .LSR, .abx), (0x60, .RTS, .imp), (0x61, .ADC, .inx),
  (0x65, .ADC, .zpg), (0x66, .ROR, .zpg), (0x68, .PLA, .imp), (0x69, .ADC, .imm),
  (0x6a, .ROR, .acc), (0x6c, .JMP, .ind), (0x6d, .ADC, .abs), (0x6e, .ROR, .abs),
  (0x70, .BVS, .rel), (0x71, .ADC, .iny), (0x75, .ADC, .zpx), (0x76, .ROR, .zpx),
  (0x78, .SEI, .imp), (0x79, .ADC, .aby), (0x7d, .ADC, .abx), (0x7e, .ROR, .abx),
  (0x81, .STA, .inx), (0x84, .STY, .zpg), (0x85, .STA, .zpg), (0x86, .STX, .zpg),
  (0x88, .DEY, .imp), (0x8a, .TXA, .imp), (0x8c, .STY, .abs), (0x8d, .STA, .abs),
  (0x8e, .STX, .abs), (0x90, .BCC, .rel), (0x91, .STA, .iny), (0x94, .STY, .zpx),
  (0x95, .STA, .zpx), (0x96, .STX, .zpy), (0x98, .TYA, .imp), (0x99, .STA, .aby),
  (0x9a, .TXS, .imp), (0x9d, .STA, .abx), (0xa0, .LDY, .imm), (0xa1, .LDA, .inx),
  (0xa2, .LDX, .imm), (0xa4, .LDY, .zpg), (0xa5, .LDA, .zpg), (0xa6, .LDX, .zpg),
  (0xa8, .TAY, .imp), (0xa9, .LDA, .imm), (0xaa, .TAX, .imp), (0xac, .LDY, .abs),
  (0xad, .LDA, .abs), (0xae, .LDX, .abs), (0xb0, .BCS, .rel), (0xb1, .LDA, .iny),
  (0xb4, .LDY, .zpx), (0xb5, .LDA, .zpx), (0xb6, .LDX, .zpy), (0xb8, .CLV, .imp),
  (0xb9, .LDA, .aby), (0xba, .TSX, .imp), (0xbc, .LDY, .abx), (0xbd, .LDA, .abx),
  (0xbe, .LDX, .aby), (0xc0, .CPY, .imm), (0xc1, .CMP, .inx), (0xc4, .CPY, .zpg),
  (0xc5, .CMP, .zpg), (0xc6, .DEC, .zpg), (0xc8, .INY, .imp), (0xc9, .CMP, .imm),
  (0xca, .DEX, .imp), (0xcc, .CPY, .abs), (0xcd, .CMP, .abs), (0xce, .DEC, .abs),
  (0xd0, .BNE, .rel), (0xd1, .CMP, .iny), (0xd5, .CMP, .zpx), (0xd6, .DEC, .zpx),
  (0xd8, .CLD, .imp), (0xd9, .CMP, .aby), (0xdd, .CMP, .abx), (0xde, .DEC, .abx),
  (0xe0, .CPX, .imm), (0xe1, .SBC, .inx), (0xe4, .CPX, .zpg), (0xe5, .SBC, .zpg),
  (0xe6, .INC, .zpg), (0xe8, .INX, .imp), (0xe9, .SBC, .imm), (0xea, .NOP, .imp),
  (0xec, .CPX, .abs), (0xed, .SBC, .abs), (0xee, .INC, .abs), (0xf0, .BEQ, .rel),
  (0xf1, .SBC, .iny), (0xf5, .SBC, .zpx), (0xf6, .INC, .zpx), (0xf8, .SED, .imp),
  (0xf9, .SBC, .aby), (0xfd, .SBC, .abx), (0xfe, .INC, .abx)
]

def cmosExtTable : List (Int × Mn × Mode) := [
  (0x04, .TSB, .zpg), (0x07, .RMB 0, .zpg), (0x0c, .TSB, .abs), (0x12, .ORA, .zpi),
  (0x14, .TRB, .zpg), (0x17, .RMB 1, .zpg), (0x1a, .INC, .acc), (0x1c, .TRB, .abs),
  (0x27, .RMB 2, .zpg), (0x32, .AND, .zpi), (0x34, .BIT, .zpx), (0x37, .RMB 3, .zpg),
  (0x3a, .DEC, .acc), (0x3c, .BIT, .abx), (0x47, .RMB 4, .zpg), (0x52, .EOR, .zpi),
  (0x57, .RMB 5, .zpg), (0x5a, .PHY, .imp), (0x64, .STZ, .zpg), (0x67, .RMB 6, .zpg),
  (0x72, .ADC, .zpi), (0x74, .STZ, .zpx), (0x77, .RMB 7, .zpg), (0x7a, .PLY, .imp),
  (0x7c, .JMP, .iax), (0x80, .BRA, .rel), (0x87, .SMB 0, .zpg), (0x89, .BIT, .imm),
  (0x92, .STA, .zpi), (0x97, .SMB 1, .zpg), (0x9c, .STZ, .abs), (0x9e, .STZ, .abx),
  (0xa7, .SMB 2, .zpg), (0xb2, .LDA, .zpi), (0xb7, .SMB 3, .zpg), (0xc7, .SMB 4, .zpg),
  (0xcb, .WAI, .imp), (0xd2, .CMP, .zpi), (0xd7, .SMB 5, .zpg), (0xda, .PHX, .imp),
  (0xe7, .SMB 6, .zpg), (0xf2, .SBC, .zpi), (0xf7, .SMB 7, .zpg), (0xfa, .PLX, .imp)
]

def lookup (t : List (Int × Mn × Mode)) (op : Int) : Option (Mn × Mode) :=
  match t with
  | [] => none
  | (o, mn, mo) :: rest => if o = op then some (mn, mo) else lookup rest op

/-- The instruction an opcode byte denotes on a variant (`none`: undeclared). -/
def decode (v : Variant) (op : Int) : Option (Mn × Mode) :=
  match v with
  | .nmos => lookup nmosTable op
  | .cmos => match lookup cmosExtTable op with
    | some r => some r
    | none => lookup nmosTable op

/-- Total length in bytes, by addressing mode. -/
def Mode.len : Mode → Int
  | .imp | .acc => 1
  | .imm | .zpg | .zpx | .zpy | .rel | .inx | .iny | .zpi => 2
  | .abs | .abx | .aby | .ind | .iax => 3

def Mode.name : Mode → String
  | .imp => "imp" | .acc => "acc" | .imm => "imm" | .zpg => "zpg" | .zpx => "zpx" | .zpy => "zpy"
  | .abs => "abs" | .abx => "abx" | .aby => "aby" | .ind => "ind" | .inx => "inx" | .iny => "iny"
  | .rel => "rel" | .zpi => "zpi" | .iax => "iax"

def Mn.name : Mn → String
  | .ADC => "ADC" | .AND => "AND" | .ASL => "ASL" | .BCC => "BCC" | .BCS => "BCS" | .BEQ => "BEQ" | .BIT => "BIT" | .BMI => "BMI"
  | .BNE => "BNE" | .BPL => "BPL" | .BRK => "BRK" | .BVC => "BVC" | .BVS => "BVS" | .CLC => "CLC" | .CLD => "CLD" | .CLI => "CLI"
  | .CLV => "CLV" | .CMP => "CMP" | .CPX => "CPX" | .CPY => "CPY" | .DEC => "DEC" | .DEX => "DEX" | .DEY => "DEY" | .EOR => "EOR"
  | .INC => "INC" | .INX => "INX" | .INY => "INY" | .JMP => "JMP" | .JSR => "JSR" | .LDA => "LDA" | .LDX => "LDX" | .LDY => "LDY"
  | .LSR => "LSR" | .NOP => "NOP" | .ORA => "ORA" | .PHA => "PHA" | .PHP => "PHP" | .PLA => "PLA" | .PLP => "PLP" | .ROL => "ROL"
  | .ROR => "ROR" | .RTI => "RTI" | .RTS => "RTS" | .SBC => "SBC" | .SEC => "SEC" | .SED => "SED" | .SEI => "SEI" | .STA => "STA"
  | .STX => "STX" | .STY => "STY" | .TAX => "TAX" | .TAY => "TAY" | .TSX => "TSX" | .TXA => "TXA" | .TXS => "TXS" | .TYA => "TYA"
  | .BRA => "BRA" | .PHX => "PHX" | .PHY => "PHY" | .PLX => "PLX" | .PLY => "PLY" | .STZ => "STZ" | .TRB => "TRB" | .TSB => "TSB"
  | .WAI => "WAI"
  | .RMB n => "RMB" ++ digit n
  | .SMB n => "SMB" ++ digit n
where digit (n : Nat) : String := String.singleton (Char.ofNat (48 + n))

/-- The (mnemonic, mode) names a device's `disassemble` table must hold for opcode `n`. -/
def tableEntry (v : Variant) (n : Nat) : String × String :=
  match decode v (Int.ofNat n) with
  | some (mn, mo) => (mn.name, mo.name)
  | none => ("???", "imp")

def expectedTable (v : Variant) : List (String × String) := (List.range 256).map (tableEntry v)

/-- number of declared opcodes -/
def declaredCount (v : Variant) : Nat := ((List.range 256).filter fun (n : Nat) => (decode v (Int.ofNat n)).isSome).length

end Py65.Spec
