/-
Spec.Cpu — the 6502 / 65C02 programming model, generalised over the byte width `W`
(8 for the 6502 and 65C02, 16 for the 65Org16: registers and cells `W` bits, addresses `2W`
bits, page zero the first `2^W` cells, stack page `2^W … 2^(W+1)-1`, N and V the top two bits
of the status word).

Written from the MOS programming manual and the W65C02S data sheet, *not* from py65's
formulas: arithmetic on integers (sums, signed ranges, `/` and `%`), every read taken from the
pre-state memory.  This file is the oracle of C01–C03, C06 and C09 and is part of the trusted
base.  It is executable (the failing-input search runs it against the real devices).

Conventions
* The status register is an integer whose bits 4 (B) and 5 (unused) are not architectural:
  an abstract state always has them set (`normP`), PHP/BRK push them set, IRQ/NMI push B clear.
* `exec` receives the state *after the opcode fetch*: `pc` is the address of the first operand
  byte, already reduced modulo the address space.
No Mathlib.
-/
import Py65.PyInt
import Py65.Spec.Isa

namespace Py65.Spec

structure AState where
  a : Int
  x : Int
  y : Int
  sp : Int
  p : Int
  pc : Int
  mem : Int → Int
  waiting : Bool

/-- Byte modulus `2^W` and address modulus `2^(2W)`. -/
@[reducible] def BM (W : Nat) : Int := 2 ^ W
@[reducible] def AM (W : Nat) : Int := 2 ^ (2 * W)

/-! ### Boolean comparisons (named, so that rewriting their arguments never has to touch a
`Decidable` instance) -/

def geB (a b : Int) : Bool := decide (a ≥ b)
def ltB (a b : Int) : Bool := decide (a < b)
def eqB (a b : Int) : Bool := decide (a = b)

/-! ### status flags -/

def flag (p : Int) (k : Nat) : Bool := eqB (p / 2 ^ k % 2) 1

def setFlag (p : Int) (k : Nat) (b : Bool) : Int :=
  p - (p / 2 ^ k % 2) * 2 ^ k + (if b then 2 ^ k else 0)

def bitC : Nat := 0
def bitZ : Nat := 1
def bitI : Nat := 2
def bitD : Nat := 3
def bitB : Nat := 4
def bitU : Nat := 5
def bitV (W : Nat) : Nat := W - 2
def bitN (W : Nat) : Nat := W - 1

/-- Bits 4 and 5 forced to one. -/
def normP (p : Int) : Int := setFlag (setFlag p bitB true) bitU true

/-- N from the top bit of a `W`-bit value, Z from its being zero. -/
def setNZ (W : Nat) (p v : Int) : Int :=
  setFlag (setFlag p (bitN W) (geB v (2 ^ (W - 1)))) bitZ (eqB v 0)

/-- Two's-complement reading of a `W`-bit value. -/
def signed (W : Nat) (b : Int) : Int := if b < 2 ^ (W - 1) then b else b - 2 ^ W

/-! ### memory -/

def write (s : AState) (addr v : Int) : AState :=
  { s with mem := fun k => if k = addr then v else s.mem k }

/-- little-endian word from two cell addresses -/
def word (W : Nat) (s : AState) (lo hi : Int) : Int := s.mem lo + s.mem hi * BM W

def push (W : Nat) (s : AState) (v : Int) : AState :=
  { write s (BM W + s.sp) v with sp := (s.sp - 1) % BM W }

/-- Pull: the value and the state with the incremented stack pointer. -/
def pull (W : Nat) (s : AState) : Int × AState :=
  let sp' := (s.sp + 1) % BM W
  (s.mem (BM W + sp'), { s with sp := sp' })

/-! ### operands and effective addresses (`s.pc` = address of the first operand byte) -/

def opnd1 (s : AState) : Int := s.mem s.pc
def opnd2 (W : Nat) (s : AState) : Int := s.mem ((s.pc + 1) % AM W)
def opnd16 (W : Nat) (s : AState) : Int := opnd1 s + opnd2 W s * BM W

/-- Pointer held in page zero at `z`, high byte from `(z+1) mod 2^W` (page-zero wrap). -/
def zpPtr (W : Nat) (s : AState) (z : Int) : Int := word W s z ((z + 1) % BM W)

def ea (W : Nat) (mo : Mode) (s : AState) : Int :=
  match mo with
  | .imm => s.pc
  | .zpg => opnd1 s
  | .zpx => (opnd1 s + s.x) % BM W
  | .zpy => (opnd1 s + s.y) % BM W
  | .abs => opnd16 W s
  | .abx => (opnd16 W s + s.x) % AM W
  | .aby => (opnd16 W s + s.y) % AM W
  | .inx => zpPtr W s ((opnd1 s + s.x) % BM W)
  | .iny => (zpPtr W s (opnd1 s) + s.y) % AM W
  | .zpi => zpPtr W s (opnd1 s)
  | _ => 0

/-- Address of the next instruction. -/
def nextPc (W : Nat) (mo : Mode) (s : AState) : Int := (s.pc + (mo.len - 1)) % AM W

/-! ### arithmetic -/

/-- Binary add with carry: result, carry out, signed overflow. -/
def addBin (W : Nat) (a m : Int) (c : Bool) : Int × Bool × Bool :=
  let ci : Int := if c then 1 else 0
  let sum := a + m + ci
  let ssum := signed W a + signed W m + ci
  (sum % BM W, geB sum (BM W), ltB ssum (-(2 ^ (W - 1))) || geB ssum (2 ^ (W - 1)))

/-- Binary subtract with borrow (`C` clear = borrow): `a - m - (1 - c)`. -/
def subBin (W : Nat) (a m : Int) (c : Bool) : Int × Bool × Bool :=
  let bi : Int := if c then 0 else 1
  let diff := a - m - bi
  let sdiff := signed W a - signed W m - bi
  (diff % BM W, geB diff 0, ltB sdiff (-(2 ^ (W - 1))) || geB sdiff (2 ^ (W - 1)))

def setCV (W : Nat) (p : Int) (c v : Bool) : Int :=
  setFlag (setFlag p bitC c) (bitV W) v

/-- Compare: C = reg ≥ m, N/Z from the `W`-bit difference. -/
def cmpFlags (W : Nat) (p reg m : Int) : Int :=
  setNZ W (setFlag p bitC (geB reg m)) ((reg - m) % BM W)

/-! ### one instruction -/

def irqVector : Int := 0xFFFE
def nmiVector : Int := 0xFFFA
def resetVector : Int := 0xFFFC

/-- The read-modify-write result and carry of the shift/rotate/inc/dec group. -/
def rmw (W : Nat) (mn : Mn) (v : Int) (cin : Bool) : Int × Option Bool :=
  match mn with
  | .ASL => ((v * 2) % BM W, some (geB v (2 ^ (W - 1))))
  | .LSR => (v / 2, some (eqB (v % 2) 1))
  | .ROL => ((v * 2 + (if cin then 1 else 0)) % BM W, some (geB v (2 ^ (W - 1))))
  | .ROR => (v / 2 + (if cin then 2 ^ (W - 1) else 0), some (eqB (v % 2) 1))
  | .INC => ((v + 1) % BM W, none)
  | .DEC => ((v - 1) % BM W, none)
  | _ => (v, none)

def branchCond (W : Nat) (mn : Mn) (p : Int) : Bool :=
  match mn with
  | .BCC => !flag p bitC | .BCS => flag p bitC
  | .BNE => !flag p bitZ | .BEQ => flag p bitZ
  | .BPL => !flag p (bitN W) | .BMI => flag p (bitN W)
  | .BVC => !flag p (bitV W) | .BVS => flag p (bitV W)
  | .BRA => true
  | _ => false

/-- Branch target: the address after the two-byte instruction plus the sign-extended operand. -/
def branchTarget (W : Nat) (s : AState) : Int :=
  ((s.pc + 1) + signed W (opnd1 s)) % AM W

def exec (W : Nat) (v : Variant) (mn : Mn) (mo : Mode) (s : AState) : AState :=
  let e := ea W mo s
  let m := s.mem e
  let np := nextPc W mo s
  let cin := flag s.p bitC
  match mn with
  -- loads / stores
  | .LDA => { s with a := m, p := setNZ W s.p m, pc := np }
  | .LDX => { s with x := m, p := setNZ W s.p m, pc := np }
  | .LDY => { s with y := m, p := setNZ W s.p m, pc := np }
  | .STA => { write s e s.a with pc := np }
  | .STX => { write s e s.x with pc := np }
  | .STY => { write s e s.y with pc := np }
  | .STZ => { write s e 0 with pc := np }
  -- logic
  | .AND => let r := Py.land s.a m; { s with a := r, p := setNZ W s.p r, pc := np }
  | .ORA => let r := Py.lor s.a m; { s with a := r, p := setNZ W s.p r, pc := np }
  | .EOR => let r := Py.lxor s.a m; { s with a := r, p := setNZ W s.p r, pc := np }
  | .BIT =>
    let pz := setFlag s.p bitZ (eqB (Py.land s.a m) 0)
    match mo with
    | .imm => { s with p := pz, pc := np }
    | _ => { s with p := setFlag (setFlag pz (bitN W) (flag m (bitN W))) (bitV W) (flag m (bitV W)),
                    pc := np }
  -- arithmetic (binary mode; decimal mode is Spec.Decimal / C04)
  | .ADC => let (r, c, ov) := addBin W s.a m cin
            { s with a := r, p := setNZ W (setCV W s.p c ov) r, pc := np }
  | .SBC => let (r, c, ov) := subBin W s.a m cin
            { s with a := r, p := setNZ W (setCV W s.p c ov) r, pc := np }
  | .CMP => { s with p := cmpFlags W s.p s.a m, pc := np }
  | .CPX => { s with p := cmpFlags W s.p s.x m, pc := np }
  | .CPY => { s with p := cmpFlags W s.p s.y m, pc := np }
  -- read-modify-write
  | .ASL | .LSR | .ROL | .ROR | .INC | .DEC =>
    let src := match mo with | .acc => s.a | _ => m
    let (r, co) := rmw W mn src cin
    let p1 := match co with | some c => setFlag s.p bitC c | none => s.p
    let p2 := setNZ W p1 r
    match mo with
    | .acc => { s with a := r, p := p2, pc := np }
    | _ => { write s e r with p := p2, pc := np }
  | .TSB => { write s e (Py.lor m s.a) with
              p := setFlag s.p bitZ (eqB (Py.land s.a m) 0), pc := np }
  | .TRB => { write s e (m - Py.land m s.a) with
              p := setFlag s.p bitZ (eqB (Py.land s.a m) 0), pc := np }
  | .RMB b => { write s e (m - (m / 2 ^ b % 2) * 2 ^ b) with pc := np }
  | .SMB b => { write s e (m - (m / 2 ^ b % 2) * 2 ^ b + 2 ^ b) with pc := np }
  -- register transfers, increments
  | .TAX => { s with x := s.a, p := setNZ W s.p s.a, pc := np }
  | .TAY => { s with y := s.a, p := setNZ W s.p s.a, pc := np }
  | .TXA => { s with a := s.x, p := setNZ W s.p s.x, pc := np }
  | .TYA => { s with a := s.y, p := setNZ W s.p s.y, pc := np }
  | .TSX => { s with x := s.sp, p := setNZ W s.p s.sp, pc := np }
  | .TXS => { s with sp := s.x, pc := np }
  | .INX => let r := (s.x + 1) % BM W; { s with x := r, p := setNZ W s.p r, pc := np }
  | .INY => let r := (s.y + 1) % BM W; { s with y := r, p := setNZ W s.p r, pc := np }
  | .DEX => let r := (s.x - 1) % BM W; { s with x := r, p := setNZ W s.p r, pc := np }
  | .DEY => let r := (s.y - 1) % BM W; { s with y := r, p := setNZ W s.p r, pc := np }
  -- flags
  | .CLC => { s with p := setFlag s.p bitC false, pc := np }
  | .SEC => { s with p := setFlag s.p bitC true, pc := np }
  | .CLI => { s with p := setFlag s.p bitI false, pc := np }
  | .SEI => { s with p := setFlag s.p bitI true, pc := np }
  | .CLD => { s with p := setFlag s.p bitD false, pc := np }
  | .SED => { s with p := setFlag s.p bitD true, pc := np }
  | .CLV => { s with p := setFlag s.p (bitV W) false, pc := np }
  | .NOP => { s with pc := np }
  -- stack
  | .PHA => { push W s s.a with pc := np }
  | .PHX => { push W s s.x with pc := np }
  | .PHY => { push W s s.y with pc := np }
  | .PHP => { push W s s.p with pc := np }
  | .PLA => let (r, s1) := pull W s; { s1 with a := r, p := setNZ W s.p r, pc := np }
  | .PLX => let (r, s1) := pull W s; { s1 with x := r, p := setNZ W s.p r, pc := np }
  | .PLY => let (r, s1) := pull W s; { s1 with y := r, p := setNZ W s.p r, pc := np }
  | .PLP => let (r, s1) := pull W s; { s1 with p := normP r, pc := np }
  -- control transfer
  | .BCC | .BCS | .BEQ | .BNE | .BMI | .BPL | .BVC | .BVS | .BRA =>
    if branchCond W mn s.p then { s with pc := branchTarget W s } else { s with pc := np }
  | .JMP =>
    match mo with
    | .abs => { s with pc := opnd16 W s }
    | .ind =>
      let ptr := opnd16 W s
      let hi := match v with
        | .nmos => ptr - ptr % BM W + (ptr + 1) % BM W     -- the page-boundary quirk
        | .cmos => (ptr + 1) % AM W
      { s with pc := word W s ptr hi }
    | .iax =>
      let ptr := (opnd16 W s + s.x) % AM W
      { s with pc := word W s ptr ((ptr + 1) % AM W) }
    | _ => s
  | .JSR =>
    let ret := (s.pc + 1) % AM W            -- address of the last byte of the JSR
    let s1 := push W s (ret / BM W)
    let s2 := push W s1 (ret % BM W)
    { s2 with pc := opnd16 W s }
  | .RTS =>
    let (lo, s1) := pull W s
    let (hi, s2) := pull W s1
    { s2 with pc := (lo + hi * BM W + 1) % AM W }
  | .RTI =>
    let (pp, s1) := pull W s
    let (lo, s2) := pull W s1
    let (hi, s3) := pull W s2
    { s3 with p := normP pp, pc := lo + hi * BM W }
  | .BRK =>
    let ret := (s.pc + 1) % AM W            -- opcode address + 2
    let s1 := push W s (ret / BM W)
    let s2 := push W s1 (ret % BM W)
    let s3 := push W s2 s.p                 -- B and the unused bit set
    let p1 := setFlag s.p bitI true
    let p2 := match v with | .cmos => setFlag p1 bitD false | .nmos => p1
    { s3 with p := p2, pc := word W s irqVector (irqVector + 1) }
  | .WAI => { s with waiting := true, pc := np }

/-- One `step()`. -/
def step (W : Nat) (v : Variant) (s : AState) : AState :=
  if s.waiting then s else
  match decode v (s.mem s.pc) with
  | some (mn, mo) => exec W v mn mo { s with pc := (s.pc + 1) % AM W }
  | none => { s with pc := (s.pc + 2) % AM W }      -- undeclared: only PC moves (C05)

/-- Hardware interrupt entry through `vector` (IRQ and NMI): push PCH, PCL, P with B clear;
set I; continue at the vector.  Ends a WAI. -/
def interrupt (W : Nat) (vector : Int) (s : AState) : AState :=
  let s1 := push W s (s.pc / BM W)
  let s2 := push W s1 (s.pc % BM W)
  let s3 := push W s2 (setFlag s.p bitB false)
  { s3 with p := setFlag s.p bitI true, pc := word W s vector (vector + 1), waiting := false }

def irq (W : Nat) (s : AState) : AState :=
  if flag s.p bitI then { s with waiting := false } else interrupt W irqVector s

def nmi (W : Nat) (s : AState) : AState := interrupt W nmiVector s

/-- Power-on/reset registers; PC from the configured start address or the reset vector. -/
def reset (W : Nat) (startPc : Option Int) (s : AState) : AState :=
  { s with a := 0, x := 0, y := 0, sp := BM W - 1, p := normP 0,
           pc := (match startPc with
                  | some a => a
                  | none => word W s resetVector (resetVector + 1)),
           waiting := false }

end Py65.Spec
