/-
Spec side of C10/C11: what "the subscribers of an address after a history" and "what a read / a
write must do with them" *mean*, written from the property text, not from `memory.py`.

* physical address = `a mod (physMask+1)` (arithmetic, not a bit operation);
* `subscribers k mask hist a` = the callbacks of those subscription operations of kind `k` in
  `hist` whose address collection contains an address with physical address `a`, in order of
  first registration, later duplicates dropped (`keepFirst`);
* `lastSome` = the last non-`None` answer;
* `seen … i` = the value the `i`-th write subscriber is shown: the written value as replaced by
  the non-`None` answers of subscribers `0 … i-1`.

No Mathlib import.
-/
import Py65.Model.ObsMem
import Py65.Machine

namespace Py65.Spec.ObsMem
open Py65.Model.ObsMem (Op Reply Ev OM)

inductive Kind where
  | read
  | write
  deriving DecidableEq, Repr

/-- The physical address an address aliases to. -/
def phys (mask a : Int) : Int := a % (mask + 1)

/-- `some cb` when `op` is a subscription of kind `k` that mentions physical address `a`. -/
def registered (k : Kind) (mask a : Int) : Op → Option Nat
  | .subR addrs cb => if k = .read ∧ a ∈ addrs.map (phys mask) then some cb else none
  | .subW addrs cb => if k = .write ∧ a ∈ addrs.map (phys mask) then some cb else none
  | _ => none

/-- Drop every element that occurred earlier in the list. -/
def keepFirst : List Nat → List Nat
  | [] => []
  | x :: xs => x :: (keepFirst xs).filter (· ≠ x)

/-- Subscribers of physical address `a` after history `hist`. -/
def subscribers (k : Kind) (mask : Int) (hist : List Op) (a : Int) : List Nat :=
  keepFirst (hist.filterMap (registered k mask a))

/-- The last non-`none` element. -/
def lastSome : List (Option Int) → Option Int
  | [] => none
  | x :: xs => match lastSome xs with
    | some v => some v
    | none => x

/-- Answers of the read subscribers `subs` of `a`, called in order starting at call index `n`. -/
def readReplies (reply : Reply) (subs : List Nat) (n : Nat) (a : Int) : List (Option Int) :=
  (List.range subs.length).map fun i => reply (subs.getD i 0) (n + i) a none

/-- The value shown to the `i`-th write subscriber of `a` (and, for `i = subs.length`, the value
finally stored) when `v` is written and the calls start at call index `n`. -/
def seen (reply : Reply) (subs : List Nat) (n : Nat) (a v : Int) : Nat → Int
  | 0 => v
  | i + 1 =>
    match reply (subs.getD i 0) (n + i) a (some (seen reply subs n a v i)) with
    | some r => r
    | none => seen reply subs n a v i

/-- Pointwise update of a total function. -/
def upd (f : Int → Int) (a v : Int) : Int → Int := fun k => if k = a then v else f k

/-- The states the theorems talk about: one of the two physical sizes `ObservableMemory`
configures, and a backing list at least that long (true of `init`, kept by every operation). -/
def WF (m : OM) : Prop :=
  (m.physMask = 0xffff ∨ m.physMask = 0x3ffff) ∧ m.physMask + 1 ≤ m.subjLen

/-! ### C11: observation that answers `None` -/

/-- Every callback subscribed anywhere on `m` always answers `None` (in particular: there are
no subscribers at all). -/
def Quiet (reply : Reply) (m : OM) : Prop :=
  ∀ a cb, (cb ∈ m.rsubs.of a ∨ cb ∈ m.wsubs.of a) → ∀ i x v, reply cb i x v = none

/-- An item access at an address a device can produce: `0 ≤ addr ≤ physMask`. -/
def InRange (mask : Int) : MemEv → Prop
  | .r a => 0 ≤ a ∧ a ≤ mask
  | .w a _ => 0 ≤ a ∧ a ≤ mask

instance (mask : Int) (e : MemEv) : Decidable (InRange mask e) := by
  cases e <;> unfold InRange <;> exact inferInstance

/-- One access on a plain memory (a Python list seen as a function): value read, if any. -/
def plainStep (mem : Int → Int) : MemEv → Option Int × (Int → Int)
  | .r a => (some (mem a), mem)
  | .w a v => (none, upd mem a v)

/-- The same access on an `ObservableMemory`. -/
def obsStep (reply : Reply) (m : OM) : MemEv → Option Int × OM
  | .r a => let r := Py65.Model.ObsMem.get reply m a; (some r.1, r.2)
  | .w a v => (none, Py65.Model.ObsMem.set reply m a v)

def replayPlain : (Int → Int) → List MemEv → List (Option Int) × (Int → Int)
  | mem, [] => ([], mem)
  | mem, e :: es =>
    let r := plainStep mem e
    let r2 := replayPlain r.2 es
    (r.1 :: r2.1, r2.2)

def replayObs (reply : Reply) : OM → List MemEv → List (Option Int) × OM
  | m, [] => ([], m)
  | m, e :: es =>
    let r := obsStep reply m e
    let r2 := replayObs reply r.2 es
    (r.1 :: r2.1, r2.2)

end Py65.Spec.ObsMem
