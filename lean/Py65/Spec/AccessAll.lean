/-
Spec.AccessAll — everything one instruction does to memory after its opcode fetch (C12): the
operand-stream bytes it fetches plus the data accesses of `Spec.Access`.  No Mathlib.
-/
import Py65.Spec.Access

namespace Py65.Spec

/-- Operand-stream bytes the instruction actually fetches (each once): all of them, except that an
untaken branch does not look at its displacement. -/
def fetched (W : Nat) (mn : Mn) (mo : Mode) (s : AState) : List Int :=
  match mo with
  | .rel => if branchCond W mn s.p then [s.pc] else []
  | _ => operandAddrs W mo s

/-- Operand fetches, then the data accesses the instruction's definition implies.  The property
compares this as a multiset. -/
def instrAccesses (W : Nat) (v : Variant) (mn : Mn) (mo : Mode) (s : AState) : List Acc :=
  (fetched W mn mo s).map Acc.r ++ dataAccesses W v mn mo s

end Py65.Spec
