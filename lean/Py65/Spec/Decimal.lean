/-
Spec.Decimal — decimal-mode ADC/SBC as documented by Bruce Clark ("Decimal Mode", 6502.org,
Appendix A), transcribed as arithmetic on integers.  NMOS 6502: Seq. 1 (A, C) + Seq. 2 (N, V) with
Z from the binary sum for ADC; Seq. 3 (A) with C N V Z as in binary mode for SBC.  65C02: Seq. 1 /
Seq. 4 for A, C and V as on the NMOS part, N and Z from the decimal result.   No Mathlib.
-/
namespace Py65.Spec.Decimal

structure Res where
  a : Int
  c : Bool
  n : Bool
  v : Bool
  z : Bool
  deriving DecidableEq, Repr

def s8 (b : Int) : Int := if b < 128 then b else b - 256

/-- NMOS ADC, decimal mode. -/
def adcNmos (a b : Int) (c : Bool) : Res :=
  let ci : Int := if c then 1 else 0
  -- Seq. 1
  let al0 := a % 16 + b % 16 + ci
  let al := if al0 ≥ 10 then (al0 + 6) % 16 + 16 else al0
  let r0 := (a / 16) * 16 + (b / 16) * 16 + al
  let r := if r0 ≥ 160 then r0 + 96 else r0
  -- Seq. 2 (signed)
  let sr := s8 ((a / 16) * 16) + s8 ((b / 16) * 16) + al
  { a := r % 256, c := decide (r ≥ 256),
    n := decide (sr % 256 ≥ 128), v := decide (sr < -128 ∨ sr > 127),
    z := decide ((a + b + ci) % 256 = 0) }

/-- NMOS SBC, decimal mode: A by Seq. 3, flags as in binary mode. -/
def sbcNmos (a b : Int) (c : Bool) : Res :=
  let bi : Int := if c then 0 else 1
  let al0 := a % 16 - b % 16 - bi
  let al := if al0 < 0 then (al0 - 6) % 16 - 16 else al0
  let r0 := (a / 16) * 16 - (b / 16) * 16 + al
  let r := if r0 < 0 then r0 - 96 else r0
  let d := a - b - bi
  let sd := s8 a - s8 b - bi
  { a := r % 256, c := decide (d ≥ 0),
    n := decide (d % 256 ≥ 128), v := decide (sd < -128 ∨ sd > 127),
    z := decide (d % 256 = 0) }

def validBcd (x : Int) : Bool := decide (0 ≤ x ∧ x < 256 ∧ x % 16 < 10 ∧ x / 16 < 10)

/-- 65C02: accumulator, C and V as the NMOS sequences give them (they coincide with Seq. 1/4 on valid
BCD); N and Z reflect the decimal result. -/
def adcCmos (a b : Int) (c : Bool) : Res :=
  let r := adcNmos a b c
  { r with n := decide (r.a ≥ 128), z := decide (r.a = 0) }

def sbcCmos (a b : Int) (c : Bool) : Res :=
  let bi : Int := if c then 0 else 1
  -- Seq. 4
  let al := a % 16 - b % 16 - bi
  let r0 := a - b - bi
  let r1 := if r0 < 0 then r0 - 96 else r0
  let r2 := if al < 0 then r1 - 6 else r1
  let n := sbcNmos a b c
  { n with a := r2 % 256, n := decide (r2 % 256 ≥ 128), z := decide (r2 % 256 = 0) }

/-- On valid BCD operands the NMOS result is the two-digit decimal sum with decimal carry. -/
def bcdVal (x : Int) : Int := (x / 16) * 10 + x % 16

end Py65.Spec.Decimal
