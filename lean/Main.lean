/-
Line-protocol driver: one request per line on stdin, one canonical reply per line on stdout.
Built as a `lean_exe` (nothing below imports Mathlib).
-/
import Py65.Driver.Cpu

open Py65 Py65.Driver

def pyint (args : List String) : String :=
  match args with
  | [op, a, b] =>
    let x := parseInt! a; let y := parseInt! b
    match op with
    | "and" => toString (Py.land x y)
    | "or" => toString (Py.lor x y)
    | "xor" => toString (Py.lxor x y)
    | "not" => toString (Py.lnot x)
    | "shl" => toString (Py.shl x y.toNat)
    | "shr" => toString (Py.shr x y.toNat)
    | "div" => toString (x / y)
    | "mod" => toString (x % y)
    | _ => "bad-op"
  | _ => "bad-op"

def handle (line : String) : String :=
  match (line.trimAscii.toString.splitOn " ").filter (· ≠ "") with
  | "cpu" :: rest => runCpu rest
  | "pyint" :: rest => pyint rest
  | "bg" :: [seed, w, addr] => toString (bg (parseInt! seed) (parseInt! w).toNat (parseInt! addr))
  | _ => "bad-op"

partial def loop (h : IO.FS.Stream) (out : IO.FS.Stream) : IO Unit := do
  let line ← h.getLine
  if line.isEmpty then return ()
  out.putStrLn (handle line)
  loop h out

def main : IO Unit := do
  let out ← IO.getStdout
  loop (← IO.getStdin) out
  out.flush
