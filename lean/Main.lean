/-
Line-protocol driver: one request per line on stdin, one canonical reply per line on stdout.
Built as a `lean_exe` (nothing below imports Mathlib).
-/
import Py65.Driver.Cpu
import Py65.Driver.Handle
import Py65.Driver.MonRun
import Py65.Driver.Rt

open Py65 Py65.Driver

def handle (line : String) : String :=
  match tokens line with
  | "cpu" :: rest => runCpu rest
  | "run" :: rest => runMonRun rest
  | "rt" :: rest => Rt.runRt rest          -- one call of one library helper (harness/rtcheck.py)
  | toks => (handleBase toks).getD "bad-op"

def main : IO Unit := do
  let out ← IO.getStdout
  loop handle (← IO.getStdin) out
  out.flush
