#!/bin/sh
# usage: ./chk.sh Py65/Proofs/Foo.lean  -- build imports, then check the file, terse output
f="$1"
mods=$(grep '^import Py65' "$f" | sed 's/import //')
[ -n "$mods" ] && lake build $mods 2>&1 | grep -E "^✖|error" | head -20
lake env lean "$f" 2>&1 | grep -v "linter\|^$\|Used .tac1\|does nothing\|never executed\|^Note:\|^Hint:\|\[apply\]\|declaration uses .sorry" | head -${2:-40}
