"""Replays of the assembler (C07) and monitor-address-width (C16) defects: run with PYTHONPATH=<repo>.
Prints, for each input, what the code does; `expected` is what the property demands."""
import io, json, sys
from py65.assembler import Assembler
from py65.devices.mpu6502 import MPU
from py65.devices.mpu65org16 import MPU as MPU16
from py65.monitor import Monitor

def asm(stmt, pc=0, mpu=MPU):
    try:
        return Assembler(mpu()).assemble(stmt, pc)
    except Exception as ex:
        return type(ex).__name__

cases = [
 ('C07', 'BNE $1000 @ pc=0 (target out of branch range)', lambda: asm('BNE $1000', 0), 'OverflowError'),
 ('C07', 'LDA $10 ,X (blank before the comma)', lambda: asm('LDA $10 ,X'), [0xB5, 0x10]),
 ('C07', 'LDA $0010 garbage (trailing text)', lambda: asm('LDA $0010 garbage'), 'SyntaxError'),
 ('C07', 'LDA #$10,X (immediate with index)', lambda: asm('LDA #$10,X'), 'SyntaxError'),
 ('C07', 'LDA ($10), Y (blank after the comma)', lambda: asm('LDA ($10), Y'), [0xB1, 0x10]),
 ('C07', '??? (placeholder of undeclared opcodes)', lambda: asm('???'), 'SyntaxError'),
]
def mon16():
    out = io.StringIO()
    m = Monitor(argv=['py65mon', '-m', '65Org16'], stdin=io.StringIO(''), stdout=out)
    m.onecmd('fill 10000:10003 aaaa')
    return [m._mpu.memory[0x10000 + i] for i in range(4)]
cases.append(('C16', '65Org16: fill 10000:10003 aaaa', mon16, [0xaaaa] * 4))
res = []
for pid, what, f, exp in cases:
    got = f()
    res.append(dict(property=pid, input=what, got=got, expected=exp, ok=(got == exp)))
    print(pid, what, '->', got, '| expected', exp, '| OK' if got == exp else '| VIOLATION')
json.dump(res, open(sys.argv[1], 'w'), indent=1) if len(sys.argv) > 1 else None
